#!/venv/bin/python
"""Verify a seeded change and run our checks against it.
usage: tools/seedcheck.py SEED_ID WORKTREE OUT_DIR CHECK [CHECK...] [--no-baseline]
 SEED_ID  e.g. C02-a ; WORKTREE = tree with the change applied ; OUT_DIR holds patch.diff demo.py notes.md
Confirms: demo passes on /repo and fails on WORKTREE; pinned suite has no regression on WORKTREE; then runs
`VERIF_REPO=WORKTREE ./check C --tier quick` for each CHECK and records everything in /verif/seeded/SEED_ID/."""
import json, os, shutil, subprocess, sys, time
args = [a for a in sys.argv[1:] if not a.startswith('--')]
sid, wt, out, checks = args[0], args[1], args[2], args[3:]
V = '/verif'
dst = f'{V}/seeded/{sid}'
os.makedirs(dst, exist_ok=True)
def run(cmd, **kw):
    p = subprocess.run(cmd, capture_output=True, text=True, **kw)
    return p.returncode, (p.stdout + p.stderr)
# the patch comes from the seeding worktree; it is re-applied to a FRESH worktree of /repo's current HEAD
# (fixes committed to /repo since the seed was made must be in the tree the checks run against)
rc, diff = run(['git', '-C', wt, 'diff']) if os.path.isdir(wt) else (1, '')
if (rc != 0 or not diff.startswith('diff --git')) and os.path.exists(f'{dst}/patch.diff'):
    diff = open(f'{dst}/patch.diff').read()          # the seeding worktree is gone: the stored patch is the seed
open(f'{dst}/patch.diff', 'w').write(diff)
fresh = f'/tmp/seedrun_{sid}'
run(['git', '-C', '/repo', 'worktree', 'remove', '--force', fresh])
run(['git', '-C', '/repo', 'worktree', 'add', '--detach', fresh, 'HEAD'])
rc, o = run(['git', '-C', fresh, 'apply', f'{dst}/patch.diff'])
if rc != 0:
    rc, o = run(['git', '-C', fresh, 'apply', '--3way', f'{dst}/patch.diff'])
print('applied to HEAD:', rc == 0, o[:200])
wt = fresh
for f in ('demo.py', 'notes.md'):
    if os.path.exists(f'{out}/{f}'):
        shutil.copy(f'{out}/{f}', f'{dst}/{f}')
env = lambda tree: dict(os.environ, PYTHONPATH=tree, PYTHONDONTWRITEBYTECODE='1')
rc0, o0 = run(['/venv/bin/python', f'{dst}/demo.py'], env=env('/repo'), cwd='/tmp')
rc1, o1 = run(['/venv/bin/python', f'{dst}/demo.py'], env=env(wt), cwd='/tmp')
meta = {'seed_id': sid, 'repo_head': run(['git', '-C', '/repo', 'log', '--format=%h', '-1'])[1].strip(), 'demo_exit_on_unchanged_repo': rc0, 'demo_exit_with_change': rc1,
        'patch_files': [l[6:] for l in diff.splitlines() if l.startswith('+++ b/')], 'checks': {}}
print(f'demo: unchanged={rc0} changed={rc1}')
if '--no-baseline' not in sys.argv:
    rc, o = run([f'{V}/tools/baseline.py', wt])
    meta['baseline'] = o.strip().splitlines()[:6]
    print('baseline:', meta['baseline'][0] if meta['baseline'] else rc)
for c in checks:
    t = time.time()
    rc, o = run([f'{V}/check', c, '--tier', 'quick'], env=dict(os.environ, VERIF_REPO=wt), cwd=V)
    viol = [l for l in o.splitlines() if l.startswith('VIOLATION')]
    what = [l for l in o.splitlines() if l.startswith(f'[{c}]') and 'prove:' not in l and 'tier=' not in l]
    meta['checks'][c] = {'exit': rc, 'violations': viol[:5], 'first_messages': [w[:400] for w in what[:3]], 'wall_s': round(time.time() - t)}
    print(c, 'exit', rc, viol[:2], (what[:1] or [''])[0][:300])
json.dump(meta, open(f'{dst}/run.json', 'w'), indent=1)
run(['git', '-C', '/repo', 'worktree', 'remove', '--force', fresh])
# restore Extracted tables to /repo's
subprocess.run([f'{V}/check', '--setup'], capture_output=True, cwd=V)
