#!/venv/bin/python
"""Behaviour-preserving rewrites of /repo (seeded/harmless/*.diff, produced by a sub-agent that saw nothing of /verif):
each is applied to a fresh worktree of /repo's HEAD and the check of the property whose anchor file it touches is run
against it. Expected: exit 0. A `no-failing-input-found` report is tolerated by the brief (a proof/correspondence broke
and no failing input exists) but recorded: it shows where the tie is brittle.
usage: tools/harmlesscheck.py [NN ...]"""
import glob, json, os, re, subprocess, sys, time
V = '/verif'
sel = set(sys.argv[1:])
out = {}
for p in sorted(glob.glob(f'{V}/seeded/harmless/*.diff')):
    name = os.path.basename(p)
    nn, pid = name.split('_')[0], name.split('_')[1]
    if sel and nn not in sel:
        continue
    wt = f'/tmp/harmless_{nn}'
    subprocess.run(['git', '-C', '/repo', 'worktree', 'remove', '--force', wt], capture_output=True)
    subprocess.run(['git', '-C', '/repo', 'worktree', 'add', '--detach', wt, 'HEAD'], capture_output=True)
    a = subprocess.run(['git', '-C', wt, 'apply', p], capture_output=True, text=True)
    if a.returncode != 0:
        out[name] = {'applied': False, 'err': a.stderr[:200]}
        subprocess.run(['git', '-C', '/repo', 'worktree', 'remove', '--force', wt], capture_output=True)
        continue
    t = time.time()
    r = subprocess.run([f'{V}/check', pid, '--tier', 'quick'], env=dict(os.environ, VERIF_REPO=wt), cwd=V, capture_output=True, text=True)
    o = r.stdout + r.stderr
    out[name] = {'applied': True, 'check': pid, 'exit': r.returncode, 'violations': [l for l in o.splitlines() if l.startswith('VIOLATION')][:4],
                 'messages': [l[:300] for l in o.splitlines() if l.startswith(f'[{pid}]') and 'prove:' not in l][:3], 'wall_s': round(time.time() - t)}
    print(name, out[name]['exit'], out[name]['violations'][:2], flush=True)
    subprocess.run(['git', '-C', '/repo', 'worktree', 'remove', '--force', wt], capture_output=True)
prev = {}
if os.path.exists(f'{V}/seeded/harmless/run.json'):
    prev = json.load(open(f'{V}/seeded/harmless/run.json'))
prev.update(out)
json.dump(prev, open(f'{V}/seeded/harmless/run.json', 'w'), indent=1)
subprocess.run([f'{V}/check', '--setup'], capture_output=True, cwd=V)
