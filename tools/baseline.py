#!/venv/bin/python
"""Run the pinned suite on a copy of beartype and report stable-pass tests that no longer pass.
usage: tools/baseline.py [REPO_DIR]   (exit 0 = all 422 stable_pass tests passed)"""
import json, os, subprocess, sys, tempfile
import xml.etree.ElementTree as ET
repo = sys.argv[1] if len(sys.argv) > 1 else '/repo'
stable = set(json.load(open('/root/.vp/BASELINE.json'))['stable_pass'])
with tempfile.TemporaryDirectory() as d:
    x = os.path.join(d, 'j.xml')
    env = dict(os.environ, PYTHONDONTWRITEBYTECODE='1', PYTHONPATH=repo)
    subprocess.run(['/venv/bin/python', '-m', 'pytest', '-ra', '-q', '-p', 'no:cacheprovider', '--timeout=900',
                    '--continue-on-collection-errors', f'--junitxml={x}'], cwd=repo, env=env, capture_output=True)
    passed = set()
    for tc in ET.parse(x).getroot().iter('testcase'):
        if not any(ch.tag in ('failure', 'error', 'skipped') for ch in tc):
            passed.add(f"{tc.get('classname')}::{tc.get('name')}")
missing = sorted(stable - passed)
print(f'stable_pass={len(stable)} passed_now={len(stable & passed)} regressions={len(missing)}')
for m in missing[:20]:
    print('  REGRESSION', m)
sys.exit(1 if missing else 0)
