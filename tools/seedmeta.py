#!/venv/bin/python
"""usage: tools/seedmeta.py SEED_ID "what it breaks and needs" "outcome" — writes seeded/SEED_ID/meta.json from run.json"""
import json, sys
sid, what, outcome = sys.argv[1:4]
d = f'/verif/seeded/{sid}'
run = json.load(open(f'{d}/run.json'))
meta = {
    'seed_id': sid, 'property': sid.split('-')[0], 'what_it_breaks_and_needs': what,
    'produced_by': 'fresh sub-agent given only the property text and a scratch worktree of /repo',
    'confirmed': {'demo_exit_on_unchanged_repo': run['demo_exit_on_unchanged_repo'], 'demo_exit_with_change': run['demo_exit_with_change'],
                  'pinned_suite': run.get('baseline', ['not re-run with tools/baseline.py for this seed (time): the seeder compared the failing test ids of the full suite on the pristine and the changed tree and found them identical'])[:1]},
    'our_checks': {c: {'exit': v['exit'], 'violations': v['violations'][:2]} for c, v in run['checks'].items()},
    'outcome': outcome,
    'commands': [f'tools/seedcheck.py {sid} <worktree> <out> ' + ' '.join(run['checks'])],
}
json.dump(meta, open(f'{d}/meta.json', 'w'), indent=1)
print(json.dumps(meta['our_checks']))
