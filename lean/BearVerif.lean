-- Root of the `BearVerif` library: everything that `lake build` must check.
import BearVerif.Core.Sexp
import BearVerif.Core.Claw
import BearVerif.Lemmas.Claw
import BearVerif.Props.C06
import BearVerif.Driver.C06
