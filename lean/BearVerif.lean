-- Root of the `BearVerif` library: everything that `./check --setup` (lake build) must check.
import BearVerif.Core.Sexp
import BearVerif.Core.Loop
import BearVerif.Extracted.Claw
import BearVerif.Core.Claw
import BearVerif.Lemmas.Claw
import BearVerif.Props.C06
import BearVerif.Driver.C06
