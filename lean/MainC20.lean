import BearVerif.Core.Loop
import BearVerif.Driver.C20
/-! C20 driver: `lake env lean --run MainC20.lean`; requests `(c20 run WORLD TAB (CASE…))`, `(c20 wf WORLD TAB)`, `(c20 fsm (METHODS…))`. -/
open BearVerif
def main : IO Unit := runLoop fun
  | .list (.atom "c20" :: args) => Infer.handle args
  | _ => none
