/- GENERATED on every run by harness/extract/claw.py from
   beartype/_data/shame/module/datashamemod.py and beartype/claw/_clawstate.py. Do not edit. -/
namespace BearVerif.Extracted

def clawBuiltinBlacklist : List String := ["_colorize", "beartype", "pydantic", "urllib3", "xarray"]

end BearVerif.Extracted
