import BearVerif.Core.Gen
/- GENERATED on every run by harness/extract/gen.py from
   beartype/_check/cls/call/calldatadecorfunc.py (deinit, reinit), beartype/_util/func/utilfunctest.py and the
   snippet constants of beartype/_data/check/code/{func/datacodefuncwrap,pep/datacodepep342,pep/datacodepep525}.py.
   Do not edit. -/
namespace BearVerif.Extracted
open BearVerif.Gen

/-- `deinit`: defaults of the four wrapper-code attributes, in program order -/
def genReinitDefaults : List (String × String) := [("func_wrapper_code_return_checked", "CODE_NORMAL_RETURN_CHECKED"), ("func_wrapper_code_return_unchecked", "CODE_NORMAL_RETURN_UNCHECKED_SYNC"), ("func_wrapper_code_call_prefix", ""), ("func_wrapper_code_signature_prefix", "")]

/-- `reinit`, `if func_wrappee_codeobj:` block, flattened: guards, attribute, value — in program order -/
def genReinitProg : List GAssign := [
  ⟨[("is_func_coro", true)], "func_wrapper_code_signature_prefix", "async "⟩,
  ⟨[("is_func_coro", true)], "func_wrapper_code_call_prefix", "await "⟩,
  ⟨[("is_func_coro", true)], "func_wrapper_code_return_unchecked", "CODE_NORMAL_RETURN_UNCHECKED_ASYNC"⟩,
  ⟨[("is_func_sync_generator", true)], "func_wrapper_code_return_checked", "CODE_PEP342_RETURN_CHECKED"⟩,
  ⟨[("is_func_sync_generator", true)], "func_wrapper_code_return_unchecked", "CODE_PEP342_RETURN_UNCHECKED"⟩,
  ⟨[("is_func_sync_generator", false), ("is_func_async_generator", true)], "func_wrapper_code_signature_prefix", "async "⟩,
  ⟨[("is_func_sync_generator", false), ("is_func_async_generator", true)], "func_wrapper_code_return_checked", "CODE_PEP525_RETURN_CHECKED"⟩,
  ⟨[("is_func_sync_generator", false), ("is_func_async_generator", true)], "func_wrapper_code_return_unchecked", "CODE_PEP525_RETURN_UNCHECKED"⟩
]

/-- which CO_* flags each tester reads -/
def genFlagTests : List (String × String) := [("is_func_async_generator", "CO_ASYNC_GENERATOR"), ("is_func_coro", "CO_COROUTINE"), ("is_func_sync_generator", "CO_GENERATOR")]

/-- per parsable snippet: has yield, has yield from, has await, awaits the decorated callable, calls it -/
def genSnippetFeats : List (String × Feat) := [
  ("CODE_CALL_CHECKED[]", ⟨false, false, false, false, true⟩),
  ("CODE_CALL_CHECKED[await ]", ⟨false, false, true, true, true⟩),
  ("CODE_NORMAL_RETURN_CHECKED", ⟨false, false, false, false, false⟩),
  ("CODE_NORMAL_RETURN_UNCHECKED_ASYNC", ⟨false, false, true, true, true⟩),
  ("CODE_NORMAL_RETURN_UNCHECKED_SYNC", ⟨false, false, false, false, true⟩),
  ("CODE_PEP342_RETURN_CHECKED", ⟨false, true, false, false, false⟩),
  ("CODE_PEP342_RETURN_UNCHECKED", ⟨false, true, false, false, true⟩),
  ("CODE_PEP525_RETURN_CHECKED", ⟨true, false, true, false, false⟩),
  ("CODE_PEP525_RETURN_UNCHECKED", ⟨true, false, true, false, true⟩)
]

/-- per snippet: comment-free structural dump (CPython `ast.dump`) of its statements -/
def genSnippetDumps : List (String × String) := [
  ("CODE_CALL_CHECKED[]",
   "Assign([Name('__beartype_pith_0', Store())], Call(Name('__beartype_func', Load()), [Starred(Name('args', Load()), Load())], [keyword(value=Name('kwargs', Load()))])); If(Constant(True), [Pass()], [])"),
  ("CODE_CALL_CHECKED[await ]",
   "Assign([Name('__beartype_pith_0', Store())], Await(Call(Name('__beartype_func', Load()), [Starred(Name('args', Load()), Load())], [keyword(value=Name('kwargs', Load()))]))); If(Constant(True), [Pass()], [])"),
  ("CODE_NORMAL_RETURN_CHECKED",
   "Return(Name('__beartype_pith_0', Load()))"),
  ("CODE_NORMAL_RETURN_UNCHECKED_ASYNC",
   "Return(Await(Call(Name('__beartype_func', Load()), [Starred(Name('args', Load()), Load())], [keyword(value=Name('kwargs', Load()))])))"),
  ("CODE_NORMAL_RETURN_UNCHECKED_SYNC",
   "Return(Call(Name('__beartype_func', Load()), [Starred(Name('args', Load()), Load())], [keyword(value=Name('kwargs', Load()))]))"),
  ("CODE_PEP342_RETURN_CHECKED",
   "Return(YieldFrom(Name('__beartype_pith_0', Load())))"),
  ("CODE_PEP342_RETURN_UNCHECKED",
   "Return(YieldFrom(Call(Name('__beartype_func', Load()), [Starred(Name('args', Load()), Load())], [keyword(value=Name('kwargs', Load()))])))"),
  ("CODE_PEP525_RETURN_CHECKED",
   "Try([Assign([Name('$0', Store())], Await(Call(Name('anext', Load()), [Name('__beartype_pith_0', Load())], [])))], [ExceptHandler(Name('StopAsyncIteration', Load()), body=[Return()])], [While(Constant(True), [Try([Assign([Name('$3', Store())], Yield(Name('$0', Load())))], [ExceptHandler(Name('GeneratorExit', Load()), '$1', [Expr(Await(Call(Attribute(Name('__beartype_pith_0', Load()), 'aclose', Load()), [], []))), Raise()]), ExceptHandler(Name('BaseException', Load()), '$2', [Try([Assign([Name('$0', Store())], Await(Call(Attribute(Name('__beartype_pith_0', Load()), 'athrow', Load()), [Name('$2', Load())], [])))], [ExceptHandler(Name('StopAsyncIteration', Load()), body=[Return()])], [], [])])], [Try([If(Compare(Name('$3', Load()), [Is()], [Constant(None)]), [Assign([Name('$0', Store())], Await(Call(Name('anext', Load()), [Name('__beartype_pith_0', Load())], [])))], [Assign([Name('$0', Store())], Await(Call(Attribute(Name('__beartype_pith_0', Load()), 'asend', Load()), [Name('$3', Load())], [])))])], [ExceptHandler(Name('StopAsyncIteration', Load()), body=[Return()])], [], [])], [])], [])], [])"),
  ("CODE_PEP525_RETURN_UNCHECKED",
   "Assign([Name('__beartype_pith_0', Store())], Call(Name('__beartype_func', Load()), [Starred(Name('args', Load()), Load())], [keyword(value=Name('kwargs', Load()))])); Try([Assign([Name('$0', Store())], Await(Call(Name('anext', Load()), [Name('__beartype_pith_0', Load())], [])))], [ExceptHandler(Name('StopAsyncIteration', Load()), body=[Return()])], [While(Constant(True), [Try([Assign([Name('$3', Store())], Yield(Name('$0', Load())))], [ExceptHandler(Name('GeneratorExit', Load()), '$1', [Expr(Await(Call(Attribute(Name('__beartype_pith_0', Load()), 'aclose', Load()), [], []))), Raise()]), ExceptHandler(Name('BaseException', Load()), '$2', [Try([Assign([Name('$0', Store())], Await(Call(Attribute(Name('__beartype_pith_0', Load()), 'athrow', Load()), [Name('$2', Load())], [])))], [ExceptHandler(Name('StopAsyncIteration', Load()), body=[Return()])], [], [])])], [Try([If(Compare(Name('$3', Load()), [Is()], [Constant(None)]), [Assign([Name('$0', Store())], Await(Call(Name('anext', Load()), [Name('__beartype_pith_0', Load())], [])))], [Assign([Name('$0', Store())], Await(Call(Attribute(Name('__beartype_pith_0', Load()), 'asend', Load()), [Name('$3', Load())], [])))])], [ExceptHandler(Name('StopAsyncIteration', Load()), body=[Return()])], [], [])], [])], [])], [])")
]

end BearVerif.Extracted
