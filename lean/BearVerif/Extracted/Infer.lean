/- GENERATED on every run by harness/extract/infer.py from beartype/bite/collection/infercollectionsabc.py
   (get_finite_state_machine), infercollectionbuiltin.py (_COLLECTION_BUILTIN_TYPE_TO_HINT_FACTORY),
   infercollectionitems.py (_ROOT_TUPLE_FIXED_ITEMS_LEN_MAX), _data/py/databuiltins.py (BUILTIN_TYPES_SCALAR).
   Do not edit. -/
import BearVerif.Core.Infer
namespace BearVerif.Extracted
open BearVerif.Infer

/-- the collections.abc finite state machine (transition order = dict order of the source) -/
def inferFsm : FsmNode :=
  .mk none [
    (["__contains__"], .mk (some "collections.abc.Container") [
        (["__iter__", "__len__"], .mk (some "collections.abc.Collection") [
            (["__getitem__", "__reversed__", "count", "index"], .mk (some "collections.abc.Sequence") [
                (["__delitem__", "__iadd__", "__setitem__", "append", "clear", "extend", "insert", "pop", "remove", "reverse"], .mk (some "collections.abc.MutableSequence") [])]),
            (["__eq__", "__getitem__", "__ne__", "get", "items", "keys", "values"], .mk (some "collections.abc.Mapping") [
                (["__delitem__", "__setitem__", "clear", "pop", "popitem", "setdefault", "update"], .mk (some "collections.abc.MutableMapping") [])]),
            (["__and__", "__eq__", "__ge__", "__gt__", "__le__", "__lt__", "__ne__", "__or__", "__sub__", "__xor__", "isdisjoint"], .mk (some "collections.abc.Set") [
                (["__iand__", "__ior__", "__isub__", "__ixor__", "clear", "pop", "remove"], .mk (some "collections.abc.MutableSet") [])])])]),
    (["__iter__"], .mk (some "collections.abc.Iterable") [
        (["__next__"], .mk (some "collections.abc.Iterator") [
            (["close", "send", "throw"], .mk (some "collections.abc.Generator") [])]),
        (["__reversed__"], .mk (some "collections.abc.Reversible") [])]),
    (["__await__"], .mk (some "collections.abc.Awaitable") [
        (["close", "send", "throw"], .mk (some "collections.abc.Coroutine") [])]),
    (["__aiter__"], .mk (some "collections.abc.AsyncIterable") [
        (["__anext__"], .mk (some "collections.abc.AsyncIterator") [
            (["aclose", "asend", "athrow"], .mk (some "collections.abc.AsyncGenerator") [])])]),
    (["__len__"], .mk (some "collections.abc.Sized") []),
    (["__buffer__"], .mk (some "collections.abc.Buffer") [])]

/-- builtin collection type -> hint factory -/
def inferBuiltinTable : List (String × String) := [
  ("builtins.tuple", "builtins.tuple"),
  ("builtins.list", "builtins.list"),
  ("builtins.frozenset", "builtins.frozenset"),
  ("builtins.set", "builtins.set"),
  ("collections.deque", "collections.deque"),
  ("builtins.dict_keys", "collections.abc.KeysView"),
  ("builtins.dict_values", "collections.abc.ValuesView"),
  ("builtins.dict", "builtins.dict"),
  ("collections.ChainMap", "collections.ChainMap"),
  ("collections.Counter", "collections.Counter")]

def inferScalars : List String := ["builtins.bytes", "builtins.complex", "builtins.float", "builtins.int", "builtins.str"]

def inferRootTupleMax : Nat := 10

/-- identity of these tables (reported back by the driver: guards against stale build artifacts) -/
def inferFingerprint : String := "6c2d7cac7f8f6ae2"

end BearVerif.Extracted
