/- GENERATED on every run by harness/extract/memo.py from the AST of beartype/**/*.py. Do not edit.
   Disciplines: "eq" Python ==/hash; "id-raw" bare id() of objects that may die; "id-pinned" id() with the
   keyed objects kept alive by the entry; "repr-raw" repr() with hits returned unvalidated; "repr-checked"
   repr() with a hit validated by ==; "attr" stored on the object; "name" keyed by module/class names on
   purpose; "fwdref" forward-reference referents; "unknown" not classifiable. -/
namespace BearVerif.Extracted

/-- memoising decorators and the key discipline their wrapper implements -/
def memoDecorators : List (String × String) := [
  ("callable_cached", "eq"),
  ("callable_cached_minimal", "eq"),
  ("method_cached_arg_by_id", "id-pinned"),
  ("property_cached", "attr")]

/-- functions decorated with a memoising decorator -/
def memoSites : List (String × String) := [
  ("beartype._check.checkmake.make_code_raiser_func_pep484_noreturn_check", "callable_cached"),
  ("beartype._check.convert._reduce._nonpep.api.redapinumpy.reduce_hint_numpy_ndarray", "callable_cached"),
  ("beartype._check.convert._reduce._nonpep.api.redapipandera.reduce_hint_pandera", "callable_cached"),
  ("beartype._check.forward.reference._cls.fwdreffake.__repr__", "callable_cached"),
  ("beartype._check.forward.reference._cls.fwdreffake._is_fake_proxy_superclass", "callable_cached"),
  ("beartype._check.forward.reference._cls.fwdrefmeta.__repr__", "callable_cached"),
  ("beartype._check.forward.reference.fwdrefproxy.proxy_hint_pep484_ref_str_fake", "callable_cached"),
  ("beartype._check.pep.pep484585.checkpep484585generic.get_hint_pep484585_generic_unsubbed_bases_unerased", "callable_cached"),
  ("beartype._conf._confoverrides._hint_overrides_pep484_tower", "callable_cached"),
  ("beartype._conf.confcommon.get_beartype_conf_strategy_on", "callable_cached"),
  ("beartype._util.api.external.utilnumpy.get_numpy_dtype_name_sanitized_to_type_reduced", "callable_cached"),
  ("beartype._util.api.external.utilnumpy.get_numpy_dtype_type_abcs", "callable_cached"),
  ("beartype._util.api.standard.utiltyping.get_typing_attrs", "callable_cached"),
  ("beartype._util.api.standard.utiltyping.import_typing_attr_or_fallback", "callable_cached"),
  ("beartype._util.bear.utilbearblack.is_object_blacklisted", "callable_cached"),
  ("beartype._util.cache.utilcachemeta.__call__", "callable_cached"),
  ("beartype._util.cls.pep.clspep3119.is_object_isinstanceable", "callable_cached"),
  ("beartype._util.cls.pep.clspep3119.is_object_issubclassable", "callable_cached"),
  ("beartype._util.cls.pep.clspep3119.is_type_isinstanceable", "callable_cached"),
  ("beartype._util.cls.pep.clspep3119.is_type_issubclassable", "callable_cached"),
  ("beartype._util.cls.pep.clspep557.is_pep557_dataclass_frozen", "callable_cached"),
  ("beartype._util.cls.pep.clspep557.is_type_pep557_dataclass", "callable_cached"),
  ("beartype._util.func.pep.utilfuncpep702.get_pep702_deprecated_decorator_or_none", "callable_cached"),
  ("beartype._util.func.utilfunctest.is_func_local", "callable_cached"),
  ("beartype._util.func.utilfunctest.is_func_nested", "callable_cached"),
  ("beartype._util.hint.nonpep.utilnonpeptest._is_hint_nonpep_tuple", "callable_cached"),
  ("beartype._util.hint.pep.proposal.pep484.pep484604union.make_hint_pep484604_union", "callable_cached"),
  ("beartype._util.hint.pep.proposal.pep484.pep484generic.get_hint_pep484_generic_bases_unerased", "callable_cached"),
  ("beartype._util.hint.pep.proposal.pep484.pep484newtype.get_hint_pep484_newtype_alias", "callable_cached"),
  ("beartype._util.hint.pep.proposal.pep484.pep484union.make_hint_pep484_union", "callable_cached"),
  ("beartype._util.hint.pep.proposal.pep484585.generic.pep484585genfind.find_hint_pep484585_generic_args_full", "callable_cached"),
  ("beartype._util.hint.pep.proposal.pep484585.generic.pep484585gentest._is_hint_pep484585_generic_blacklisted", "callable_cached"),
  ("beartype._util.hint.pep.proposal.pep484585.generic.pep484585gentest.is_hint_pep484585_generic", "callable_cached"),
  ("beartype._util.hint.pep.proposal.pep484585.generic.pep484585gentest.is_hint_pep484585_generic_invalid", "callable_cached"),
  ("beartype._util.hint.pep.proposal.pep585.get_hint_pep585_generic_typeargs_packed", "callable_cached"),
  ("beartype._util.hint.pep.proposal.pep585.is_hint_pep585_generic_unsubbed", "callable_cached"),
  ("beartype._util.hint.pep.utilpepget.get_hint_pep_typeargs_unpacked", "callable_cached"),
  ("beartype._util.hint.pep.utilpepsign.get_hint_pep_sign_ambiguous_or_none", "callable_cached"),
  ("beartype._util.hint.pep.utilpepsign.get_hint_pep_sign_or_none", "callable_cached"),
  ("beartype._util.hint.pep.utilpeptest.is_hint_pep_supported", "callable_cached"),
  ("beartype._util.hint.utilhintfactory.__call__", "callable_cached"),
  ("beartype._util.hint.utilhintget.get_hint_repr", "callable_cached"),
  ("beartype._util.hint.utilhinttest.is_hint", "callable_cached"),
  ("beartype._util.os.utilostest.is_os_linux", "callable_cached"),
  ("beartype._util.os.utilostest.is_os_macos", "callable_cached"),
  ("beartype._util.os.utilostest.is_os_windows_vanilla", "callable_cached"),
  ("beartype._util.py.utilpyinterpreter.get_interpreter_command_words", "callable_cached"),
  ("beartype._util.py.utilpyinterpreter.get_interpreter_filename", "callable_cached"),
  ("beartype._util.py.utilpyinterpreter.is_python_pypy", "callable_cached"),
  ("beartype.bite.collection.infercollectionbuiltin._infer_hint_factory_collection_builtin", "callable_cached"),
  ("beartype.bite.collection.infercollectionsabc._infer_hint_factory_collections_abc", "callable_cached"),
  ("beartype.bite.collection.infercollectionsabc.get_finite_state_machine", "callable_cached"),
  ("beartype.bite.kind.infercallable.infer_hint_callable", "callable_cached"),
  ("beartype.claw._ast.clawastmain._module_basenames", "property_cached"),
  ("beartype.door._cls.doorsuper.__eq__", "method_cached_arg_by_id"),
  ("beartype.door._cls.doorsuper._args_wrapped_frozenset", "property_cached"),
  ("beartype.door._cls.doorsuper._args_wrapped_tuple", "property_cached"),
  ("beartype.door._cls.doorsuper._branches", "property_cached"),
  ("beartype.door._cls.doorsuper._is_args_ignorable", "property_cached"),
  ("beartype.door._cls.doorsuper.is_ignorable", "property_cached"),
  ("beartype.door._cls.doorsuper.is_subhint", "method_cached_arg_by_id"),
  ("beartype.door._cls.pep.pep484.doorpep484typevar._args_wrapped_tuple", "property_cached"),
  ("beartype.door._cls.pep.pep484585.doorpep484585callable.param_hints", "property_cached"),
  ("beartype.plug._plughintable.is_hint_beartypehintable", "callable_cached"),
  ("beartype.plug._plughintable.transform_hint_beartypehintable", "callable_cached"),
  ("beartype.typing._typingpep544.__class_getitem__", "callable_cached_minimal"),
  ("beartype.vale._is._valeisobj.__getitem__", "callable_cached"),
  ("beartype.vale._is._valeisoper.__getitem__", "callable_cached"),
  ("beartype.vale._is._valeistype.__getitem__", "callable_cached")]

/-- module-level dictionary caches mutated at run time -/
def memoTables : List (String × String) := [
  ("beartype._check.cls.hint.hintsane._HINT_TO_HINTSANE", "eq"),
  ("beartype._check.cls.logic.logmap.HINT_SIGN_PEP484585_CONTAINER_TO_LOGIC", "eq"),
  ("beartype._check.code.codemain._HINT_CONF_TO_CHECK_EXPR", "eq"),
  ("beartype._check.code.codescope._tuple_union_to_tuple_union", "eq"),
  ("beartype._check.convert._convcoerce._hint_repr_to_hint", "repr-checked"),
  ("beartype._check.error._errmap.HINT_SIGN_TO_GET_CAUSE_FUNC", "eq"),
  ("beartype._check.forward.reference._cls.fwdrefmeta._ref_proxy_to_resolved_hint", "fwdref"),
  ("beartype._check.forward.reference._cls.fwdrefmeta._ref_proxy_to_resolved_type", "fwdref"),
  ("beartype._conf.confmain._beartype_conf_args_to_conf", "eq"),
  ("beartype._decor._type.decortype._BEARTYPED_MODULE_TO_TYPE_NAME", "name"),
  ("beartype._decor.decorcache._bear_conf_to_decor", "eq"),
  ("beartype._util.cache.utilcacheobjattr._MODULE_NAME_TO_ATTR_NAME_TO_VALUE", "name"),
  ("beartype.claw._clawstate._PACKAGE_NAME_TO_TRIE_BLACKLISTED", "name"),
  ("beartype.door._cls.doormeta._HINT_TO_WRAPPER", "eq"),
  ("beartype.door._func.doorfunc._HINT_CONF_EXCEPTION_PREFIX_TO_FUNC_RAISER", "eq"),
  ("beartype.door._func.doorfunc._HINT_CONF_EXCEPTION_PREFIX_TO_FUNC_TESTER", "eq")]

def memoReprChecked : Bool := true
def memoIdPinned : Bool := true

/-- how sanify_hint_child combines HintTreeCode.is_check_expr_cacheable with a child's flag: "and" | "last" | "unknown" -/
def memoTreeFlag : String := "and"
/-- every store into _HINT_CONF_TO_CHECK_EXPR / the checker tables is guarded by an `if` on that flag -/
def memoCtxStoresGuarded : Bool := true

end BearVerif.Extracted
