/- GENERATED on every run by harness/extract/conc.py from the source (AST) of
   beartype/_conf/confmain.py,
   beartype/_decor/decorcache.py,
   beartype/_util/cache/map/utilmapunbounded.py,
   beartype/_util/cache/pool/utilcachepool.py,
   beartype/_util/cache/utilcachecall.py,
   beartype/claw/_package/clawpkgcontext.py,
   beartype/claw/_package/clawpkgmain.py,
   beartype/claw/_package/clawpkgtrie.py
   (callees inlined). Do not edit. -/
import BearVerif.Core.Conc
namespace BearVerif.Extracted
open BearVerif.Conc

/-- lock name ↦ reentrant (`RLock`) as constructed in the source -/
def concLocks : List (LockId × Bool) := [("CacheUnboundedStrong._lock", false), ("KeyPool._thread_lock", false), ("_beartype_conf_lock", false), ("claw_lock", true), ("object_attr_cache_lock", true)]

/-- module-level lock objects: (instance, lock name used in the skeletons, reentrant) -/
def concLockInstances : List (String × LockId × Bool) := [("_convcoerce._hint_repr_to_hint._lock", "CacheUnboundedStrong._lock", false), ("confmain._beartype_conf_lock", "_beartype_conf_lock", false), ("utilcachepoolinstance._instance_pool._thread_lock", "KeyPool._thread_lock", false), ("utilcachepoollistfixed._fixed_list_pool._thread_lock", "KeyPool._thread_lock", false), ("utilcacheobjattr.object_attr_cache_lock", "object_attr_cache_lock", true), ("_clawstate.claw_lock", "claw_lock", true), ("doormeta._HINT_TO_WRAPPER._lock", "CacheUnboundedStrong._lock", true)]

/-- skeletons of the lock-protected regions (one per public operation / singleton method) -/
def concProgs : List Prog := [
  { name := "KeyPool.acquire", acts := [.acq "KeyPool._thread_lock", .rd "KeyPool._key_to_pool", .wr "KeyPool._key_to_pool", .call "self._pool_item_maker", .wr "KeyPool._pool_item_id_to_is_acquired", .rel "KeyPool._thread_lock"] },
  { name := "KeyPool.release", acts := [.acq "KeyPool._thread_lock", .rd "KeyPool._pool_item_id_to_is_acquired", .wr "KeyPool._pool_item_id_to_is_acquired", .wr "KeyPool._key_to_pool", .rel "KeyPool._thread_lock"] },
  { name := "CacheUnboundedStrong.cache_or_get_cached_value", acts := [.acq "CacheUnboundedStrong._lock", .rd "CacheUnboundedStrong._key_to_value", .wr "CacheUnboundedStrong._key_to_value", .rel "CacheUnboundedStrong._lock"] },
  { name := "CacheUnboundedStrong.cache_or_get_cached_func_return_passed_arg", acts := [.acq "CacheUnboundedStrong._lock", .rd "CacheUnboundedStrong._key_to_value", .call "value_factory", .wr "CacheUnboundedStrong._key_to_value", .rel "CacheUnboundedStrong._lock"] },
  { name := "CacheUnboundedStrong.clear", acts := [.acq "CacheUnboundedStrong._lock", .wr "CacheUnboundedStrong._key_to_value", .rel "CacheUnboundedStrong._lock"] },
  { name := "BeartypeConf.__new__", acts := [.acq "_beartype_conf_lock", .rd "_beartype_conf_args_to_conf", .wr "_beartype_conf_args_to_conf", .rel "_beartype_conf_lock"] },
  { name := "hook_packages", acts := [.acq "claw_lock", .rd "claw_state.packages_trie_whitelist", .wr "claw_state.packages_trie_whitelist", .rd "claw_state.packages_trie_whitelist", .wr "claw_state.packages_trie_whitelist", .rd "claw_state.packages_trie_whitelist", .wr "claw_state.packages_trie_whitelist", .rd "claw_state.packages_trie_blacklist", .wr "claw_state.packages_trie_blacklist", .rd "claw_state.packages_trie_blacklist", .wr "claw_state.packages_trie_blacklist", .rd "claw_state.packages_trie_whitelist", .wr "claw_state.packages_trie_whitelist", .rd "claw_state.packages_trie_whitelist", .wr "claw_state.packages_trie_whitelist", .rd "claw_state.packages_trie_whitelist", .wr "claw_state.packages_trie_whitelist", .rd "claw_state.beartype_path_hook", .rd "sys.path_hooks", .call "exception_cls", .call "exception_cls", .rd "sys.path_hooks", .call "exception_cls", .call "exception_cls", .wr "sys.path_hooks", .wr "claw_state.beartype_path_hook", .wr "sys.path_importer_cache", .rel "claw_lock"] },
  { name := "get_package_conf_or_none", acts := [.acq "claw_lock", .rd "claw_state.packages_trie_blacklist", .rd "claw_state.packages_trie_whitelist", .rel "claw_lock"] },
  { name := "beartyping.enter", acts := [.acq "claw_lock", .rd "claw_state.packages_trie_whitelist", .wr "claw_state.packages_trie_whitelist", .call "exception_cls", .call "exception_cls", .acq "claw_lock", .rd "claw_state.packages_trie_whitelist", .wr "claw_state.packages_trie_whitelist", .rd "claw_state.packages_trie_whitelist", .wr "claw_state.packages_trie_whitelist", .rd "claw_state.packages_trie_whitelist", .wr "claw_state.packages_trie_whitelist", .rd "claw_state.packages_trie_blacklist", .wr "claw_state.packages_trie_blacklist", .rd "claw_state.packages_trie_blacklist", .wr "claw_state.packages_trie_blacklist", .rd "claw_state.packages_trie_whitelist", .wr "claw_state.packages_trie_whitelist", .rd "claw_state.packages_trie_whitelist", .wr "claw_state.packages_trie_whitelist", .rd "claw_state.packages_trie_whitelist", .wr "claw_state.packages_trie_whitelist", .rd "claw_state.beartype_path_hook", .rd "sys.path_hooks", .wr "sys.path_hooks", .wr "claw_state.beartype_path_hook", .wr "sys.path_importer_cache", .rel "claw_lock", .rel "claw_lock"] },
  { name := "beartyping.exit", acts := [.acq "claw_lock", .rd "claw_state.packages_trie_whitelist", .wr "claw_state.packages_trie_whitelist", .rd "claw_state.packages_trie_whitelist", .rd "claw_state.beartype_path_hook", .wr "sys.path_hooks", .wr "claw_state.beartype_path_hook", .wr "sys.path_importer_cache", .rel "claw_lock"] }
]

/-- skeletons of the deliberately lock-free memo sites -/
def concMemoProgs : List Prog := [
  { name := "callable_cached", acts := [.rd "callable_cached.args_flat_to_exception", .rd "callable_cached.args_flat_to_return_value", .wr "callable_cached.args_flat_to_return_value", .wr "callable_cached.args_flat_to_exception"] },
  { name := "method_cached_arg_by_id", acts := [.rd "method_cached_arg_by_id.args_flat_to_exception", .rd "method_cached_arg_by_id.args_flat_to_return_value", .wr "method_cached_arg_by_id.args_flat_to_args", .wr "method_cached_arg_by_id.args_flat_to_return_value", .wr "method_cached_arg_by_id.args_flat_to_exception"] },
  { name := "beartype_conf_decorator", acts := [.rd "_bear_conf_to_decor", .wr "_bear_conf_to_decor"] }
]

end BearVerif.Extracted
