import BearVerif.Core.Conf
/- GENERATED on every run by harness/extract/conf.py from beartype/_conf/confmain.py (BeartypeConf.__new__),
   beartype/_conf/conftest.py (die_if_conf_kwargs_invalid, default_conf_kwargs), ARG_VALUE_UNPASSED and
   SHELL_VAR_CONF_IS_COLOR_VALUE_TO_OBJ. Do not edit. -/
namespace BearVerif.Extracted
open BearVerif.Conf

/-- enumeration classes behind `Kind.enum i` / `Val.enum i _` / `Val.intEnum i _` -/
def confEnumClasses : List String := ["BeartypeDecorPlace", "BeartypeStrategy", "BeartypeViolationVerbosity"]

/-- does `die_if_conf_kwargs_invalid` end with the generic hashability test? -/
def confHashCheck : Bool := true

def confTable : Table where
  opts := [
    ⟨"claw_decor_place_func", .enum 0, .enum 0 2⟩,
    ⟨"claw_decor_place_type", .enum 0, .enum 0 1⟩,
    ⟨"claw_is_pep526", .bool, .bool true⟩,
    ⟨"claw_skip_package_names", .identColl, .coll .tuple []⟩,
    ⟨"hint_overrides", .frozenDict, .fdict .absent .absent 0 true true⟩,
    ⟨"is_color", .tristate, .num .int (3133065982)⟩,
    ⟨"is_debug", .bool, .bool false⟩,
    ⟨"is_pep484_tower", .bool, .bool false⟩,
    ⟨"is_pep557_fields", .bool, .bool false⟩,
    ⟨"is_random", .bool, .bool true⟩,
    ⟨"strategy", .enum 1, .enum 1 1⟩,
    ⟨"violation_door_type", .excType, .none⟩,
    ⟨"violation_param_type", .excType, .none⟩,
    ⟨"violation_return_type", .excType, .none⟩,
    ⟨"violation_type", .optExcType, .none⟩,
    ⟨"violation_verbosity", .enum 2, .intEnum 2 (2)⟩,
    ⟨"warning_cls_on_decorator_exception", .optWarnType, .cls 0 true true⟩]
  aliases := [("claw_decoration_position_funcs", "claw_decor_place_func"), ("claw_decoration_position_types", "claw_decor_place_type"), ("is_check_pep557", "is_pep557_fields")]
  fallbacks := [("violation_door_type", .cls 1 true false), ("violation_param_type", .cls 2 true false), ("violation_return_type", .cls 3 true false)]
  unpassed := .num .int (3133065982)
  colorEnv := [("True", .bool true), ("False", .bool false), ("None", .none)]
  warnDefault := .cls 0 true true

end BearVerif.Extracted
