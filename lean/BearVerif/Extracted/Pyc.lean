/- GENERATED on every run by harness/extract/pyc.py from beartype/_data/claw/dataclawmagic.py (marker literal)
   and by observing, for every combination of the AST-shaping options, which cache file the real
   BeartypeSourceFileLoader.get_code probes for a hooked module. Do not edit. -/
namespace BearVerif.Extracted

/-- OPTIMIZATION_MARKER_BEARTYPE -/
def pycMarkerPrefix : String := "beartype0v23v0"

/-- tag of the cache file of a module no hook applies to -/
def pycUnhookedTag : String := ""

/-- (claw_is_pep526, claw_decor_place_func, claw_decor_place_type, conf != BEARTYPE_CONF_DEFAULT) ↦ observed tag;
    places are the BeartypeDecorPlace member values FIRST=1 LAST=2 LAST_BEFORE_DECOR_HOSTILE=3 -/
def pycHookedTags : List ((Bool × Nat × Nat × Bool) × String) := [
  ((true, 1, 1, true), "beartype0v23v0p1f1t1c1"),
  ((true, 1, 2, true), "beartype0v23v0p1f1t2c1"),
  ((true, 1, 3, true), "beartype0v23v0p1f1t3c1"),
  ((true, 2, 1, true), "beartype0v23v0p1f2t1c1"),
  ((true, 2, 2, true), "beartype0v23v0p1f2t2c1"),
  ((true, 2, 3, true), "beartype0v23v0p1f2t3c1"),
  ((true, 3, 1, true), "beartype0v23v0p1f3t1c1"),
  ((true, 3, 2, true), "beartype0v23v0p1f3t2c1"),
  ((true, 3, 3, true), "beartype0v23v0p1f3t3c1"),
  ((false, 1, 1, true), "beartype0v23v0p0f1t1c1"),
  ((false, 1, 2, true), "beartype0v23v0p0f1t2c1"),
  ((false, 1, 3, true), "beartype0v23v0p0f1t3c1"),
  ((false, 2, 1, true), "beartype0v23v0p0f2t1c1"),
  ((false, 2, 2, true), "beartype0v23v0p0f2t2c1"),
  ((false, 2, 3, true), "beartype0v23v0p0f2t3c1"),
  ((false, 3, 1, true), "beartype0v23v0p0f3t1c1"),
  ((false, 3, 2, true), "beartype0v23v0p0f3t2c1"),
  ((false, 3, 3, true), "beartype0v23v0p0f3t3c1")]

end BearVerif.Extracted
