import BearVerif.Core.Bear
/-
  Bear core, part 2 — the generated-code language (`Expr`), its evaluation
  (`eval`: left to right, short-circuiting, walrus assignments updating the
  environment, a Python exception is `none`) and the code generator (`gen`, level
  L2), which mirrors make_check_expr and its factories INCLUDING the variable
  discipline (`__beartype_pith_{i}`; a child inherits its parent's index; a walrus is
  emitted only when the pith expression is neither an identifier nor already an
  assignment; unions hand the assignment to their first PEP child and the variable
  to the others; mappings take one more variable for the key, quasi-iterables one
  for the item) and validator code (`{obj}_isattr_{name}` temporaries).

  Mirrors: codemain.py, codepep484604union.py, codepep484585container.py,
  codepep484585subclass.py, logcls.py, datacodepep484585.py, datacodepep586.py,
  datacodepep593.py, datacodepep484604.py, codesnipstr.py, vale/_util/_valeutilsnip.py,
  vale/_core/_valecorebinary.py, _valecoreunary.py, vale/_is/*.py.
-/
namespace BearVerif.Bear

/-- `(k, [])` is `__beartype_pith_k`; `(k, [a, b])` is the validator temporary
    `__beartype_pith_k_isattr_a_isattr_b`. -/
abbrev Var := Nat × List String

inductive Expr where
  | var (v : Var)
  | walrus (v : Var) (e : Expr)                  -- `v := e`
  | bind (v : Var) (e : Expr)                    -- `(v := e) is v`          (always True)
  | isinst (e : Expr) (cs : List Nat)            -- `isinstance(e, cs)`
  | issub (e : Expr) (cs : List Nat)             -- `issubclass(e, cs)`
  | len (e : Expr)
  | lenEq (e : Expr) (n : Nat)                   -- `len(e) == n`
  | not (e : Expr)
  | and (a b : Expr)
  | or (a b : Expr)
  | eqAtom (e : Expr) (a : Atom)                 -- `e == literal`
  | idxRand (v : Var)                            -- `v[__beartype_random_int % len(v)]`
  | idxConst (e : Expr) (i : Nat)                -- `e[i]`
  | idxKey (e : Expr) (k : Var)                  -- `e[k]`  (mapping lookup)
  | nextIter (e : Expr)                          -- `next(iter(e))`
  | nextIterValues (e : Expr)                    -- `next(iter(e.values()))`
  | getattrBind (v : Var) (e : Expr) (n : String) -- `(v := getattr(e, n, SENTINEL)) is not SENTINEL`
  | call (f : Nat) (e : Expr)                    -- user callable of an `Is[...]` validator
deriving Repr, Inhabited

inductive Val where
  | obj (o : Obj)
  | bool (b : Bool)
  | nat (n : Nat)
deriving Repr, Inhabited

abbrev Env := Var → Option Obj
def Env.set (env : Env) (v : Var) (o : Obj) : Env := fun u => if u = v then some o else env u

mutual
def Obj.beq : Obj → Obj → Bool
  | .mk c a i v ats, .mk c' a' i' v' ats' => c == c' && a == a' && beqList i i' && beqList v v' && beqAttrs ats ats'
def beqList : List Obj → List Obj → Bool
  | [], [] => true
  | x :: xs, y :: ys => x.beq y && beqList xs ys
  | _, _ => false
def beqAttrs : List (String × Obj) → List (String × Obj) → Bool
  | [], [] => true
  | (n, x) :: xs, (m, y) :: ys => n == m && x.beq y && beqAttrs xs ys
  | _, _ => false
end

/-- `m[key]` for a mapping: the value paired with the first key equal to `key` -/
def Obj.lookup (m key : Obj) : Option Obj :=
  match (m.items.zip m.vals).find? (fun kv => kv.1.beq key) with
  | some kv => some kv.2
  | none => none

variable (W : World) (r : Nat)

/-- Result: value, environment after the walrus assignments, number of container
    ITEMS read (`x[i]`, `next(iter(x))`, `next(iter(x.values()))`, `x[key]`).
    `none` = the expression raises. Applying `len`/indexing/iteration to an object whose
    class lacks the capability raises; iterating an object that is not safely
    re-iterable counts as raising too ("would consume it"), so that "never `none`"
    also means "never advances a one-shot iterable". -/
def eval (env : Env) : Expr → Option (Val × Env × Nat)
  | .var v => (env v).map fun o => (.obj o, env, 0)
  | .walrus v e => match eval env e with
    | some (.obj o, env', n) => some (.obj o, env'.set v o, n)
    | _ => none
  | .bind v e => match eval env e with
    | some (.obj o, env', n) => some (.bool true, env'.set v o, n)
    | _ => none
  | .isinst e cs => match eval env e with
    | some (.obj o, env', n) => some (.bool (cs.any (W.sub o.cls)), env', n)
    | _ => none
  | .issub e cs => match eval env e with
    | some (.obj o, env', n) => (match o.atom with
        | .klass d => some (.bool (cs.any (W.sub d)), env', n)
        | _ => none)
    | _ => none
  | .len e => match eval env e with
    | some (.obj o, env', n) => if W.sized o.cls then some (.nat o.items.length, env', n) else none
    | _ => none
  | .lenEq e k => match eval env e with
    | some (.obj o, env', n) => if W.sized o.cls then some (.bool (o.items.length == k), env', n) else none
    | _ => none
  | .not e => match eval env e with
    | some (.bool b, env', n) => some (.bool (!b), env', n)
    | some (.nat k, env', n) => some (.bool (k == 0), env', n)
    | some (.obj o, env', n) => if W.sized o.cls then some (.bool o.items.isEmpty, env', n) else none
    | none => none
  | .and a b => match eval env a with
    | some (.bool true, env', n) => (match eval env' b with
        | some (v, env'', m) => some (v, env'', n + m)
        | none => none)
    | some (.bool false, env', n) => some (.bool false, env', n)
    | _ => none
  | .or a b => match eval env a with
    | some (.bool true, env', n) => some (.bool true, env', n)
    | some (.bool false, env', n) => (match eval env' b with
        | some (v, env'', m) => some (v, env'', n + m)
        | none => none)
    | _ => none
  | .eqAtom e a => match eval env e with
    | some (.obj o, env', n) => some (.bool (o.atom.pyEq a), env', n)
    | _ => none
  | .idxRand v => match env v with
    | some o => if W.indexable o.cls && W.sized o.cls && !o.items.isEmpty
        then (o.items[r % o.items.length]?).map fun y => (.obj y, env, 1) else none
    | none => none
  | .idxConst e i => match eval env e with
    | some (.obj o, env', n) => if W.indexable o.cls then (o.items[i]?).map fun y => (.obj y, env', n + 1) else none
    | _ => none
  | .idxKey e k => match eval env e with
    | some (.obj o, env', n) => (match env' k with
        | some key => if W.mapping o.cls then (o.lookup key).map fun y => (.obj y, env', n + 1) else none
        | none => none)
    | _ => none
  | .nextIter e => match eval env e with
    | some (.obj o, env', n) => if W.reiter o.cls then o.items.head?.map fun y => (.obj y, env', n + 1) else none
    | _ => none
  | .nextIterValues e => match eval env e with
    | some (.obj o, env', n) => if W.mapping o.cls && W.reiter o.cls then o.vals.head?.map fun y => (.obj y, env', n + 1) else none
    | _ => none
  | .getattrBind v e a => match eval env e with
    | some (.obj o, env', n) => (match o.attr? a with
        | some y => some (.bool true, env'.set v y, n)
        | none => some (.bool false, env', n))       -- v := SENTINEL; never read afterwards
    | _ => none
  | .call f e => match eval env e with
    | some (.obj o, env', n) => some (.bool (W.pred f o), env', n)
    | _ => none

/-- number of item-reading constructs occurring in an expression -/
def Expr.reads : Expr → Nat
  | .var _ => 0
  | .walrus _ e | .bind _ e | .isinst e _ | .issub e _ | .len e | .lenEq e _ | .not e | .eqAtom e _
  | .getattrBind _ e _ | .call _ e => e.reads
  | .and a b | .or a b => a.reads + b.reads
  | .idxRand _ => 1
  | .idxConst e _ | .idxKey e _ | .nextIter e | .nextIterValues e => e.reads + 1

/-! ### validator code -/

def Var.attr (t : Var) (n : String) : Var := (t.1, t.2 ++ [n])

/-- the inline code of a validator with `{obj}` := the identifier `t` -/
def Vale.code : Vale → Var → Expr
  | .isFn f, t => .call f (.var t)
  | .isAttr n v, t => .and (.getattrBind (t.attr n) (.var t) n) (v.code (t.attr n))
  | .isEqual a, t => .eqAtom (.var t) a
  | .isInstance cs, t => .isinst (.var t) cs
  | .isSubclass cs, t => .and (.isinst (.var t) [cType]) (.issub (.var t) cs)
  | .and v w, t => .and (v.code t) (w.code t)
  | .or v w, t => .or (v.code t) (w.code t)
  | .not v, t => .not (v.code t)

def valesCode : List Vale → Var → Expr
  | [], _ => .not (.not (.isinst (.var (0, [])) []))    -- unreachable: Annotated has ≥ 1 validator
  | [v], t => v.code t
  | v :: vs, t => .and (v.code t) (valesCode vs t)

/-! ### the generator -/

/-- how a node reaches its object, relative to the variable index `k` it inherits -/
inductive Pith where
  | var                       -- the identifier `__beartype_pith_k`
  | complex (e : Expr)        -- some other expression without assignment: `x[i]`, `next(iter(x))`, …
  | assign (e : Expr)         -- the assignment expression `__beartype_pith_k := e` handed down by the parent
deriving Repr, Inhabited

def pv (k : Nat) : Var := (k, [])

/-- the pith expression as written (CODE_PEP484_INSTANCE uses it raw) -/
def Pith.raw (p : Pith) (k : Nat) : Expr :=
  match p with
  | .var => .var (pv k)
  | .complex e => e
  | .assign e => .walrus (pv k) e

/-- index of the variable holding the object once the node's first test ran -/
def Pith.idx (p : Pith) (k : Nat) : Nat :=
  match p with
  | .complex _ => k + 1
  | _ => k

/-- `pith_curr_assign_expr` -/
def Pith.asg (p : Pith) (k : Nat) : Expr :=
  match p with
  | .var => .var (pv k)
  | .complex e => .walrus (pv (k + 1)) e
  | .assign e => .walrus (pv k) e

/-- the same assignment, as the pith of a child that inherits `p.idx k` -/
def Pith.down (p : Pith) : Pith :=
  match p with
  | .var => .var
  | .complex e => .assign e
  | .assign e => .assign e

def Hint.cls? : Hint → Option Nat
  | .cls c => some c
  | _ => none

def orList : List Expr → Expr
  | [] => .isinst (.var (pv 0)) []     -- unreachable: unions are nonempty
  | [e] => e
  | e :: es => .or e (orList es)

def andList : List Expr → Expr
  | [] => .not (.isinst (.var (pv 0)) [])
  | [e] => e
  | e :: es => .and e (andList es)

variable (conf : Conf)

/-- item expression of the sequence logic -/
def seqItem (k : Nat) : Expr := if conf.isRandom then .idxRand (pv k) else .idxConst (.var (pv k)) 0

mutual
/-- **L2 — the generated check expression** for hint `h` whose object is reachable
    as `p`, inheriting variable index `k`. -/
def gen : Hint → Pith → Nat → Expr
  | .any, p, k => .isinst (p.raw k) []          -- never generated: ignorable hints are dropped by the parent
  | .cls c, p, k => .isinst (p.raw k) [c]
  | .shallow c, p, k => .isinst (p.raw k) [c]
  | .union hs, p, k =>
    let nonpep := hs.filterMap Hint.cls?
    let pep := hs.filter (fun h => h.cls?.isNone)
    let k' := p.idx k
    let first := if nonpep.isEmpty then [] else [Expr.isinst (if pep.isEmpty then p.raw k else p.asg k) nonpep]
    orList (first ++ genUnion hs (if nonpep.isEmpty then p.down else .var) k')
  | .literal ls, p, k =>
    .and (.isinst (p.asg k) (ls.map (·.1))) (orList (ls.map (fun l => .eqAtom (.var (pv (p.idx k))) l.2)))
  | .tupleFixed hs, p, k =>
    let k' := p.idx k
    if hs.isEmpty then .and (.isinst (p.asg k) [cTuple]) (.not (.len (.var (pv k'))))
    else andList (.isinst (p.asg k) [cTuple] :: .lenEq (.var (pv k')) hs.length :: genTuple hs k' 0)
  | .seq o h, p, k =>
    if h.ignorable then .isinst (p.raw k) [o]
    else
      let k' := p.idx k
      .and (.isinst (p.asg k) [o]) (.or (.not (.len (.var (pv k')))) (gen h (.complex (seqItem conf k')) k'))
  | .reit o h, p, k =>
    if h.ignorable then .isinst (p.raw k) [o]
    else
      let k' := p.idx k
      .and (.isinst (p.asg k) [o]) (.or (.not (.len (.var (pv k')))) (gen h (.complex (.nextIter (.var (pv k')))) k'))
  | .quasi o h, p, k =>
    if h.ignorable then .isinst (p.raw k) [o]
    else
      let k' := p.idx k
      let c := k' + 1
      .and (.isinst (p.asg k) [o])
        (.or (.not (.isinst (.var (pv k')) [cCollection]))
          (.or (.not (.len (.var (pv k'))))
            (.and (.or (.and (.isinst (.var (pv k')) [cSequence]) (.bind (pv c) (seqItem conf k')))
                       (.bind (pv c) (.nextIter (.var (pv k')))))
                  (gen h .var c))))
  | .mapping o kh vh, p, k =>
    let k' := p.idx k
    if kh.ignorable && vh.ignorable then .isinst (p.raw k) [o]
    else if vh.ignorable then
      .and (.isinst (p.asg k) [o]) (.or (.not (.len (.var (pv k')))) (gen kh (.complex (.nextIter (.var (pv k')))) k'))
    else if kh.ignorable then
      .and (.isinst (p.asg k) [o]) (.or (.not (.len (.var (pv k')))) (gen vh (.complex (.nextIterValues (.var (pv k')))) k'))
    else
      let kv := k' + 1
      .and (.isinst (p.asg k) [o])
        (.or (.not (.len (.var (pv k'))))
          (.and (.bind (pv kv) (.nextIter (.var (pv k'))))
            (.and (gen kh .var kv) (gen vh (.complex (.idxKey (.var (pv k')) (pv kv))) kv))))
  | .typeOf cs, p, k => .and (.isinst (p.asg k) [cType]) (.issub (.var (pv (p.idx k))) cs)
  | .generic c bs, p, k => andList (.isinst (p.asg k) [c] :: genBases bs (p.idx k))
  | .annotated h vs, p, k =>
    let k' := p.idx k
    if h.ignorable then
      match p with
      | .var => valesCode vs (pv k)
      | .complex e => .and (.bind (pv k') e) (valesCode vs (pv k'))
      | .assign e => .and (.bind (pv k') e) (valesCode vs (pv k'))
    else .and (gen h p.down k') (valesCode vs (pv k'))
/-- PEP children of a union (non-PEP classes were merged into one isinstance test):
    the first gets `p0`, the others the variable -/
def genUnion : List Hint → Pith → Nat → List Expr
  | [], _, _ => []
  | h :: hs, p0, k => if h.cls?.isSome then genUnion hs p0 k else gen h p0 k :: genUnion hs .var k
/-- unerased pseudo-superclasses of a user generic: each checked on the variable
    (codepep484585generic.py: CODE_PEP484585_GENERIC_PREFIX / _CHILD / _SUFFIX) -/
def genBases : List Hint → Nat → List Expr
  | [], _ => []
  | h :: hs, k => gen h .var k :: genBases hs k
/-- positions of a fixed tuple; ignorable children are dropped -/
def genTuple : List Hint → Nat → Nat → List Expr
  | [], _, _ => []
  | h :: hs, k, i =>
    if h.ignorable then genTuple hs k (i + 1)
    else gen h (.complex (.idxConst (.var (pv k)) i)) k :: genTuple hs k (i + 1)
end

/-- the root expression: the object is `__beartype_pith_0` -/
def genRoot (h : Hint) : Expr := gen conf h .var 0

end BearVerif.Bear
