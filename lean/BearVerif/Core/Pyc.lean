import BearVerif.Extracted.Pyc
/-
  C16 — model of the bytecode cache as seen through beartype's import hook.

  Mirrors:
    beartype/claw/_importlib/_clawimpfileloader.py
        BeartypeSourceFileLoader.get_code      `load` / the five atomic steps of `cstep`
        BeartypeSourceFileLoader.source_to_code `compile`
    beartype/claw/_importlib/clawimpcache.py    cache_from_source_beartype  -> `tagOf`
    beartype/_data/claw/dataclawmagic.py        OPTIMIZATION_MARKER_BEARTYPE -> `Extracted.pycMarkerPrefix`
    importlib._bootstrap_external.SourceLoader.get_code (CPython 3.12; modelled, not verified):
        bytecode path = cache_from_source(source path); reuse the cached code iff the stamp
        (mtime, size) stored in the .pyc equals the stamp of the source, otherwise
        source_to_code and write the .pyc
    beartype/claw/_ast/_kind/clawastassign.py   visit_AnnAssign  (claw_is_pep526, `conf=` keyword)
    beartype/claw/_ast/_kind/clawastimport.py   _decorate_node_beartype (placements, `conf=` keyword)

  What the hook bakes into the code object of a hooked module is the *shape*
  (`Shape`): whether annotated assignments are checked, where `@__beartype__`
  goes in decorator chains of functions / classes, and whether the injected
  calls carry `conf=__claw_state_beartype__.module_name_to_beartype_conf[<name>]`
  (they do iff the configuration differs from BEARTYPE_CONF_DEFAULT). Every
  other option is looked up at run time through that keyword (`Conf.rt`).

  The cache file of module `m` is named by `(m, tag)`; `tag = ""` for the stock
  name, otherwise the `opt-<tag>` part produced by `cache_from_source_beartype`.
  The recipe `tg : Conf → Tag` is a parameter of the model; `extractedTag` is the
  recipe OBSERVED on /repo by harness/extract/pyc.py on every run.

  Abstract specification ("what the property statement says"): `spec` — a module
  imported by a run behaves as the run's configuration for that module applied
  to the current source, i.e. as if there were no cache at all.

  Executable, core Lean only.
-/
namespace BearVerif.Pyc

/-- `BeartypeDecorPlace` -/
inductive Place where
  | first | last | lastBeforeHostile
deriving DecidableEq, Repr, Inhabited

/-- the enum member values of `BeartypeDecorPlace` (keys of the extracted table) -/
def Place.code : Place → Nat
  | .first => 1
  | .last => 2
  | .lastBeforeHostile => 3

/-- What `BeartypeNodeTransformer` bakes into the code object. -/
structure Shape where
  pep526 : Bool        -- `self._conf.claw_is_pep526` (clawastassign.py)
  placeFunc : Place    -- `conf.claw_decor_place_func` (clawastimport.py)
  placeType : Place    -- `conf.claw_decor_place_type`
  confKw : Bool        -- `conf != BEARTYPE_CONF_DEFAULT` : the `conf=` keyword is emitted
deriving DecidableEq, Repr, Inhabited

/-- A `BeartypeConf` as far as C16 can tell configurations apart. `rt` stands for
    every option that is only read at run time through the `conf=` keyword
    (violation types, strategy, warning class, …); `rt = 0` means all of them
    have the value they have in BEARTYPE_CONF_DEFAULT. -/
structure Conf where
  pep526 : Bool
  placeFunc : Place
  placeType : Place
  rt : Nat
deriving DecidableEq, Repr, Inhabited

/-- `conf == BEARTYPE_CONF_DEFAULT` -/
def Conf.isDefault (c : Conf) : Bool :=
  c.pep526 && (c.placeFunc == .lastBeforeHostile) && (c.placeType == .last) && (c.rt == 0)

def shapeOf (c : Conf) : Shape := ⟨c.pep526, c.placeFunc, c.placeType, !c.isDefault⟩

abbrev Mod := String
abbrev Tag := String
abbrev Key := Mod × Tag

/-- the marshalled content of a `.pyc`: compiled from source version `src`,
    untransformed (`none`) or transformed with a shape -/
structure Code where
  src : Nat
  shape : Option Shape
deriving DecidableEq, Repr, Inhabited

/-- a `.pyc` file: header stamp (source mtime+size, abstracted to the version number) + code -/
structure Entry where
  stamp : Nat
  code : Code
deriving DecidableEq, Repr, Inhabited

/-- the cache directory: file name ↦ file -/
abbrev Disk := List (Key × Entry)

def dget : Disk → Key → Option Entry
  | [], _ => none
  | (k', e) :: r, k => if k' = k then some e else dget r k

def derase : Disk → Key → Disk
  | [], _ => []
  | (k', e) :: r, k => if k' = k then derase r k else (k', e) :: derase r k

/-- (over)write one file -/
def dput (d : Disk) (k : Key) (e : Entry) : Disk := (k, e) :: derase d k

/-- `cache_from_source` (unhooked: stock name) / `cache_from_source_beartype` (hooked) -/
def tagOf (tg : Conf → Tag) : Option Conf → Tag
  | none => ""
  | some c => tg c

/-- `source_to_code` of the loader whose `_module_conf` is `h` -/
def compile (h : Option Conf) (v : Nat) : Code := ⟨v, h.map shapeOf⟩

structure Loaded where
  disk : Disk
  code : Code
  reused : Bool

/-- `SourceLoader.get_code` under the (possibly patched) `cache_from_source`. -/
def load (tg : Conf → Tag) (d : Disk) (h : Option Conf) (m : Mod) (v : Nat) : Loaded :=
  match dget d (m, tagOf tg h) with
  | some e =>
    if e.stamp = v then ⟨d, e.code, true⟩
    else ⟨dput d (m, tagOf tg h) ⟨v, compile h v⟩, compile h v, false⟩
  | none => ⟨dput d (m, tagOf tg h) ⟨v, compile h v⟩, compile h v, false⟩

/-- Observable behaviour of an executed module. `rt` = the run-time options its
    injected checks use; `broken` = the code asks `module_name_to_beartype_conf`
    for a module the current run never hooked (raises at import). -/
structure Beh where
  src : Nat
  shape : Option Shape
  rt : Nat
  broken : Bool
deriving DecidableEq, Repr, Inhabited

def rtOf (s : Option Shape) (h : Option Conf) : Nat :=
  match s, h with
  | some s, some c => if s.confKw then c.rt else 0
  | _, _ => 0

def brokenOf (s : Option Shape) (h : Option Conf) : Bool :=
  match s, h with
  | some s, none => s.confKw
  | _, _ => false

/-- executing code object `c` in a run whose configuration for that module is `h` -/
def behave (h : Option Conf) (c : Code) : Beh := ⟨c.src, c.shape, rtOf c.shape h, brokenOf c.shape h⟩

/-- **Specification**: the current configuration applied to the current source. -/
def spec (h : Option Conf) (v : Nat) : Beh :=
  ⟨v, h.map shapeOf, (match h with | some c => c.rt | none => 0), false⟩

/-! ### runs and histories -/

/-- One interpreter run: the hook registrations (as the configuration each module
    gets, `none` = not hooked), the source edits made before it (module ↦ new
    version; any version, also an older one), the modules it imports. -/
structure Run where
  hook : Mod → Option Conf
  edits : List (Mod × Nat)
  imports : List Mod

def applyEdits (src : Mod → Nat) : List (Mod × Nat) → (Mod → Nat)
  | [] => src
  | (m, v) :: r => applyEdits (fun x => if x = m then v else src x) r

/-- what the harness sees of one import -/
structure Obs where
  mod : Mod
  tag : Tag
  reused : Bool
  beh : Beh
deriving DecidableEq, Repr

def runImports (tg : Conf → Tag) (hook : Mod → Option Conf) (src : Mod → Nat) : Disk → List Mod → Disk × List Obs
  | d, [] => (d, [])
  | d, m :: ms =>
    let r := load tg d (hook m) m (src m)
    let rest := runImports tg hook src r.disk ms
    (rest.1, ⟨m, tagOf tg (hook m), r.reused, behave (hook m) r.code⟩ :: rest.2)

structure World where
  disk : Disk
  src : Mod → Nat

/-- empty cache, every module at version 0 -/
def World.init : World := ⟨[], fun _ => 0⟩

structure Rec where
  run : Run
  src : Mod → Nat      -- sources as the run saw them
  obs : List Obs

def runHist (tg : Conf → Tag) : World → List Run → World × List Rec
  | w, [] => (w, [])
  | w, r :: rs =>
    let src' := applyEdits w.src r.edits
    let res := runImports tg r.hook src' w.disk r.imports
    let rest := runHist tg ⟨res.1, src'⟩ rs
    (rest.1, ⟨r, src', res.2⟩ :: rest.2)

/-- **The property (clause "current configuration, current source")** for a history
    started on an empty cache. -/
def CurrentConf (tg : Conf → Tag) (rs : List Run) : Prop :=
  ∀ rc ∈ (runHist tg World.init rs).2, ∀ o ∈ rc.obs, o.beh = spec (rc.run.hook o.mod) (rc.src o.mod)

/-! ### conditions on the marker recipe -/

/-- hooked files never carry the stock name -/
def TagNonempty (tg : Conf → Tag) : Prop := ∀ c, tg c ≠ ""

/-- the marker determines the AST shape -/
def ShapeInjective (tg : Conf → Tag) : Prop := ∀ c₁ c₂, tg c₁ = tg c₂ → shapeOf c₁ = shapeOf c₂

/-! ### the recipes -/

def Shape.all : List Shape :=
  [true, false].flatMap fun p =>
    [Place.first, .last, .lastBeforeHostile].flatMap fun f =>
      [Place.first, .last, .lastBeforeHostile].flatMap fun t =>
        [true, false].map fun k => ⟨p, f, t, k⟩

def Shape.key (s : Shape) : Bool × Nat × Nat × Bool := (s.pep526, s.placeFunc.code, s.placeType.code, s.confKw)

def bitChar (b : Bool) : Char := if b then '1' else '0'

def Place.char : Place → Char
  | .first => '1'
  | .last => '2'
  | .lastBeforeHostile => '3'

def Shape.encodeChars (s : Shape) : List Char :=
  ['p', bitChar s.pep526, 'f', s.placeFunc.char, 't', s.placeType.char, 'c', bitChar s.confKw]

/-- `p<0|1>f<1|2|3>t<1|2|3>c<0|1>`: alphanumeric (as `cache_from_source` requires of `optimization`) and injective -/
def Shape.encode (s : Shape) : String := String.ofList s.encodeChars

/-- The recipe observed on /repo: the `opt-` tag of the cache file actually used for
    a hooked module under each shape; shapes no public configuration reaches (the
    claw API makes every hooked configuration differ from BEARTYPE_CONF_DEFAULT)
    get a distinct placeholder. -/
def extractedShapeTag (s : Shape) : Tag :=
  match Extracted.pycHookedTags.lookup s.key with
  | some t => t
  | none => "unobserved" ++ s.encode

def extractedTag (c : Conf) : Tag := extractedShapeTag (shapeOf c)

/-- the recipe of the unrepaired code: `'beartype' + version`, configuration ignored -/
def legacyTag (_ : Conf) : Tag := Extracted.pycMarkerPrefix

/-- the repaired recipe: marker + injective alphanumeric encoding of the shape options -/
def fixedTag (c : Conf) : Tag := Extracted.pycMarkerPrefix ++ (shapeOf c).encode

def shapeTagNonemptyB (f : Shape → Tag) : Bool := Shape.all.all fun s => f s != ""

def shapeTagInjectiveB (f : Shape → Tag) : Bool :=
  Shape.all.all fun a => Shape.all.all fun b => (f a != f b) || (a == b)

/-! ### concurrent imports within one run

  `get_code` of a hooked module assigns the process-global
  `importlib._bootstrap_external.cache_from_source`, calls `super().get_code`
  (which calls that global to name the cache file, probes the file, compiles and
  writes), and finally assigns the ORIGINAL function back (not the previous
  value). An unhooked `get_code` only calls the global. The global is the shared
  variable `patch` (`none` = original, `some t` = variant appending `t`); each
  import is a thread executing its atomic steps; a schedule is the list of thread
  indices in execution order.
-/

structure Thread where
  mod : Mod
  pc : Nat            -- 0 set patch · 1 name the file · 2 probe · 3 compile+write · 4 restore · 5 done
  path : Tag
  code : Option Code
  reused : Bool
deriving Repr, Inhabited

/-- a hooked import starts by patching; an unhooked one by naming its file -/
def Thread.start (hook : Mod → Option Conf) (m : Mod) : Thread :=
  ⟨m, if (hook m).isSome then 0 else 1, "", none, false⟩

structure CState where
  disk : Disk
  patch : Option Tag
  threads : Nat → Thread

def setThread (ts : Nat → Thread) (i : Nat) (t : Thread) : Nat → Thread :=
  fun j => if j = i then t else ts j

/-- pc after the file has been loaded or written -/
def afterLoad (h : Option Conf) : Nat := if h.isSome then 4 else 5

/-- thread `i` executes its next atomic step -/
def cstep (tg : Conf → Tag) (hook : Mod → Option Conf) (src : Mod → Nat) (s : CState) (i : Nat) : CState :=
  let t := s.threads i
  let h := hook t.mod
  match t.pc with
  | 0 => { s with patch := some (tagOf tg h), threads := setThread s.threads i { t with pc := 1 } }
  | 1 => { s with threads := setThread s.threads i { t with path := s.patch.getD "", pc := 2 } }
  | 2 =>
    match dget s.disk (t.mod, t.path) with
    | some e =>
      if e.stamp = src t.mod then
        { s with threads := setThread s.threads i { t with code := some e.code, reused := true, pc := afterLoad h } }
      else { s with threads := setThread s.threads i { t with pc := 3 } }
    | none => { s with threads := setThread s.threads i { t with pc := 3 } }
  | 3 =>
    { s with disk := dput s.disk (t.mod, t.path) ⟨src t.mod, compile h (src t.mod)⟩,
             threads := setThread s.threads i { t with code := some (compile h (src t.mod)), pc := afterLoad h } }
  | 4 => { s with patch := none, threads := setThread s.threads i { t with pc := 5 } }
  | _ => s

def crun (tg : Conf → Tag) (hook : Mod → Option Conf) (src : Mod → Nat) (s : CState) (sched : List Nat) : CState :=
  sched.foldl (cstep tg hook src) s

/-- thread `i` imports `mods i`; nothing patched yet -/
def CState.init (hook : Mod → Option Conf) (d : Disk) (mods : Nat → Mod) : CState :=
  ⟨d, none, fun i => Thread.start hook (mods i)⟩

/-- the schedule that runs the listed threads one after the other, each to completion -/
def serial : List Nat → List Nat
  | [] => []
  | i :: r => i :: i :: i :: i :: i :: serial r

/-- behaviour of thread `i`'s module, once it is done -/
def threadBeh (hook : Mod → Option Conf) (s : CState) (i : Nat) : Option Beh :=
  (s.threads i).code.map (behave (hook (s.threads i).mod))

/-- **The property for a concurrent run** with `n` importing threads, given a schedule
    that lets every thread finish: every module behaves as specified. -/
def ConcurrentOk (tg : Conf → Tag) (hook : Mod → Option Conf) (src : Mod → Nat) (d : Disk)
    (mods : Nat → Mod) (n : Nat) (sched : List Nat) : Prop :=
  let s := crun tg hook src (CState.init hook d mods) sched
  (∀ i, i < n → (s.threads i).pc = 5) →
  ∀ i, i < n → threadBeh hook s i = some (spec (hook (mods i)) (src (mods i)))

end BearVerif.Pyc
