/-
  C06 — model of the beartype.claw package registry.

  Concrete side mirrors, function for function:
    beartype/claw/_package/clawpkgmain.py   hook_packages, _blacklist_packages,
                                            _whitelist_packages_all/_some
    beartype/claw/_package/clawpkgtrie.py   is_package_blacklisted, iter_packages_trie,
                                            get_package_conf_or_none, is_packages_trie
    beartype/claw/_package/clawpkgcontext.py beartyping()
    beartype/claw/_package/_clawpkgmake.py  make_conf_hookable
    beartype/claw/_importlib/clawimpmain.py add/remove_beartype_path_hook (one Bool)

  The two registries are nested dictionaries keyed by package basename; they are
  modelled as association-list tries. Dictionaries have at most one entry per
  key; `upsert` keeps that (it replaces the first entry or appends a new one)
  and every lookup returns the first entry, so duplicates could not be observed
  even if they arose.

  Executable, core Lean only (no Mathlib): also used by the line-protocol driver.
-/
namespace BearVerif.Claw

abbrev Path := List String

/-- A `BeartypeConf` as far as the registry can tell configurations apart:
    `base` stands for every option other than the two below (equal options ↦
    equal number), `warn` is `warning_cls_on_decorator_exception` (`none` = the
    parameter was not passed; `some 0` = `BeartypeClawDecorWarning`), `skip` is
    `claw_skip_package_names`. `BeartypeConf.__eq__` compares all options, which
    is structural equality here. -/
structure Conf where
  base : Nat
  warn : Option Nat
  skip : List Path
deriving DecidableEq, Repr, Inhabited

/-- `make_conf_hookable`. -/
def Conf.hookify (c : Conf) : Conf :=
  match c.warn with
  | none => { c with warn := some 0 }
  | some _ => c

/-! ### association lists standing for `dict` -/

def alGet {α} : List (String × α) → String → Option α
  | [], _ => none
  | (k, v) :: r, n => if k = n then some v else alGet r n

/-- `d[n] = f(d.get(n))` -/
def alUpsert {α} : List (String × α) → String → (Option α → α) → List (String × α)
  | [], n, f => [(n, f none)]
  | (k, v) :: r, n, f => if k = n then (k, f (some v)) :: r else (k, v) :: alUpsert r n f

/-! ### whitelist trie (`PackagesTrieWhitelist`) -/

inductive WTrie where
  | node (conf : Option Conf) (kids : List (String × WTrie))
deriving Repr, Inhabited

namespace WTrie
def conf : WTrie → Option Conf | node c _ => c
def kids : WTrie → List (String × WTrie) | node _ k => k
def empty : WTrie := node none []

/-- descend along a path; `none` when a basename is missing -/
def get? (t : WTrie) : Path → Option WTrie
  | [] => some t
  | n :: p => match alGet t.kids n with
    | none => none
    | some c => c.get? p

/-- the configuration stored at exactly this path, if any -/
def confAt (t : WTrie) (p : Path) : Option Conf := (t.get? p).bind conf

/-- `_whitelist_packages_some` for one name after the conflict test passed:
    create missing nodes on the way down, store the configuration at the end. -/
def set (t : WTrie) : Path → Conf → WTrie
  | [], v => node (some v) t.kids
  | n :: p, v => node t.conf (alUpsert t.kids n (fun c => (c.getD empty).set p v))

/-- the loop of `get_package_conf_or_none` over `iter_packages_trie`:
    `subpackage_conf = subpackages_trie.conf_if_hooked or subpackage_conf` -/
def walk (t : WTrie) (acc : Option Conf) : Path → Option Conf
  | [] => acc
  | n :: p => match alGet t.kids n with
    | none => acc
    | some c => c.walk (c.conf <|> acc) p
end WTrie

/-! ### blacklist trie (`PackagesTrieBlacklist`; `listed` is the shared
    `PackagesTrieBlacklisted` sentinel) -/

inductive BTrie where
  | listed
  | node (kids : List (String × BTrie))
deriving Repr, Inhabited

namespace BTrie
def kids : BTrie → List (String × BTrie)
  | listed => []
  | node k => k

/-- `_blacklist_packages` for one name. Descending into the sentinel leaves it
    the sentinel (the real code would add an entry *inside* the shared sentinel
    object, which no reader can observe: every reader stops at the sentinel). -/
def skip (t : BTrie) : Path → BTrie
  | [] => t
  | [n] => match t with
    | listed => listed
    | node ks => node (alUpsert ks n (fun _ => listed))
  | n :: p => match t with
    | listed => listed
    | node ks => node (alUpsert ks n (fun c => (c.getD (node [])).skip p))

/-- `is_package_blacklisted` -/
def isListed (t : BTrie) : Path → Bool
  | [] => false
  | n :: p => match alGet t.kids n with
    | none => false
    | some listed => true
    | some c => c.isListed p
end BTrie

/-! ### registry state and operations -/

structure State where
  w : WTrie
  b : BTrie
  hook : Bool                          -- beartype's path hook is in sys.path_hooks
  stack : List (Option Conf × Conf)    -- open beartyping() blocks: (saved root conf, hookable conf of the block)
deriving Repr, Inhabited

/-- `claw_state` after `reinit()`; `builtin` = BLACKLIST_PACKAGE_NAMES ∪ {beartype}
    (single basenames, extracted from the source on every run). -/
def State.init (builtin : List String) : State :=
  { w := .empty, b := .node (builtin.map (fun n => (n, .listed))), hook := false, stack := [] }

inductive Op where
  | all (c : Conf)                         -- beartype_all(conf=c)
  | pkgs (names : List Path) (c : Conf)    -- beartype_package(s)/beartype_this_package
  | enter (c : Conf)                       -- with beartyping(conf=c):  … entering
  | exit                                   -- … leaving the innermost open block
deriving Repr, Inhabited

inductive Out where
  | ok
  | raised     -- BeartypeClawHookException
deriving DecidableEq, Repr, Inhabited

/-- `conf_curr is not None and conf_curr != conf` -/
def confConflict (cur : Option Conf) (c : Conf) : Bool :=
  match cur with
  | none => false
  | some c0 => c0 != c

def conflictAt (w : WTrie) (p : Path) (c : Conf) : Bool := confConflict (w.confAt p) c

/-- `is_packages_trie` -/
def isPackagesTrie (w : WTrie) : Bool := w.conf.isSome || !w.kids.isEmpty

def validName (p : Path) : Bool := !p.isEmpty && p.all (fun n => n != "")

/-- `hook_packages` — every conflict is detected before either trie is touched
    (that is what the property demands: a conflicting registration "leaves the
    registry as it was"). `names = none` is PACKAGES_ALL. -/
def hookPackages (s : State) (names : Option (List Path)) (c0 : Conf) : State × Out :=
  let c := c0.hookify
  match names with
  | none =>
    if conflictAt s.w [] c then (s, .raised)
    else ({ s with b := c.skip.foldl BTrie.skip s.b, w := .node (some c) s.w.kids, hook := true }, .ok)
  | some ns =>
    if ns.isEmpty || !ns.all validName then (s, .raised)   -- make_package_names_from_args
    else if ns.any (fun p => conflictAt s.w p c) then (s, .raised)
    else ({ s with b := c.skip.foldl BTrie.skip s.b,
                   w := ns.foldl (fun w p => w.set p c) s.w, hook := true }, .ok)

def step (s : State) : Op → State × Out
  | .all c => hookPackages s none c
  | .pkgs ns c => hookPackages s (some ns) c
  | .enter c =>
    let old := s.w.conf
    let s1 := { s with w := .node none s.w.kids }
    let r := hookPackages s1 none c          -- cannot conflict: root conf was just cleared
    ({ r.1 with stack := (old, c.hookify) :: s.stack }, r.2)
  | .exit =>
    match s.stack with
    | [] => (s, .ok)                          -- no open block: not reachable through the API
    | (old, c) :: rest =>
      if s.w.conf = some c then
        ({ s with w := .node old s.w.kids, stack := rest,
                  hook := s.hook && isPackagesTrie (.node old s.w.kids) }, .ok)
      else ({ s with stack := rest }, .ok)

def run (s : State) (ops : List Op) : State := ops.foldl (fun s op => (step s op).1) s

/-- outputs of a history, one per operation -/
def outs (s : State) : List Op → List Out
  | [] => []
  | op :: ops => (step s op).2 :: outs (step s op).1 ops

/-- `get_package_conf_or_none` -/
def getConf (s : State) (q : Path) : Option Conf :=
  if s.b.isListed q then none else s.w.walk s.w.conf q

/-! ### the abstract specification: what the property statement says -/

/-- Declarative registry: which configuration `beartype_all`/`beartyping` set (if
    any), which configuration was registered at which exact dotted name, which
    names were skipped or are built-in exclusions. Functions, not tries. -/
structure Spec where
  allConf : Option Conf
  reg : Path → Option Conf
  skipped : Path → Bool
  stack : List (Option Conf)       -- what each open beartyping() block will restore

def firstSome (a b : Option Conf) : Option Conf :=
  match a with
  | some c => some c
  | none => b

/-- built-in exclusions are single basenames -/
def builtinSkipped (builtin : List String) (p : Path) : Bool :=
  match p with
  | [n] => builtin.contains n
  | _ => false

/-- the longest registered ancestor-or-self of `pre ++ q` that is strictly longer
    than `pre`, searched from the longest prefix down -/
def nearestFrom (reg : Path → Option Conf) (pre : Path) : Path → Option Conf
  | [] => none
  | n :: q =>
    match nearestFrom reg (pre ++ [n]) q with
    | some c => some c
    | none => reg (pre ++ [n])

/-- some nonempty prefix of `q` satisfies `sk` (was skipped / is a built-in exclusion) -/
def excludedBy (sk : Path → Bool) : Path → Bool
  | [] => false
  | n :: q => sk [n] || excludedBy (fun p => sk (n :: p)) q

def Spec.excluded (sp : Spec) (q : Path) : Bool := excludedBy sp.skipped q

/-- "a module is type-checked exactly when it is not inside a skipped or
    built-in-excluded package and either beartype_all is active or the module or
    one of its dotted ancestors was registered; the configuration applied is that
    of the nearest registered ancestor, else beartype_all's" -/
def Spec.lookup (sp : Spec) (q : Path) : Option Conf :=
  if sp.excluded q then none
  else firstSome (nearestFrom sp.reg [] q) sp.allConf

def Spec.init (builtin : List String) : Spec :=
  { allConf := none, reg := fun _ => none,
    skipped := builtinSkipped builtin, stack := [] }

def addSkips (sk : Path → Bool) (ps : List Path) : Path → Bool :=
  fun p => sk p || (!p.isEmpty && ps.contains p)

def Spec.step (sp : Spec) : Op → Spec × Out
  | .all c0 =>
    let c := c0.hookify
    match sp.allConf with
    | some c' =>
      if c' = c then ({ sp with skipped := addSkips sp.skipped c.skip }, .ok) else (sp, .raised)
    | none => ({ sp with allConf := some c, skipped := addSkips sp.skipped c.skip }, .ok)
  | .pkgs ns c0 =>
    let c := c0.hookify
    if ns.isEmpty || !ns.all validName then (sp, .raised)
    else if ns.any (fun p => confConflict (sp.reg p) c) then (sp, .raised)
    else ({ sp with reg := fun p => if ns.contains p then some c else sp.reg p,
                    skipped := addSkips sp.skipped c.skip }, .ok)
  | .enter c0 =>
    let c := c0.hookify
    ({ sp with allConf := some c, skipped := addSkips sp.skipped c.skip,
               stack := sp.allConf :: sp.stack }, .ok)
  | .exit =>
    match sp.stack with
    | [] => (sp, .ok)
    | old :: rest => ({ sp with allConf := old, stack := rest }, .ok)

def Spec.run (sp : Spec) (ops : List Op) : Spec := ops.foldl (fun sp op => (sp.step op).1) sp

def Spec.outs (sp : Spec) : List Op → List Out
  | [] => []
  | op :: ops => (sp.step op).2 :: Spec.outs (sp.step op).1 ops

end BearVerif.Claw
