/-
  C15 — model of beartype's synchronisation: lock skeletons and five small transition systems.

  Mirrors (one definition per mechanism):
    beartype/_util/cache/pool/utilcachepool.py     KeyPool.acquire / release under `_thread_lock`         → `Pool.*`
    beartype/_util/cache/map/utilmapunbounded.py   CacheUnboundedStrong.cache_or_get_cached_* under `_lock`
    beartype/_conf/confmain.py                     BeartypeConf.__new__ under `_beartype_conf_lock`
    beartype/door/_cls/doormeta.py                 TypeHint(hint) through `_HINT_TO_WRAPPER` (RLock)         → `GoC.*`
    beartype/_util/cache/utilcachecall.py          callable_cached / method_cached_arg_by_id (no lock)
    beartype/_decor/decorcache.py                  beartype(conf=…) decorator memo (no lock)                → `Memo.*`
    beartype/claw/_clawstate.py, claw/_package/*   claw_lock (RLock) around every registry access          → `CS.*`, `LK.*`

  ATOMICITY ASSUMPTIONS (what one step of a model is). A thread switch can happen between any two steps and
  never inside one. One step is: one lock acquire (test-and-set), one lock release, one `dict.get`, one
  `dict.__setitem__`, one `list.pop`, one `list.append`, one call of an item/value factory on thread-private
  data, one thread-local computation. These are the operations CPython executes without releasing the GIL
  (a single C-level call on a built-in container; `threading.Lock.acquire`); free-threaded builds and C
  extensions that release the GIL are outside the model. The controlled scheduler of the harness switches
  threads between any two *lines* (optionally bytecode instructions) of beartype, which is finer than a step
  wherever a line holds at most one such operation.

  Skeleton part: `Act`/`Prog` are what `harness/extract/conc.py` reads off the source (which shared names are
  read/written inside which `with <lock>:`); `wellLocked`, `atomicOp`, `memoShape`, `lockDisc` are the
  decidable disciplines the property theorems establish for the extracted skeletons; the transition systems
  say what those disciplines buy, for every schedule and any number of threads.

  Executable, core Lean only (no Mathlib).
-/
namespace BearVerif.Conc

abbrev LockId := String
abbrev Var := String

/-- One entry of a lock skeleton. -/
inductive Act where
  | acq (l : LockId)
  | rel (l : LockId)
  | rd (v : Var)
  | wr (v : Var)
  | call (f : String)
deriving DecidableEq, Repr, Inhabited

structure Prog where
  name : String
  acts : List Act
deriving DecidableEq, Repr, Inhabited

/-! ### the locking discipline of skeletons -/

/-- (variable, lock) for every write that happens while a lock is held (innermost lock). -/
def guardsOfActs : List LockId → List Act → List (Var × LockId)
  | _, [] => []
  | held, .acq l :: r => guardsOfActs (l :: held) r
  | held, .rel _ :: r => guardsOfActs held.tail r
  | held, .wr v :: r =>
      match held with
      | l :: _ => (v, l) :: guardsOfActs held r
      | [] => guardsOfActs held r
  | held, _ :: r => guardsOfActs held r

/-- The lock that guards a variable = the lock some region holds while writing it. -/
def inferGuards (ps : List Prog) : List (Var × LockId) :=
  ps.flatMap (fun p => guardsOfActs [] p.acts)

def guardOf (g : List (Var × LockId)) (v : Var) : Option LockId :=
  match g with
  | [] => none
  | (v', l) :: r => if v' = v then some l else guardOf r v

/-- Every write is to a guarded variable and happens under its lock; every read of a guarded variable
    happens under its lock (hence every read-then-write pair is inside one critical section as soon as the
    region is `atomicOp`); `with` blocks are properly nested and closed. -/
def wellLocked (g : List (Var × LockId)) : List LockId → List Act → Bool
  | held, [] => held.isEmpty
  | held, .acq l :: r => wellLocked g (l :: held) r
  | held, .rel l :: r =>
      match held with
      | l' :: h => l = l' && wellLocked g h r
      | [] => false
  | held, .rd v :: r =>
      (match guardOf g v with
       | some l => held.contains l
       | none => true) && wellLocked g held r
  | held, .wr v :: r =>
      (match guardOf g v with
       | some l => held.contains l
       | none => false) && wellLocked g held r
  | held, .call _ :: r => wellLocked g held r

/-- number of outermost critical sections that touch a shared variable -/
def csCount : Nat → Bool → List Act → Nat
  | _, _, [] => 0
  | d, t, .acq _ :: r => csCount (d + 1) t r
  | d, t, .rel _ :: r => (if d = 1 && t then 1 else 0) + csCount (d - 1) (if d = 1 then false else t) r
  | d, t, .rd _ :: r => csCount d (t || decide (0 < d)) r
  | d, t, .wr _ :: r => csCount d (t || decide (0 < d)) r
  | d, t, .call _ :: r => csCount d t r

/-- A public operation is atomic when all its shared accesses lie in ONE outermost critical section
    (it then takes effect at a single point of every interleaving). -/
def atomicOp (p : Prog) : Bool := csCount 0 false p.acts ≤ 1

/-- A lock-free memo site: no lock; reads of its table(s) first, writes after. -/
def memoShape : Bool → List Act → Bool
  | _, [] => true
  | _, .acq _ :: _ => false
  | _, .rel _ :: _ => false
  | w, .rd _ :: r => !w && memoShape w r
  | _, .wr _ :: r => memoShape true r
  | w, .call _ :: r => memoShape w r

/-- Lock-order discipline: a lock that is already held may be re-acquired only if it is reentrant; a new lock
    must have a rank greater than every lock held; releases are LIFO; everything is released at the end. -/
def lockDisc (reent : LockId → Bool) (rank : LockId → Nat) : List LockId → List Act → Bool
  | stk, [] => stk.isEmpty
  | stk, .acq l :: r =>
      (if stk.contains l then reent l else stk.all (fun l' => rank l' < rank l)) && lockDisc reent rank (l :: stk) r
  | stk, .rel l :: r =>
      match stk with
      | l' :: s => l = l' && lockDisc reent rank s r
      | [] => false
  | stk, _ :: r => lockDisc reent rank stk r

def reentOf (tbl : List (LockId × Bool)) (l : LockId) : Bool :=
  match tbl with
  | [] => false
  | (l', b) :: r => if l' = l then b else reentOf r l

/-- rank of a lock = its position in the declared order (unknown locks: after all) -/
def rankIn (order : List LockId) (l : LockId) : Nat :=
  match order with
  | [] => 0
  | l' :: r => if l' = l then 0 else rankIn r l + 1

/-- Remove re-acquisitions of a lock the thread already holds (and the matching releases): what remains
    is the skeleton in terms of *outermost* critical sections. -/
def flattenRe : List (LockId × Bool) → List Act → List Act
  | _, [] => []
  | stk, .acq l :: r =>
      if stk.any (fun e => e.1 = l) then flattenRe ((l, true) :: stk) r
      else .acq l :: flattenRe ((l, false) :: stk) r
  | stk, .rel l :: r =>
      match stk with
      | (_, true) :: s => flattenRe s r
      | (_, false) :: s => .rel l :: flattenRe s r
      | [] => .rel l :: flattenRe [] r
  | stk, a :: r => a :: flattenRe stk r

/-- The flat discipline used by the serialisation theorem: critical sections are not nested, every access
    to a shared variable is inside the critical section of the variable's lock. -/
def flatWL (g : List (Var × LockId)) : Option LockId → List Act → Bool
  | none, [] => true
  | some _, [] => false
  | none, .acq l :: r => flatWL g (some l) r
  | some _, .acq _ :: _ => false
  | some l, .rel l' :: r => l = l' && flatWL g none r
  | none, .rel _ :: _ => false
  | cur, .rd v :: r => (match cur, guardOf g v with
      | some l, some l' => decide (l = l')
      | _, _ => false) && flatWL g cur r
  | cur, .wr v :: r => (match cur, guardOf g v with
      | some l, some l' => decide (l = l')
      | _, _ => false) && flatWL g cur r
  | cur, .call _ :: r => flatWL g cur r

/-! ### function update -/

def upd {κ α : Type} [DecidableEq κ] (f : κ → α) (k : κ) (x : α) : κ → α :=
  fun j => if j = k then x else f j

@[simp] theorem upd_same {κ α : Type} [DecidableEq κ] (f : κ → α) (k : κ) (x : α) : upd f k x k = x := by
  simp [upd]

theorem upd_other {κ α : Type} [DecidableEq κ] (f : κ → α) (k j : κ) (x : α) (h : j ≠ k) : upd f k x j = f j := by
  simp [upd, h]

/-! ### CS: critical sections under mutexes (serialisation) -/
namespace CS

/-- A thread program with meaning. `M` = the state guarded by a lock (all variables of that lock),
    `L` = thread-local state (arguments, results). -/
inductive SAct (M L : Type) where
  | acq (l : LockId)
  | rel (l : LockId)
  | acc (v : Var) (f : M → L → M × L)
  | loc (f : L → L)

def SAct.skel {M L : Type} : SAct M L → Act
  | .acq l => .acq l
  | .rel l => .rel l
  | .acc v _ => .wr v
  | .loc _ => .call ""

structure State (M L : Type) where
  mem  : LockId → M
  loc  : Nat → L
  rem  : Nat → List (SAct M L)
  cs   : Nat → Option LockId
  held : LockId → Option Nat

variable {M L : Type}

/-- One atomic step of thread `t`; `none` = `t` cannot move (finished, or waits for a held lock). -/
def step (g : List (Var × LockId)) (t : Nat) (s : State M L) : Option (State M L) :=
  match s.rem t with
  | [] => none
  | .acq l :: r =>
      match s.held l with
      | none => some { s with rem := upd s.rem t r, cs := upd s.cs t (some l), held := upd s.held l (some t) }
      | some _ => none
  | .rel l :: r => some { s with rem := upd s.rem t r, cs := upd s.cs t none, held := upd s.held l none }
  | .acc v f :: r =>
      match guardOf g v with
      | some l => some { s with rem := upd s.rem t r, mem := upd s.mem l (f (s.mem l) (s.loc t)).1,
                                loc := upd s.loc t (f (s.mem l) (s.loc t)).2 }
      | none => some { s with rem := upd s.rem t r }
  | .loc f :: r => some { s with rem := upd s.rem t r, loc := upd s.loc t (f (s.loc t)) }

/-- a schedule = the thread chosen at each point; choosing a thread that cannot move changes nothing -/
def run (g : List (Var × LockId)) (sched : List Nat) (s : State M L) : State M L :=
  sched.foldl (fun s t => (step g t s).getD s) s

/-- the rest of a critical section of lock `l`, executed without interruption -/
def roll (g : List (Var × LockId)) (l : LockId) : List (SAct M L) → M × L → M × L
  | .acc v f :: r, x => if guardOf g v = some l then roll g l r (f x.1 x.2) else roll g l r x
  | .loc f :: r, x => roll g l r (x.1, f x.2)
  | _, x => x

def afterRel : List (SAct M L) → List (SAct M L)
  | .rel _ :: r => r
  | .acc _ _ :: r => afterRel r
  | .loc _ :: r => afterRel r
  | other => other

/-- SERIAL semantics: a thread executes its next critical section (from `acq` through `rel`) in one step. -/
def stepA (g : List (Var × LockId)) (t : Nat) (s : State M L) : State M L :=
  match s.rem t with
  | .acq l :: r =>
      { s with mem := upd s.mem l (roll g l r (s.mem l, s.loc t)).1,
               loc := upd s.loc t (roll g l r (s.mem l, s.loc t)).2,
               rem := upd s.rem t (afterRel r) }
  | .loc f :: r => { s with rem := upd s.rem t r, loc := upd s.loc t (f (s.loc t)) }
  | _ => s

def runA (g : List (Var × LockId)) (sched : List Nat) (s : State M L) : State M L :=
  sched.foldl (fun s t => stepA g t s) s

def absMem (g : List (Var × LockId)) (s : State M L) (l : LockId) : M :=
  match s.held l with
  | none => s.mem l
  | some t => (roll g l (s.rem t) (s.mem l, s.loc t)).1

def absLoc (g : List (Var × LockId)) (s : State M L) (t : Nat) : L :=
  match s.cs t with
  | none => s.loc t
  | some l => (roll g l (s.rem t) (s.mem l, s.loc t)).2

def absRem (s : State M L) (t : Nat) : List (SAct M L) :=
  match s.cs t with
  | none => s.rem t
  | some _ => afterRel (s.rem t)

/-- The serial state a concurrent state stands for: every critical section in progress is completed. -/
def abs (g : List (Var × LockId)) (s : State M L) : State M L where
  mem := absMem g s
  loc := absLoc g s
  rem := absRem s
  cs := fun _ => none
  held := fun _ => none

/-- reachable-state invariant: lock table and threads agree; every thread's remaining program is flat-well-locked -/
structure Inv (g : List (Var × LockId)) (s : State M L) : Prop where
  agree : ∀ t l, s.cs t = some l ↔ s.held l = some t
  wl : ∀ t, flatWL g (s.cs t) ((s.rem t).map SAct.skel) = true

def init (P : Nat → List (SAct M L)) (m0 : LockId → M) (l0 : Nat → L) : State M L :=
  { mem := m0, loc := l0, rem := P, cs := fun _ => none, held := fun _ => none }

end CS

/-! ### GoC: get-or-create under a lock (BeartypeConf.__new__, TypeHint via CacheUnboundedStrong) -/
namespace GoC

/-- where a thread is inside `cache_or_get(key)`; objects are numbered by creation -/
inductive Pc where
  | idle (k : Nat)                -- about to call get-or-create for key k
  | locked (k : Nat)              -- holds the lock, before `dict.get`
  | miss (k : Nat)                -- holds the lock, the key was absent, before the factory call
  | made (k : Nat) (v : Nat)      -- holds the lock, created object v, before `dict.__setitem__`
  | found (k : Nat) (v : Nat)     -- holds the lock, has the value to return, before the release
  | done (k : Nat) (v : Nat)      -- returned v for key k
deriving DecidableEq, Repr

structure State where
  tbl   : Nat → Option Nat       -- the dictionary
  owner : Option Nat             -- the lock
  next  : Nat                    -- next fresh object
  pc    : Nat → Pc

/-- `nested = some k'` lets the factory of the thread in the critical section get-or-create another key
    re-entrantly (RLock; `TypeHint(list[int])` creating `TypeHint(int)`): it only adds an absent key. -/
def step (t : Nat) (s : State) : Option State :=
  match s.pc t with
  | .idle k => match s.owner with
      | none => some { s with owner := some t, pc := upd s.pc t (.locked k) }
      | some _ => none
  | .locked k => match s.tbl k with
      | some v => some { s with pc := upd s.pc t (.found k v) }
      | none => some { s with pc := upd s.pc t (.miss k) }
  | .miss k => some { s with next := s.next + 1, pc := upd s.pc t (.made k s.next) }
  | .made k v => some { s with tbl := upd s.tbl k (some v), pc := upd s.pc t (.found k v) }
  | .found k v => some { s with owner := none, pc := upd s.pc t (.done k v) }
  | .done _ _ => none

/-- re-entrant nested creation by the lock holder while its own key is pending -/
def stepNested (t k' : Nat) (s : State) : Option State :=
  match s.pc t with
  | .miss k => if k' ≠ k ∧ s.tbl k' = none then some { s with tbl := upd s.tbl k' (some s.next), next := s.next + 1 } else none
  | _ => none

inductive Move where
  | main (t : Nat)
  | nested (t k : Nat)

def move (s : State) : Move → State
  | .main t => (step t s).getD s
  | .nested t k => (stepNested t k s).getD s

def run (sched : List Move) (s : State) : State := sched.foldl move s

def init (keys : Nat → Nat) : State := { tbl := fun _ => none, owner := none, next := 0, pc := fun t => .idle (keys t) }

end GoC

/-! ### Pool: KeyPool.acquire / release -/
namespace Pool

inductive Pc where
  | idle                     -- holds nothing
  | acqLocked                -- in acquire(), holds the lock
  | acqGot (i : Nat)         -- in acquire(), popped / made item i, before the release of the lock
  | using (i : Nat)          -- holds item i
  | relLocked (i : Nat)      -- in release(i), holds the lock, before `list.append`
  | relDone                  -- in release(), appended, before the release of the lock
deriving DecidableEq, Repr

structure State where
  pool  : List Nat
  owner : Option Nat
  next  : Nat
  pc    : Nat → Pc

def step (t : Nat) (s : State) : Option State :=
  match s.pc t with
  | .idle => match s.owner with
      | none => some { s with owner := some t, pc := upd s.pc t .acqLocked }
      | some _ => none
  | .acqLocked => match s.pool with
      | i :: r => some { s with pool := r, pc := upd s.pc t (.acqGot i) }
      | [] => some { s with next := s.next + 1, pc := upd s.pc t (.acqGot s.next) }
  | .acqGot i => some { s with owner := none, pc := upd s.pc t (.using i) }
  | .using i => match s.owner with
      | none => some { s with owner := some t, pc := upd s.pc t (.relLocked i) }
      | some _ => none
  | .relLocked i => some { s with pool := i :: s.pool, pc := upd s.pc t .relDone }
  | .relDone => some { s with owner := none, pc := upd s.pc t .idle }

def run (sched : List Nat) (s : State) : State := sched.foldl (fun s t => (step t s).getD s) s

def init : State := { pool := [], owner := none, next := 0, pc := fun _ => .idle }

/-- the item a thread has in its hands (between pop/make and append) -/
def holds (p : Pc) : Option Nat :=
  match p with
  | .acqGot i => some i
  | .using i => some i
  | .relLocked i => some i
  | _ => none

end Pool

/-! ### Memo: lock-free memoisation of a deterministic function -/
namespace Memo

inductive Pc (V : Type) where
  | idle (k : Nat)
  | missed (k : Nat)           -- `dict.get` found nothing, before the call of f
  | computed (k : Nat) (v : V) -- called f, before `dict.__setitem__`
  | done (k : Nat) (v : V)
deriving DecidableEq

structure State (V : Type) where
  tbl : Nat → Option V
  pc  : Nat → Pc V

variable {V : Type}

def step (f : Nat → V) (t : Nat) (s : State V) : Option (State V) :=
  match s.pc t with
  | .idle k => match s.tbl k with
      | some v => some { s with pc := upd s.pc t (.done k v) }
      | none => some { s with pc := upd s.pc t (.missed k) }
  | .missed k => some { s with pc := upd s.pc t (.computed k (f k)) }
  | .computed k v => some { tbl := upd s.tbl k (some v), pc := upd s.pc t (.done k v) }
  | .done _ _ => none

def run (f : Nat → V) (sched : List Nat) (s : State V) : State V := sched.foldl (fun s t => (step f t s).getD s) s

def init (keys : Nat → Nat) : State V := { tbl := fun _ => none, pc := fun t => .idle (keys t) }

end Memo

/-! ### LK: nested and reentrant locks (deadlock freedom) -/
namespace LK

structure State where
  rem  : Nat → List Act
  stk  : Nat → List LockId           -- locks thread t holds, innermost first (with repetitions for RLock)
  held : LockId → Option Nat         -- the owner

/-- can thread t take its next step? -/
def enabled (s : State) (t : Nat) : Bool :=
  match s.rem t with
  | [] => false
  | .acq l :: _ => match s.held l with
      | none => true
      | some o => o = t
  | _ => true

def step (t : Nat) (s : State) : Option State :=
  match s.rem t with
  | [] => none
  | .acq l :: r => match s.held l with
      | none => some { rem := upd s.rem t r, stk := upd s.stk t (l :: s.stk t), held := upd s.held l (some t) }
      | some o => if o = t then some { s with rem := upd s.rem t r, stk := upd s.stk t (l :: s.stk t) } else none
  | .rel l :: r =>
      some { rem := upd s.rem t r, stk := upd s.stk t (s.stk t).tail,
             held := if (s.stk t).tail.contains l then s.held else upd s.held l none }
  | _ :: r => some { s with rem := upd s.rem t r }

def run (sched : List Nat) (s : State) : State := sched.foldl (fun s t => (step t s).getD s) s

def init (P : Nat → List Act) : State := { rem := P, stk := fun _ => [], held := fun _ => none }

end LK

end BearVerif.Conc
