/-!
  C13 — executable model of the class decorator and of the non-class decorator it
  dispatches to. NO Mathlib. Mirrors, function by function:

  * `beartype/_decor/decormain.py`, `decorcache.py`   `beartype`        → `beartype`
      (under `python -O` the public decorator is the identity function)
  * `beartype/_decor/decorcore.py`                    `beartype_object` → `decorObject`
      (`_beartype_object_fatal`: `isinstance(obj, type)` → `beartype_type`, else `beartype_nontype`;
       `_beartype_object_nonfatal`, taken when `conf.warning_cls_on_decorator_exception` is set:
       `try: fatal(obj) except Exception: issue_warning(…); return obj` → `guard`)
  * `beartype/_decor/_type/decortype.py`              `beartype_type`   → `decorClass` / `loop`
      (early return when the class is marked `is_beartyped`; iteration over a snapshot of
       `cls.__dict__.items()`; the `TYPES_BEARTYPEABLE` + nested-class test → `beartypeable`;
       `set_type_attr(cls, name, new)`; the class is marked at the end)
  * `beartype/_decor/_nontype/decornontype.py`        `beartype_nontype`, `beartype_func` → `decorLeaf`, `decorFunc`
  * `beartype/_decor/_nontype/_decornontypemap.py` + `_builtin/decorbuiltindescriptor.py`
      classmethod / staticmethod / property: unwrap, decorate the function(s), build a NEW
      descriptor of the same type (`descriptor.__class__(…)`, `property(fget, fset, fdel, doc)`)
  * `beartype/_util/bear/utilbearfunc.py`             `is_func_unbeartypeable`, `is_func_beartyped`,
      `set_func_beartyped` → `Func.unbeartypeable`, `Func.marker`
  * `beartype/_util/func/utilfuncmake.py`             `make_func` + `functools.update_wrapper`
      → `mkWrapper` (copies name, doc, annotations; `__wrapped__` := the wrapped function;
        `inspect.signature` follows `__wrapped__`, hence `sig` is copied)

  Decoration can RAISE: code generation rejects some hints at decoration time (`NoReturn` on a
  parameter, an unsupported hint, … → `Ann.failing`). Every function of the model returns a
  `Res`: the resulting value, the state (allocation counter + number of warnings issued) and
  whether an exception is propagating. An exception leaves a non-class object as it was (the
  wrappers built so far for the accessors of a property are garbage) and leaves a class as far as
  the loop got: members before the failing one replaced, the rest untouched, the class NOT marked.

  Objects carry an object id (`oid`); "the same object" is "the same oid". New objects
  (wrappers, rebuilt descriptors) take their oid from an allocation counter that is threaded
  through every function (`n : Nat` in, `Nat` out). In-place mutation (`no_type_check(func)`
  under strategy O0 sets `func.__no_type_check__`, the class marker) is modelled by returning
  the object with the same oid and the changed field; the class dictionary is a by-value
  association list, so the loop writes the returned value back under the attribute name whether
  or not `set_type_attr` is called by the code (`new is not old` only avoids a useless setattr).

  The abstract specification (`specClass`, `specMembers`, `specMember`) restates the property:
  "decorating a class = decorating each function, classmethod, staticmethod and property the
  class itself defines, recursively for classes nested in it; everything else untouched".

  The model reflects the tree with the fixes `C13_nested_qualname_prefix` and
  `C13_property_accessors_nonfatal` (/repo dd7f4e1: the accessors of a property are decorated through
  `beartype_object`, one by one under the guard, like the wrappee of a classmethod) applied: a class-valued
  attribute is a nested class iff its qualified name extends the qualified name of the decorated
  class by at least one component (`cls.__qualname__ + '.'` is a prefix), see `nestedIn`.
-/
namespace BearVerif.Decor

/-- What `__annotations__` of a function amounts to. -/
inductive Ann where
  | none        -- unannotated (`get_hintable_pep649749_annotations_or_none(func) is None`)
  | ignorable   -- annotated, but every hint is ignorable (`object`, `Any`): `generate_code` returns ''
  | checked     -- at least one hint that generates a check
  | failing     -- at least one hint for which code generation RAISES at decoration time (`x: NoReturn`, …)
deriving DecidableEq, Repr, Inhabited

/-- Interpreter facts. -/
structure Env where
  optimized : Bool          -- `python -O` (`is_python_optimized()`)
deriving DecidableEq, Repr, Inhabited

/-- The part of `BeartypeConf` this decorator logic looks at. -/
structure Conf where
  o0 : Bool                 -- `conf.strategy is BeartypeStrategy.O0`
  warn : Bool               -- `conf.warning_cls_on_decorator_exception is not None` (every `beartype.claw` hook)
deriving DecidableEq, Repr, Inhabited

/-- What is threaded through a decoration: the first free object id and the number of warnings
    issued so far (`issue_warning` in `_beartype_object_nonfatal`). -/
structure St where
  next : Nat
  warns : Nat
deriving DecidableEq, Repr, Inhabited

/-- Outcome of a decorator call: the resulting object (for a class: the class as the call left it,
    also when it raised), the state, and whether an exception is propagating out of the call. -/
structure Res (α : Type) where
  val : α
  st : St
  raised : Bool
deriving Repr

/-- `_beartype_object_nonfatal`: under a configuration with `warning_cls_on_decorator_exception`
    an exception raised by the decoration of THIS object becomes one warning and the object
    (`orig`) is returned; otherwise (`_beartype_object_fatal`) the outcome is passed on. -/
def guard {α : Type} (conf : Conf) (orig : α) (r : Res α) : Res α :=
  if r.raised && conf.warn then ⟨orig, ⟨r.st.next, r.st.warns + 1⟩, false⟩ else r

/-- A pure-Python function object. -/
inductive Func where
  | mk (oid : Nat) (name : String) (doc : String) (sig : List String) (ann : Ann)
       (ntc : Bool)                -- has `__no_type_check__`
       (marker : Bool)             -- has `__beartype_wrapper`
       (wrapped : Option Func)     -- `__wrapped__`
deriving Repr, Inhabited

namespace Func
def oid : Func → Nat | .mk o _ _ _ _ _ _ _ => o
def name : Func → String | .mk _ x _ _ _ _ _ _ => x
def doc : Func → String | .mk _ _ x _ _ _ _ _ => x
def sig : Func → List String | .mk _ _ _ x _ _ _ _ => x
def ann : Func → Ann | .mk _ _ _ _ x _ _ _ => x
def ntc : Func → Bool | .mk _ _ _ _ _ x _ _ => x
def marker : Func → Bool | .mk _ _ _ _ _ _ x _ => x
def wrapped : Func → Option Func | .mk _ _ _ _ _ _ _ x => x

/-- `typing.no_type_check(func)`: sets the attribute on the SAME object. -/
def setNtc : Func → Func | .mk o a b c d _ m w => .mk o a b c d true m w

/-- forget the `__no_type_check__` flag (used to state identity under strategy O0) -/
def clearNtc : Func → Func | .mk o a b c d _ m w => .mk o a b c d false m w

/-- `is_func_unbeartypeable` (blacklist / jaxtyping / sphinx disjuncts are outside the model). -/
def unbeartypeable (env : Env) (f : Func) : Bool :=
  env.optimized || f.ann == .none || f.ntc || f.marker

/-- `make_func(… func_wrapped=f)` + `update_wrapper` + `set_func_beartyped`: a NEW function
    object with f's name, doc, annotations, signature (via `__wrapped__`), the marker, and
    `__wrapped__ = f`. (`update_wrapper` also copies `f.__dict__`; `f` has no
    `__no_type_check__` here, otherwise it would not have been wrapped.) -/
def mkWrapper (f : Func) (n : Nat) : Func :=
  .mk n f.name f.doc f.sig f.ann false true (some f)
end Func

/-- `beartype_func`: the decision for one function object. -/
def decorFunc (env : Env) (conf : Conf) (f : Func) (st : St) : Res Func :=
  let f1 := if conf.o0 then f.setNtc else f         -- `if conf.strategy is O0: no_type_check(func)`
  if f1.unbeartypeable env then ⟨f1, st, false⟩     -- `return func`
  else if f1.ann == .ignorable then ⟨f1, st, false⟩ -- `if not func_wrapper_code: return func`
  else if f1.ann == .failing then ⟨f1, st, true⟩    -- `generate_code` raises `BeartypeDecorHint…Exception`
  else ⟨f1.mkWrapper st.next, ⟨st.next + 1, st.warns⟩, false⟩

/-- `beartype_object(func, conf=conf)` on a function object: `beartype_func` under the guard. This is
    what `beartype_descriptor_decorator_builtin_class_or_static_method` applies to the wrappee and
    (tree with fix `C13_property_accessors_nonfatal`) what
    `beartype_descriptor_decorator_builtin_property` applies to getter, setter and deleter. -/
def decorFuncObj (env : Env) (conf : Conf) (f : Func) (st : St) : Res Func :=
  guard conf f (decorFunc env conf f st)

def decorFuncObjOpt (env : Env) (conf : Conf) : Option Func → St → Res (Option Func)
  | none, st => ⟨none, st, false⟩
  | some f, st => let r := decorFuncObj env conf f st; ⟨some r.val, r.st, r.raised⟩

mutual
/-- An attribute value of a class dictionary. -/
inductive Member where
  | func (f : Func)
  | cmeth (oid : Nat) (f : Func)                    -- `classmethod(f)` object
  | smeth (oid : Nat) (f : Func)                    -- `staticmethod(f)` object
  | prop (oid : Nat) (doc : String) (g : Func) (s : Option Func) (d : Option Func)
  | klass (k : Klass)                               -- a class object (nested, or merely referenced)
  | other (oid : Nat)                               -- anything not in `TYPES_BEARTYPEABLE`
/-- A class: identity, qualified name (components of `__qualname__`), the `is_beartyped` marker,
    its own `__dict__` in order, and what it inherits (attributes of its bases, not in its dict). -/
inductive Klass where
  | mk (oid : Nat) (qual : List String) (beartyped : Bool) (dict : Members) (inherited : Members)
/-- An ordered class dictionary. -/
inductive Members where
  | nil
  | cons (name : String) (m : Member) (rest : Members)
end

instance : Inhabited Member := ⟨.other 0⟩
instance : Inhabited Members := ⟨.nil⟩
instance : Inhabited Klass := ⟨.mk 0 [] false .nil .nil⟩

namespace Klass
def oid : Klass → Nat | .mk o _ _ _ _ => o
def qual : Klass → List String | .mk _ q _ _ _ => q
def beartyped : Klass → Bool | .mk _ _ b _ _ => b
def dict : Klass → Members | .mk _ _ _ d _ => d
def inherited : Klass → Members | .mk _ _ _ _ i => i
end Klass

namespace Members
def names : Members → List String
  | .nil => []
  | .cons nm _ r => nm :: r.names

def append : Members → Members → Members
  | .nil, ys => ys
  | .cons nm m r, ys => .cons nm m (r.append ys)

def snoc (xs : Members) (nm : String) (m : Member) : Members := xs.append (.cons nm m .nil)

def get? : Members → String → Option Member
  | .nil, _ => none
  | .cons nm m r, x => if nm = x then some m else r.get? x

/-- `setattr(cls, name, value)` on an existing attribute keeps its position in the dictionary;
    a new attribute is appended. -/
def setAttr : Members → String → Member → Members
  | .nil, x, v => .cons x v .nil
  | .cons nm m r, x, v => if nm = x then .cons nm v r else .cons nm m (r.setAttr x v)
end Members

/-- The nested-class test of `beartype_type` (fixed tree):
    `attr_value.__qualname__.startswith(cls.__qualname__ + '.')` on name components:
    `outer` is a proper prefix of `inner`. -/
def nestedIn (outer inner : List String) : Bool :=
  outer.isPrefixOf inner && decide (outer.length < inner.length)

/-- The filter of the loop of `beartype_type`: `isinstance(v, TYPES_BEARTYPEABLE)` and not
    (a class that was declared elsewhere). -/
def beartypeable (qual : List String) : Member → Bool
  | .func _ => true
  | .cmeth _ _ => true
  | .smeth _ _ => true
  | .prop _ _ _ _ _ => true
  | .klass k => nestedIn qual k.qual
  | .other _ => false

/-- `beartype_nontype` for the builtin descriptors and plain functions (everything but classes).
    A descriptor is ALWAYS rebuilt (new oid) around the decorated function(s) — unless the
    decoration of a function inside raises: then the exception propagates and the object is left
    as it was (`property(…)` is built only after getter, setter, deleter). The wrappee of a
    classmethod / staticmethod and each accessor of a property go through `beartype_object`, hence
    through the guard: under the warning option only the function that cannot be decorated is left
    as it was, with its own warning, and the descriptor is rebuilt around it. -/
def decorLeaf (env : Env) (conf : Conf) : Member → St → Res Member
  | .func f, st =>
      let r := decorFunc env conf f st
      if r.raised then ⟨.func f, st, true⟩ else ⟨.func r.val, r.st, false⟩
  | .cmeth o f, st =>
      let r := decorFuncObj env conf f st
      if r.raised then ⟨.cmeth o f, st, true⟩ else ⟨.cmeth r.st.next r.val, ⟨r.st.next + 1, r.st.warns⟩, false⟩
  | .smeth o f, st =>
      let r := decorFuncObj env conf f st
      if r.raised then ⟨.smeth o f, st, true⟩ else ⟨.smeth r.st.next r.val, ⟨r.st.next + 1, r.st.warns⟩, false⟩
  | .prop o doc g s d, st =>
      let rg := decorFuncObj env conf g st
      if rg.raised then ⟨.prop o doc g s d, st, true⟩ else
      let rs := decorFuncObjOpt env conf s rg.st
      if rs.raised then ⟨.prop o doc g s d, st, true⟩ else
      let rd := decorFuncObjOpt env conf d rs.st
      if rd.raised then ⟨.prop o doc g s d, st, true⟩ else
      ⟨.prop rd.st.next doc rg.val rs.val rd.val, ⟨rd.st.next + 1, rd.st.warns⟩, false⟩
  | m, st => ⟨m, st, false⟩

/-- `beartype_object(obj, conf=conf)` on a non-class object = `beartype(conf=conf)(obj)` applied BY
    HAND to a function, classmethod, staticmethod or property: `beartype_nontype` under the guard. -/
def decorLeafObj (env : Env) (conf : Conf) (m : Member) (st : St) : Res Member :=
  guard conf m (decorLeaf env conf m st)

mutual
/-- `beartype_type(cls, conf, cls_stack)`. When the loop raises, the class is left as the loop left
    it and is NOT marked (the exception propagates past `set_type_attr_cached(cls, 'is_beartyped', True)`). -/
def decorClass (env : Env) (conf : Conf) : Klass → St → Res Klass
  | .mk oid qual bt dict inh, st =>
    if bt then ⟨.mk oid qual bt dict inh, st, false⟩         -- already decorated: `return cls`
    else
      let r := loop env conf qual dict dict st               -- `for name, value in cls.__dict__.items()`
      ⟨.mk oid qual (!r.raised) r.val inh, r.st, r.raised⟩   -- mark, `return cls` (not reached on a raise)
/-- the loop body over the remaining `items`, `dict` being the current class dictionary; an
    exception out of `beartype_object` ends the loop (a nested class that raised was mutated in
    place: the by-value dictionary gets it written back) -/
def loop (env : Env) (conf : Conf) (qual : List String) : Members → Members → St → Res Members
  | .nil, dict, st => ⟨dict, st, false⟩
  | .cons nm m rest, dict, st =>
    if beartypeable qual m then
      let r := decorObject env conf m st
      if r.raised then ⟨dict.setAttr nm r.val, r.st, true⟩
      else loop env conf qual rest (dict.setAttr nm r.val) r.st
    else loop env conf qual rest dict st
/-- `beartype_object(obj, conf, cls_stack=…)`: classes go to `beartype_type`, the rest to
    `beartype_nontype`; both under the guard (`_beartype_object_nonfatal`), which returns `obj` —
    for a class the object mutated so far. -/
def decorObject (env : Env) (conf : Conf) : Member → St → Res Member
  | .klass k, st =>
    let r := decorClass env conf k st
    guard conf (.klass r.val) ⟨.klass r.val, r.st, r.raised⟩
  | .func f, st => decorLeafObj env conf (.func f) st
  | .cmeth o f, st => decorLeafObj env conf (.cmeth o f) st
  | .smeth o f, st => decorLeafObj env conf (.smeth o f) st
  | .prop o doc g s d, st => decorLeafObj env conf (.prop o doc g s d) st
  | .other o, st => ⟨.other o, st, false⟩
end

/-- The public decorator `beartype(conf=conf)(obj)`: the identity under `python -O`
    (`decormain.py`), `beartype_object` otherwise. -/
def beartype (env : Env) (conf : Conf) (m : Member) (st : St) : Res Member :=
  if env.optimized then ⟨m, st, false⟩ else decorObject env conf m st

/-- `beartype(conf=conf)(cls)` -/
def beartypeClass (env : Env) (conf : Conf) (k : Klass) (st : St) : Res Klass :=
  if env.optimized then ⟨k, st, false⟩ else guard conf (decorClass env conf k st).val (decorClass env conf k st)

/-! ### Specification: what the property statement says -/

mutual
/-- Decorating a class: the same class object, marked, in which every member the class itself
    defines has been decorated; an already decorated class is returned unchanged. When the
    decoration of a member raises, the members after it are not touched and the class is not marked. -/
def specClass (env : Env) (conf : Conf) : Klass → St → Res Klass
  | .mk oid qual bt dict inh, st =>
    if bt then ⟨.mk oid qual bt dict inh, st, false⟩
    else
      let r := specMembers env conf qual dict st
      ⟨.mk oid qual (!r.raised) r.val inh, r.st, r.raised⟩
/-- member by member, in dictionary order, as a person decorating them one after the other would:
    the first member whose decoration raises ends it -/
def specMembers (env : Env) (conf : Conf) (qual : List String) : Members → St → Res Members
  | .nil, st => ⟨.nil, st, false⟩
  | .cons nm m rest, st =>
    let r := specMember env conf qual m st
    if r.raised then ⟨.cons nm r.val rest, r.st, true⟩
    else
      let rr := specMembers env conf qual rest r.st
      ⟨.cons nm r.val rr.val, rr.st, rr.raised⟩
/-- functions, classmethods, staticmethods, properties: decorated as if by hand
    (`beartype(conf=conf)(member)`, hence under the guard of that configuration); classes nested in
    the decorated class: recursively; referenced classes and everything else: untouched -/
def specMember (env : Env) (conf : Conf) (qual : List String) : Member → St → Res Member
  | .klass k, st =>
    if nestedIn qual k.qual then
      (let r := specClass env conf k st; guard conf (.klass r.val) ⟨.klass r.val, r.st, r.raised⟩)
    else ⟨.klass k, st, false⟩
  | .func f, st => decorLeafObj env conf (.func f) st
  | .cmeth o f, st => decorLeafObj env conf (.cmeth o f) st
  | .smeth o f, st => decorLeafObj env conf (.smeth o f) st
  | .prop o doc g s d, st => decorLeafObj env conf (.prop o doc g s d) st
  | .other o, st => ⟨.other o, st, false⟩
end

/-! ### Observables used by the theorems -/

/-- name, docstring, signature of a function: what `update_wrapper` must carry over -/
structure Facts where
  name : String
  doc : String
  sig : List String
deriving DecidableEq, Repr

def Func.facts (f : Func) : Facts := ⟨f.name, f.doc, f.sig⟩

/-- Descriptor kind + facts of the functions inside, for a whole class at every depth
    (oids, markers, flags forgotten). -/
inductive Shape where
  | func (f : Facts)
  | cmeth (f : Facts)
  | smeth (f : Facts)
  | prop (doc : String) (g : Facts) (s : Option Facts) (d : Option Facts)
  | klass (qual : List String) (dict : List (String × Shape)) (inherited : List (String × Shape))
  | other
deriving Repr

mutual
def Member.shape : Member → Shape
  | .func f => .func f.facts
  | .cmeth _ f => .cmeth f.facts
  | .smeth _ f => .smeth f.facts
  | .prop _ doc g s d => .prop doc g.facts (s.map Func.facts) (d.map Func.facts)
  | .klass k => k.shape
  | .other _ => .other
def Klass.shape : Klass → Shape
  | .mk _ qual _ dict inh => .klass qual dict.shapes inh.shapes
def Members.shapes : Members → List (String × Shape)
  | .nil => []
  | .cons nm m r => (nm, m.shape) :: r.shapes
end

/-- Forget what a no-op decoration may legitimately change: the oid of a rebuilt descriptor
    object, the `__no_type_check__` flag set by strategy O0, the class marker. Function oids,
    wrapper markers and `__wrapped__` are kept: equal erasures mean "the very same function
    objects, no new wrapper anywhere". -/
def Func.erase (f : Func) : Func := f.clearNtc

mutual
def Member.erase : Member → Member
  | .func f => .func f.erase
  | .cmeth _ f => .cmeth 0 f.erase
  | .smeth _ f => .smeth 0 f.erase
  | .prop _ doc g s d => .prop 0 doc g.erase (s.map Func.erase) (d.map Func.erase)
  | .klass k => .klass k.erase
  | .other o => .other o
def Klass.erase : Klass → Klass
  | .mk oid qual _ dict inh => .mk oid qual false dict.erase inh
def Members.erase : Members → Members
  | .nil => .nil
  | .cons nm m r => .cons nm m.erase r.erase
end

/-- Forget only the oid of the descriptor object itself (top level). -/
def Member.core : Member → Member
  | .cmeth _ f => .cmeth 0 f
  | .smeth _ f => .smeth 0 f
  | .prop _ doc g s d => .prop 0 doc g s d
  | m => m

/-- Is decoration of this function a documented no-op? -/
def Func.noop (env : Env) (conf : Conf) (f : Func) : Bool :=
  env.optimized || conf.o0 || f.ann == .none || f.ann == .ignorable || f.ntc || f.marker

/-- Does the decoration of this function raise? (a hint rejected at decoration time, reached:
    not `-O`, not strategy O0, not `@no_type_check`, not already a wrapper) -/
def Func.fails (env : Env) (conf : Conf) (f : Func) : Bool :=
  !env.optimized && !conf.o0 && f.ann == .failing && !f.ntc && !f.marker

def Func.failsOpt (env : Env) (conf : Conf) : Option Func → Bool
  | none => false
  | some f => f.fails env conf

/-- Does `beartype_nontype` raise on this non-class member? A classmethod / staticmethod / property
    raises only when nothing guards the functions inside. -/
def Member.failsLeaf (env : Env) (conf : Conf) : Member → Bool
  | .func f => f.fails env conf
  | .cmeth _ f => f.fails env conf && !conf.warn
  | .smeth _ f => f.fails env conf && !conf.warn
  | .prop _ _ g s d => (g.fails env conf || Func.failsOpt env conf s || Func.failsOpt env conf d) && !conf.warn
  | _ => false

def Func.noopOpt (env : Env) (conf : Conf) : Option Func → Bool
  | none => true
  | some f => f.noop env conf

mutual
/-- every function reachable through the class's own members is a no-op case -/
def Member.allNoop (env : Env) (conf : Conf) : Member → Bool
  | .func f => f.noop env conf
  | .cmeth _ f => f.noop env conf
  | .smeth _ f => f.noop env conf
  | .prop _ _ g s d => g.noop env conf && Func.noopOpt env conf s && Func.noopOpt env conf d
  | .klass k => k.allNoop env conf
  | .other _ => true
def Klass.allNoop (env : Env) (conf : Conf) : Klass → Bool
  | .mk _ _ _ dict _ => dict.allNoop env conf
def Members.allNoop (env : Env) (conf : Conf) : Members → Bool
  | .nil => true
  | .cons _ m r => m.allNoop env conf && r.allNoop env conf
end

mutual
/-- Python dictionaries have unique keys — at every nesting depth. -/
def Member.wf : Member → Prop
  | .klass k => k.wf
  | _ => True
def Klass.wf : Klass → Prop
  | .mk _ _ _ dict _ => dict.names.Nodup ∧ dict.wf
def Members.wf : Members → Prop
  | .nil => True
  | .cons _ m r => m.wf ∧ r.wf
end

end BearVerif.Decor
