import BearVerif.Core.Bear
/-
  Bear core, part 3 — the explanation path: a second, independent implementation of the
  hint semantics that re-derives WHY a rejected object was rejected.

  Mirrors beartype/_check/error/: HintTreeError.find_cause dispatch (_errmap.py) and the
  finders errnonpeptype.py (class / origin test), errpep484604.py (union: skip members
  whose origin class fails, recurse into the others, "no cause" as soon as one member is
  satisfied), errpep586.py (literal), errpep593.py (annotated: metahint first, then the
  first failing validator), pep484585/errpep484585container.py (origin, empty/ignorable,
  non-collection, then ONE item under O1 — the same one the generated code picked, via
  logcls.enumerate_cause_items and the draw passed as random_int — or ALL items under On),
  errpep484585mapping.py (first (key, value) under O1, all under On), tuple_fixed (length,
  then every position), errpep484585subclass.py; and errmain.py (desynchronisation: the
  generated code rejected but no cause is found).
-/
namespace BearVerif.Bear

inductive Strategy | O1 | On
deriving DecidableEq, Repr, Inhabited

/-- `get_hint_pep_origin_type_isinstanceable_or_none` as the union finder uses it -/
def Hint.origin? : Hint → Option Nat
  | .shallow c => some c
  | .tupleFixed _ => some cTuple
  | .seq o _ | .reit o _ | .quasi o _ | .mapping o _ _ => some o
  | .typeOf _ => some cType
  | .generic c _ => some c
  | _ => none

variable (W : World) (conf : Conf) (r : Nat) (st : Strategy)

mutual
/-- `true` = the finder found a cause (a violation it can explain) -/
def hasCause : Hint → Obj → Bool
  | .any, _ => false
  | .cls c, x | .shallow c, x => !W.sub x.cls c
  | .union hs, x => unionCause hs x
  | .literal ls, x =>
      if ls.any (fun l => W.sub x.cls l.1 && x.atom.pyEq l.2) then false
      else true                                  -- wrong type(s), or "!= literals"
  | .tupleFixed hs, x =>
      !W.sub x.cls cTuple || (x.items.length != hs.length || zipCause hs x.items)
  | .seq o h, x =>
      !W.sub x.cls o || (!x.items.isEmpty && !h.ignorable && W.sub x.cls cCollection &&
        (match st with
         | .O1 => (match x.items[pickIdx conf r x.items.length]? with | none => false | some y => hasCause h y)
         | .On => x.items.any (fun y => hasCause h y)))
  | .reit o h, x =>
      !W.sub x.cls o || (!x.items.isEmpty && !h.ignorable && W.sub x.cls cCollection &&
        (match st with
         | .O1 => (match x.items.head? with | none => false | some y => hasCause h y)
         | .On => x.items.any (fun y => hasCause h y)))
  | .quasi o h, x =>
      !W.sub x.cls o || (W.sub x.cls cCollection && !x.items.isEmpty && !h.ignorable &&
        (match st with
         | .O1 => (match (if W.sub x.cls cSequence then x.items[pickIdx conf r x.items.length]? else x.items.head?) with
                   | none => false | some y => hasCause h y)
         | .On => x.items.any (fun y => hasCause h y)))
  | .mapping o k v, x =>
      !W.sub x.cls o || (!x.items.isEmpty &&
        (match st with
         | .O1 => (match x.items.head?, x.vals.head? with
                   | some k0, some v0 => (!k.ignorable && hasCause k k0) || (!v.ignorable && hasCause v v0)
                   | _, _ => false)
         | .On => (!k.ignorable && x.items.any (fun y => hasCause k y)) || (!v.ignorable && x.vals.any (fun y => hasCause v y))))
  | .typeOf cs, x => !typeOfTest W cs x
  | .annotated h vs, x => (!h.ignorable && hasCause h x) || !vs.all (fun v => v.holds W x)
  | .generic c bs, x => !W.sub x.cls c || basesCause bs x
/-- union finder: `false` as soon as one member is satisfied -/
def unionCause : List Hint → Obj → Bool
  | [], _ => true
  | h :: hs, x =>
    if h.ignorable then unionCause hs x          -- ignorable members are skipped (they cannot occur: the union would be ignorable)
    else match h.origin? with
      | some o => if !W.sub x.cls o then unionCause hs x else (hasCause h x && unionCause hs x)
      | none => hasCause h x && unionCause hs x
/-- generic finder: the first pseudo-superclass with a cause -/
def basesCause : List Hint → Obj → Bool
  | [], _ => false
  | h :: hs, x => hasCause h x || basesCause hs x
/-- fixed-tuple positions, ignorable children skipped -/
def zipCause : List Hint → List Obj → Bool
  | h :: hs, y :: ys => (!h.ignorable && hasCause h y) || zipCause hs ys
  | _, _ => false
end

/-! ### which signal a rejection produces -/

structure Signals where
  violationType : Option Nat        -- `violation_type` (none = unpassed)
  doorType : Option Nat
  paramType : Option Nat
  returnType : Option Nat
  dflDoor : Nat                     -- BeartypeDoorHintViolation
  dflParam : Nat                    -- BeartypeCallHintParamViolation
  dflReturn : Nat                   -- BeartypeCallHintReturnViolation

inductive PithKind | door | param | ret
deriving DecidableEq, Repr

/-- `default_conf_kwargs`: the specific option, else `violation_type`, else the default -/
def Signals.cls (s : Signals) : PithKind → Nat
  | .door => s.doorType.getD (s.violationType.getD s.dflDoor)
  | .param => s.paramType.getD (s.violationType.getD s.dflParam)
  | .ret => s.returnType.getD (s.violationType.getD s.dflReturn)

inductive Outcome
  | accepted                       -- silent / True
  | raised (cls : Nat)             -- the violation is raised; the wrapped callable does not run (param) / its result is withheld
  | warned (cls : Nat)             -- the violation is emitted as a warning and the call proceeds
deriving DecidableEq, Repr

/-- checkmake.py: raise, or warn when the configured class is a Warning subclass -/
def outcome (isWarning : Nat → Bool) (s : Signals) (kind : PithKind) (verdict : Bool) : Outcome :=
  if verdict then .accepted
  else if isWarning (s.cls kind) then .warned (s.cls kind) else .raised (s.cls kind)

end BearVerif.Bear
