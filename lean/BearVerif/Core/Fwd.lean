/-
  C07 — model of the resolution LOGIC of string / postponed annotations.

  Mirrors, function for function:
    beartype/_check/forward/fwdresolve.py            resolve_hint_pep484_ref_str_decor_curr (the qualname
                                                     short cut + eval of the string in the forward scope)
    beartype/_check/forward/scope/fwdscopemake.py    make_scope_forward_decor_curr  (`fwLocals`, `fwLayers`)
    beartype/_check/forward/scope/fwdscopecls.py     BeartypeForwardScope.__missing__ (`fwLk`, `proxyLk`: a proxy)
    beartype/_util/func/utilfuncscope.py             find_func_locals_frame (`findFrameNamed`)
    beartype/_check/forward/reference/fwdrefproxy.py _proxy_hint_ref (`Proxy`)
    beartype/_check/forward/reference/_cls/fwdrefmeta.py
                                                     __getattr__ (`getAttr` on a proxy), __resolved_hint_beartype__ and
                                                     _resolve_hint_pep484_ref_str (`resolveProxy`: cache, module
                                                     attribute, parent frame if running, else fake proxy),
                                                     __instancecheck__ (`RH.via`: non-class referents go through
                                                     is_bearable(..., BEARTYPE_CONF_NONRANDOM))
    beartype/_check/forward/reference/_cls/fwdreffake.py  (`Ref.fake`: name-based check)
    beartype/_check/convert/_convcoerce.py           coerce_func_hint_root   } root strings and nested strings go
    beartype/_check/convert/_reduce/_pep/pep484/redpep484ref.py               } through the same resolver (`resolveH`)

  What is abstracted (DESIGN §4 C07 "limits"): real frame introspection is the list `St.stack` of running
  activations with their locals; a string annotation is represented by the expression CPython parses it to
  (`HExpr.quoted e`, `H.str e`; printer `showE` and parser `pExpr` below, `C07_show_parse`) and `eval` of that string
  is `evalH … true e` (the harness checks on every run
  that `ast.parse` of each printed annotation yields exactly that expression); the objects names are bound to are
  opaque identities `H.obj id` with an attribute table (`Heap`); the check of the resolved hint itself is the
  Bear core's (`RH` is handed to it); `modAttr` models the module-attribute lookup AFTER the repair
  fixes/C07_relative_dotted_forward_ref.patch (dotted names relative to the module) and `fwLocals` the scope
  AFTER fixes/C07_frame_locals_copied.patch (no mutation of the frame's locals); absolute dotted module paths
  (`'pkg.mod.Cls'` with `pkg` not bound in the module) are not modelled.

  The specification side (`specLookup`, `specNow`) is Python's own scoping for an annotation written at the
  `def` point: class body first (only when the def is directly in it), then the enclosing FUNCTION activations
  inner to outer, module globals, builtins — names still unbound denote a leaf that raises when reached.

  Executable, core Lean only (no Mathlib): also used by the line-protocol driver.
-/
namespace BearVerif.Fwd

abbrev Name := String

/-- literal constants that can appear inside a hint (`None`, `...`, `Literal[...]` members) -/
inductive Lit where
  | none | ellipsis | bool (b : Bool) | int (i : Int) | str (s : String)
deriving DecidableEq, Repr, Inhabited

/-- hint SOURCE language -/
inductive HExpr where
  | name (n : Name)
  | attr (e : HExpr) (n : Name)
  | sub (e : HExpr) (es : List HExpr)
  | bor (a b : HExpr)
  | lit (l : Lit)
  | quoted (e : HExpr)          -- a string literal holding the source of `e`
deriving Repr, Inhabited

/-- A forward-reference proxy class (`_proxy_hint_ref`): `__hint_name_beartype__` = the dotted `path`,
    `__func_local_parent_codeobj_weakref_beartype__` = `frame` (code object of the lexical parent whose locals are
    consulted at call time). `owner` = the decorated callable whose forward scope created it (each forward scope
    holds one proxy per name; proxies of different scopes are different classes with separate cache entries).
    `__scope_name_beartype__` is the single module of the modelled program. `subbed` = the proxy is the SUBSCRIPTED
    proxy `BeartypeForwardRefSubbableABC.__class_getitem__` made from the subscriptable one of the same name (a
    different class, hence a cache entry of its own; its `__args_beartype__` are stored and never looked at, so
    they are not part of the model). -/
structure Proxy where
  owner : Nat
  path : List Name
  frame : Option Nat
  subbed : Bool := false
deriving DecidableEq, Repr, Inhabited

/-- evaluated hint objects -/
inductive H where
  | obj (id : Nat)                     -- an object bound to a name: class, module, special form
  | fwd (p : Proxy)                    -- forward-reference proxy
  | str (e : HExpr)                    -- a still unresolved string (nested in an evaluated hint, or the root)
  | sub (h : H) (args : List H)        -- h[args]
  | bor (a b : H)                      -- a | b
  | lit (l : Lit)
deriving Repr, Inhabited

inductive Err where
  | name (n : Name)        -- NameError
  | attr (n : Name)        -- AttributeError
  | type                   -- TypeError (`'A' | int`)
  | fwdref (path : List Name)   -- beartype forward-reference exception for the proxy of this dotted name
deriving DecidableEq, Repr, Inhabited

abbrev Scope := List (Name × H)

def Scope.get? : Scope → Name → Option H
  | [], _ => none
  | (m, v) :: r, n => if m = n then some v else Scope.get? r n

abbrev Heap := List (Nat × Scope)

def Heap.attrs : Heap → Nat → Scope
  | [], _ => []
  | (i, sc) :: r, id => if i = id then sc else Heap.attrs r id

/-- `getattr(v, n)` as far as hints need it; on an unresolved proxy the metaclass `__getattr__` answers with a
    NEW subscriptable proxy for the dotted name — created WITHOUT the parent code object (as the code does). -/
def getAttr (hp : Heap) (v : H) (n : Name) : Except Err H :=
  match v with
  | .obj id => match (hp.attrs id).get? n with
    | some w => .ok w
    | none => .error (.attr n)
  | .fwd p => .ok (.fwd { p with path := p.path ++ [n], frame := none, subbed := false })
  | _ => .error (.attr n)

def H.isStr : H → Bool
  | .str _ => true
  | _ => false

/-- `a | b` (a string operand is a TypeError in Python) -/
def orH (x y : H) : Except Err H :=
  if x.isStr || y.isStr then .error .type else .ok (.bor x y)

/-- `v[args]`. On an unresolved subscriptable proxy, `BeartypeForwardRefSubbableABC.__class_getitem__` →
    `proxy_hint_pep484_ref_str_subbed` answers with a NEW, subscripted proxy of the same scope, the same name and the
    same parent code object (`'Box[int]'` in a closure still finds the `Box` its enclosing function defines later);
    the arguments are dropped (`BeartypeForwardRefSubbedABC`: "this ABC currently ignores subscription"). A subscripted
    proxy has no `__class_getitem__`: subscripting it again is a TypeError. (A string in head position is not
    Python — `'K'[int]` — and never submitted: the harness quotes such a subscription as a whole.) -/
def subH (v : H) (args : List H) : Except Err H :=
  match v with
  | .fwd p => if p.subbed then .error .type else .ok (.fwd { p with subbed := true })
  | _ => .ok (.sub v args)

/-- Evaluation of a hint expression with name lookup `lk`. `tr = false`: Python evaluating an annotation (a string
    literal stays a string); `tr = true`: the text of a string hint being `eval`ed by the resolver (string literals
    inside it are resolved by the same resolver in the same scope, so quoting is transparent). -/
def evalH (hp : Heap) (lk : Name → Except Err H) (tr : Bool) : HExpr → Except Err H
  | .name n => lk n
  | .attr e n => (evalH hp lk tr e).bind (fun v => getAttr hp v n)
  | .sub e es => (evalH hp lk tr e).bind (fun v => (evalHs hp lk tr es).bind (fun vs => subH v vs))
  | .bor a b => (evalH hp lk tr a).bind (fun x => (evalH hp lk tr b).bind (fun y => orH x y))
  | .lit l => .ok (.lit l)
  | .quoted e => if tr then evalH hp lk tr e else .ok (.str e)
where
  evalHs (hp : Heap) (lk : Name → Except Err H) (tr : Bool) : List HExpr → Except Err (List H)
  | [] => .ok []
  | e :: es => (evalH hp lk tr e).bind (fun v => (evalHs hp lk tr es).bind (fun vs => .ok (v :: vs)))

/-- every remaining string of an evaluated hint is resolved by `rs` (coerce_func_hint_root for the root,
    reduce_hint_pep484_ref for nested ones) -/
def resolveH (rs : HExpr → Except Err H) : H → Except Err H
  | .str e => rs e
  | .sub h args => (resolveH rs h).bind (fun v => (resolveHs rs args).bind (fun vs => .ok (.sub v vs)))
  | .bor a b => (resolveH rs a).bind (fun x => (resolveH rs b).bind (fun y => .ok (.bor x y)))
  | h => .ok h
where
  resolveHs (rs : HExpr → Except Err H) : List H → Except Err (List H)
  | [] => .ok []
  | h :: hs => (resolveH rs h).bind (fun v => (resolveHs rs hs).bind (fun vs => .ok (v :: vs)))

/-! ### program state -/

/-- one activation of a function body or class body -/
structure Frame where
  aid : Nat            -- activation identity
  isCls : Bool
  code : Nat           -- code object identity (two activations of one function share it)
  name : Name
  locals : Scope
deriving Repr, Inhabited

/-- what a resolved proxy refers to (`_ref_proxy_to_resolved_hint`) -/
inductive Ref where
  | val (v : H)
  | fake (n : Name)    -- BeartypeForwardRefFakeABC subclass: checks by class NAME
deriving Repr, Inhabited

structure FuncRec where
  fid : Nat
  name : Name
  lex : List Nat                 -- activations lexically enclosing the def, innermost first
  expr : HExpr
  hint0 : H                      -- the annotation as Python evaluated it at the def point
  hint : Option H                -- after decoration: strings resolved, possibly to proxies
deriving Repr, Inhabited

structure St where
  builtins : Scope
  globals : Scope
  acts : List Frame              -- every activation so far (locals survive the return: closure cells)
  stack : List Nat               -- running activations, innermost first
  heap : Heap
  funcs : List FuncRec
  cache : List (Proxy × Ref)
deriving Repr, Inhabited

def St.act? (s : St) (a : Nat) : Option Frame := s.acts.find? (fun fr => fr.aid == a)
def St.func? (s : St) (f : Nat) : Option FuncRec := s.funcs.find? (fun r => r.fid == f)

def firstSome {α} : List (Option α) → Option α
  | [] => none
  | some a :: _ => some a
  | none :: r => firstSome r

def St.localsOf (s : St) (a : Nat) : Scope := match s.act? a with
  | some fr => fr.locals
  | none => []

def St.isClsAct (s : St) (a : Nat) : Bool := match s.act? a with
  | some fr => fr.isCls
  | none => false

/-! ### specification: Python's scoping for an annotation written at the def point -/

/-- activations an annotation can see: the innermost one whatever it is, outer ones only if functions -/
def visible (s : St) : List Nat → List Nat
  | [] => []
  | a :: r => a :: r.filter (fun b => !s.isClsAct b)

def specLookup (s : St) (lex : List Nat) (n : Name) : Option H :=
  firstSome ((visible s lex).map (fun a => (s.localsOf a).get? n) ++ [s.globals.get? n, s.builtins.get? n])

/-- Python evaluating the annotation NOW: unbound name = NameError -/
def pyLk (s : St) (lex : List Nat) (n : Name) : Except Err H :=
  match specLookup s lex n with
  | some v => .ok v
  | none => .error (.name n)

/-- the specification's reading of a not yet bound name: a leaf that raises a forward-reference error when a
    check reaches it (modelled as a frameless proxy of that name) -/
def specLk (s : St) (f : Nat) (lex : List Nat) (n : Name) : Except Err H :=
  match specLookup s lex n with
  | some v => .ok v
  | none => .ok (.fwd { owner := f, path := [n], frame := none })

/-! ### implementation: the forward scope of `make_scope_forward_decor_curr` -/

/-- `find_func_locals_frame`: first RUNNING activation (innermost first) whose code name is `nm` -/
def findFrameNamed (s : St) (nm : Name) : List Nat → Option Frame
  | [] => none
  | a :: r => match s.act? a with
    | some fr => if fr.name = nm then some fr else findFrameNamed s nm r
    | none => findFrameNamed s nm r

def lexNames (s : St) (lex : List Nat) : List Name := lex.map (fun a => match s.act? a with
  | some fr => fr.name
  | none => "")

/-- the running activation whose locals become `func_locals`: the lexical scope just outside the decorated
    classes (`ignore_func_scope_names = len(cls_stack)`), i.e. the directly enclosing scope when the function itself
    is decorated -/
def parentFrame (s : St) (fr : FuncRec) (cs : List (Name × Nat)) : Option Frame :=
  match (lexNames s fr.lex)[cs.length]? with
  | some nm => findFrameNamed s nm s.stack
  | none => none

/-- `func_locals[root] = cls_root; func_locals[curr] = cls_curr; func_locals.update(cls_curr.__dict__)` -/
def clsLayer (s : St) (cs : List (Name × Nat)) : Scope :=
  match cs.head?, cs.getLast? with
  | some root, some curr => s.heap.attrs curr.2 ++ [(curr.1, H.obj curr.2), (root.1, H.obj root.2)]
  | _, _ => []

def optLocals : Option Frame → Scope
  | some f => f.locals
  | none => []

/-- `func_locals` and the parent frame's code object. `cs` = class stack (root first) when beartype decorates a
    CLASS; `cs = []` when it decorates the function itself. -/
def fwLocals (s : St) (fr : FuncRec) (cs : List (Name × Nat)) : Scope × Option Nat :=
  if cs.isEmpty && fr.lex.isEmpty then ([], none)      -- not nested: no locals
  else
    (clsLayer s cs ++ optLocals (parentFrame s fr cs), (parentFrame s fr cs).map (·.code))

/-- the layers of the forward scope, innermost (wins) first: `BeartypeForwardScope(builtins)`,
    `.update(func_globals)`, `.update(func_locals)` -/
def fwLayers (s : St) (fr : FuncRec) (cs : List (Name × Nat)) : Scope :=
  (fwLocals s fr cs).1 ++ s.globals ++ s.builtins

/-- a dictionary whose `__missing__` answers with a proxy -/
def proxyLk (sc : Scope) (f : Nat) (frame : Option Nat) (n : Name) : Except Err H :=
  match sc.get? n with
  | some v => .ok v
  | none => .ok (.fwd { owner := f, path := [n], frame })

/-- a dictionary whose missing key is a NameError -/
def boundLk (sc : Scope) (n : Name) : Except Err H :=
  match sc.get? n with
  | some w => .ok w
  | none => .error (.name n)

/-- `scope[name]` with `__missing__` -/
def fwLk (s : St) (fr : FuncRec) (cs : List (Name × Nat)) (n : Name) : Except Err H :=
  proxyLk (fwLayers s fr cs) fr.fid (fwLocals s fr cs).2 n

def HExpr.unquote : HExpr → HExpr
  | .quoted e => e.unquote
  | e => e

/-- `hint in func_basenames_scoped`: the WHOLE string is a bare name that is a component of the qualified name of
    a nested callable decorated by itself — then a frameless proxy is returned without building the scope -/
def shortcut (s : St) (fr : FuncRec) (cs : List (Name × Nat)) (e : HExpr) : Option Name :=
  match e.unquote with
  | .name n =>
    if cs.isEmpty && !(cs.isEmpty && fr.lex.isEmpty) && (lexNames s fr.lex ++ [fr.name]).contains n then some n else none
  | _ => none

/-- `resolve_hint_pep484_ref_str_decor_curr` for one string hint -/
def resolveStr (s : St) (fr : FuncRec) (cs : List (Name × Nat)) (e : HExpr) : Except Err H :=
  match shortcut s fr cs e with
  | some n => .ok (.fwd { owner := fr.fid, path := [n], frame := none })
  | none => evalH s.heap (fwLk s fr cs) true e

/-- what the decorator stores for the annotation -/
def decorVal (s : St) (fr : FuncRec) (cs : List (Name × Nat)) : Except Err H :=
  resolveH (resolveStr s fr cs) fr.hint0

/-! ### call time: the proxy state machine -/

def cacheGet? : List (Proxy × Ref) → Proxy → Option Ref
  | [], _ => none
  | (q, r) :: rest, p => if q = p then some r else cacheGet? rest p

/-- `getattr` chain from a value -/
def attrChain (hp : Heap) : H → List Name → Option H
  | v, [] => some v
  | .obj id, n :: r => match (hp.attrs id).get? n with
    | some w => attrChain hp w r
    | none => none
  | _, _ :: _ => none

/-- module attribute named by the dotted path, relative to the module of the decorated callable (then the
    builtin types for a bare name: `BUILTIN_NAME_TO_TYPE`) -/
def modAttr (s : St) : List Name → Option H
  | [] => none
  | [n] => match s.globals.get? n with
    | some v => some v
    | none => s.builtins.get? n
  | n :: r => match s.globals.get? n with
    | some v => attrChain s.heap v r
    | none => none

/-- first running activation (innermost first) executing code object `c` (`find_frame_codeobject_or_none`) -/
def findFrameCode (s : St) (c : Nat) : List Nat → Option Frame
  | [] => none
  | a :: r => match s.act? a with
    | some fr => if fr.code = c then some fr else findFrameCode s c r
    | none => findFrameCode s c r

def dotted : List Name → Name
  | [] => ""
  | [n] => n
  | n :: r => n ++ "." ++ dotted r

/-- `__resolved_hint_beartype__`: the referent and the new cache. A failure leaves the cache as it was. -/
def resolveProxy (s : St) (p : Proxy) : Except Err Ref × List (Proxy × Ref) :=
  match cacheGet? s.cache p with
  | some r => (.ok r, s.cache)
  | none =>
    match modAttr s p.path with
    | some v => (.ok (.val v), (p, .val v) :: s.cache)
    | none =>
      match p.frame with
      | none => (.error (.fwdref p.path), s.cache)
      | some c =>
        match findFrameCode s c s.stack with
        | some fr =>
          -- `func_local_parent_locals.get(referent_basename)`: the DOTTED name is the key
          match fr.locals.get? (dotted p.path) with
          | some v => (.ok (.val v), (p, .val v) :: s.cache)
          | none => (.error (.fwdref p.path), s.cache)
        | none =>
          -- the parent is no longer running: a fake proxy checking by name, cached like any referent
          (.ok (.fake (dotted p.path)), (p, .fake (dotted p.path)) :: s.cache)

/-- the hint a call checks against, proxies replaced by what they resolve to -/
inductive RH where
  | obj (id : Nat)
  | via (h : RH)               -- non-class referent checked inside the proxy's `__instancecheck__`
                                -- (is_bearable with BEARTYPE_CONF_NONRANDOM)
  | fake (n : Name)            -- name-based check
  | unres (path : List Name)   -- raises a forward-reference exception when a check reaches it
  | str (e : HExpr)
  | sub (h : RH) (args : List RH)
  | bor (a b : RH)
  | lit (l : Lit)
deriving Repr, Inhabited

/-- a referent value as a checked hint (a proxy inside a referent is not followed) -/
def embed : H → RH
  | .obj id => .obj id
  | .fwd p => .unres p.path
  | .str e => .str e
  | .sub h args => .sub (embed h) (embeds args)
  | .bor a b => .bor (embed a) (embed b)
  | .lit l => .lit l
where
  embeds : List H → List RH
  | [] => []
  | h :: hs => embed h :: embeds hs

def H.isObj : H → Bool
  | .obj _ => true
  | _ => false

/-- how a referent reached through a proxy is checked: a plain class by `isinstance`, anything else by
    `is_bearable(obj, referent, conf=BEARTYPE_CONF_NONRANDOM)` -/
def viaProxy (v : H) : RH := if v.isObj then embed v else .via (embed v)

def refRH : Ref → RH
  | .val v => viaProxy v
  | .fake n => .fake n

/-- force every proxy of a stored hint (a probe with enough objects needs each of them) -/
def force (s : St) : H → RH × List (Proxy × Ref)
  | .obj id => (.obj id, s.cache)
  | .fwd p => match resolveProxy s p with
    | (.ok r, c) => (refRH r, c)
    | (.error _, c) => (.unres p.path, c)
  | .str e => (.str e, s.cache)
  | .sub h args =>
    let (r, c) := force s h
    let (rs, c') := forces { s with cache := c } args
    (.sub r rs, c')
  | .bor a b =>
    let (x, c) := force s a
    let (y, c') := force { s with cache := c } b
    (.bor x y, c')
  | .lit l => (.lit l, s.cache)
where
  forces (s : St) : List H → List RH × List (Proxy × Ref)
  | [] => ([], s.cache)
  | h :: hs =>
    let (r, c) := force s h
    let (rs, c') := forces { s with cache := c } hs
    (r :: rs, c')

/-- the specification's hint for a call NOW -/
def specNow (s : St) (fr : FuncRec) : RH :=
  match evalH s.heap (specLk s fr.fid fr.lex) true fr.expr with
  | .ok v => embed v
  | .error _ => .unres []

/-! ### specification under REBINDING: an annotation denotes what its names denote when the `def` executes

  `specNow` reads every name in the current state; that is the property's reading only as long as no name of the
  annotation has been rebound since the `def` statement ran. An evaluated annotation is fixed when the `def`
  executes: `class K: …; def f(x: K)`, then `class K: …` again, leaves `f` annotated with the FIRST class. The
  property compares the string forms with that evaluated form, so the specified hint of a callable reads every
  name that was bound at the def point (Python's scoping there, in the state `s0` the `def` executed in) as the
  object it denoted THEN; only a name unbound at the def point (a string naming something defined later — the
  evaluated form does not exist for it) is read in the current state. (The unchanged library agrees: a string naming
  something bound in the forward scope is `eval`ed at decoration time, directly after the `def`, and the result is
  stored in the wrapper for good; only a name unbound then becomes a proxy, looked up as a module attribute / parent
  local when a check first needs it and cached from then on.) -/

/-- the specification's lookup for a callable whose `def` executed in state `s0`, asked in state `s` -/
def specDefLk (s0 s : St) (f : Nat) (lex : List Nat) (n : Name) : Except Err H :=
  match specLookup s0 lex n with
  | some v => .ok v
  | none => specLk s f lex n

/-- the specified hint of callable `fr`, whose `def` executed in state `s0`, for a call in state `s` -/
def specDef (s0 s : St) (fr : FuncRec) : RH :=
  match evalH s.heap (specDefLk s0 s fr.fid fr.lex) true fr.expr with
  | .ok v => embed v
  | .error _ => .unres []

/-- the def-point states of the callables defined so far (kept beside the state by whoever runs a history) -/
abbrev DefPoints := List (Nat × St)

def DefPoints.get? : DefPoints → Nat → Option St
  | [], _ => none
  | (g, s0) :: r, f => if g = f then some s0 else DefPoints.get? r f

/-- the specified hint of a call of `f` in state `s`: `specDef` from its recorded def point -/
def specCall (dp : DefPoints) (s : St) (f : Nat) : Option RH :=
  match s.func? f, dp.get? f with
  | some fr, some s0 => some (specDef s0 s fr)
  | _, _ => none

/-! ### events and histories -/

inductive Ev where
  | bindV (n : Name) (v : H)                 -- `class n: …` / `import … as n`: bind in the current scope
  | bindE (n : Name) (e : HExpr)             -- `n = <e>`
  | enter (isCls : Bool) (code : Nat) (name : Name)
  | leave (id : Nat)                         -- a class body ends: its locals become the attributes of object `id`
  | def_ (f : Nat) (name : Name) (e : HExpr) -- the def statement: Python evaluates the annotation
  | decorate (f : Nat) (cs : List (Name × Nat))  -- beartype generates the wrapper (class stack when decorating a class)
  | call (f : Nat)
deriving Repr, Inhabited

inductive Out where
  | silent
  | crash (e : Err)                 -- the statement raises: the program ends here
  | called (impl spec : RH)
deriving Repr, Inhabited

def updLocals (acts : List Frame) (a : Nat) (n : Name) (v : H) : List Frame :=
  acts.map (fun fr => if fr.aid = a then { fr with locals := (n, v) :: fr.locals } else fr)

/-- bind `n` in the current scope -/
def St.bind (s : St) (n : Name) (v : H) : St :=
  match s.stack with
  | [] => { s with globals := (n, v) :: s.globals }
  | a :: _ => { s with acts := updLocals s.acts a n v }

def setHint (fs : List FuncRec) (f : Nat) (h : H) : List FuncRec :=
  fs.map (fun r => if r.fid = f then { r with hint := some h } else r)

def step (s : St) : Ev → St × Out
  | .bindV n v => (s.bind n v, .silent)
  | .bindE n e => match evalH s.heap (pyLk s s.stack) false e with
    | .ok v => (s.bind n v, .silent)
    | .error err => (s, .crash err)
  | .enter isCls code name =>
    let a := s.acts.length
    ({ s with acts := s.acts ++ [{ aid := a, isCls, code, name, locals := [] }], stack := a :: s.stack }, .silent)
  | .leave id => match s.stack with
    | [] => (s, .silent)
    | a :: rest =>
      let s' := { s with stack := rest }
      if s.isClsAct a then ({ s' with heap := s.heap ++ [(id, s.localsOf a)] }, .silent) else (s', .silent)
  | .def_ f name e => match evalH s.heap (pyLk s s.stack) false e with
    | .ok v => ({ s with funcs := { fid := f, name, lex := s.stack, expr := e, hint0 := v, hint := none } :: s.funcs }, .silent)
    | .error err => (s, .crash err)
  | .decorate f cs => match s.func? f with
    | none => (s, .silent)
    | some fr => match decorVal s fr cs with
      | .ok h => ({ s with funcs := setHint s.funcs f h }, .silent)
      | .error err => (s, .crash err)
  | .call f => match s.func? f with
    | none => (s, .silent)
    | some fr => match fr.hint with
      | none => (s, .called (embed fr.hint0) (specNow s fr))     -- never decorated: nothing is checked
      | some h =>
        let (r, c) := force s h
        ({ s with cache := c }, .called r (specNow s fr))

def run (s : St) : List Ev → St × List Out
  | [] => (s, [])
  | ev :: evs =>
    let (s', o) := step s ev
    let (s'', os) := run s' evs
    (s'', o :: os)

/-- the def points along a history: a `def` statement records the state it executes in (a re-executed `def` of the
    same callable replaces the older record) -/
def recordDef (dp : DefPoints) (s : St) : Ev → DefPoints
  | .def_ f _ _ => (f, s) :: dp
  | _ => dp

/-- `run` that also keeps the def points -/
def runDP (dp : DefPoints) (s : St) : List Ev → DefPoints × St
  | [] => (dp, s)
  | ev :: evs => runDP (recordDef dp s ev) (step s ev).1 evs

def St.init (builtins : Scope) (heap : Heap) : St :=
  { builtins, globals := [], acts := [], stack := [], heap, funcs := [], cache := [] }

/-! ### the three ways of writing an annotation, and syntactic helpers used by the property statements -/

/-- names occurring in an expression (inside string literals too) -/
def HExpr.names : HExpr → List Name
  | .name n => [n]
  | .attr e _ => e.names
  | .sub e es => e.names ++ namesL es
  | .bor a b => a.names ++ b.names
  | .lit _ => []
  | .quoted e => e.names
where
  namesL : List HExpr → List Name
  | [] => []
  | e :: es => e.names ++ namesL es

/-- no string literal inside -/
def HExpr.plain : HExpr → Bool
  | .name _ => true
  | .attr e _ => e.plain
  | .sub e es => e.plain && plainL es
  | .bor a b => a.plain && b.plain
  | .lit _ => true
  | .quoted _ => false
where
  plainL : List HExpr → Bool
  | [] => true
  | e :: es => e.plain && plainL es

/-- no `|` (a quoted operand of `|` is a TypeError, so the leaf-quoting variant is only defined without it) -/
def HExpr.borFree : HExpr → Bool
  | .name _ => true
  | .attr e _ => e.borFree
  | .sub e es => e.borFree && borFreeL es
  | .bor _ _ => false
  | .lit _ => true
  | .quoted e => e.borFree
where
  borFreeL : List HExpr → Bool
  | [] => true
  | e :: es => e.borFree && borFreeL es

/-- the variant "strings only at the names": every name leaf selected by `q` becomes a string literal. The HEAD of
    a subscription stays evaluated (`'K'[int]` subscripts a str: a TypeError); the harness writes a subscription whose
    head is such a name as ONE string (`list['K[int]']`), which is `C07_equiv` for that sub-expression. -/
def quoteLeaves (q : Name → Bool) : HExpr → HExpr
  | .name n => if q n then .quoted (.name n) else .name n
  | .attr e n => .attr e n                     -- attribute chains stay evaluated
  | .sub e es => .sub e (quoteLeavesL q es)
  | .bor a b => .bor (quoteLeaves q a) (quoteLeaves q b)
  | .lit l => .lit l
  | .quoted e => .quoted e
where
  quoteLeavesL (q : Name → Bool) : List HExpr → List HExpr
  | [] => []
  | e :: es => quoteLeaves q e :: quoteLeavesL q es

/-- no proxy, no unresolved string inside -/
def H.closed : H → Bool
  | .obj _ => true
  | .fwd _ => false
  | .str _ => false
  | .sub h args => h.closed && closedL args
  | .bor a b => a.closed && b.closed
  | .lit _ => true
where
  closedL : List H → Bool
  | [] => true
  | h :: hs => h.closed && closedL hs

/-- `RH` without the "reached through a proxy" markers -/
def RH.erase : RH → RH
  | .via h => h.erase
  | .sub h args => .sub h.erase (eraseL args)
  | .bor a b => .bor a.erase b.erase
  | r => r
where
  eraseL : List RH → List RH
  | [] => []
  | r :: rs => r.erase :: eraseL rs

/-- the proxy state machine WITHOUT its cache: what a first resolution yields in this state -/
def resolveFresh (s : St) (p : Proxy) : Except Err Ref :=
  match modAttr s p.path with
  | some v => .ok (.val v)
  | none =>
    match p.frame with
    | none => .error (.fwdref p.path)
    | some c =>
      match findFrameCode s c s.stack with
      | some fr =>
        match fr.locals.get? (dotted p.path) with
        | some v => .ok (.val v)
        | none => .error (.fwdref p.path)
      | none => .ok (.fake (dotted p.path))

/-- `force` without the cache -/
def forceFresh (s : St) : H → RH
  | .obj id => .obj id
  | .fwd p => match resolveFresh s p with
    | .ok r => refRH r
    | .error _ => .unres p.path
  | .str e => .str e
  | .sub h args => .sub (forceFresh s h) (forceFreshL s args)
  | .bor a b => .bor (forceFresh s a) (forceFresh s b)
  | .lit l => .lit l
where
  forceFreshL (s : St) : List H → List RH
  | [] => []
  | h :: hs => forceFresh s h :: forceFreshL s hs

/-! ### small decidable views used by the witness theorems (`H`/`RH` are nested inductives without `DecidableEq`) -/

/-- head constructor of a checked hint: (0, id) a class/object, (1,·) through a proxy, (2,·) name-based fake,
    (3,·) raising leaf, (4,·) string, (5,·) subscription, (6,·) union, (7,·) literal -/
def RH.tag : RH → Nat × Nat
  | .obj id => (0, id)
  | .via _ => (1, 0)
  | .fake _ => (2, 0)
  | .unres _ => (3, 0)
  | .str _ => (4, 0)
  | .sub _ _ => (5, 0)
  | .bor _ _ => (6, 0)
  | .lit _ => (7, 0)

/-- (tag of the implementation's hint, tag of the specified hint) of a call -/
def Out.tags : Out → Option ((Nat × Nat) × (Nat × Nat))
  | .called i sp => some (i.tag, sp.tag)
  | _ => none

def lastTags (outs : List Out) : Option ((Nat × Nat) × (Nat × Nat)) := outs.getLast?.bind Out.tags

def H.objId? : H → Option Nat
  | .obj id => some id
  | _ => none

/-- the `k`-th output's tags -/
def tagsAt (outs : List Out) (k : Nat) : Option ((Nat × Nat) × (Nat × Nat)) := outs[k]?.bind Out.tags

/-- attribute access and subscription only on sub-expressions all of whose names satisfy `bound` (used by
    `C07_late`: a dotted name whose root is defined late is resolved by `modAttr`, a subscripted name defined late
    by the subscripted proxy, which drops the arguments — both stated separately: `C07_late_dotted`,
    `C07_late_subscripted`) -/
def lateSafe (bound : Name → Bool) : HExpr → Bool
  | .name _ => true
  | .attr e _ => e.names.all bound
  | .sub e es => e.names.all bound && lateSafeL bound es
  | .bor a b => lateSafe bound a && lateSafe bound b
  | .lit _ => true
  | .quoted e => lateSafe bound e
where
  lateSafeL (bound : Name → Bool) : List HExpr → Bool
  | [] => true
  | e :: es => lateSafe bound e && lateSafeL bound es

/-- what is bound at module level (globals over builtins) -/
def St.modScope (s : St) : Scope := s.globals ++ s.builtins

/-! ### module-level histories (statement vocabulary of `C07_history_*`) -/

/-- every proxy inside is frameless (as created for a callable defined at module level) -/
def H.frameless : H → Bool
  | .fwd p => p.frame.isNone
  | .sub h args => h.frameless && framelessL args
  | .bor a b => a.frameless && b.frameless
  | _ => true
where
  framelessL : List H → Bool
  | [] => true
  | h :: hs => h.frameless && framelessL hs

/-- an event of a program all of whose statements are at module level (no function or class bodies); bound
    values are hint objects without proxies -/
def Ev.modLevel : Ev → Bool
  | .bindV _ v => v.closed
  | .bindE _ e => e.plain
  | .def_ _ _ _ => true
  | .decorate _ cs => cs.isEmpty
  | .call _ => true
  | .enter _ _ _ => false
  | .leave _ => false

/-- a binding event binds a name that is bound nowhere at module level yet (nothing is REbound) -/
def Ev.fresh (s : St) : Ev → Bool
  | .bindV n _ => (s.modScope.get? n).isNone
  | .bindE n _ => (s.modScope.get? n).isNone
  | _ => true

/-- module-level history without rebinding, from state `s` -/
def ModHistory (s : St) : List Ev → Prop
  | [] => True
  | ev :: evs => ev.modLevel = true ∧ ev.fresh s = true ∧ ModHistory (step s ev).1 evs

/-- the event (re)defines or (re)decorates callable `f` -/
def Ev.touches (f : Nat) : Ev → Bool
  | .def_ g _ _ => g == f
  | .decorate g _ => g == f
  | _ => false


/-! ### predicates used in the statements of `Props/C07.lean` -/

/-- every attribute value in the heap is a hint object without proxies / strings -/
def HeapClosed (hp : Heap) : Prop := ∀ id n v, (hp.attrs id).get? n = some v → v.closed = true

/-- evaluation survives a heap that only gains entries -/
def HeapMono (hp0 hp : Heap) : Prop := ∀ id n w, (hp0.attrs id).get? n = some w → (hp.attrs id).get? n = some w

/-- every cached referent is what resolving the proxy NOW (without the cache) yields -/
def CacheOK (s : St) (c : List (Proxy × Ref)) : Prop :=
  ∀ p r, cacheGet? c p = some r → resolveFresh s p = .ok r

/-- only frameless proxies are cached -/
def CacheFrameless (c : List (Proxy × Ref)) : Prop := ∀ p r, cacheGet? c p = some r → p.frame = none

/-- what every module-level history preserves -/
structure ModInv (s : St) : Prop where
  top : s.stack = []
  cacheOK : CacheOK s s.cache
  cfl : CacheFrameless s.cache
  funcs : ∀ fr ∈ s.funcs, fr.lex = [] ∧ fr.hint0.frameless = true ∧ ∀ h, fr.hint = some h → h.frameless = true
  scopeClosed : ∀ n w, s.modScope.get? n = some w → w.closed = true
  heapClosed : HeapClosed s.heap

/-! ### the source text of an annotation: tokens, printer, parser

  `showE` prints an expression as Python writes it (`|` left-associative, postfix `.name` / `[…]`, parentheses only
  around a union that is the base of a postfix or the right operand of `|`); a string literal is ONE token holding
  the tokens of its content. `pExpr` is a recursive-descent parser of that grammar (fuel = recursion budget).
  `Props/C07.lean` proves `pExpr (showE e) = e`; the harness checks on every run that CPython's tokenizer and
  parser agree with `showE` on every generated annotation. -/

inductive Tok where
  | id (n : Name) | lit (l : Lit) | dot | lbr | rbr | comma | bar | lpar | rpar
  | str (ts : List Tok)
deriving Repr, Inhabited

def HExpr.isBor : HExpr → Bool
  | .bor _ _ => true
  | _ => false

def showE : HExpr → List Tok
  | .name n => [.id n]
  | .attr e n => (if e.isBor then [.lpar] ++ showE e ++ [.rpar] else showE e) ++ [.dot, .id n]
  | .sub e es => (if e.isBor then [.lpar] ++ showE e ++ [.rpar] else showE e) ++ [.lbr] ++ showArgs es ++ [.rbr]
  | .bor a b => showE a ++ [.bar] ++ (if b.isBor then [.lpar] ++ showE b ++ [.rpar] else showE b)
  | .lit l => [.lit l]
  | .quoted e => [.str (showE e)]
where
  showArgs : List HExpr → List Tok
  | [] => []
  | [e] => showE e
  | e :: e' :: es => showE e ++ [.comma] ++ showArgs (e' :: es)

mutual
def pExpr : Nat → List Tok → Option (HExpr × List Tok)
  | 0, _ => none
  | f+1, ts => match pPost f ts with
    | some (a, r) => pOrs f a r
    | none => none
def pOrs : Nat → HExpr → List Tok → Option (HExpr × List Tok)
  | 0, _, _ => none
  | f+1, acc, ts => match ts with
    | .bar :: r => (match pPost f r with
      | some (b, r') => pOrs f (.bor acc b) r'
      | none => none)
    | _ => some (acc, ts)
def pPost : Nat → List Tok → Option (HExpr × List Tok)
  | 0, _ => none
  | f+1, ts => match pAtom f ts with
    | some (a, r) => pTrail f a r
    | none => none
def pTrail : Nat → HExpr → List Tok → Option (HExpr × List Tok)
  | 0, _, _ => none
  | f+1, acc, ts => match ts with
    | .dot :: .id n :: r => pTrail f (.attr acc n) r
    | .lbr :: r => (match pArgs f r with
      | some (es, .rbr :: r') => pTrail f (.sub acc es) r'
      | _ => none)
    | _ => some (acc, ts)
def pAtom : Nat → List Tok → Option (HExpr × List Tok)
  | 0, _ => none
  | f+1, ts => match ts with
    | .id n :: r => some (.name n, r)
    | .lit l :: r => some (.lit l, r)
    | .lpar :: r => (match pExpr f r with
      | some (e, .rpar :: r') => some (e, r')
      | _ => none)
    | .str ts' :: r => (match pExpr f ts' with
      | some (e, []) => some (.quoted e, r)
      | _ => none)
    | _ => none
def pArgs : Nat → List Tok → Option (List HExpr × List Tok)
  | 0, _ => none
  | f+1, ts => match pExpr f ts with
    | some (e, .comma :: r) => (match pArgs f r with
      | some (es, r') => some (e :: es, r')
      | none => none)
    | some (e, r) => some ([e], r)
    | none => none
end

/-! ### printing then parsing -/

/-- the rest of the input does not continue a postfix expression -/
def stopTrail : List Tok → Bool
  | .dot :: .id _ :: _ => false
  | .lbr :: _ => false
  | _ => true

/-- … nor a union -/
def stopExpr : List Tok → Bool
  | .bar :: _ => false
  | ts => stopTrail ts

/-- every subscription has at least one argument (`x[]` is not Python) -/
def HExpr.wf : HExpr → Bool
  | .name _ => true
  | .attr e _ => e.wf
  | .sub e es => e.wf && !es.isEmpty && wfL es
  | .bor a b => a.wf && b.wf
  | .lit _ => true
  | .quoted e => e.wf
where
  wfL : List HExpr → Bool
  | [] => true
  | e :: es => e.wf && wfL es

def showP (e : HExpr) : List Tok := if e.isBor then [.lpar] ++ showE e ++ [.rpar] else showE e

end BearVerif.Fwd
