/-!
  C17 — executable model of the configuration memo table.

  Mirrors, function by function (all in /repo/beartype/_conf):
    * `confmain.py`   `BeartypeConf.__new__` (deprecated-alias folding, `get_is_color`,
                      `conf_kwargs`, default / validate / sanify, memo key
                      `tuple(conf_kwargs.values())`, lookup in `_beartype_conf_args_to_conf`,
                      creation), `kwargs`, the read-back properties, `__eq__`, `__hash__`,
                      the option list of `__repr__`
    * `_confget.py`   `get_is_color`                          -> `getIsColor`
    * `conftest.py`   `default_conf_kwargs`                   -> `defaultStep`
                      `die_if_conf_kwargs_invalid`            -> `validArgs` (per-option kinds come
                                                                 from the EXTRACTED table, `Table.opts`)
                      `sanify_conf_kwargs`                    -> `towerStep`
    * `_confoverrides.py` `sanify_conf_kwargs_is_pep484_tower`-> `towerStep`

  The model is parametric in a `Table` (option list in `conf_kwargs` order, per-option validity
  kind and signature default, deprecated aliases, violation-type fallbacks, the unpassed
  sentinel, the `${BEARTYPE_IS_COLOR}` value map). `Extracted/Conf.lean` instantiates it with
  what the translator reads from /repo on every run; the theorems hold for EVERY table that
  passes the decidable well-formedness test `Table.wf`.

  Python values are first-order terms (`Val`) with Python's `==`/`hash` on them (`pyEq`,
  `canon`): `True == 1 == 1.0 == Decimal(1) == IntEnum member of value 1`, everything else
  structural; lists, sets and dicts are unhashable.

  The abstract specification ("what the property says") is the pure function `normalize` —
  the outcome of a call is a function of (environment, keyword arguments) alone — plus
  "one object per equivalence class of normalised arguments" (`Props/C17.lean`).
-/
namespace BearVerif.Conf

/-! ## Python values -/

inductive NumTy | int | float | complex | decimal | fraction
deriving DecidableEq, Repr, Inhabited

/-- item of a collection passed as `claw_skip_package_names`: a `str` (with the fact whether
    every "."-separated part `isidentifier()`), or anything else (bytes, int, …) by equality class -/
inductive Item
  | str (s : String) (ident : Bool)
  | other (tag : Nat)
deriving DecidableEq, Repr, Inhabited

inductive CollKind | tuple | list | fset | set | str
deriving DecidableEq, Repr, Inhabited

/-- what a `FrozenDict` of hint overrides holds for the key `float` (resp. `complex`):
    nothing, a falsy value, exactly the numeric-tower target, or something else (by equality class) -/
inductive Ov | absent | falsy | tower | other (k : Nat)
deriving DecidableEq, Repr, Inhabited

inductive Val
  | none
  | bool (b : Bool)
  | num (ty : NumTy) (n : Int)                        -- int / integral float / complex / Decimal / Fraction
  | enum (cls idx : Nat)                              -- member of a plain `Enum` (identity equality)
  | intEnum (cls : Nat) (v : Int)                     -- member of an `IntEnum` (compares as its int value)
  | cls (id : Nat) (exc warn : Bool)                  -- a class; subclass of Exception / of Warning?
  | coll (k : CollKind) (items : List Item)           -- tuple / list / frozenset / set / str (items = characters)
  | fdict (f c : Ov) (rest : Nat) (hashable : Bool) (keysIdent : Bool)
      -- FrozenDict: float entry, complex entry, other entries (eq. class), hashable?, every key an identifier str?
  | dict (tag : Nat) (keysIdent : Bool)                -- plain dict (unhashable); every key an identifier str?
  | obj (id : Nat)                                    -- any other hashable object (identity equality)
deriving DecidableEq, Repr, Inhabited

/-- representative of the `==`-class of a value (what `hash` is a function of) -/
def canon : Val → Val
  | .bool b => .num .int (if b then 1 else 0)
  | .num _ n => .num .int n
  | .intEnum _ v => .num .int v
  | v => v

/-- Python `a == b` -/
def pyEq (a b : Val) : Bool := canon a == canon b

/-- `hash(v)` does not raise -/
def hashable : Val → Bool
  | .coll .list _ => false
  | .coll .set _ => false
  | .dict _ _ => false
  | .fdict _ _ _ h _ => h
  | _ => true

/-- tuple equality: same length, `==` elementwise -/
def pyEqL (a b : List Val) : Bool := a.map canon == b.map canon

/-! ## The option table -/

inductive Kind
  | bool            -- isinstance(v, bool)
  | tristate        -- isinstance(v, NoneTypeOr[bool])
  | enum (cls : Nat)-- isinstance(v, <enumeration cls>)
  | identColl       -- Collection of "."-delimited identifiers
  | frozenDict      -- isinstance(v, FrozenDict)
  | excType         -- is_type_subclass(v, Exception)
  | optExcType      -- None or is_type_subclass(v, Exception)
  | optWarnType     -- None or is_type_subclass(v, Warning)
deriving DecidableEq, Repr, Inhabited

def Item.isIdent : Item → Bool
  | .str _ i => i
  | .other _ => false

def validKind : Kind → Val → Bool
  | .bool, .bool _ => true
  | .tristate, .bool _ => true
  | .tristate, .none => true
  | .enum c, .enum c' _ => c == c'
  | .enum c, .intEnum c' _ => c == c'
  | .identColl, .coll _ items => items.all Item.isIdent
  | .identColl, .fdict _ _ _ _ ki => ki      -- a mapping is a Collection of its keys
  | .identColl, .dict _ ki => ki
  | .frozenDict, .fdict _ _ _ _ _ => true
  | .excType, .cls _ e _ => e
  | .optExcType, .none => true
  | .optExcType, .cls _ e _ => e
  | .optWarnType, .none => true
  | .optWarnType, .cls _ _ w => w
  | _, _ => false

structure Opt where
  name : String
  kind : Kind
  dflt : Val
deriving DecidableEq, Repr, Inhabited

structure Table where
  /-- options in the order of `conf_kwargs` (= the order of the memo key tuple) -/
  opts : List Opt
  /-- `(deprecated name, option)`: `if deprecated is not None: option = deprecated` -/
  aliases : List (String × String)
  /-- `(option, cls)`: `if kwargs[option] is None: kwargs[option] = violation_type or cls` -/
  fallbacks : List (String × Val)
  /-- `ARG_VALUE_UNPASSED` -/
  unpassed : Val
  /-- `SHELL_VAR_CONF_IS_COLOR_VALUE_TO_OBJ` -/
  colorEnv : List (String × Val)
  /-- `_BeartypeConfReduceDecoratorExceptionToWarningDefault` -/
  warnDefault : Val
deriving Repr, Inhabited

abbrev RawKwargs := List (String × Val)
abbrev Args := String → Val

def lookupKw : RawKwargs → String → Option Val
  | [], _ => none
  | (m, v) :: r, n => if m = n then some v else lookupKw r n

def findOpt (t : Table) (n : String) : Option Opt := t.opts.find? (fun o => o.name == n)

/-- the deprecated alias (if any) whose value replaces option `n` -/
def aliasOf (t : Table) (n : String) : Option String := (t.aliases.find? (fun p => p.2 == n)).map (·.1)

/-- CPython's keyword binding of one option: passed value, else the signature default -/
def rawArg (kw : RawKwargs) (o : Opt) : Val := (lookupKw kw o.name).getD o.dflt

/-- `__new__` "DEPRECATED" block -/
def aliasArg (t : Table) (kw : RawKwargs) (o : Opt) : Val :=
  match aliasOf t o.name with
  | some old =>
    match lookupKw kw old with
    | some v => if v = .none then rawArg kw o else v
    | none => rawArg kw o
  | none => rawArg kw o

def bindArgs (t : Table) (kw : RawKwargs) : Args := fun n =>
  match findOpt t n with
  | some o => aliasArg t kw o
  | none => .none

def upd (a : Args) (n : String) (v : Val) : Args := fun m => if m = n then v else a m

inductive Result
  | conf (id : Nat)     -- the configuration object (index in creation order)
  | paramExc            -- BeartypeConfParamException
  | shellVarExc         -- BeartypeConfShellVarException
  | rawError            -- any other exception (never produced by this model: see `C17_no_raw_error`)
deriving DecidableEq, Repr, Inhabited

/-- `get_is_color` (`env` = value of `${BEARTYPE_IS_COLOR}` if set) -/
def getIsColor (t : Table) (env : Option String) (v : Val) : Except Result Val :=
  match env with
  | some s =>
    match t.colorEnv.lookup s with
    | some ov => .ok ov
    | none => .error .shellVarExc
  | none => .ok (if pyEq v t.unpassed then .none else v)

/-- `violation_type or cls` -/
def orElse (vt fb : Val) : Val := if vt = .none then fb else vt

/-- `default_conf_kwargs`, the defaulting part -/
def defaulted (t : Table) (a : Args) : Args := fun n =>
  match t.fallbacks.lookup n with
  | some fb => if a n = .none then orElse (a "violation_type") fb else a n
  | none => a n

/-- `default_conf_kwargs` -/
def defaultStep (t : Table) (a : Args) : Except Result Args :=
  if a "violation_type" ≠ .none ∧ validKind .excType (a "violation_type") = false then .error .paramExc
  else .ok (defaulted t a)

/-- `die_if_conf_kwargs_invalid`: every option satisfies its kind and is hashable -/
def validArgs (t : Table) (a : Args) : Bool :=
  t.opts.all (fun o => validKind o.kind (a o.name) && hashable (a o.name))

def Ov.conflict : Ov → Bool
  | .other _ => true
  | _ => false

/-- `sanify_conf_kwargs` / `sanify_conf_kwargs_is_pep484_tower` -/
def towerStep (a : Args) : Except Result Args :=
  if a "is_pep484_tower" = .bool true then
    match a "hint_overrides" with
    | .fdict f c r h _ =>
      if f.conflict || c.conflict then .error .paramExc
      else .ok (upd a "hint_overrides" (.fdict .tower .tower r h false))   -- the merged keys include `float`
    | _ => .ok a
  else .ok a

/-- `conf_kwargs` after bind / `get_is_color` / default / validate / sanify, as a function of
    the option name; the pure part of `__new__` -/
def normArgs (t : Table) (env : Option String) (kw : RawKwargs) : Except Result Args :=
  let a0 := bindArgs t kw
  match getIsColor t env (a0 "is_color") with
  | .error r => .error r
  | .ok ic =>
    match defaultStep t (upd a0 "is_color" ic) with
    | .error r => .error r
    | .ok a2 => if validArgs t a2 then towerStep a2 else .error .paramExc

def keyOf (t : Table) (a : Args) : List Val := t.opts.map (fun o => a o.name)

/-- the memo key `tuple(conf_kwargs.values())` (or the exception raised before any lookup) -/
def normalize (t : Table) (env : Option String) (kw : RawKwargs) : Except Result (List Val) :=
  match normArgs t env kw with
  | .ok a => .ok (keyOf t a)
  | .error r => .error r

/-! ## The memo table -/

structure Conf where
  /-- `_conf_args` -/
  key : List Val
deriving DecidableEq, Repr, Inhabited

/-- `_beartype_conf_args_to_conf` in insertion order; a configuration object is its index -/
abbrev Cache := List Conf

/-- dict lookup: the entry whose key has equal hash and compares `==` -/
def lookup (cache : Cache) (key : List Val) : Option Nat := cache.findIdx? (fun c => pyEqL c.key key)

/-- `BeartypeConf.__new__` -/
def confNew (t : Table) (cache : Cache) (env : Option String) (kw : RawKwargs) : Cache × Result :=
  match normalize t env kw with
  | .error r => (cache, r)
  | .ok key =>
    match lookup cache key with
    | some i => (cache, .conf i)
    | none => (cache ++ [⟨key⟩], .conf cache.length)

/-- `BeartypeConf.kwargs` -/
def kwargsOf (t : Table) (c : Conf) : RawKwargs := (t.opts.map (·.name)).zip c.key

/-- `BeartypeConf.__eq__` -/
def confEq (c d : Conf) : Bool := pyEqL c.key d.key

/-- `BeartypeConf.__hash__` = `hash(_conf_args)`, a function of the `==`-classes of the key items -/
def confHash (c : Conf) : List Val := c.key.map canon

/-- the public read-only property of option `n` -/
def readback (t : Table) (c : Conf) (n : String) : Val :=
  let v := (lookupKw (kwargsOf t c) n).getD .none
  if n = "warning_cls_on_decorator_exception" ∧ v = t.warnDefault then .none else v

/-- `_is_warning_cls_on_decorator_exception_set` -/
def warnSet (t : Table) (c : Conf) : Bool :=
  (lookupKw (kwargsOf t c) "warning_cls_on_decorator_exception").getD .none != t.warnDefault

/-- option names listed by `__repr__`: those whose `kwargs` value `!=` that of the default
    configuration (whose key is `d`) -/
def reprNamesOf (t : Table) (d : List Val) (c : Conf) : List String :=
  ((t.opts.map (·.name)).zip (c.key.zip d)).filterMap (fun p => if pyEq p.2.1 p.2.2 then none else some p.1)

def reprNames (t : Table) (c : Conf) : List String :=
  match normalize t none [] with
  | .ok d => reprNamesOf t d c
  | .error _ => []

/-! ## Histories -/

inductive Op
  | new (env : Option String) (kw : RawKwargs)   -- `BeartypeConf(**kw)` under `${BEARTYPE_IS_COLOR}` = env
  | again (env : Option String) (i : Nat)        -- `BeartypeConf(**c.kwargs)` for the configuration object `i`
deriving Repr, Inhabited

def step (t : Table) (cache : Cache) : Op → Cache × Result
  | .new env kw => confNew t cache env kw
  | .again env i =>
    match cache[i]? with
    | some c => confNew t cache env (kwargsOf t c)
    | none => (cache, .rawError)   -- no such object: not a call the harness (or anybody) can make

def runFrom (t : Table) (cache : Cache) (ops : List Op) : Cache := ops.foldl (fun c op => (step t c op).1) cache
def run (t : Table) (ops : List Op) : Cache := runFrom t [] ops

/-- results of a history, in order -/
def resultsFrom (t : Table) : Cache → List Op → List Result
  | _, [] => []
  | c, op :: r => (step t c op).2 :: resultsFrom t (step t c op).1 r

/-! ## Well-formedness of a table (decidable; checked on the extracted table by `decide`) -/

def namesNodup : List String → Bool
  | [] => true
  | n :: r => !r.contains n && namesNodup r

/-- option `n` exists and is validated as kind `k` -/
def hasKind (t : Table) (n : String) (k : Kind) : Bool :=
  match findOpt t n with
  | some o => o.kind == k
  | none => false

def Table.wf (t : Table) : Bool :=
  namesNodup (t.opts.map (·.name))
  -- deprecated names are not option names
  && t.aliases.all (fun p => !(t.opts.map (·.name)).contains p.1)
  -- `violation_type` is not itself defaulted from `violation_type`
  && (t.fallbacks.lookup "violation_type").isNone
  -- defaulted options are validated as exception types; the fallback classes are valid, hashable
  && t.fallbacks.all (fun p => validKind .excType p.2 && hashable p.2 && hasKind t p.1 .excType)
  && hasKind t "violation_type" .optExcType
  && hasKind t "is_color" .tristate
  && hasKind t "is_pep484_tower" .bool
  && hasKind t "hint_overrides" .frozenDict
  -- the unpassed sentinel compares unequal to every tri-state boolean
  && !pyEq (.bool true) t.unpassed && !pyEq (.bool false) t.unpassed && !pyEq .none t.unpassed

end BearVerif.Conf
