/-
  C04 — model of the call wrapper that `@beartype` generates around a function.

  Concrete side mirrors, function for function:
    beartype/_util/func/arg/utilfuncarglen.py   get_func_args_lens      (`CodeFacts`, `factsOf` = what CPython's
                                                                          compiler puts into the code object)
    beartype/_util/func/arg/utilfuncargiter.py  iter_func_args          (`iterArgs`: arithmetic over co_argcount,
                                                                          co_posonlyargcount, co_kwonlyargcount,
                                                                          len(__defaults__), CO_VARARGS/CO_VARKEYWORDS,
                                                                          slices of co_varnames)
    beartype/_decor/_nontype/_wrap/_wrapargs.py code_check_args         (`codeCheckArgs`, `keywordable`: one
                                                                          localisation snippet per ANNOTATED parameter,
                                                                          indexed by the enumerate() index)
    beartype/_data/check/code/func/datacodefuncwrap.py
                                                ARG_KIND_TO_CODE_LOCALIZE (`localise`: which passed value(s) a snippet
                                                                          hands to the check), CODE_CALL_CHECKED /
                                                                          CODE_NORMAL_RETURN_* (`wrapperRun`)
    beartype/_decor/_nontype/_wrap/_wrapreturn.py code_check_return     (return check after the call-through)
    beartype/_decor/_nontype/_wrap/wrapmain.py  generate_code           (parameter checks, then call, then return check)

  Abstract side ("what the property statement says"): `pyBind` — CPython's argument
  binding written from the language reference (§6.3.4 "Calls": slots, positional
  arguments first, then keywords by name, then defaults; excess to * / **;
  positional-only names are not keywords) — and `Binding.expected`: every PASSED
  value paired with the parameter it is bound to, if that parameter is annotated.

  The per-parameter check itself is abstract: a predicate `ok : Name → Val → Bool`
  (C01/C02 are about what it computes). Values are object identities (`Nat` tokens).
  Not modelled: bound methods (`is_omit_boundmethod_arg_first`), ignorable / `NoReturn`
  hints, coroutines and generators (C08), the wrapper's hidden `__beartype_*` keyword
  parameters being passed by the caller, the sentinel object being passed as a value.

  Executable, core Lean only (no Mathlib): also used by the line-protocol driver.
-/
namespace BearVerif.Wrap

abbrev Name := String
/-- an object, up to identity -/
abbrev Val := Nat

inductive Kind where
  | posonly | flex | varpos | kwonly | varkw
deriving DecidableEq, Repr, Inhabited

structure Param where
  name : Name
  ann : Bool      -- carries an annotation
  dflt : Bool     -- has a default
deriving DecidableEq, Repr, Inhabited

/-- `def f(posonly…, /, flex…, *varpos, kwonly…, **varkw) -> ret` -/
structure Sig where
  posonly : List Param
  flex : List Param
  varpos : Option Param
  kwonly : List Param
  varkw : Option Param
  retAnn : Bool
deriving Repr, Inhabited

structure Call where
  args : List Val
  kwargs : List (Name × Val)
deriving DecidableEq, Repr, Inhabited

def optList {α} : Option α → List α
  | none => []
  | some a => [a]

def Sig.params (s : Sig) : List Param :=
  s.posonly ++ s.flex ++ optList s.varpos ++ s.kwonly ++ optList s.varkw

/-- CPython rejects `def` with a duplicate parameter name (SyntaxError). -/
def Sig.WF (s : Sig) : Prop := (s.params.map Param.name).Nodup

/-- keyword arguments reach a callee as a `dict`: keys are distinct. -/
def Call.WF (c : Call) : Prop := (c.kwargs.map Prod.fst).Nodup

instance (s : Sig) : Decidable s.WF := by unfold Sig.WF; infer_instance
instance (c : Call) : Decidable c.WF := by unfold Call.WF; infer_instance

/-- `kwargs.get(name)` -/
def lookup (n : Name) : List (Name × Val) → Option Val
  | [] => none
  | (k, v) :: r => if k = n then some v else lookup n r

/-! ## CPython's argument binding (language reference §6.3.4) -/

inductive BindErr where
  | tooManyPositional
  | multipleValues (n : Name)
  | unexpectedKeyword (n : Name)
  | missing
deriving DecidableEq, Repr

/-- one formal-parameter slot: `kw` = may be filled by keyword (not positional-only);
    `val = none` = unfilled (after binding: the default is used) -/
structure Slot where
  p : Param
  kw : Bool
  val : Option Val
deriving DecidableEq, Repr

/-- "If there are N positional arguments, they are placed in the first N slots." -/
def posSlots (kw : Bool) (args : List Val) : Nat → List Param → List Slot
  | _, [] => []
  | i, p :: ps => ⟨p, kw, args[i]?⟩ :: posSlots kw args (i + 1) ps

/-- "for each keyword argument, the identifier is used to determine the corresponding
    slot … If the slot is already filled, a TypeError exception is raised. Otherwise,
    the argument is placed in the slot". `ok none` = no (keywordable) slot of that name. -/
def placeKw (k : Name) (v : Val) : List Slot → Except BindErr (Option (List Slot))
  | [] => .ok none
  | sl :: r =>
    if sl.kw = true ∧ sl.p.name = k then
      (match sl.val with
       | some _ => .error (.multipleValues k)
       | none => .ok (some ({ sl with val := some v } :: r)))
    else
      (match placeKw k v r with
       | .error e => .error e
       | .ok none => .ok none
       | .ok (some r') => .ok (some (sl :: r')))

/-- all keyword arguments in call order; a keyword without slot goes to `**` if there is
    one ("that formal parameter receives a dictionary containing the excess keyword
    arguments"), else TypeError -/
def bindKws (hasVarkw : Bool) : List (Name × Val) → List Slot → List (Name × Val) →
    Except BindErr (List Slot × List (Name × Val))
  | [], sl, ex => .ok (sl, ex)
  | (k, v) :: r, sl, ex =>
    match placeKw k v sl with
    | .error e => .error e
    | .ok (some sl') => bindKws hasVarkw r sl' ex
    | .ok none => if hasVarkw then bindKws hasVarkw r sl (ex ++ [(k, v)]) else .error (.unexpectedKeyword k)

structure Binding where
  slots : List Slot               -- positional-only, flexible, keyword-only; `val = none` ⇒ default used
  star : List Val                 -- the `*args` tuple
  dstar : List (Name × Val)       -- the `**kwargs` dict
deriving DecidableEq, Repr

def slots0 (s : Sig) (c : Call) : List Slot :=
  posSlots false c.args 0 s.posonly ++ posSlots true c.args s.posonly.length s.flex ++
    s.kwonly.map (fun p => ⟨p, true, none⟩)

def unfilledMandatory (sl : Slot) : Bool := sl.val.isNone && !sl.p.dflt

def pyBind (s : Sig) (c : Call) : Except BindErr Binding :=
  let npos := s.posonly.length + s.flex.length
  -- "If there are more positional arguments than there are formal parameter slots, a
  --  TypeError exception is raised, unless a formal parameter using the syntax *identifier is present"
  if npos < c.args.length ∧ s.varpos.isNone = true then .error .tooManyPositional else
  match bindKws s.varkw.isSome c.kwargs (slots0 s c) [] with
  | .error e => .error e
  | .ok (slots, extra) =>
    -- "If there are any unfilled slots for which no default value is specified, a TypeError exception is raised."
    if slots.any unfilledMandatory then .error .missing
    else .ok ⟨slots, c.args.drop npos, extra⟩

/-- the property's right-hand side: every passed value with the parameter it is bound
    to, for annotated parameters; unpassed defaults do not appear -/
def slotPair (sl : Slot) : Option (Name × Val) :=
  if sl.p.ann then (match sl.val with | some v => some (sl.p.name, v) | none => none) else none

def starPairs (p : Option Param) (vs : List Val) : List (Name × Val) :=
  match p with
  | some q => if q.ann then vs.map (fun v => (q.name, v)) else []
  | none => []

def Binding.expected (s : Sig) (b : Binding) : List (Name × Val) :=
  b.slots.filterMap slotPair ++ starPairs s.varpos b.star ++ starPairs s.varkw (b.dstar.map Prod.snd)

/-! ## what beartype reads: the code object -/

structure CodeFacts where
  argcount : Nat            -- co_argcount (positional-only + flexible)
  posonlyargcount : Nat     -- co_posonlyargcount
  kwonlyargcount : Nat      -- co_kwonlyargcount
  varargs : Bool            -- co_flags & CO_VARARGS
  varkeywords : Bool        -- co_flags & CO_VARKEYWORDS
  varnames : List Name      -- co_varnames (parameters first: positional, keyword-only, *name, **name)
  ndefaults : Nat           -- len(func.__defaults__ or ())
deriving DecidableEq, Repr

/-- what CPython's compiler records for a `def` with this signature (validated against
    real code objects by the harness) -/
def factsOf (s : Sig) : CodeFacts where
  argcount := s.posonly.length + s.flex.length
  posonlyargcount := s.posonly.length
  kwonlyargcount := s.kwonly.length
  varargs := s.varpos.isSome
  varkeywords := s.varkw.isSome
  varnames := (s.posonly ++ s.flex ++ s.kwonly ++ optList s.varpos ++ optList s.varkw).map Param.name
  ndefaults := (s.posonly ++ s.flex).countP (·.dflt)

/-- Python `l[a:b]` for `0 ≤ a`, `0 ≤ b` -/
def pySlice {α} (l : List α) (a b : Nat) : List α := (l.drop a).take (b - a)

/-- one `if n: for arg_name in args_name[first:first+n]: yield (kind, arg_name, …); first += n`
    block of `iter_func_args` (the first block is written `args_name[first:n]` with `first = 0` in the source,
    the same slice) -/
def seg (k : Kind) (names : List Name) (first n : Nat) : List (Kind × Name) × Nat :=
  if n ≠ 0 then ((pySlice names first (first + n)).map (fun a => (k, a)), first + n) else ([], first)

def nameAt (k : Kind) (names : List Name) (i : Nat) : List (Kind × Name) :=
  match names[i]? with
  | some a => [(k, a)]
  | none => []

/-- `iter_func_args(func, is_unwrap=False)` for a pure-Python function that is not a
    bound method: kinds and names in the order yielded (defaults are yielded too but
    `code_check_args` ignores them) -/
def iterArgs (f : CodeFacts) : List (Kind × Name) :=
  let lenPosFlex := f.argcount
  let lenKw := f.kwonlyargcount
  if lenPosFlex + lenKw + f.varargs.toNat + f.varkeywords.toNat = 0 then [] else
  let names := f.varnames
  let lenPos := f.posonlyargcount
  let lenFlex := lenPosFlex - lenPos
  let nOpt := f.ndefaults
  let flexOpt := min lenFlex nOpt
  let posOpt := nOpt - flexOpt
  let posMand := lenPos - posOpt
  let flexMand := lenFlex - flexOpt
  let s1 := seg .posonly names 0 posMand
  let s2 := seg .posonly names s1.2 posOpt
  let s3 := seg .flex names s2.2 flexMand
  let s4 := seg .flex names s3.2 flexOpt
  let first := s4.2
  let lastAfter := first + lenKw
  s1.1 ++ s2.1 ++ s3.1 ++ s4.1 ++
    (if f.varargs then nameAt .varpos names lastAfter else []) ++
    (if lenKw ≠ 0 then (pySlice names first lastAfter).map (fun a => (Kind.kwonly, a)) else []) ++
    (if f.varkeywords then nameAt .varkw names (lastAfter + f.varargs.toNat) else [])

/-! ## the generated wrapper -/

/-- one localisation snippet of `ARG_KIND_TO_CODE_LOCALIZE`, formatted with
    `arg_index` / `arg_name` -/
inductive Snip where
  | posonly (i : Nat) (n : Name)      -- if len(args) > i: pith = args[i]
  | flex (i : Nat) (n : Name)         -- pith = args[i] if len(args) > i else kwargs.get(n, SENTINEL); if pith is not SENTINEL:
  | varpos (i : Nat) (n : Name)       -- for pith in args[i:]:
  | kwonly (n : Name)                 -- pith = kwargs.get(n, SENTINEL); if pith is not SENTINEL:
  | varkw (n : Name)                  -- for pith in (kwargs[k] for k in kwargs.keys() - keywordable):
deriving DecidableEq, Repr

def snipOf : Kind → Nat → Name → Snip
  | .posonly, i, n => .posonly i n
  | .flex, i, n => .flex i n
  | .varpos, i, n => .varpos i n
  | .kwonly, _, n => .kwonly n
  | .varkw, _, n => .varkw n

/-- the loop of `code_check_args`: `for arg_index, (arg_kind, arg_name, _) in enumerate(iter_func_args(…))`,
    skipping unannotated parameters -/
def codeCheckArgs (ann : Name → Bool) : Nat → List (Kind × Name) → List Snip
  | _, [] => []
  | i, (k, n) :: r => (if ann n then [snipOf k i n] else []) ++ codeCheckArgs ann (i + 1) r

def isKeywordKind : Kind → Bool
  | .flex => true
  | .kwonly => true
  | _ => false

/-- `args_name_keywordable`: names of ALL flexible and keyword-only parameters -/
def keywordable (metas : List (Kind × Name)) : List Name :=
  (metas.filter (fun m => isKeywordKind m.1)).map Prod.snd

/-- `decoratee_annotations.get(arg_name)` -/
def Sig.annOf (s : Sig) (n : Name) : Bool := s.params.any (fun p => p.name = n ∧ p.ann = true)

def flexVal (c : Call) (i : Nat) (n : Name) : Option Val :=
  match c.args[i]? with
  | some v => some v
  | none => lookup n c.kwargs

def excessKw (kwable : List Name) (kws : List (Name × Val)) : List (Name × Val) :=
  kws.filter (fun kv => !kwable.contains kv.1)

def pairWith (n : Name) : Option Val → List (Name × Val)
  | some v => [(n, v)]
  | none => []

/-- the values a snippet hands to the check of parameter `n`, in order -/
def localise (kwable : List Name) (c : Call) : Snip → List (Name × Val)
  | .posonly i n => pairWith n c.args[i]?
  | .flex i n => pairWith n (flexVal c i n)
  | .varpos i n => (c.args.drop i).map (fun v => (n, v))
  | .kwonly n => pairWith n (lookup n c.kwargs)
  | .varkw n => (excessKw kwable c.kwargs).map (fun kv => (n, kv.2))

def checksFrom (ann : Name → Bool) (kwable : List Name) (c : Call) (i : Nat) (metas : List (Kind × Name)) :
    List (Name × Val) :=
  (codeCheckArgs ann i metas).flatMap (localise kwable c)

/-- every (parameter, value) check the wrapper performs before the call-through when
    none fails, in order -/
def argChecks (s : Sig) (c : Call) : List (Name × Val) :=
  let metas := iterArgs (factsOf s)
  checksFrom s.annOf (keywordable metas) c 0 metas

inductive Result where
  | returned (v : Val)
  | raised (e : Val)                       -- the body's own exception, propagated
  | typeError                              -- raised by the call-through (the call does not bind)
  | paramViolation (n : Name) (v : Val)    -- BeartypeCallHintParamViolation
  | returnViolation (v : Val)              -- BeartypeCallHintReturnViolation
deriving DecidableEq, Repr

inductive BodyRes where
  | ret (v : Val)
  | exc (e : Val)
deriving DecidableEq, Repr

structure Outcome where
  trace : List (Name × Val)        -- checks performed, in order (the failing one last)
  result : Result
  ran : Nat                        -- how often the original callable ran
  received : Option Call           -- the arguments the original was called with
  bound : Option Binding           -- … and what its parameters were bound to
deriving DecidableEq, Repr

/-- checks in order until the first failure: (performed, failing one) -/
def runChecks (ok : Name → Val → Bool) : List (Name × Val) → List (Name × Val) × Option (Name × Val)
  | [] => ([], none)
  | x :: r => if ok x.1 x.2 then ((x :: (runChecks ok r).1), (runChecks ok r).2) else ([x], some x)

def retName : Name := "return"

/-- after the original returned `v` -/
def finishReturn (ok : Name → Val → Bool) (s : Sig) (c : Call) (b : Binding) (t : List (Name × Val)) (v : Val) :
    Outcome :=
  if s.retAnn then
    (if ok retName v then ⟨t ++ [(retName, v)], .returned v, 1, some c, some b⟩
     else ⟨t ++ [(retName, v)], .returnViolation v, 1, some c, some b⟩)
  else ⟨t, .returned v, 1, some c, some b⟩

/-- `__beartype_func(*args, **kwargs)`: CPython binds the very same positional and
    keyword arguments to the original's parameters, or raises TypeError -/
def callThrough (ok : Name → Val → Bool) (body : Binding → BodyRes) (s : Sig) (c : Call) (t : List (Name × Val)) :
    Outcome :=
  match pyBind s c with
  | .error _ => ⟨t, .typeError, 0, none, none⟩
  | .ok b =>
    (match body b with
     | .exc e => ⟨t, .raised e, 1, some c, some b⟩
     | .ret v => finishReturn ok s c b t v)

/-- the wrapper: parameter checks (raising at the first failure), call-through, return check -/
def wrapperRun (ok : Name → Val → Bool) (body : Binding → BodyRes) (s : Sig) (c : Call) : Outcome :=
  let rc := runChecks ok (argChecks s c)
  match rc.2 with
  | some x => ⟨rc.1, .paramViolation x.1 x.2, 0, none, none⟩
  | none => callThrough ok body s c rc.1

/-- the declared parameter order with kinds (what `iter_func_args` must yield) -/
def declared (s : Sig) : List (Kind × Name) :=
  s.posonly.map (fun p => (Kind.posonly, p.name)) ++ s.flex.map (fun p => (Kind.flex, p.name)) ++
    (optList s.varpos).map (fun p => (Kind.varpos, p.name)) ++ s.kwonly.map (fun p => (Kind.kwonly, p.name)) ++
    (optList s.varkw).map (fun p => (Kind.varkw, p.name))

end BearVerif.Wrap
