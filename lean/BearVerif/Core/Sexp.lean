/-
  S-expressions: the wire format of the line protocol between the Python
  harness and the Lean model driver. Executable only; nothing is proved here.
-/
namespace BearVerif

inductive Sexp where
  | atom (s : String)
  | list (xs : List Sexp)
deriving Repr, Inhabited, BEq

namespace Sexp

/-- Tokenise: parentheses are single tokens, atoms are maximal runs of
    non-space non-paren characters; `"`-quoted atoms may contain anything but
    `"` (the harness never sends a quote inside a quoted atom). -/
partial def tokens (cs : List Char) (cur : List Char) (acc : Array String) : Array String :=
  let flush (acc : Array String) := if cur.isEmpty then acc else acc.push (String.ofList cur.reverse)
  match cs with
  | [] => flush acc
  | '(' :: r => tokens r [] ((flush acc).push "(")
  | ')' :: r => tokens r [] ((flush acc).push ")")
  | '"' :: r =>
      let body := r.takeWhile (· != '"')
      let rest := (r.dropWhile (· != '"')).drop 1
      tokens rest [] ((flush acc).push ("\"" ++ String.ofList body))
  | c :: r => if c.isWhitespace then tokens r [] (flush acc) else tokens r (c :: cur) acc

partial def parseList (ts : Array String) (i : Nat) (acc : Array Sexp) : Option (List Sexp × Nat) :=
  if h : i < ts.size then
    let t := ts[i]
    if t == ")" then some (acc.toList, i + 1)
    else if t == "(" then
      match parseList ts (i + 1) #[] with
      | some (xs, j) => parseList ts j (acc.push (.list xs))
      | none => none
    else
      let a := if t.startsWith "\"" then (t.drop 1).toString else t
      parseList ts (i + 1) (acc.push (.atom a))
  else none

/-- Parse one line holding exactly one s-expression. -/
def parse (line : String) : Option Sexp :=
  let ts := tokens line.toList [] #[]
  if h : 0 < ts.size then
    if ts[0] == "(" then
      match parseList ts 1 #[] with
      | some (xs, j) => if j == ts.size then some (.list xs) else none
      | none => none
    else if ts.size == 1 then some (.atom ts[0]) else none
  else none

partial def toStr : Sexp → String
  | .atom s => s
  | .list xs => "(" ++ " ".intercalate (xs.map toStr) ++ ")"

def nat? : Sexp → Option Nat
  | .atom s => s.toNat?
  | _ => none

def int? : Sexp → Option Int
  | .atom s => s.toInt?
  | _ => none

def str? : Sexp → Option String
  | .atom s => some s
  | _ => none

def items? : Sexp → Option (List Sexp)
  | .list xs => some xs
  | _ => none

end Sexp
end BearVerif
