/-!
  C05 — the import hook's AST transformation, as an executable model.

  Mirrors (function by function)
    beartype/claw/_ast/clawastmain.py        BeartypeNodeTransformer.generic_visit / visit_ClassDef / visit_FunctionDef
    beartype/claw/_ast/_kind/clawastassign.py visit_Assign / visit_AnnAssign
    beartype/claw/_ast/_kind/clawastmodule.py visit_Module (insertion index of the star import)
    beartype/claw/_ast/_kind/clawastimport.py visit_Import / visit_ImportFrom / map_node_attr_imported_to_assigned /
                                              _decorate_node_beartype(+_last_before_decor_hostile) / _is_node_scoped_attr_name
    beartype/claw/_ast/_scope/clawastscopes.py, clawastscope.py, clawastscopebefore.py (scope stack, copy-on-write beforelist)
    beartype/claw/_ast/_clawastutil.py        (`conf=` keyword iff the configuration differs from the default)

  Python modules are abstracted to a mini-AST: statements that matter to the transformer keep their
  structure, every original *expression* is an opaque `E` (identity, purity flag, source line).
  The three node kinds the hook ADDS are constructors of the same types (`Deco.bt`, `Stmt.btImport`,
  `Stmt.dieIf`) so that input and output live in one type and `erase` can be stated.

  `xform` = what the code does (scope STACK pushed in `generic_visit`, i.e. after the node's own
  `visit_*` ran; index loops for the import position and for LAST_BEFORE_DECOR_HOSTILE).
  `byHand` = what the property statement says ("@beartype on every annotated function and every class,
  die_if_unbearable after every annotated assignment with a value outside class bodies, one import after the
  docstring and `__future__` imports"), written declaratively (a flag "nearest enclosing def/class is a class",
  `span`, `takeWhile`/`dropWhile`).

  Modelled behaviour is the FIXED one for `async def` (fixes/C05_async_scope.patch: `AsyncFunctionDef`
  opens a lexical scope like `FunctionDef`; the unpatched tree does not push a scope for it).

  Assumptions (stated in the evidence): PEP 695 `type` statements are not modelled (the hook rewrites them on
  purpose); relative imports are no-ops (the hooked module is not itself inside a beforelist package).
-/
namespace BearVerif.ClawAst

/-- an opaque original expression: identity, "has no side effect" flag, source line -/
structure E where
  id : Nat
  pure : Bool
  line : Nat
deriving DecidableEq, Repr, Inhabited

/-- `BeartypeDecorPlaceSubtrie`: `None` (= a decorator-hostile decorator) or a frozen dict of
    the four `BeartypeDecorPlaceTrieABC` kinds (0 packages, 1 package, 2 type, 3 instance). -/
inductive Trie where
  | leaf
  | node (kind : Nat) (kids : List (String × Trie))
deriving Repr, Inhabited

abbrev Kids := List (String × Trie)
/-- `scoped_attr_basename_trie` (a ChainMap) flattened, newest binding first; `[]` = `None`/empty -/
abbrev Env := Kids

def kindType : Nat := 2
def kindInstance : Nat := 3

inductive Place where
  | first | last | lastBeforeHostile
deriving DecidableEq, Repr, Inhabited

/-- the part of `BeartypeConf` (and of `claw_state`) the transformer reads -/
structure ClawConf where
  pep526 : Bool          -- claw_is_pep526
  placeFunc : Place      -- claw_decor_place_func
  placeType : Place      -- claw_decor_place_type
  isDefault : Bool       -- conf == BEARTYPE_CONF_DEFAULT
  schema : Kids          -- claw_state.node_scope_beforelist_global.schema_attr_basename_trie
deriving Repr, Inhabited

inductive Deco where
  | orig (e : E) (names : List String)   -- existing decorator; dotted basenames after unwrapping a call ([] if not a name chain)
  | bt (line : Nat) (conf : Bool)         -- ADDED  @__beartype__  /  @__beartype__(conf=…)
deriving Repr, Inhabited

inductive Target where
  | name (n : String)
  | attr (obj : E) (a : String)
  | sub (obj : E) (idx : E)
deriving DecidableEq, Repr, Inhabited

inductive Stmt where
  | funcDef (line : Nat) (isAsync : Bool) (name : String) (decos : List Deco) (typed : Bool) (heads : List E)
      (body : List Stmt)
  | classDef (line : Nat) (name : String) (decos : List Deco) (heads : List E) (body : List Stmt)
  | annAssign (line : Nat) (tgt : Target) (ann : E) (annNames : List String) (value : Option E)
  | assign (line : Nat) (tgts : List (Option String)) (value : E) (callee : Option (List String))
  | importMod (line : Nat) (mods : List (List String))
  | importFrom (line : Nat) (level : Nat) (mod : List String) (names : List (String × String))
  | futureImport (line : Nat)
  | docExpr (line : Nat)
  | compound (line : Nat) (kind : String) (heads : List E) (bodies : List (List Stmt))
  | simple (line : Nat) (es : List E)
  | btImport (line : Nat)                                          -- ADDED  from beartype.claw._ast._clawaststar import *
  | dieIf (line : Nat) (pith : Target) (ann : E) (conf : Bool)     -- ADDED  __die_if_unbearable_beartype__(pith, ann, …)
deriving Repr, Inhabited

abbrev Module := List Stmt

namespace Deco
def isAdded : Deco → Bool
  | .bt .. => true
  | .orig .. => false
def occ : Deco → List E
  | .orig e _ => [e]
  | .bt .. => []
end Deco

namespace Target
def occ : Target → List E
  | .name _ => []
  | .attr o _ => [o]
  | .sub o i => [o, i]
def nameOf : Target → Option String
  | .name n => some n
  | _ => none
def isSub : Target → Bool
  | .sub .. => true
  | _ => false
end Target

namespace Stmt
def line : Stmt → Nat
  | funcDef l .. => l | classDef l .. => l | annAssign l .. => l | assign l .. => l | importMod l .. => l
  | importFrom l .. => l | futureImport l => l | docExpr l => l | compound l .. => l | simple l .. => l
  | btImport l => l | dieIf l .. => l
def isAdded : Stmt → Bool
  | btImport _ => true
  | dieIf .. => true
  | _ => false
/-- what `visit_Module` skips: `Expr(Constant)` statements and `from __future__ import …` -/
def isPrefix : Stmt → Bool
  | docExpr _ => true
  | futureImport _ => true
  | _ => false
end Stmt

/-! ### the beforelist (decorator-hostile decorator names), clawastimport.py -/

def lookupKids : Kids → String → Option Trie
  | [], _ => none
  | (k, t) :: r, n => if k == n then some t else lookupKids r n

/-- result of `_is_node_scoped_attr_name`: `False`, `True`, or a (non-leaf) subtrie -/
inductive Res where
  | no
  | yes
  | trie (kind : Nat) (kids : Kids)
deriving Repr, Inhabited

def walk : Nat → Kids → List String → Res
  | k, kids, [] => .trie k kids
  | _, kids, n :: r =>
    match lookupKids kids n with
    | none => .no
    | some .leaf => .yes
    | some (.node k' kids') => walk k' kids' r

def isScoped (env : Env) (names : List String) : Res :=
  if env.isEmpty || names.isEmpty then .no else walk 0 env names

def Res.isYes : Res → Bool
  | .yes => true
  | _ => false
def Res.isTrie : Res → Bool
  | .trie .. => true
  | _ => false

def isHostile (env : Env) : Deco → Bool
  | .orig _ names => (isScoped env names).isYes
  | .bt .. => false

/-- `map_node_attr_imported_to_assigned` -/
def mapAssigned (env : Env) (imported : List String) (tgt : Option String) : Env :=
  match tgt with
  | none => env
  | some n =>
    match isScoped env imported with
    | .trie k kids => if k == kindType then (n, .node kindInstance kids) :: env else env
    | _ => env

def envAssign (env : Env) (callee : Option (List String)) (tgts : List (Option String)) : Env :=
  match callee with
  | none => env
  | some f => tgts.foldl (fun e t => mapAssigned e f t) env

/-- `visit_Import`: note the `return` (not `continue`) at the first package outside the schema -/
def envImport (schema : Kids) (env : Env) : List (List String) → Env
  | [] => env
  | m :: r =>
    match m.head? with
    | none => envImport schema env r
    | some pkg =>
      match lookupKids schema pkg with
      | none => env
      | some t => envImport schema ((pkg, t) :: env) r

inductive ModRes where
  | skip
  | raise
  | found (kids : Kids)

def walkMod (kids : Kids) : List String → ModRes
  | [] => .found kids
  | b :: r =>
    match lookupKids kids b with
    | none => .skip
    | some .leaf => .raise
    | some (.node _ k) => walkMod k r

def envFromNames (sub : Kids) (env : Env) : List (String × String) → Env
  | [] => env
  | (src, trg) :: r =>
    match lookupKids sub src with
    | none => envFromNames sub env r
    | some t => envFromNames sub ((trg, t) :: env) r

/-- `visit_ImportFrom` (absolute imports; relative ones are no-ops under the stated assumption) -/
def envImportFrom (schema : Kids) (env : Env) (level : Nat) (mod : List String) (names : List (String × String)) : Env :=
  if level > 0 then env
  else
    match mod with
    | [] => env
    | _ :: _ =>
      match walkMod schema mod with
      | .found sub => envFromNames sub env names
      | _ => env

def importFromRaises (schema : Kids) (level : Nat) (mod : List String) : Bool :=
  if level > 0 then false
  else match mod with
    | [] => false
    | _ :: _ => match walkMod schema mod with
      | .raise => true
      | _ => false

mutual
/-- the beforelist seen by the statements FOLLOWING `s` in the same scope. Definitions and
    classes open a scope whose bindings are dropped when it is popped; compound statements do not. -/
def envStmt (c : ClawConf) (env : Env) : Stmt → Env
  | .annAssign _ t _ an _ => mapAssigned env an t.nameOf
  | .assign _ tgts _ callee => envAssign env callee tgts
  | .importMod _ ms => envImport c.schema env ms
  | .importFrom _ lvl m ns => envImportFrom c.schema env lvl m ns
  | .compound _ _ _ bodies => envBodies c env bodies
  | _ => env
def envBody (c : ClawConf) (env : Env) : List Stmt → Env
  | [] => env
  | s :: r => envBody c (envStmt c env s) r
def envBodies (c : ClawConf) (env : Env) : List (List Stmt) → Env
  | [] => env
  | b :: r => envBodies c (envBody c env b) r
end

/-! ### decoration, clawastimport.py `_decorate_node_beartype` -/

def insertAt {α} (i : Nat) (x : α) (l : List α) : List α := l.take i ++ x :: l.drop i

/-- the `while` loop of `_decorate_node_beartype_last_before_decor_hostile`: index of the first
    decorator that is not decorator-hostile, starting the count at `i` -/
def scanHostile (env : Env) : List Deco → Nat → Nat
  | [], i => i
  | d :: r, i => if isHostile env d then scanHostile env r (i + 1) else i

def placeOf (c : ClawConf) (isClass : Bool) : Place := if isClass then c.placeType else c.placeFunc

def decorate (c : ClawConf) (env : Env) (isClass : Bool) (line : Nat) (decos : List Deco) : List Deco :=
  let bt := Deco.bt line (!c.isDefault)
  match placeOf c isClass with
  | .first => decos ++ [bt]                                  -- decorator_list.append
  | .last => bt :: decos                                     -- decorator_list.insert(0, …)
  | .lastBeforeHostile =>
    if decos.isEmpty || env.isEmpty then bt :: decos
    else
      let i := scanHostile env decos 0
      if i < decos.length then insertAt i bt decos else decos ++ [bt]

/-- does the loop raise `BeartypeClawAstImportException` (a decorator names a non-leaf of the beforelist)? -/
def decoRaises (env : Env) : List Deco → Bool
  | [] => false
  | .bt .. :: _ => false
  | .orig _ names :: r =>
    match isScoped env names with
    | .trie .. => true
    | .yes => decoRaises env r
    | .no => false

def decorateRaises (c : ClawConf) (env : Env) (isClass : Bool) (decos : List Deco) : Bool :=
  placeOf c isClass == .lastBeforeHostile && !decos.isEmpty && !env.isEmpty && decoRaises env decos

/-! ### the transformer -/

inductive ScopeKind where
  | module | cls | func
deriving DecidableEq, Repr

/-- `BeartypeNodeScopes.is_scope_class`: the TOP of the stack is a class -/
def isScopeClass : List ScopeKind → Bool
  | .cls :: _ => true
  | _ => false

/-- `visit_FunctionDef`: `if not self._scopes.is_scope_class and is_node_callable_typed(node)` -/
def funcDecos (c : ClawConf) (inClassScope : Bool) (env : Env) (ln : Nat) (typed : Bool) (ds : List Deco) : List Deco :=
  if !inClassScope && typed then decorate c env false ln ds else ds

/-- `visit_AnnAssign`, everything after the `generic_visit` / beforelist bookkeeping -/
def annAssignOut (c : ClawConf) (inClassScope : Bool) (ln : Nat) (t : Target) (ann : E) (an : List String)
    (v : Option E) : List Stmt :=
  let node := Stmt.annAssign ln t ann an v
  if !(c.pep526 && v.isSome) || inClassScope then [node]
  else
    match t with
    | .sub .. => [node]
    | _ => [node, .dieIf ln t ann (!c.isDefault)]

mutual
def xStmt (c : ClawConf) (stack : List ScopeKind) (env : Env) : Stmt → List Stmt
  | .funcDef ln a nm decos typed heads body =>
    -- visit_FunctionDef: decorate (enclosing scope still on top), THEN generic_visit pushes the scope
    [.funcDef ln a nm (funcDecos c (isScopeClass stack) env ln typed decos) typed heads
      (xBody c (.func :: stack) env body)]
  | .classDef ln nm decos heads body =>
    [.classDef ln nm (decorate c env true ln decos) heads (xBody c (.cls :: stack) env body)]
  | .annAssign ln t ann an v => annAssignOut c (isScopeClass stack) ln t ann an v
  | .compound ln k heads bodies => [.compound ln k heads (xBodies c stack env bodies)]
  | .assign ln tg v cl => [.assign ln tg v cl]
  | .importMod ln ms => [.importMod ln ms]
  | .importFrom ln lv m ns => [.importFrom ln lv m ns]
  | .futureImport ln => [.futureImport ln]
  | .docExpr ln => [.docExpr ln]
  | .simple ln es => [.simple ln es]
  | .btImport ln => [.btImport ln]
  | .dieIf ln p a cf => [.dieIf ln p a cf]
def xBody (c : ClawConf) (stack : List ScopeKind) (env : Env) : List Stmt → List Stmt
  | [] => []
  | s :: r => xStmt c stack env s ++ xBody c stack (envStmt c env s) r
def xBodies (c : ClawConf) (stack : List ScopeKind) (env : Env) : List (List Stmt) → List (List Stmt)
  | [] => []
  | b :: r => xBody c stack env b :: xBodies c stack (envBody c env b) r
end

/-- the `for` loop of `visit_Module`: number of leading docstring / `__future__` statements -/
def importIdx : List Stmt → Nat
  | [] => 0
  | s :: r => if s.isPrefix then importIdx r + 1 else 0

def headLine : List Stmt → Nat
  | s :: _ => s.line
  | [] => 0

def lineAt (m : List Stmt) (i : Nat) : Nat := headLine (m.drop i)

/-- `visit_Module`: insert the import (located at its right-hand sibling), then `generic_visit` -/
def addImport (m : Module) : Module :=
  let i := importIdx m
  if i != m.length then insertAt i (.btImport (lineAt m i)) m else m

def xform (c : ClawConf) (m : Module) : Module :=
  xBody c [.module] [] (addImport m)

/-! ### does the transformer raise (a beforelist non-leaf used as a decorator / a leaf imported from)? -/

mutual
def raisesStmt (c : ClawConf) (inClass : Bool) (env : Env) : Stmt → Bool
  | .funcDef _ _ _ decos typed _ body =>
    (!inClass && typed && decorateRaises c env false decos) || raisesBody c false env body
  | .classDef _ _ decos _ body => decorateRaises c env true decos || raisesBody c true env body
  | .importFrom _ lvl m _ => importFromRaises c.schema lvl m
  | .compound _ _ _ bodies => raisesBodies c inClass env bodies
  | _ => false
def raisesBody (c : ClawConf) (inClass : Bool) (env : Env) : List Stmt → Bool
  | [] => false
  | s :: r => raisesStmt c inClass env s || raisesBody c inClass (envStmt c env s) r
def raisesBodies (c : ClawConf) (inClass : Bool) (env : Env) : List (List Stmt) → Bool
  | [] => false
  | b :: r => raisesBody c inClass env b || raisesBodies c inClass (envBody c env b) r
end

def raises (c : ClawConf) (m : Module) : Bool := raisesBody c false [] m

/-! ### the declarative rule of the property statement -/

/-- where a hand-writer puts `@beartype` for a given placement -/
def placeSpec (p : Place) (hostile : Deco → Bool) (bt : Deco) (decos : List Deco) : List Deco :=
  match p with
  | .first => decos ++ [bt]                                            -- applied first = innermost = written last
  | .last => bt :: decos                                               -- applied last = outermost = written first
  | .lastBeforeHostile => decos.takeWhile hostile ++ bt :: decos.dropWhile hostile

mutual
/-- `inClass` = "the nearest enclosing def/class is a class" -/
def hStmt (c : ClawConf) (inClass : Bool) (env : Env) : Stmt → List Stmt
  | .funcDef ln a nm decos typed heads body =>
    [.funcDef ln a nm
      (if typed && !inClass then placeSpec c.placeFunc (isHostile env) (.bt ln (!c.isDefault)) decos else decos)
      typed heads (hBody c false env body)]
  | .classDef ln nm decos heads body =>
    [.classDef ln nm (placeSpec c.placeType (isHostile env) (.bt ln (!c.isDefault)) decos) heads (hBody c true env body)]
  | .annAssign ln t ann an v =>
    if c.pep526 && v.isSome && !inClass then [.annAssign ln t ann an v, .dieIf ln t ann (!c.isDefault)]
    else [.annAssign ln t ann an v]
  | .compound ln k heads bodies => [.compound ln k heads (hBodies c inClass env bodies)]
  | .assign ln tg v cl => [.assign ln tg v cl]
  | .importMod ln ms => [.importMod ln ms]
  | .importFrom ln lv m ns => [.importFrom ln lv m ns]
  | .futureImport ln => [.futureImport ln]
  | .docExpr ln => [.docExpr ln]
  | .simple ln es => [.simple ln es]
  | .btImport ln => [.btImport ln]
  | .dieIf ln p a cf => [.dieIf ln p a cf]
def hBody (c : ClawConf) (inClass : Bool) (env : Env) : List Stmt → List Stmt
  | [] => []
  | s :: r => hStmt c inClass env s ++ hBody c inClass (envStmt c env s) r
def hBodies (c : ClawConf) (inClass : Bool) (env : Env) : List (List Stmt) → List (List Stmt)
  | [] => []
  | b :: r => hBody c inClass env b :: hBodies c inClass (envBody c env b) r
end

/-- "one import placed after the docstring and `__future__` imports" (none when nothing else is there) -/
def addImportSpec (m : Module) : Module :=
  match m.dropWhile Stmt.isPrefix with
  | [] => m
  | s :: rest => m.takeWhile Stmt.isPrefix ++ .btImport s.line :: s :: rest

def byHand (c : ClawConf) (m : Module) : Module :=
  hBody c false [] (addImportSpec m)

/-! ### observations used by the property theorems -/

def eraseDecos (ds : List Deco) : List Deco := ds.filter (fun d => !d.isAdded)

mutual
/-- remove everything the hook may add -/
def eraseStmt : Stmt → Stmt
  | .funcDef ln a nm decos typed heads body => .funcDef ln a nm (eraseDecos decos) typed heads (eraseBody body)
  | .classDef ln nm decos heads body => .classDef ln nm (eraseDecos decos) heads (eraseBody body)
  | .compound ln k heads bodies => .compound ln k heads (eraseBodies bodies)
  | .annAssign ln t ann an v => .annAssign ln t ann an v
  | .assign ln tg v cl => .assign ln tg v cl
  | .importMod ln ms => .importMod ln ms
  | .importFrom ln lv m ns => .importFrom ln lv m ns
  | .futureImport ln => .futureImport ln
  | .docExpr ln => .docExpr ln
  | .simple ln es => .simple ln es
  | .btImport ln => .btImport ln
  | .dieIf ln p a cf => .dieIf ln p a cf
def eraseBody : List Stmt → List Stmt
  | [] => []
  | s :: r => if s.isAdded then eraseBody r else eraseStmt s :: eraseBody r
def eraseBodies : List (List Stmt) → List (List Stmt)
  | [] => []
  | b :: r => eraseBody b :: eraseBodies r
end

mutual
/-- an original module: none of the three added node kinds occurs -/
def cleanStmt : Stmt → Bool
  | .funcDef _ _ _ decos _ _ body => decos.all (fun d => !d.isAdded) && cleanBody body
  | .classDef _ _ decos _ body => decos.all (fun d => !d.isAdded) && cleanBody body
  | .compound _ _ _ bodies => cleanBodies bodies
  | .btImport _ => false
  | .dieIf .. => false
  | _ => true
def cleanBody : List Stmt → Bool
  | [] => true
  | s :: r => cleanStmt s && cleanBody r
def cleanBodies : List (List Stmt) → Bool
  | [] => true
  | b :: r => cleanBody b && cleanBodies r
end

mutual
/-- textual occurrences of original expressions in evaluated positions, in source order
    (an annotated assignment evaluates value, target, annotation) -/
def occStmt : Stmt → List E
  | .funcDef _ _ _ decos _ heads body => decos.flatMap Deco.occ ++ heads ++ occBody body
  | .classDef _ _ decos heads body => decos.flatMap Deco.occ ++ heads ++ occBody body
  | .annAssign _ t ann _ v => v.toList ++ t.occ ++ [ann]
  | .assign _ _ v _ => [v]
  | .compound _ _ heads bodies => heads ++ occBodies bodies
  | .simple _ es => es
  | .dieIf _ p ann _ => p.occ ++ [ann]
  | _ => []
def occBody : List Stmt → List E
  | [] => []
  | s :: r => occStmt s ++ occBody r
def occBodies : List (List Stmt) → List E
  | [] => []
  | b :: r => occBody b ++ occBodies r
end

mutual
/-- every annotated assignment re-read by a check has a side-effect-free annotation and
    (attribute targets) a side-effect-free object expression -/
def pureStmt : Stmt → Bool
  | .funcDef _ _ _ _ _ _ body => pureBody body
  | .classDef _ _ _ _ body => pureBody body
  | .annAssign _ t ann _ _ => ann.pure && t.occ.all (·.pure)
  | .compound _ _ _ bodies => pureBodies bodies
  | _ => true
def pureBody : List Stmt → Bool
  | [] => true
  | s :: r => pureStmt s && pureBody r
def pureBodies : List (List Stmt) → Bool
  | [] => true
  | b :: r => pureBody b && pureBodies r
end

mutual
/-- no annotated assignment to a subscript target -/
def noSubStmt : Stmt → Bool
  | .funcDef _ _ _ _ _ _ body => noSubBody body
  | .classDef _ _ _ _ body => noSubBody body
  | .annAssign _ t _ _ _ => !t.isSub
  | .compound _ _ _ bodies => noSubBodies bodies
  | _ => true
def noSubBody : List Stmt → Bool
  | [] => true
  | s :: r => noSubStmt s && noSubBody r
def noSubBodies : List (List Stmt) → Bool
  | [] => true
  | b :: r => noSubBody b && noSubBodies r
end

def btCount (ds : List Deco) : Nat := (ds.filter Deco.isAdded).length

mutual
/-- "methods are not decorated themselves (their class is, once); every other annotated function
    — including functions nested in methods — is decorated once; unannotated ones never" -/
def decoStmt (inClass : Bool) : Stmt → Bool
  | .funcDef _ _ _ decos typed _ body => btCount decos == (if typed && !inClass then 1 else 0) && decoBody false body
  | .classDef _ _ decos _ body => btCount decos == 1 && decoBody true body
  | .compound _ _ _ bodies => decoBodies inClass bodies
  | _ => true
def decoBody (inClass : Bool) : List Stmt → Bool
  | [] => true
  | s :: r => decoStmt inClass s && decoBody inClass r
def decoBodies (inClass : Bool) : List (List Stmt) → Bool
  | [] => true
  | b :: r => decoBody inClass b && decoBodies inClass r
end

mutual
/-- number of added import statements, at any depth -/
def importsStmt : Stmt → Nat
  | .funcDef _ _ _ _ _ _ body => importsBody body
  | .classDef _ _ _ _ body => importsBody body
  | .compound _ _ _ bodies => importsBodies bodies
  | .btImport _ => 1
  | _ => 0
def importsBody : List Stmt → Nat
  | [] => 0
  | s :: r => importsStmt s + importsBody r
def importsBodies : List (List Stmt) → Nat
  | [] => 0
  | b :: r => importsBody b + importsBodies r
end

/-- the added check `s` re-reads exactly what the annotated assignment `prev` before it wrote, on its line -/
def dieMatches (prev : Option Stmt) (ln : Nat) (p : Target) (a : E) : Bool :=
  match prev with
  | some (.annAssign ln' t a' _ (some _)) => ln == ln' && p == t && a == a'
  | _ => false

def headLineIs (r : List Stmt) (ln : Nat) : Bool :=
  match r with
  | s :: _ => !s.isAdded && s.line == ln
  | [] => false

def decoLinesOK (ln : Nat) (ds : List Deco) : Bool :=
  ds.all (fun d => match d with
    | .bt l _ => l == ln
    | .orig .. => true)

mutual
/-- every added node carries the location of the statement it belongs to: an added decorator that of
    its `def`/`class`, an added check that of the annotated assignment right before it, the added import
    that of the statement right after it -/
def linesStmt : Stmt → Bool
  | .funcDef ln _ _ decos _ _ body => decoLinesOK ln decos && linesFrom none body
  | .classDef ln _ decos _ body => decoLinesOK ln decos && linesFrom none body
  | .compound _ _ _ bodies => linesBodies bodies
  | _ => true
def linesFrom (prev : Option Stmt) : List Stmt → Bool
  | [] => true
  | s :: r =>
    (match s with
      | .dieIf ln p a _ => dieMatches prev ln p a
      | .btImport ln => headLineIs r ln
      | _ => linesStmt s) && linesFrom (some s) r
def linesBodies : List (List Stmt) → Bool
  | [] => true
  | b :: r => linesFrom none b && linesBodies r
end

/-- number of added checks at the top level of a body (used by the counterexample witnesses) -/
def checksTop (m : List Stmt) : Nat :=
  (m.filter (fun s => match s with
    | .dieIf .. => true
    | _ => false)).length

end BearVerif.ClawAst
