/-
  C08 — executable model of resumable bodies, of CPython 3.12's generator-object
  protocol (sync generators, coroutines, async generators) and of the wrappers
  that `@beartype` emits around them. NO Mathlib.

  Mirrors
    * CPython 3.12 `Objects/genobject.c` (modelled, validated three-way on every run):
        gen_send_ex2 / _gen_throw / gen_close                 -> `G.step`   (sync generators + coroutines)
        async_gen_asend_send / async_gen_athrow_send /
        async_gen_unwrap_value (flag `ag_closed`)             -> `A.step`   (async generators, awaited atomically)
        the compiler's implicit handler turning a StopIteration /
        StopAsyncIteration raised by a body into RuntimeError -> `convert`
    * beartype/_data/check/code/pep/datacodepep342.py   CODE_PEP342_RETURN_CHECKED / _UNCHECKED
        `return (yield from <inner>)`, PEP 380's formal expansion            -> `wrapDeleg`, `wrap342`
    * beartype/_data/check/code/func/datacodefuncwrap.py CODE_CALL_CHECKED + CODE_NORMAL_RETURN_CHECKED,
        CODE_NORMAL_RETURN_UNCHECKED_ASYNC with the 'await ' call prefix:
        `pith = await <inner>; <check pith>; return pith`                    -> `wrapCoro`
    * beartype/_data/check/code/pep/datacodepep525.py   CODE_PEP525_RETURN_CHECKED / _UNCHECKED
        the hand-written "async yield from" loop                             -> `wrap525`
    * beartype/_check/cls/call/calldatadecorfunc.py  BeartypeCallDecorFuncData.deinit / reinit
        (code-object flags -> 'async ' / 'await ' prefixes and return snippets) -> `reinitDecision`, `runReinit`
      beartype/_util/func/utilfunctest.py  is_func_coro / is_func_sync_generator / is_func_async_generator

  Abstract specification: the UNDECORATED object (`G.step k body`, `A.step body`) — the property says
  that the decorated object is observationally the same object (same per-operation results, same
  finalisation log), with returns going through the return check (`checkRet`).

  Not modelled: a body re-entering its own generator ("already executing"), real suspension of an
  async generator inside an `await` (operations on async generators are awaited to completion in one
  step, as the harness drives them), tracebacks / __context__, and finalisation of an ABANDONED object:
  a wrapper that terminates while its inner object is still suspended (only possible when the inner body
  yields while handling GeneratorExit — outside the property's hypothesis) drops it, and CPython then throws
  GeneratorExit into it once more, at a moment decided by reference counts / the cyclic collector.
-/
namespace BearVerif.Gen

/-- Python values that travel through the protocol: `None` or an int. -/
abbrev Val := Option Int

inductive Kind where
  | gen | coro | agen
deriving DecidableEq, Repr

/-- The fixed messages of CPython's protocol errors (`Msg.text` gives the wording). -/
inductive Msg where
  | raisedStopIter (k : Kind)     -- "<kind> raised StopIteration"
  | raisedStopAsync               -- "async generator raised StopAsyncIteration"
  | justStarted (k : Kind)        -- "can't send non-None value to a just-started <kind>"
  | ignoredExit (k : Kind)        -- "<kind> ignored GeneratorExit"
  | reuseCoro                     -- "cannot reuse already awaited coroutine"
deriving DecidableEq, Repr

def Kind.text : Kind → String
  | .gen => "generator" | .coro => "coroutine" | .agen => "async generator"

def Msg.text : Msg → String
  | .raisedStopIter k => k.text ++ " raised StopIteration"
  | .raisedStopAsync => "async generator raised StopAsyncIteration"
  | .justStarted k => "can't send non-None value to a just-started " ++ k.text
  | .ignoredExit k => k.text ++ " ignored GeneratorExit"
  | .reuseCoro => "cannot reuse already awaited coroutine"

inductive Exc where
  | genExit                        -- GeneratorExit
  | stopIter (v : Val)             -- StopIteration(v)  (v = none: no argument)
  | stopAsync                      -- StopAsyncIteration
  | runtime (m : Msg)              -- RuntimeError(message)
  | typeErr (m : Msg)              -- TypeError(message)
  | user (cls : Nat) (arg : Val)   -- an ordinary exception class of the program (ValueError, KeyError, …)
  | violation                      -- beartype.roar.BeartypeCallHintReturnViolation
deriving DecidableEq, Repr

inductive In where
  | send (v : Val)
  | throw (e : Exc)
deriving DecidableEq, Repr

inductive Out (σ : Type) where
  | yld (v : Val) (s : σ)
  | ret (v : Val)
  | rse (e : Exc)
deriving DecidableEq, Repr

/-- finalisation side effects (try/finally, except blocks) appended while reacting -/
abbrev Log := List Nat

/-- A resumable body: where it starts and how it reacts when resumed with a sent
    value or a thrown exception (`resume start (send none)` runs it up to its first yield). -/
structure Body (σ : Type) where
  start : σ
  resume : σ → In → Log × Out σ

/-- Generator-object states (`gi_frame_state`): FRAME_CREATED, FRAME_SUSPENDED, FRAME_COMPLETED. -/
inductive St (σ : Type) where
  | created
  | suspended (s : σ)
  | closed
deriving DecidableEq, Repr

/-- What one protocol operation gives back: a value (yielded value; `None` of `close()`)
    or an exception. A generator's `return v` shows up as `exc (stopIter v)`. -/
inductive Res where
  | val (v : Val)
  | exc (e : Exc)
deriving DecidableEq, Repr

/-- The implicit handler the compiler wraps around every generator body
    (`CALL_INTRINSIC_1 INTRINSIC_STOPITERATION_ERROR`). -/
def convert (k : Kind) : Exc → Exc
  | .stopIter _ => .runtime (.raisedStopIter k)
  | .stopAsync => match k with
      | .agen => .runtime .raisedStopAsync
      | _ => .stopAsync
  | e => e

/-- run the body from `s` with input `i`, under the implicit handler -/
def run (k : Kind) (b : Body σ) (s : σ) (i : In) : Log × Out σ :=
  match b.resume s i with
  | (l, .rse e) => (l, .rse (convert k e))
  | r => r

/-! ## Sync generators and coroutines -/

inductive Op where
  | send (v : Val)        -- `next(g)` is `send none`; driving a coroutine is `send none`
  | throw (e : Exc)
  | close
deriving DecidableEq, Repr

namespace G

/-- gen_send_ex2's epilogue: yielded / returned (StopIteration(v)) / raised -/
def finish : Log × Out σ → Log × St σ × Res
  | (l, .yld v s) => (l, .suspended s, .val v)
  | (l, .ret v) => (l, .closed, .exc (.stopIter v))
  | (l, .rse e) => (l, .closed, .exc e)

/-- `gen_close` clears GeneratorExit and StopIteration -/
def swallowedByClose : Exc → Bool
  | .genExit => true
  | .stopIter _ => true
  | _ => false

/-- gen_close's epilogue after throwing GeneratorExit into a suspended frame -/
def finishClose (k : Kind) : Log × Out σ → Log × St σ × Res
  | (l, .yld _ s) => (l, .suspended s, .exc (.runtime (.ignoredExit k)))
  | (l, .ret _) => (l, .closed, .val none)
  | (l, .rse e) => if swallowedByClose e then (l, .closed, .val none) else (l, .closed, .exc e)

/-- send / throw into a finished object -/
def exhaustedSend : Kind → Res
  | .coro => .exc (.runtime .reuseCoro)
  | _ => .exc (.stopIter none)

def exhaustedThrow (k : Kind) (e : Exc) : Res :=
  match k with
  | .coro => .exc (.runtime .reuseCoro)
  | _ => .exc e

/-- One operation on a generator (k = gen) or coroutine (k = coro) object. -/
def step (k : Kind) (b : Body σ) : St σ → Op → Log × St σ × Res
  | .created, .send none => finish (run k b b.start (.send none))
  | .created, .send (some _) => ([], .created, .exc (.typeErr (.justStarted k)))
  | .created, .throw e => ([], .closed, .exc e)          -- raised at the very start of the frame: no handler
  | .created, .close => ([], .closed, .val none)
  | .suspended s, .send v => finish (run k b s (.send v))
  | .suspended s, .throw e => finish (run k b s (.throw e))
  | .suspended s, .close => finishClose k (run k b s (.throw .genExit))
  | .closed, .send _ => ([], .closed, exhaustedSend k)
  | .closed, .throw e => ([], .closed, exhaustedThrow k e)
  | .closed, .close => ([], .closed, .val none)

def trace (k : Kind) (b : Body σ) : St σ → List Op → List (Log × Res)
  | _, [] => []
  | st, op :: ops =>
    let r := step k b st op
    (r.1, r.2.2) :: trace k b r.2.1 ops

end G

/-! ## Async generators (every `asend/athrow/aclose` awaitable is awaited to completion) -/

inductive AOp where
  | asend (v : Val)       -- `anext(ag)` is `asend none`
  | athrow (e : Exc)
  | aclose
deriving DecidableEq, Repr

/-- frame state + `ag_closed` -/
structure AState (σ : Type) where
  st : St σ
  agClosed : Bool
deriving DecidableEq, Repr

namespace A

/-- async_gen_unwrap_value sets `ag_closed` when StopAsyncIteration / GeneratorExit comes out -/
def marksClosed : Exc → Bool
  | .stopAsync => true
  | .genExit => true
  | _ => false

def finish (c : Bool) : Log × Out σ → Log × AState σ × Res
  | (l, .yld v s) => (l, ⟨.suspended s, c⟩, .val v)
  | (l, .ret _) => (l, ⟨.closed, true⟩, .exc .stopAsync)
  | (l, .rse e) => (l, ⟨.closed, c || marksClosed e⟩, .exc e)

/-- aclose(): StopAsyncIteration / GeneratorExit mean "done" -/
def finishClose : Log × Out σ → Log × AState σ × Res
  | (l, .yld _ s) => (l, ⟨.suspended s, true⟩, .exc (.runtime (.ignoredExit .agen)))
  | (l, .ret _) => (l, ⟨.closed, true⟩, .val none)
  | (l, .rse e) => if marksClosed e then (l, ⟨.closed, true⟩, .val none) else (l, ⟨.closed, true⟩, .exc e)

/-- athrow(e) into a just-created async generator: the exception leaves the frame unhandled;
    a StopIteration leaving the awaitable *is* the awaitable's completion (value `v`). -/
def throwCreated : Exc → Log × AState σ × Res
  | .stopIter v => ([], ⟨.closed, false⟩, .val v)
  | e => ([], ⟨.closed, marksClosed e⟩, .exc e)

def step (b : Body σ) (a : AState σ) : AOp → Log × AState σ × Res
  | .asend v =>
    match a.st with
    | .created =>
      match v with
      | none => finish a.agClosed (run .agen b b.start (.send none))
      | some _ => ([], a, .exc (.typeErr (.justStarted .agen)))
    | .suspended s => finish a.agClosed (run .agen b s (.send v))
    | .closed => ([], ⟨.closed, true⟩, .exc .stopAsync)
  | .athrow e =>
    match a.st with
    | .closed => ([], a, .val none)                         -- frame completed: StopIteration at once
    | .created => if a.agClosed then ([], a, .exc .stopAsync) else throwCreated e
    | .suspended s => if a.agClosed then ([], a, .exc .stopAsync) else finish false (run .agen b s (.throw e))
  | .aclose =>
    match a.st with
    | .closed => ([], a, .val none)
    | .created => if a.agClosed then ([], a, .exc .stopAsync) else ([], ⟨.closed, true⟩, .val none)
    | .suspended s => if a.agClosed then ([], a, .exc .stopAsync) else finishClose (run .agen b s (.throw .genExit))

def init : AState σ := ⟨.created, false⟩

def trace (b : Body σ) : AState σ → List AOp → List (Log × Res)
  | _, [] => []
  | a, op :: ops =>
    let r := step b a op
    (r.1, r.2.2) :: trace b r.2.1 ops

end A

/-! ## The wrappers emitted by @beartype, as bodies over the inner object -/

/-- control point of a wrapper: before its first resumption (inner object not created yet) /
    suspended in its delegation loop holding the inner object -/
inductive W (τ : Type) where
  | init
  | deleg (inner : τ)
deriving DecidableEq, Repr

/-- what `yield from` / `await` does with the inner object's answer; a returned value goes
    through the return check `chk` (`fun _ => true` when nothing is checked) -/
def fromInner (chk : Val → Bool) : Log × St σ × Res → Log × Out (W (St σ))
  | (l, st, .val v) => (l, .yld v (.deleg st))
  | (l, _, .exc (.stopIter v)) => if chk v then (l, .ret v) else (l, .rse .violation)
  | (l, _, .exc e) => (l, .rse e)

/-- PEP 380: GeneratorExit thrown into the delegating generator closes the inner one and is re-raised,
    unless closing raised -/
def afterClose : Log × St σ × Res → Log × Out (W (St σ))
  | (l, _, .val _) => (l, .rse .genExit)
  | (l, _, .exc e) => (l, .rse e)

/-- `pith = <call_prefix>func(*args, **kwargs)`; `if not <check>: raise violation`;
    then `return (yield from pith)` (k = gen; `objOk` = does the generator object satisfy the hint)
    or, with call prefix `await `, `return pith` after checking the awaited value with `chk` (k = coro). -/
def wrapDeleg (k : Kind) (objOk : Bool) (chk : Val → Bool) (b : Body σ) : Body (W (St σ)) where
  start := .init
  resume
    | .init, .send _ =>
      if objOk then fromInner chk (G.step k b .created (.send none)) else ([], .rse .violation)
    | .init, .throw e => ([], .rse e)
    | .deleg st, .send v => fromInner chk (G.step k b st (.send v))       -- `next(_i)` if v is None else `_i.send(v)`
    | .deleg st, .throw e =>
      if e = .genExit then afterClose (G.step k b st .close)
      else fromInner chk (G.step k b st (.throw e))

def wrap342 (objOk : Bool) (b : Body σ) : Body (W (St σ)) := wrapDeleg .gen objOk (fun _ => true) b
def wrapCoro (chk : Val → Bool) (b : Body σ) : Body (W (St σ)) := wrapDeleg .coro true chk b

/-- `await anext(inner)` / `await inner.asend(v)` / `await inner.athrow(e)` inside the 525 loop:
    value -> yield it up; StopAsyncIteration -> `return`; anything else propagates -/
def fromInnerA : Log × AState σ × Res → Log × Out (W (AState σ))
  | (l, a, .val v) => (l, .yld v (.deleg a))
  | (l, _, .exc .stopAsync) => (l, .ret none)
  | (l, _, .exc e) => (l, .rse e)

/-- `except GeneratorExit: await inner.aclose(); raise` -/
def afterAclose : Log × AState σ × Res → Log × Out (W (AState σ))
  | (l, _, .val _) => (l, .rse .genExit)
  | (l, _, .exc e) => (l, .rse e)

/-- CODE_PEP525_RETURN_CHECKED, clause by clause. -/
def wrap525 (objOk : Bool) (b : Body σ) : Body (W (AState σ)) where
  start := .init
  resume
    | .init, .send _ =>                                   -- prime: `await anext(inner)`
      if objOk then fromInnerA (A.step b A.init (.asend none)) else ([], .rse .violation)
    | .init, .throw e => ([], .rse e)
    | .deleg a, .send v =>                                -- `else:` branch of the loop
      match v with
      | none => fromInnerA (A.step b a (.asend none))     --   `await anext(inner)`
      | some x => fromInnerA (A.step b a (.asend (some x)))  -- `await inner.asend(v)`
    | .deleg a, .throw e =>
      if e = .genExit then afterAclose (A.step b a .aclose)   -- `except GeneratorExit`
      else fromInnerA (A.step b a (.athrow e))                -- `except BaseException`

/-! ## Specification side -/

/-- the undecorated body whose returned (awaited) value goes through the return check. A value returned
    while handling GeneratorExit is not a result anybody receives (`close()` discards it), so it is not checked. -/
def checkRet (chk : Val → Bool) (b : Body σ) : Body σ where
  start := b.start
  resume s i :=
    match i with
    | .throw .genExit => b.resume s i
    | _ =>
      match b.resume s i with
      | (l, .ret v) => if chk v then (l, .ret v) else (l, .rse .violation)
      | r => r

/-- a body that raises the return violation as soon as it is started -/
def violBody : Body Unit where
  start := ()
  resume _ _ := ([], .rse .violation)

/-- "generators that do not yield while handling GeneratorExit" -/
def NoYieldOnExit (b : Body σ) : Prop :=
  ∀ s l v s', b.resume s (.throw .genExit) ≠ (l, .yld v s')

/-- the body never answers GeneratorExit by returning (swallowing it) -/
def NoReturnOnExit (b : Body σ) : Prop :=
  ∀ s l v, b.resume s (.throw .genExit) ≠ (l, .ret v)

/-! ## Finite transition tables (what the harness enumerates; one Python interpreter builds the
    real generator / coroutine / async generator from the same table) -/

inductive VExpr where
  | lit (v : Val)
  | echo                 -- the value just sent in (None after a throw)
deriving DecidableEq, Repr

inductive EExpr where
  | same                 -- re-raise what was thrown in
  | mk (e : Exc)
deriving DecidableEq, Repr

inductive React where
  | yld (v : VExpr) (next : Nat)
  | ret (v : VExpr)
  | rse (e : EExpr)
deriving DecidableEq, Repr

/-- reactions of one yield point to: a sent value, a thrown ordinary exception,
    a thrown GeneratorExit, a thrown StopIteration/StopAsyncIteration; each with its log entries -/
structure Row where
  onSend : Log × React
  onThrow : Log × React
  onExit : Log × React
  onStop : Log × React
deriving DecidableEq, Repr

abbrev Table := List Row

/-- a bare trailing `yield`: resumed -> falls off the end; thrown into -> propagates -/
def Row.default : Row :=
  ⟨([], .ret (.lit none)), ([], .rse .same), ([], .rse .same), ([], .rse .same)⟩

def Row.pick (r : Row) : In → Log × React
  | .send _ => r.onSend
  | .throw .genExit => r.onExit
  | .throw (.stopIter _) => r.onStop
  | .throw .stopAsync => r.onStop
  | .throw _ => r.onThrow

def VExpr.eval : VExpr → In → Val
  | .lit v, _ => v
  | .echo, .send v => v
  | .echo, .throw _ => none

def EExpr.eval : EExpr → In → Exc
  | .mk e, _ => e
  | .same, .throw e => e
  | .same, .send _ => .user 0 none

def React.eval : React → In → Out Nat
  | .yld v n, i => .yld (v.eval i) n
  | .ret v, i => .ret (v.eval i)
  | .rse e, i => .rse (e.eval i)

/-- A coroutine body is suspended inside the awaitables it awaits; the harness's awaitable is a
    generator (`@types.coroutine`), whose own implicit handler turns a thrown StopIteration into
    RuntimeError("generator raised StopIteration") before the coroutine's code sees it. -/
def leaf (viaGenerator : Bool) : In → In
  | .throw (.stopIter v) => if viaGenerator then .throw (.runtime (.raisedStopIter .gen)) else .throw (.stopIter v)
  | i => i

def Table.toBody (t : Table) (viaGenerator : Bool := false) : Body Nat where
  start := 0
  resume s i :=
    let i := leaf viaGenerator i
    let r := (t[s]?.getD Row.default).pick i
    (r.1, r.2.eval i)

/-! ## Which wrapper is emitted: `BeartypeCallDecorFuncData.reinit` -/

/-- code-object flags CO_COROUTINE, CO_GENERATOR, CO_ASYNC_GENERATOR -/
structure Flags where
  coro : Bool
  gen : Bool
  agen : Bool
deriving DecidableEq, Repr

/-- kind of a callable as `inspect.iscoroutinefunction / isgeneratorfunction / isasyncgenfunction` report it -/
inductive FKind where
  | plain | coroutine | generator | asyncgen
deriving DecidableEq, Repr

/-- the compiler sets at most one of the three flags -/
def Flags.wf (f : Flags) : Bool :=
  !(f.coro && f.gen) && !(f.coro && f.agen) && !(f.gen && f.agen)

def Flags.kind (f : Flags) : FKind :=
  if f.agen then .asyncgen else if f.gen then .generator else if f.coro then .coroutine else .plain

/-- the four attributes `reinit` decides -/
structure Decision where
  sigPrefix : String       -- func_wrapper_code_signature_prefix
  callPrefix : String      -- func_wrapper_code_call_prefix
  retChecked : String      -- name of the snippet in func_wrapper_code_return_checked
  retUnchecked : String    -- name of the snippet in func_wrapper_code_return_unchecked
deriving DecidableEq, Repr

/-- hand mirror of `deinit` (defaults) followed by the `if func_wrappee_codeobj:` block of `reinit` -/
def reinitDecision (f : Flags) : Decision :=
  let d : Decision := ⟨"", "", "CODE_NORMAL_RETURN_CHECKED", "CODE_NORMAL_RETURN_UNCHECKED_SYNC"⟩
  let d := if f.coro then { d with sigPrefix := "async ", callPrefix := "await ",
                                   retUnchecked := "CODE_NORMAL_RETURN_UNCHECKED_ASYNC" } else d
  if f.gen then { d with retChecked := "CODE_PEP342_RETURN_CHECKED", retUnchecked := "CODE_PEP342_RETURN_UNCHECKED" }
  else if f.agen then { d with sigPrefix := "async ", retChecked := "CODE_PEP525_RETURN_CHECKED",
                               retUnchecked := "CODE_PEP525_RETURN_UNCHECKED" }
  else d

/-- one assignment of the extracted `reinit` block with the flag tests guarding it
    (`(t, true)` = inside `if t`, `(t, false)` = inside the `elif/else` of `if t`) -/
structure GAssign where
  guard : List (String × Bool)
  attr : String
  val : String
deriving DecidableEq, Repr

def Flags.test (f : Flags) : String → Bool
  | "is_func_coro" => f.coro
  | "is_func_sync_generator" => f.gen
  | "is_func_async_generator" => f.agen
  | _ => false

def setAttr (d : Decision) (attr val : String) : Decision :=
  if attr = "func_wrapper_code_signature_prefix" then { d with sigPrefix := val }
  else if attr = "func_wrapper_code_call_prefix" then { d with callPrefix := val }
  else if attr = "func_wrapper_code_return_checked" then { d with retChecked := val }
  else if attr = "func_wrapper_code_return_unchecked" then { d with retUnchecked := val }
  else d

/-- run the extracted program: defaults of `deinit`, then the guarded assignments in program order -/
def runReinit (defaults : List (String × String)) (prog : List GAssign) (f : Flags) : Decision :=
  let d := defaults.foldl (fun d (a : String × String) => setAttr d a.1 a.2) ⟨"", "", "", ""⟩
  prog.foldl (fun d g => if g.guard.all (fun t => f.test t.1 == t.2) then setAttr d g.attr g.val else d) d

/-- syntactic facts about a snippet: contains `yield`, `yield from`, `await`, and awaits / calls the
    decorated callable itself -/
structure Feat where
  hasYield : Bool
  hasYieldFrom : Bool
  hasAwait : Bool
  awaitsFunc : Bool
  callsFunc : Bool
deriving DecidableEq, Repr

def featOf (tbl : List (String × Feat)) (name : String) : Option Feat :=
  (tbl.find? (fun p => p.1 == name)).map (·.2)

def Feat.or (a b : Feat) : Feat :=
  ⟨a.hasYield || b.hasYield, a.hasYieldFrom || b.hasYieldFrom, a.hasAwait || b.hasAwait,
   a.awaitsFunc || b.awaitsFunc, a.callsFunc || b.callsFunc⟩

/-- syntactic facts about the emitted wrapper body: `checked` = CODE_CALL_CHECKED instantiated with the
    call prefix + (check) + return_checked snippet; otherwise the return_unchecked snippet alone -/
def wrapperFeat (tbl : List (String × Feat)) (d : Decision) (checked : Bool) : Option Feat :=
  if checked then
    match featOf tbl ("CODE_CALL_CHECKED[" ++ d.callPrefix ++ "]"), featOf tbl d.retChecked with
    | some a, some b => some (a.or b)
    | _, _ => none
  else featOf tbl d.retUnchecked

/-- what CPython's compiler makes of `<sigPrefix>def f(...): <body with these features>`;
    `none` = SyntaxError (`yield from` inside `async def`, `await` outside it, unknown prefix) -/
def compiledKind (sigPrefix : String) (ft : Feat) : Option FKind :=
  if sigPrefix == "async " then
    if ft.hasYieldFrom then none
    else if ft.hasYield then some .asyncgen else some .coroutine
  else if sigPrefix == "" then
    if ft.hasAwait then none
    else if ft.hasYield || ft.hasYieldFrom then some .generator else some .plain
  else none

/-- kind of the emitted wrapper -/
def wrapperKind (tbl : List (String × Feat)) (d : Decision) (checked : Bool) : Option FKind :=
  match wrapperFeat tbl d checked with
  | none => none
  | some ft => compiledKind d.sigPrefix ft

/-- (the wrapper calls the decorated callable, its result is awaited) — awaited must hold exactly for
    coroutine functions: awaiting a generator object is an error, not awaiting a coroutine leaves it unrun -/
def callShape (tbl : List (String × Feat)) (d : Decision) (checked : Bool) : Option (Bool × Bool) :=
  (wrapperFeat tbl d checked).map (fun ft => (ft.callsFunc, ft.awaitsFunc))

/-! ## The snippets this file models, as CPython's `ast.dump` prints them (comments do not appear;
   the snippet's own local variables are renamed $0, $1, … in order of first binding).
   `Props/C08.lean` proves the dumps re-extracted from /repo on every run equal these, so the hand models
   below were written from the code that is checked:
     CODE_PEP342_RETURN_*              `Return(YieldFrom(inner))`                       -> `wrapDeleg` (k = gen)
     CODE_CALL_CHECKED[await ] + CODE_NORMAL_RETURN_CHECKED / CODE_NORMAL_RETURN_UNCHECKED_ASYNC
                                       `pith = await func(..)`; `return pith`           -> `wrapDeleg` (k = coro)
     CODE_PEP525_RETURN_*   Try[ prime: `yield_pith = await anext(inner)` | except StopAsyncIteration: return ]   -> `.init, .send`
                            else While True: Try[ `send_pith = yield yield_pith` ]
                              except GeneratorExit: `await inner.aclose()`; `raise`                              -> `afterAclose`
                              except BaseException as e: `yield_pith = await inner.athrow(e)` | StopAsyncIteration: return  -> `.athrow`
                              else: if send_pith is None: `await anext(inner)` else `await inner.asend(send_pith)`
                                    | StopAsyncIteration: return                                                  -> `.deleg, .send`
-/
def modelledSnippets : List (String × String) := [
  ("CODE_CALL_CHECKED[]",
   "Assign([Name('__beartype_pith_0', Store())], Call(Name('__beartype_func', Load()), [Starred(Name('args', Load()), Load())], [keyword(value=Name('kwargs', Load()))])); If(Constant(True), [Pass()], [])"),
  ("CODE_CALL_CHECKED[await ]",
   "Assign([Name('__beartype_pith_0', Store())], Await(Call(Name('__beartype_func', Load()), [Starred(Name('args', Load()), Load())], [keyword(value=Name('kwargs', Load()))]))); If(Constant(True), [Pass()], [])"),
  ("CODE_NORMAL_RETURN_CHECKED",
   "Return(Name('__beartype_pith_0', Load()))"),
  ("CODE_NORMAL_RETURN_UNCHECKED_ASYNC",
   "Return(Await(Call(Name('__beartype_func', Load()), [Starred(Name('args', Load()), Load())], [keyword(value=Name('kwargs', Load()))])))"),
  ("CODE_NORMAL_RETURN_UNCHECKED_SYNC",
   "Return(Call(Name('__beartype_func', Load()), [Starred(Name('args', Load()), Load())], [keyword(value=Name('kwargs', Load()))]))"),
  ("CODE_PEP342_RETURN_CHECKED",
   "Return(YieldFrom(Name('__beartype_pith_0', Load())))"),
  ("CODE_PEP342_RETURN_UNCHECKED",
   "Return(YieldFrom(Call(Name('__beartype_func', Load()), [Starred(Name('args', Load()), Load())], [keyword(value=Name('kwargs', Load()))])))"),
  ("CODE_PEP525_RETURN_CHECKED",
   "Try([Assign([Name('$0', Store())], Await(Call(Name('anext', Load()), [Name('__beartype_pith_0', Load())], [])))], [ExceptHandler(Name('StopAsyncIteration', Load()), body=[Return()])], [While(Constant(True), [Try([Assign([Name('$3', Store())], Yield(Name('$0', Load())))], [ExceptHandler(Name('GeneratorExit', Load()), '$1', [Expr(Await(Call(Attribute(Name('__beartype_pith_0', Load()), 'aclose', Load()), [], []))), Raise()]), ExceptHandler(Name('BaseException', Load()), '$2', [Try([Assign([Name('$0', Store())], Await(Call(Attribute(Name('__beartype_pith_0', Load()), 'athrow', Load()), [Name('$2', Load())], [])))], [ExceptHandler(Name('StopAsyncIteration', Load()), body=[Return()])], [], [])])], [Try([If(Compare(Name('$3', Load()), [Is()], [Constant(None)]), [Assign([Name('$0', Store())], Await(Call(Name('anext', Load()), [Name('__beartype_pith_0', Load())], [])))], [Assign([Name('$0', Store())], Await(Call(Attribute(Name('__beartype_pith_0', Load()), 'asend', Load()), [Name('$3', Load())], [])))])], [ExceptHandler(Name('StopAsyncIteration', Load()), body=[Return()])], [], [])], [])], [])], [])"),
  ("CODE_PEP525_RETURN_UNCHECKED",
   "Assign([Name('__beartype_pith_0', Store())], Call(Name('__beartype_func', Load()), [Starred(Name('args', Load()), Load())], [keyword(value=Name('kwargs', Load()))])); Try([Assign([Name('$0', Store())], Await(Call(Name('anext', Load()), [Name('__beartype_pith_0', Load())], [])))], [ExceptHandler(Name('StopAsyncIteration', Load()), body=[Return()])], [While(Constant(True), [Try([Assign([Name('$3', Store())], Yield(Name('$0', Load())))], [ExceptHandler(Name('GeneratorExit', Load()), '$1', [Expr(Await(Call(Attribute(Name('__beartype_pith_0', Load()), 'aclose', Load()), [], []))), Raise()]), ExceptHandler(Name('BaseException', Load()), '$2', [Try([Assign([Name('$0', Store())], Await(Call(Attribute(Name('__beartype_pith_0', Load()), 'athrow', Load()), [Name('$2', Load())], [])))], [ExceptHandler(Name('StopAsyncIteration', Load()), body=[Return()])], [], [])])], [Try([If(Compare(Name('$3', Load()), [Is()], [Constant(None)]), [Assign([Name('$0', Store())], Await(Call(Name('anext', Load()), [Name('__beartype_pith_0', Load())], [])))], [Assign([Name('$0', Store())], Await(Call(Attribute(Name('__beartype_pith_0', Load()), 'asend', Load()), [Name('$3', Load())], [])))])], [ExceptHandler(Name('StopAsyncIteration', Load()), body=[Return()])], [], [])], [])], [])], [])")
]


end BearVerif.Gen
