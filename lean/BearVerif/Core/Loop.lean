import BearVerif.Core.Sexp
/-!
  The line-protocol loop shared by every per-property driver (`lean/MainCxx.lean`):
  one s-expression request per stdin line, one response per stdout line —
  `(ok …)` or `(bad-op)`, never a default answer.
-/
namespace BearVerif

partial def runLoop (dispatch : Sexp → Option Sexp) : IO Unit := do
  let inp ← IO.getStdin
  let out ← IO.getStdout
  let rec go : IO Unit := do
    let line ← inp.getLine
    if line.isEmpty then return ()
    let resp := match Sexp.parse line with
      | some req => (match dispatch req with
          | some r => "(ok " ++ r.toStr ++ ")"
          | none => "(bad-op)")
      | none => "(bad-op)"
    out.putStrLn resp
    go
  go
  out.flush

end BearVerif
