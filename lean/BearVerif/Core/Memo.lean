/-
  C14 — model of beartype's memoisation: "answers do not depend on what was asked before".

  A memoised system is a pure function `f` (what a fresh interpreter answers) behind
  caches. Caches are association lists looked up through the ACTUAL key discipline of
  the beartype table they stand for:

    by Python `==`/`hash`   beartype/_util/cache/utilcachecall.py   callable_cached  (`callCached`: two
                            dictionaries, values and exceptions; unhashable arguments bypass the cache)
                            beartype/_check/checkmake.py            make_func_checker, CACHE_KEY =
                            (hint, conf, exception_prefix)          (`askBear`, tables
                            _HINT_CONF_EXCEPTION_PREFIX_TO_FUNC_TESTER/_RAISER of door/_func/doorfunc.py;
                            same discipline: _HINT_CONF_TO_CHECK_EXPR of _check/code/codemain.py,
                            _HINT_TO_HINTSANE of _check/cls/hint/hintsane.py, _HINT_TO_WRAPPER of
                            door/_cls/doormeta.py through utilmapunbounded.CacheUnboundedStrong)
    by `repr`               beartype/_check/convert/_convcoerce.py  coerce_hint_any / _hint_repr_to_hint
                            (`coerce`; `checked = true` is the repaired function that validates a hit with `==`)
    by `id` of objects      beartype/_util/cache/utilcachecall.py   method_cached_arg_by_id, used by
    that may be dead        door/_cls/doorsuper.py TypeHint.is_subhint / TypeHint.__eq__  (`stepI`;
                            `pinned = true` is the repaired decorator whose entries keep the keyed objects alive)
    forward references      beartype/_check/forward/reference/_cls/fwdrefmeta.py  __resolved_hint_beartype__,
                            _ref_proxy_to_resolved_hint (successes only), and
                            beartype/_decor/_type/decortype.py _uncache_beartype_if_type_redefined +
                            beartype/_util/cache/utilcacheclear.py clear_caches  (`stepF`)

  Histories are lists of `query q | failingQuery q | gc o | redefine cls | clearCaches`
  (plus, for the id discipline, allocation/death of objects at given addresses, and for
  forward references, (re)definition of names).

  Dictionaries have one entry per key and `dict.get` finds it; an association list whose
  lookup returns the FIRST matching entry and whose update conses in front is
  observationally the same (an overwrite shadows the old entry).

  Executable, core Lean only (no Mathlib): also used by the line-protocol driver.
-/
namespace BearVerif.Memo

/-! ## 1. Tables looked up through a key relation -/

abbrev Table (K A : Type) := List (K × A)

/-- `dict.get(probe)`: value of the first entry whose stored key matches, `keyEq stored probe`
    (CPython compares the stored key with the probe). -/
def find {K A : Type} (keyEq : K → K → Bool) : Table K A → K → Option A
  | [], _ => none
  | (k, a) :: t, q => if keyEq k q then some a else find keyEq t q

/-- THE obligation of a key discipline: keys that the table cannot tell apart have the same answer. -/
def KeyCongruent {K A : Type} (f : K → A) (keyEq : K → K → Bool) : Prop :=
  ∀ k k', keyEq k k' = true → f k = f k'

/-- invariant of a sound table: every cached pair `(k, v)` has `v = f k'` for all `k'` with `keyEq k k'` -/
def Sound {K A : Type} (f : K → A) (keyEq : K → K → Bool) (t : Table K A) : Prop :=
  ∀ k v, (k, v) ∈ t → ∀ k', keyEq k k' = true → v = f k'

/-- operations of a history, as the property statement lists them -/
inductive Op (K : Type) where
  | query (q : K)            -- any public query (is_bearable, die_if_unbearable, is_subhint, ==, decorated call)
  | failingQuery (q : K)     -- a query whose answer is an exception (same code path; kept apart for histories)
  | gc (o : Nat)             -- the object numbered `o` is garbage collected
  | redefine (cls : String)  -- a same-named class is defined again (a NEW class object)
  | clearCaches              -- beartype._util.cache.utilcacheclear.clear_caches()
deriving Repr

/-! ## 2. `callable_cached`: `==`-keyed, caches values and exceptions -/

structure Cached (K A : Type) where
  vals : Table K A      -- args_flat_to_return_value
  excs : Table K A      -- args_flat_to_exception
deriving Repr

def Cached.empty {K A : Type} : Cached K A := { vals := [], excs := [] }

/-- `_callable_cached(*args)`: a cached exception is re-raised, else a cached value returned, else `func`
    is called and its outcome stored in the dictionary of its kind; unhashable arguments (`TypeError`
    from the lookup) call `func` uncached. `isExc a` says that answer `a` is "raises …". -/
def callCached {K A : Type} (f : K → A) (isExc : A → Bool) (hashable : K → Bool) (keyEq : K → K → Bool)
    (s : Cached K A) (q : K) : A × Cached K A :=
  if hashable q then
    match find keyEq s.excs q with
    | some e => (e, s)
    | none =>
      match find keyEq s.vals q with
      | some v => (v, s)
      | none =>
        if isExc (f q) then (f q, { s with excs := (q, f q) :: s.excs })
        else (f q, { s with vals := (q, f q) :: s.vals })
  else (f q, s)

/-- One step of a history. `==`-keyed dictionaries hold their keys strongly, so garbage collection
    cannot remove or alias a key; a redefined class is a new object that compares unequal to the old
    one, so no entry is touched; `clear_caches()` empties the clearable tables (the dictionaries inside
    `callable_cached` closures are never cleared: `clearable = false`). -/
def stepE {K A : Type} (f : K → A) (isExc : A → Bool) (hashable : K → Bool) (keyEq : K → K → Bool) (clearable : Bool)
    (s : Cached K A) : Op K → Cached K A
  | .query q => (callCached f isExc hashable keyEq s q).2
  | .failingQuery q => (callCached f isExc hashable keyEq s q).2
  | .gc _ => s
  | .redefine _ => s
  | .clearCaches => if clearable then Cached.empty else s

def runE {K A : Type} (f : K → A) (isExc : A → Bool) (hashable : K → Bool) (keyEq : K → K → Bool) (clearable : Bool)
    (hist : List (Op K)) : Cached K A :=
  hist.foldl (stepE f isExc hashable keyEq clearable) Cached.empty

/-- the answer the history process gives to `q` -/
def answerE {K A : Type} (f : K → A) (isExc : A → Bool) (hashable : K → Bool) (keyEq : K → K → Bool)
    (s : Cached K A) (q : K) : A :=
  (callCached f isExc hashable keyEq s q).1

/-! ## 3. The checker pipeline: `==`-keyed checker table in front of the `repr`-keyed coercion -/

/-- What the caches can observe of a hint value. -/
structure Lang (V : Type) where
  pyEq : V → V → Bool        -- Python `==` (and equal hash)
  repr : V → String          -- `repr(hint)`
  worthy : V → Bool          -- is_hint_cacheworthy (PEP 585 / PEP 604 hints without type variables)
  hashable : V → Bool

/-- `coerce_hint_any(hint)`: `_hint_repr_to_hint.cache_or_get_cached_value(key=repr(hint), value=hint)`.
    `checked = false` is the function as found (a hit is returned whatever it is);
    `checked = true` is the repaired function: a hit is returned only if it `==` the passed hint,
    else the entry is overwritten with the passed hint. -/
def coerce {V : Type} (L : Lang V) (checked : Bool) (t : Table String V) (v : V) : V × Table String V :=
  if L.worthy v then
    match find (fun a b => a == b) t (L.repr v) with
    | none => (v, (L.repr v, v) :: t)
    | some v0 =>
      if checked && !(L.pyEq v0 v) then (v, (L.repr v, v) :: t) else (v0, t)
  else (v, t)

/-- CACHE_KEY = (hint, conf, exception_prefix): the `Nat` stands for the (conf, prefix, entry point) part -/
abbrev CKey (V : Type) := V × Nat

def ckeyEq {V : Type} (L : Lang V) (a b : CKey V) : Bool := L.pyEq a.1 b.1 && a.2 == b.2

structure BearState (V A : Type) where
  checker : Table (CKey V) A     -- _HINT_CONF_EXCEPTION_PREFIX_TO_FUNC_TESTER / _RAISER
  reprT : Table String V         -- _hint_repr_to_hint

def BearState.empty {V A : Type} : BearState V A := { checker := [], reprT := [] }

/-- `make_func_checker`: look the key up; on a miss sanify the hint (`coerce`), build the checker
    `f (hint', tag)` from the COERCED hint and cache it under the key of the PASSED hint;
    an unhashable hint is never cached. -/
def askBear {V A : Type} (L : Lang V) (checked : Bool) (f : CKey V → A) (s : BearState V A) (q : CKey V) :
    A × BearState V A :=
  if L.hashable q.1 then
    match find (ckeyEq L) s.checker q with
    | some c => (c, s)
    | none =>
      let r := coerce L checked s.reprT q.1
      (f (r.1, q.2), { checker := (q, f (r.1, q.2)) :: s.checker, reprT := r.2 })
  else
    let r := coerce L checked s.reprT q.1
    (f (r.1, q.2), { s with reprT := r.2 })

def stepB {V A : Type} (L : Lang V) (checked : Bool) (f : CKey V → A) (s : BearState V A) : Op (CKey V) → BearState V A
  | .query q => (askBear L checked f s q).2
  | .failingQuery q => (askBear L checked f s q).2
  | .gc _ => s
  | .redefine _ => s
  | .clearCaches => BearState.empty

def runB {V A : Type} (L : Lang V) (checked : Bool) (f : CKey V → A) (hist : List (Op (CKey V))) : BearState V A :=
  hist.foldl (stepB L checked f) BearState.empty

def answerB {V A : Type} (L : Lang V) (checked : Bool) (f : CKey V → A) (s : BearState V A) (q : CKey V) : A :=
  (askBear L checked f s q).1

/-- the hints a history asks about -/
def histVals {V : Type} : List (Op (CKey V)) → List V
  | [] => []
  | .query q :: r => q.1 :: histVals r
  | .failingQuery q :: r => q.1 :: histVals r
  | _ :: r => histVals r

/-! ## 3b. Context-relative hints: `is_check_expr_cacheable`

  beartype/_check/cls/hint/tree/hinttreecode.py  HintTreeCode.is_check_expr_cacheable, sanify_hint_child
  beartype/_check/code/codemain.py               make_check_expr  (`_HINT_CONF_TO_CHECK_EXPR[(hint_sane, conf)]`
                                                 is written only `if hint_tree.is_check_expr_cacheable`)
  beartype/_check/checkmake.py                   make_func_checker (the `(hint, conf, exception_prefix)` tables are
                                                 written only if `func_scope_frozen.is_check_expr_cacheable`)
  beartype/_check/convert/_reduce/_pep/redpep673.py, …/pep484/redpep484ref.py
                                                 `typing.Self` and stringified forward references are sanified with
                                                 `is_check_expr_cacheable=False`: what they mean depends on the class
                                                 being decorated / on the scope of the caller (the CONTEXT of a query)

  The key of both tables is the unreduced hint (and the configuration): it compares equal in every context. -/

/-- `HintTreeCode.is_check_expr_cacheable` at the end of the visit of a hint tree: `True` at the root, then
    `&=` with the flag of every hint sanified, in visiting order. `visit` lists, per sanified hint of the tree in
    that order (root first), whether it is context-relative. -/
def treeCacheable (visit : List Bool) : Bool := visit.foldl (fun acc rel => acc && !rel) true

/-- the accumulation `&=` replaced by a plain assignment `=`: the flag of the hint sanified LAST wins -/
def treeCacheableLast (visit : List Bool) : Bool := visit.foldl (fun _ rel => !rel) true

/-- does the tree mention a context-relative hint anywhere? -/
def mentionsRel (visit : List Bool) : Bool := visit.any id

/-- operations of a history whose queries are asked from contexts (numbered classes / caller scopes) -/
inductive COp (V : Type) where
  | ask (ctx : Nat) (q : CKey V)
  | clearCaches

/-- `make_func_checker` / `make_check_expr` asked from context `c`: the table is looked up with the context-free
    key; on a miss the hint is sanified (`coerce`), the checker is built from the coerced hint IN CONTEXT `c`
    (`f c`), and it is stored under the context-free key only if the flag `acc (visit hint)` computed during the
    visit says so. -/
def askBearC {V A : Type} (L : Lang V) (visit : V → List Bool) (acc : List Bool → Bool) (checked : Bool)
    (f : Nat → CKey V → A) (s : BearState V A) (c : Nat) (q : CKey V) : A × BearState V A :=
  if L.hashable q.1 then
    match find (ckeyEq L) s.checker q with
    | some a => (a, s)
    | none =>
      let r := coerce L checked s.reprT q.1
      (f c (r.1, q.2),
       { checker := if acc (visit r.1) then (q, f c (r.1, q.2)) :: s.checker else s.checker, reprT := r.2 })
  else
    let r := coerce L checked s.reprT q.1
    (f c (r.1, q.2), { s with reprT := r.2 })

def stepC {V A : Type} (L : Lang V) (visit : V → List Bool) (acc : List Bool → Bool) (checked : Bool)
    (f : Nat → CKey V → A) (s : BearState V A) : COp V → BearState V A
  | .ask c q => (askBearC L visit acc checked f s c q).2
  | .clearCaches => BearState.empty

def runC {V A : Type} (L : Lang V) (visit : V → List Bool) (acc : List Bool → Bool) (checked : Bool)
    (f : Nat → CKey V → A) (hist : List (COp V)) : BearState V A :=
  hist.foldl (stepC L visit acc checked f) BearState.empty

def answerC {V A : Type} (L : Lang V) (visit : V → List Bool) (acc : List Bool → Bool) (checked : Bool)
    (f : Nat → CKey V → A) (s : BearState V A) (c : Nat) (q : CKey V) : A :=
  (askBearC L visit acc checked f s c q).1

/-! ## 4. `method_cached_arg_by_id`: keyed by the addresses of objects that may die -/

/-- live objects: address ↦ value. `id(o)` is the address: unique among LIVE objects only. -/
abbrev Heap (V : Type) := List (Nat × V)

def heapGet {V : Type} : Heap V → Nat → Option V
  | [], _ => none
  | (a, v) :: h, x => if a == x then some v else heapGet h x

def heapDel {V : Type} : Heap V → Nat → Heap V
  | [], _ => []
  | (a, v) :: h, x => if a == x then heapDel h x else (a, v) :: heapDel h x

structure IdState (V A : Type) where
  heap : Heap V
  tbl : Table (Nat × Nat) A          -- (id(self), id(other)) ↦ value

def IdState.empty {V A : Type} : IdState V A := { heap := [], tbl := [] }

/-- does some entry of the table use address `a` in its key? -/
def keyed {A : Type} (t : Table (Nat × Nat) A) (a : Nat) : Bool :=
  t.any (fun e => e.1.1 == a || e.1.2 == a)

inductive IdOp (V : Type) where
  | new (a : Nat) (v : V)    -- an object of value `v` is created; the allocator places it at the free address `a`
  | drop (a : Nat)           -- the last outside reference to the object at `a` is dropped (`gc`)
  | ask (a b : Nat)          -- `x.is_subhint(y)` / `x == y` for the live objects at `a`, `b`
deriving Repr

def idKeyEq (x y : Nat × Nat) : Bool := x.1 == y.1 && x.2 == y.2

/-- `pinned = false`: the decorator as found — the table stores bare addresses, so a dropped object
    dies and its address can be handed to another object.
    `pinned = true`: the repaired decorator — an entry references its two objects, so an object used in
    a key is not freed by dropping outside references. -/
def stepI {V A : Type} (pinned : Bool) (g : V → V → A) (s : IdState V A) : IdOp V → IdState V A × Option A
  | .new a v =>
    match heapGet s.heap a with
    | some _ => (s, none)                           -- address in use: not a possible allocation
    | none => ({ s with heap := (a, v) :: s.heap }, none)
  | .drop a =>
    if pinned && keyed s.tbl a then (s, none) else ({ s with heap := heapDel s.heap a }, none)
  | .ask a b =>
    match heapGet s.heap a, heapGet s.heap b with
    | some va, some vb =>
      match find idKeyEq s.tbl (a, b) with
      | some r => (s, some r)
      | none => ({ s with tbl := ((a, b), g va vb) :: s.tbl }, some (g va vb))
    | _, _ => (s, none)                              -- not two live objects: not a possible call

def runI {V A : Type} (pinned : Bool) (g : V → V → A) (hist : List (IdOp V)) : IdState V A :=
  hist.foldl (fun s op => (stepI pinned g s op).1) IdState.empty

def answerI {V A : Type} (pinned : Bool) (g : V → V → A) (s : IdState V A) (a b : Nat) : Option A :=
  (stepI pinned g s (.ask a b)).2

def isDrop {V : Type} : IdOp V → Bool
  | .drop _ => true
  | _ => false

/-! ## 5. Forward references: failures are not remembered, successes are -/

/-- a forward-reference proxy: one per decoration (`fwdrefproxy._proxy_hint_ref` makes a new class each
    time), remembering the name it refers to -/
structure Proxy where
  pid : Nat
  name : String
deriving DecidableEq, Repr

structure FwdState where
  env : List (String × Nat)        -- module namespace: name ↦ the class (numbered) bound to it now
  resolved : Table Proxy Nat       -- _ref_proxy_to_resolved_hint: successes only
  beartyped : List String          -- _BEARTYPED_MODULE_TO_TYPE_NAME[module]
deriving Repr

def FwdState.empty : FwdState := { env := [], resolved := [], beartyped := [] }

def envGet : List (String × Nat) → String → Option Nat
  | [], _ => none
  | (n, c) :: e, x => if n == x then some c else envGet e x

inductive FwdOp where
  | define (name : String) (cls : Nat) (beartyped : Bool)  -- `class name: …` executed (again), with or without @beartype
  | call (p : Proxy)                                        -- a check needs the referent of proxy `p`
  | clear                                                   -- clear_caches()
deriving Repr

inductive FwdAns where
  | unresolved                      -- BeartypeCallHintForwardRefException
  | cls (c : Nat)
deriving DecidableEq, Repr

/-- `_uncache_beartype_if_type_redefined(cls)`: a name decorated before ⇒ `clear_caches()` and the set of
    decorated names is reset to this name alone; else the name is recorded. -/
def noteBeartyped (s : FwdState) (n : String) : FwdState :=
  if s.beartyped.contains n then { s with resolved := [], beartyped := [n] }
  else { s with beartyped := n :: s.beartyped }

/-- `define`: the class statement runs (under @beartype: `beartype_type` → `_uncache_beartype_if_type_redefined`)
    and binds the name. `call`: `__resolved_hint_beartype__` — a cached referent is returned; else the name is
    looked up NOW; a failure raises and stores nothing, a success is stored. -/
def stepF (s : FwdState) : FwdOp → FwdState × Option FwdAns
  | .define n c bt =>
    let s' := if bt then noteBeartyped s n else s
    ({ s' with env := (n, c) :: s'.env }, none)
  | .call p =>
    match find (fun a b => a == b) s.resolved p with
    | some c => (s, some (.cls c))
    | none =>
      match envGet s.env p.name with
      | none => (s, some .unresolved)                                      -- raises; nothing is cached
      | some c => ({ s with resolved := (p, c) :: s.resolved }, some (.cls c))
  | .clear => ({ s with resolved := [] }, none)

def runF (hist : List FwdOp) : FwdState := hist.foldl (fun s op => (stepF s op).1) FwdState.empty

def answerF (s : FwdState) (p : Proxy) : Option FwdAns := (stepF s (.call p)).2

/-- what an interpreter that only executed the definitions answers -/
def freshF (s : FwdState) (p : Proxy) : FwdAns :=
  match envGet s.env p.name with
  | none => .unresolved
  | some c => .cls c

/-- a history in which no name is ever bound twice -/
def noRedefinition : List FwdOp → List String → Bool
  | [], _ => true
  | .define n _ _ :: r, seen => !seen.contains n && noRedefinition r (n :: seen)
  | _ :: r, seen => noRedefinition r seen

/-! ## 6. Instantiation used by the driver: hints as the harness observed them -/

/-- A hint object as the harness observed it with Python's own `==`, `hash`, `repr`. -/
structure Val where
  uid : Nat          -- which expression over which class objects (equal uid ⇒ same hint up to identity of the object)
  eqc : Nat          -- its class under `==`
  rep : String       -- its `repr`
  hashable : Bool
  worthy : Bool
  visit : List Bool := []   -- per hint of its tree in visiting order (root first): is it context-relative?
deriving DecidableEq, Repr

def valLang : Lang Val where
  pyEq a b := a.eqc == b.eqc
  repr v := v.rep
  worthy v := v.worthy
  hashable v := v.hashable

/-- which repair state the code is in (read from Extracted/Memo.lean by the driver) -/
structure Variant where
  reprChecked : Bool
  idPinned : Bool
deriving Repr


/-! ## 7. A concrete hint language in which `KeyCongruent` for the `==` discipline is PROVED

  Enough of `typing` to contain the look-alikes the histories use: class objects (equal iff identical —
  two classes of the same NAME are different keys), `Literal[...]` (equal iff the same SET of (value, type)
  pairs: `Literal[1] != Literal[True]`, `Literal[1, 2] == Literal[2, 1]`), `Union[...]` (equal iff the same
  set of members, whatever the order), `list[h]` and `typing.List[h]` (never equal to each other, same
  meaning). `pyEq` mirrors `typing`'s `__eq__`; `sat` is the full-depth meaning. -/

inductive LitV where
  | int (n : Int)
  | bool (b : Bool)
  | str (s : String)
deriving DecidableEq, Repr

inductive PyObj where
  | lit (v : LitV)
  | inst (cls : Nat)                 -- an instance of the class object numbered `cls`
  | list (xs : List PyObj)
  | none
deriving Repr

/-- union members / leaves -/
inductive Atom where
  | cls (name : String) (uid : Nat)  -- a class object: `uid` is its identity, `name` what `repr` shows
  | lit (vs : List LitV)
  | noneType
deriving Repr

inductive Hint where
  | atom (a : Atom)
  | union (ms : List Atom)           -- Union[...] / X | Y over leaves
  | list585 (h : Hint)               -- list[h]
  | list484 (h : Hint)               -- typing.List[h]
deriving Repr

def litSubset (a b : List LitV) : Bool := a.all (fun v => b.contains v)

def atomEq : Atom → Atom → Bool
  | .cls _ u, .cls _ u' => u == u'
  | .lit vs, .lit vs' => litSubset vs vs' && litSubset vs' vs
  | .noneType, .noneType => true
  | _, _ => false

def hintEq : Hint → Hint → Bool
  | .atom a, .atom b => atomEq a b
  | .union ms, .union ms' => ms.all (fun a => ms'.any (atomEq a)) && ms'.all (fun b => ms.any (fun a => atomEq a b))
  | .list585 h, .list585 h' => hintEq h h'
  | .list484 h, .list484 h' => hintEq h h'
  | _, _ => false

def satAtom : Atom → PyObj → Bool
  | .cls _ u, .inst c => c == u
  | .lit vs, .lit v => vs.contains v
  | .noneType, .none => true
  | _, _ => false

def sat : Hint → PyObj → Bool
  | .atom a, x => satAtom a x
  | .union ms, x => ms.any (fun a => satAtom a x)
  | .list585 h, .list xs => xs.all (fun x => sat h x)
  | .list484 h, .list xs => xs.all (fun x => sat h x)
  | .list585 _, _ => false
  | .list484 _, _ => false

def atomRepr : Atom → String
  | .cls n _ => n
  | .lit vs => "Literal" ++ toString (vs.map (fun v => match v with | .int n => toString n | .bool b => toString b | .str s => s))
  | .noneType => "None"

def hintRepr : Hint → String
  | .atom a => atomRepr a
  | .union ms => "Union" ++ toString (ms.map atomRepr)
  | .list585 h => "list[" ++ hintRepr h ++ "]"
  | .list484 h => "typing.List[" ++ hintRepr h ++ "]"

def hintWorthy : Hint → Bool
  | .list585 _ => true
  | _ => false

def hintLang : Lang Hint where
  pyEq := hintEq
  repr := hintRepr
  worthy := hintWorthy
  hashable _ := true

end BearVerif.Memo
