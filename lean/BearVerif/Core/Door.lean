import BearVerif.Core.Bear
/-
  Door — executable model of `beartype.door.is_subhint` / `TypeHint` (C19).

  Mirrors, function by function (Python 3.12 tree, WITH the three repairs of
  /verif/fixes/C19_*.patch applied — see the comments tagged [fix]):
    beartype/door/_cls/doorsuper.py            TypeHint.is_subhint (`leF`), _is_subhint (`baseSub`),
                                               _is_subhint_branch (`brBase`), _is_equal / __eq__ (`eqBody`),
                                               __gt__ (`gt`), _is_args_ignorable (`argsIgn`), is_ignorable (`ign`),
                                               _branches (`branches`), _args_wrapped_tuple (`children`),
                                               args (`args`), __len__/__iter__/__getitem__/__contains__/__hash__
    beartype/door/_cls/doormeta.py             the wrapper factory and its singleton cache (`Cache`)
    beartype/door/_cls/pep/doorpep484604.py    UnionTypeHint._is_subhint (`subBody`, union case), _branches
    beartype/door/_cls/pep/doorpep586.py       LiteralTypeHint._is_subhint / _is_subhint_branch [fix] (`subBody`, `brLe`)
    beartype/door/_cls/pep/doorpep593.py       AnnotatedTypeHint._is_subhint_branch [fix], _is_equal
    beartype/door/_cls/pep/pep484/doorpep484class.py, doorpep484newtype.py, doorpep484typevar.py, doorpep484any.py
    beartype/door/_cls/pep/pep484585/doorpep484585tuple.py       TupleFixedTypeHint / TupleVariableTypeHint
    beartype/door/_cls/pep/pep484585/doorpep484585callable.py    CallableTypeHint [fix: no `is_ignorable` override]
    beartype/door/_cls/pep/pep484585/doorpep484585subscripted.py SubscriptedTypeHint._is_equal
    beartype/door/_cls/util/doorclsmap.py      which wrapper class a hint gets = which `DHint` constructor

  The recursion of the real code (`is_subhint` ↔ `__eq__`/`__gt__` on children, on branches, on
  the classes of literal members, with swapped arguments for `__gt__`) is not structural in
  either argument, so the model is defined by recursion on a fuel counter: `leF (n+1)` is the
  NON-recursive body `subBody` applied to `leF n` / `eqF n`. Every theorem is proved for
  every fuel; `subhint` / `eqW` instantiate a fuel that always suffices (the harness checks on
  every run that the model never answers `fuel`).

  `BeartypeDoorIsSubhintException` ("undecidable": two subscripted hints with differing
  numbers of children) is `Err.arity`; Python's `all()`/`any()` over generators are the
  sequential, short-circuiting `allE`/`anyE` (an exception in a later element is not
  reached after a deciding earlier one).
-/
namespace BearVerif.Door
open BearVerif.Bear

/-! ### results: `True` / `False` / raised -/

inductive Err where
  | arity      -- BeartypeDoorIsSubhintException: "... subscripted by differing number of child type hints"
  | fuel       -- model artefact, never observed for `subhint` / `eqW` (checked by the harness)
deriving DecidableEq, Repr, Inhabited

abbrev R := Except Err Bool

instance : DecidableEq R := fun a b => match a, b with
  | .ok x, .ok y => if h : x = y then isTrue (by rw [h]) else isFalse (by intro e; cases e; exact h rfl)
  | .error x, .error y => if h : x = y then isTrue (by rw [h]) else isFalse (by intro e; cases e; exact h rfl)
  | .ok _, .error _ => isFalse (by intro e; cases e)
  | .error _, .ok _ => isFalse (by intro e; cases e)

/-- `x and y` -/
def andE (x y : R) : R := match x with
  | .ok true => y
  | r => r
/-- `x or y` -/
def orE (x y : R) : R := match x with
  | .ok false => y
  | r => r
/-- `not x` -/
def notE (x : R) : R := match x with
  | .ok b => .ok (!b)
  | r => r
/-- `k if v is True else v` (the early `return False` after a failed sub-test) -/
def guardE (v k : R) : R := match v with
  | .ok true => k
  | r => r
/-- `all(f(x) for x in l)` -/
def allE {α : Type} (l : List α) (f : α → R) : R := match l with
  | [] => .ok true
  | x :: xs => andE (f x) (allE xs f)
/-- `any(f(x) for x in l)` -/
def anyE {α : Type} (l : List α) (f : α → R) : R := match l with
  | [] => .ok false
  | x :: xs => orE (f x) (anyE xs f)

/-! ### hints as `TypeHint` sees them -/

/-- which container logic the CHECKER uses for a one-argument container (meaning only;
    `is_subhint` does not look at it) -/
inductive CKind where
  | seq | reit | quasi
deriving DecidableEq, Repr, Inhabited

/-- One constructor per wrapper class of `doorclsmap.get_typehint_subclass`. -/
inductive DHint where
  | any                                                  -- AnyTypeHint
  | cls (c : Nat)                                        -- ClassTypeHint: a class, None, an unsubscripted generic (origin `c`);
                                                         --   NewTypeTypeHint: `c` is the class fabricated for the NewType (`DWorld.ntParent`)
  | union (hs : List DHint)                              -- UnionTypeHint
  | typevar (hs : List DHint)                            -- TypeVarTypeHint: [bound] | constraints | [object]
  | literal (ms : List (Nat × Atom))                     -- LiteralTypeHint: (type of the member, member)
  | annotated (h : DHint) (md : List Nat)                -- AnnotatedTypeHint: metahint, opaque metadata (equal numbers ⇔ `==`)
  | tupleFixed (hs : List DHint)                         -- TupleFixedTypeHint: tuple[a, b], tuple[()]
  | tupleVar (h : DHint)                                 -- TupleVariableTypeHint: tuple[a, ...]
  | cont (k : CKind) (o : Nat) (h : DHint)               -- SubscriptedTypeHint with one child: list[a], Sequence[a], Iterable[a], …
  | mapping (o : Nat) (k v : DHint)                      -- SubscriptedTypeHint with two children: dict[k, v], Mapping[k, v]
  | callable (o : Nat) (ell : Bool) (ps : List DHint) (r : DHint)   -- CallableTypeHint: Callable[[ps…], r] / Callable[..., r] (`ell`)
deriving Repr, Inhabited

/-- class number of `object` (fixed by the harness registry, asserted on every run) -/
def cObject : Nat := 4

structure DWorld where
  W : World
  /-- the class a NewType's fabricated origin aliases (`make_type(name, bases=(alias,))`) -/
  ntParent : Nat → Option Nat

namespace DHint
def isAny : DHint → Bool
  | .any => true
  | _ => false
def isUnionLike : DHint → Bool
  | .union _ | .typevar _ => true
  | _ => false
def isLiteral : DHint → Bool
  | .literal _ => true
  | _ => false

/-- `_branches` -/
def branches : DHint → List DHint
  | .union hs | .typevar hs => hs
  | h => [h]

/-- `_args_wrapped_tuple` (what `len`, iteration, indexing and `in` range over) -/
def children : DHint → List DHint
  | .union hs | .typevar hs | .tupleFixed hs => hs
  | .annotated h _ | .tupleVar h | .cont _ _ h => [h]
  | .mapping _ k v => [k, v]
  | .callable _ ell ps r => if ell then [.any, r] else if ps.isEmpty then [.tupleFixed [], r] else ps ++ [r]
  | .literal _ | .cls _ | .any => []

/-- `_origin` -/
def origin : DHint → Nat
  | .cls c | .cont _ c _ | .mapping c _ _ | .callable c _ _ _ => c
  | .tupleFixed _ | .tupleVar _ => cTuple
  | _ => cObject
end DHint
open DHint

variable (D : DWorld)

mutual
/-- `sanify_hint_any(hint) is HINT_SANE_IGNORABLE`: what the CHECKER ignores — `object`, `Any`, a NewType
    of `object`, a union with an ignorable member, a TypeVar whose bound / union of constraints is ignorable
    (or that has neither), `Annotated` over an ignorable hint -/
def ignS : DHint → Bool
  | .any => true
  | .cls c => c == cObject || D.ntParent c == some cObject
  | .union hs => ignSAny hs
  | .typevar hs => ignSAny hs
  | .annotated h _ => ignS h
  | _ => false
def ignSAny : List DHint → Bool
  | [] => false
  | h :: hs => ignS h || ignSAny hs
end

mutual
/-- `TypeHint.is_ignorable`: the checker's notion, except that TypeVarTypeHint overrides it with "ALL
    bounds/constraints ignorable" ([fix] CallableTypeHint no longer overrides it) -/
def ign : DHint → Bool
  | .typevar hs => ignAll hs
  | h => ignS D h
def ignAll : List DHint → Bool
  | [] => true
  | h :: hs => ign h && ignAll hs
end

/-- `_is_args_ignorable` -/
def argsIgn : DHint → Bool
  | .any | .cls _ => true
  | .literal _ | .annotated _ _ | .tupleFixed _ => false
  | h => ignAll D (children h)

/-- `isinstance(branch, type(self))` for the wrappers that use the base `_is_subhint_branch` -/
def instOf (bj a : DHint) : Bool :=
  match a, bj with
  | .cont _ _ _, .cont _ _ _ | .cont _ _ _, .mapping _ _ _ | .cont _ _ _, .tupleVar _ => true
  | .mapping _ _ _, .cont _ _ _ | .mapping _ _ _, .mapping _ _ _ | .mapping _ _ _, .tupleVar _ => true
  | .tupleVar _, .tupleVar _ => true
  | _, _ => false

/-- `_hint_sign is other._hint_sign` for subscripted wrappers (one sign per origin) -/
def sameSign (x y : DHint) : Bool :=
  match x, y with
  | .cont _ o _, .cont _ o' _ => o == o'
  | .mapping o _ _, .mapping o' _ _ => o == o'
  | .tupleVar _, .tupleVar _ => true
  | _, _ => false

/-- [fix] a literal member is a member of another literal: same type AND equal -/
def litIn (m : Nat × Atom) (ms : List (Nat × Atom)) : Bool := ms.any (fun m' => m.1 == m'.1 && m.2 == m'.2)
def litSubset (ms ms' : List (Nat × Atom)) : Bool := ms.all (fun m => litIn m ms')

section body
variable (le eq : DHint → DHint → R)

/-- `all(f(a, b) for a, b in zip(as, bs))` -/
def zipAllE (f : DHint → DHint → R) : List DHint → List DHint → R
  | a :: as, b :: bs => andE (f a b) (zipAllE f as bs)
  | _, _ => .ok true
/-- `any(f(a, b) for a, b in zip(as, bs))` -/
def zipAnyE (f : DHint → DHint → R) : List DHint → List DHint → R
  | a :: as, b :: bs => orE (f a b) (zipAnyE f as bs)
  | _, _ => .ok false

/-- `x > y`: `x.is_superhint(y) and x != y` -/
def gt (x y : DHint) : R := andE (le y x) (notE (eq x y))

/-- TypeHint._is_subhint_branch (base class) -/
def brBase (a bj : DHint) : R :=
  if !D.W.sub (origin a) (origin bj) then .ok false
  else if argsIgn D bj then .ok true
  else if !instOf bj a then .ok false
  else if (children a).length != (children bj).length then .error .arity
  else zipAllE le (children a) (children bj)

/-- CallableTypeHint._is_subhint_branch, after the `_is_args_ignorable` test -/
def brCallable (ell : Bool) (pa : List DHint) (r : DHint) (ell' : Bool) (pb : List DHint) (r' : DHint) : R :=
  let paramFail : R :=
    if ell' then .ok false else if ell then .ok true
    else if pa.length != pb.length then .ok true else zipAnyE (gt le eq) pa pb
  match paramFail with
  | .ok true => .ok false
  | .ok false => if !ign D r' then (if ign D r then .ok false else le r r') else .ok true
  | .error e => .error e

/-- `self._is_subhint_branch(branch)`, dispatched on the wrapper class of `self` -/
def brLe (a bj : DHint) : R :=
  match a with
  | .cls c => .ok (argsIgn D bj && D.W.sub c (origin bj))
  | .tupleFixed as =>
      if argsIgn D bj then .ok (D.W.sub cTuple (origin bj))
      else match bj with
        | .tupleVar h => allE as (fun ai => le ai h)
        | .tupleFixed bs => if as.length != bs.length then .ok false else zipAllE le as bs
        | _ => .ok false
  | .annotated h md =>
      match bj with
      | .annotated h' md' =>
          -- [fix] `not metahint.is_subhint(branch metahint)` (was `metahint > branch metahint`)
          guardE (le h h') (.ok (md.length == md'.length && md == md'))
      | _ => le h bj
  | .literal ms =>
      match bj with
      | .literal ms' => .ok (litSubset ms ms')       -- [fix] LiteralTypeHint._is_subhint_branch
      | _ => brBase D le a bj
  | .callable o ell ps r =>
      if argsIgn D bj then .ok (D.W.sub o (origin bj))
      else match bj with
        | .callable _ ell' _ r' =>
            brCallable D le eq ell (children (.callable o ell ps r)).dropLast r ell' (children bj).dropLast r'
        | _ => .ok false
  | .cont _ _ _ | .mapping _ _ _ | .tupleVar _ => brBase D le a bj
  | .union _ | .typevar _ | .any => .ok false       -- never reached (UnionTypeHint overrides `_is_subhint`)

/-- TypeHint._is_subhint (base class): some branch of the other side is Any or a super-branch -/
def baseSub (a b : DHint) : R :=
  anyE (branches b) (fun bj => if bj.isAny then .ok true else brLe D le eq a bj)

/-- `self._is_subhint(other)`, dispatched on the wrapper class of `self` -/
def subBody (a b : DHint) : R :=
  match a with
  | .union as | .typevar as =>
      allE as (fun ai => if b.isUnionLike then anyE (branches b) (fun bj => le ai bj) else le ai b)
  | .literal ms =>
      match b with
      | .literal ms' => .ok (litSubset ms ms')
      | _ => orE (allE ms (fun m => le (.cls m.1) b)) (baseSub D le eq a b)
  | _ => baseSub D le eq a b

/-- `self._is_equal(other)`, dispatched on the wrapper class of `self` -/
def eqBody (x y : DHint) : R :=
  match x with
  | .cont _ _ _ | .mapping _ _ _ | .tupleVar _ =>
      if argsIgn D x && argsIgn D y then .ok (origin x == origin y)
      else if !sameSign x y || (children x).length != (children y).length then .ok false
      else zipAllE eq (children x) (children y)
  | .annotated h md =>
      match y with
      | .annotated h' md' => andE (eq h h') (.ok (md == md'))
      | _ => .ok false
  | _ => andE (le x y) (le y x)

end body

mutual
/-- `TypeHint(a).is_subhint(TypeHint(b))` with `n` levels of nested calls allowed -/
def leF : Nat → DHint → DHint → R
  | 0, _, _ => .error .fuel
  | n + 1, a, b => if a.isAny || b.isAny then .ok true else subBody D (leF n) (eqF n) a b
/-- `TypeHint(a) == TypeHint(b)` -/
def eqF : Nat → DHint → DHint → R
  | 0, _, _ => .error .fuel
  | n + 1, x, y => eqBody D (leF n) (eqF n) x y
end

mutual
def DHint.size : DHint → Nat
  | .any | .cls _ => 1
  | .literal _ => 2
  | .union hs | .typevar hs | .tupleFixed hs => 1 + sizeList hs
  | .annotated h _ | .tupleVar h | .cont _ _ h => 1 + h.size
  | .mapping _ k v => 1 + k.size + v.size
  | .callable _ _ ps r => 3 + sizeList ps + r.size
def sizeList : List DHint → Nat
  | [] => 0
  | h :: hs => h.size + sizeList hs
end

/-- a fuel that always suffices (each nested call strictly decreases `size a + size b`;
    `==` costs one extra level) -/
def fuelFor (a b : DHint) : Nat := 2 * (a.size + b.size) + 2

/-- **the model of `is_subhint(a, b)`** -/
def subhint (a b : DHint) : R := leF D (fuelFor a b) a b
/-- **the model of `TypeHint(a) == TypeHint(b)`** (one level above the `subhint` calls it makes) -/
def eqW (a b : DHint) : R := eqF D (fuelFor a b + 1) a b

/-! ### meaning: translation to the Bear core's hints (`sat` = the published meaning) -/

mutual
/-- what the CHECKER takes the hint to mean (Any-free, Callable-free part). A NewType means
    its alias; opaque `Annotated` metadata is ignored; a TypeVar means its bound / the union of
    its constraints. -/
def toHint : DHint → Hint
  | .any => .any
  | .cls c => .cls ((D.ntParent c).getD c)
  | .union hs | .typevar hs => .union (toHints hs)
  | .literal ms => .literal ms
  | .annotated h _ => toHint h
  | .tupleFixed hs => .tupleFixed (toHints hs)
  | .tupleVar h => .seq cTuple (toHint h)
  | .cont .seq o h => .seq o (toHint h)
  | .cont .reit o h => .reit o (toHint h)
  | .cont .quasi o h => .quasi o (toHint h)
  | .mapping o k v => .mapping o (toHint k) (toHint v)
  | .callable o _ _ _ => .shallow o
def toHints : List DHint → List Hint
  | [] => []
  | h :: hs => toHint h :: toHints hs
end

/-- the published meaning of a door hint -/
def dsat (h : DHint) (x : Obj) : Bool := sat D.W (toHint D h) x

/-! ### side conditions of the theorems -/

/-- what the theorems assume about the class table (checked by `decide` for concrete tables;
    the harness extracts the table from the running interpreter) -/
structure DWorld.Wf (D : DWorld) : Prop where
  sub_refl : ∀ c, D.W.sub c c = true
  sub_trans : ∀ a b c, D.W.sub a b = true → D.W.sub b c = true → D.W.sub a c = true
  obj_top : ∀ c, D.W.sub c cObject = true
  obj_only : ∀ c, D.W.sub cObject c = true → c = cObject
  tuple_coll : ∀ c, D.W.sub c cTuple = true → D.W.sub c cCollection = true
  /-- the class fabricated for a NewType: its superclasses are itself and those of its alias … -/
  nt_sub : ∀ c p, D.ntParent c = some p → ∀ d, D.W.sub c d = (d == c || D.W.sub p d)
  /-- … and nothing else subclasses it -/
  nt_leaf : ∀ c p, D.ntParent c = some p → ∀ d, D.W.sub d c = true → d = c
  nt_obj : D.ntParent cObject = none
  nt_tuple : D.ntParent cTuple = none

/-- instances of a sequence / reiterable origin are collections -/
def CollOrigin (o : Nat) : Prop := ∀ c, D.W.sub c o = true → D.W.sub c cCollection = true
/-- instances of a mapping origin are mappings (one value per key) -/
def MapOrigin (o : Nat) : Prop := ∀ c, D.W.sub c o = true → D.W.mapping c = true

mutual
/-- **the part of the grammar that has a modelled meaning** (soundness is stated on it): no `Any`,
    no `Callable`, nonempty unions, container origins that are real classes with the capability
    their checking logic assumes -/
def DHint.Sem : DHint → Prop
  | .any => False
  | .cls _ => True
  | .union hs => hs ≠ [] ∧ SemAll hs
  | .typevar hs => hs ≠ [] ∧ SemAll hs
  | .literal _ => True
  | .annotated h _ => h.Sem
  | .tupleFixed hs => SemAll hs
  | .tupleVar h => h.Sem
  | .cont k o h => h.Sem ∧ D.ntParent o = none ∧ (k = .quasi ∨ CollOrigin D o)
  | .mapping o k v => k.Sem ∧ v.Sem ∧ D.ntParent o = none ∧ MapOrigin D o
  | .callable _ _ _ _ => False
def SemAll : List DHint → Prop
  | [] => True
  | h :: hs => h.Sem ∧ SemAll hs
end

mutual
/-- **the decidable side conditions transitivity needs** (each excluded shape has a counterexample
    theorem in Props/C19.lean that is replayed on the real code): no `Any`; members of a union and
    bounds/constraints of a TypeVar are not themselves unions/TypeVars; the constraints of a TypeVar
    are all ignorable or none is; the members of a Literal have one type; no `Callable`; container
    origins are proper classes (neither `object` nor the class fabricated for a NewType). -/
def DHint.Reg : DHint → Prop
  | .any => False
  | .cls _ => True
  | .union hs => hs ≠ [] ∧ RegAll hs ∧ hs.all (fun h => !h.isUnionLike) = true
  | .typevar hs => hs ≠ [] ∧ RegAll hs ∧ hs.all (fun h => !h.isUnionLike) = true ∧ (ignSAny D hs = true → ignAll D hs = true)
  | .literal ms => ms ≠ [] ∧ ∀ m ∈ ms, ∀ m' ∈ ms, m.1 = m'.1
  | .annotated h _ => h.Reg
  | .tupleFixed hs => RegAll hs
  | .tupleVar h => h.Reg
  | .cont _ o h => h.Reg ∧ o ≠ cObject ∧ D.ntParent o = none
  | .mapping o k v => k.Reg ∧ v.Reg ∧ o ≠ cObject ∧ D.ntParent o = none
  | .callable _ _ _ _ => False
def RegAll : List DHint → Prop
  | [] => True
  | h :: hs => h.Reg ∧ RegAll hs
end

/-- origins of subscripted hints are proper classes (never `object`), along the recursion of `==` -/
def DHint.Proper : DHint → Prop
  | .cont _ o h => o ≠ cObject ∧ h.Proper
  | .mapping o k v => o ≠ cObject ∧ k.Proper ∧ v.Proper
  | .tupleVar h => h.Proper
  | .annotated h _ => h.Proper
  | _ => True

/-- hints that `==` compares structurally: classes and subscripted hints whose arguments are not all
    ignorable, all the way down (on these, equal wrappers wrap equal hints, hence have equal hashes) -/
def DHint.Rigid : DHint → Prop
  | .cls _ => True
  | .cont _ _ h => h.Rigid ∧ ign D h = false
  | .mapping _ k v => k.Rigid ∧ v.Rigid ∧ (ign D k && ign D v) = false
  | .tupleVar h => h.Rigid ∧ ign D h = false
  | _ => False

/-- the hint without the checker's container logic (which is a function of the origin, not part of the hint) -/
def DHint.erase : DHint → DHint
  | .cont _ o h => .cont .seq o h.erase
  | .mapping o k v => .mapping o k.erase v.erase
  | .tupleVar h => .tupleVar h.erase
  | h => h

/-! ### the wrapper as a container: len / iter / getitem / contains / args / hash, and the factory -/

/-- one element of `TypeHint.args` -/
inductive Arg where
  | hint (h : DHint)
  | value (m : Nat × Atom)      -- a Literal member
  | ellipsis
deriving Repr, Inhabited

/-- `TypeHint.args` (`_make_args`) -/
def args : DHint → List Arg
  | .literal ms => ms.map .value
  | .typevar _ => []                                          -- get_hint_pep_args(TypeVar) == ()
  | .callable _ ell ps r => if ell then [.ellipsis, .hint r] else ps.map .hint ++ [.hint r]
  | h => (children h).map .hint

def wlen (a : DHint) : Nat := (children a).length
def witer (a : DHint) : List DHint := children a
def wgetitem (a : DHint) (i : Nat) : Option DHint := (children a)[i]?

/-- `c in TypeHint(a)`: membership in `frozenset(children)` — a child with the same hash that is
    the same object or compares equal. `hash` abstracts `hash(wrapper) = hash(hint)`, `same` object identity. -/
def wcontains (hash : DHint → Nat) (same : DHint → DHint → Bool) (a c : DHint) : Bool :=
  (children a).any (fun ch => hash ch == hash c && (same ch c || (eqW D ch c == .ok true)))

/-- `_TypeHintMetaclass.__call__` + `_HINT_TO_WRAPPER`: wrappers are cached by the (hashable)
    hint; `k` identifies the hint up to Python equality, wrapper identities are numbers. -/
structure Cache where
  entries : List (Nat × Nat) := []
  next : Nat := 0

def Cache.wrap (c : Cache) (k : Nat) : Cache × Nat :=
  match c.entries.lookup k with
  | some i => (c, i)
  | none => ({ entries := (k, c.next) :: c.entries, next := c.next + 1 }, c.next)

def Cache.run (c : Cache) : List Nat → Cache
  | [] => c
  | k :: ks => (c.wrap k).1.run ks

end BearVerif.Door
