/-!
  The placeholder mechanism of `make_check_expr`: the code of a hint is generated breadth-first. Visiting a queued
  hint produces its snippet, in which every child is a unique placeholder string; the child is enqueued under that
  placeholder, and `func_wrapper_code = replace_str_substrs(func_wrapper_code, placeholder, snippet)` splices the
  snippet of the visited hint into the code generated so far. The compile theorems speak about the RECURSIVE
  composition (`gen`). This file models the mechanism over arbitrary snippet trees and proves that it produces
  exactly the recursive composition.
-/
namespace BearVerif.Bfs

mutual
/-- a hint as the generator sees it: its snippet is a sequence of literal text and children -/
inductive Node where
  | mk (items : List Item)
inductive Item where
  | txt (s : String)
  | child (n : Node)
end

/-- generated code: literal text and placeholders -/
inductive Tok where
  | txt (s : String)
  | hole (n : Nat)
deriving DecidableEq, Repr

abbrev Code := List Tok

mutual
/-- the recursive composition: a node's text with every child's text spliced in place -/
def Node.flat : Node → List String
  | .mk items => flatItems items
def flatItems : List Item → List String
  | [] => []
  | .txt s :: is => s :: flatItems is
  | .child n :: is => n.flat ++ flatItems is
end

mutual
def Node.size : Node → Nat
  | .mk items => 1 + sizeItems items
def sizeItems : List Item → Nat
  | [] => 0
  | .txt _ :: is => sizeItems is
  | .child n :: is => n.size + sizeItems is
end

/-- the snippet of one visited node: children become placeholders numbered from `next`; returns the snippet,
    the children enqueued (in order) and the next unused placeholder number -/
def snippet : List Item → Nat → Code × List (Nat × Node) × Nat
  | [], next => ([], [], next)
  | .txt s :: is, next => (.txt s :: (snippet is next).1, (snippet is next).2.1, (snippet is next).2.2)
  | .child n :: is, next =>
    (.hole next :: (snippet is (next + 1)).1, (next, n) :: (snippet is (next + 1)).2.1, (snippet is (next + 1)).2.2)

/-- `str.replace(placeholder, snippet)`: every occurrence -/
def splice (i : Nat) (new : Code) : Code → Code
  | [] => []
  | .hole j :: c => if j = i then new ++ splice i new c else .hole j :: splice i new c
  | .txt s :: c => .txt s :: splice i new c

structure State where
  code : Code
  queue : List (Nat × Node)
  next : Nat

def step (s : State) : State :=
  match s.queue with
  | [] => s
  | (i, .mk items) :: rest =>
    { code := splice i (snippet items s.next).1 s.code, queue := rest ++ (snippet items s.next).2.1,
      next := (snippet items s.next).2.2 }

def run : Nat → State → State
  | 0, s => s
  | fuel + 1, s => run fuel (step s)

/-- the root is enqueued under placeholder 0 and the code starts as that placeholder -/
def init (root : Node) : State := { code := [.hole 0], queue := [(0, root)], next := 1 }

/-- the text of hole-free code -/
def Code.text : Code → List String
  | [] => []
  | .txt s :: c => s :: Code.text c
  | .hole _ :: c => Code.text c

def Code.holeFree : Code → Bool
  | [] => true
  | .txt _ :: c => Code.holeFree c
  | .hole _ :: _ => false

end BearVerif.Bfs
