import BearVerif.Core.Bear
/-!
  C20 — type-hint inference: the executable model of `beartype.door.infer_hint`.

  Mirrors, function by function,
    beartype/bite/_infermain.py                         infer_hint (dispatch: type / callable / scalar shortcuts,
                                                        then the builtin, [third-party: not modelled], collections.abc
                                                        inferers, fallback to the object's class; id()-based recursion guard)
    beartype/bite/collection/infercollectionbuiltin.py  infer_hint_collection_builtin, _infer_hint_factory_collection_builtin
    beartype/bite/collection/infercollectionsabc.py     infer_hint_collections_abc, _infer_hint_factory_collections_abc
                                                        (the finite state machine over method names; the machine itself is
                                                        extracted from the source into Extracted/Infer.lean)
    beartype/bite/collection/infercollectionitems.py    infer_hint_collection_items, _infer_hint_mapping_items,
                                                        _infer_hint_reiterable_items (On: union over all items; O1: one item)
    beartype/bite/kind/infercallable.py                 infer_hint_callable (callables are opaque: every result is
                                                        `Callable` or `Callable[…]`, checked by isinstance only)
    beartype/_util/hint/pep/proposal/pep484/pep484604union.py  make_hint_pep484604_union

  Modelled is the code WITH the repairs proposed in /verif/fixes/C20_*.patch: `Counter[K]` only when
  every inferred value hint is `int` (`subscript2`), the hint factory of the nearest builtin
  superclass for unsubscriptable C subclasses such as `odict_keys` (`builtinFactory`); the FSM
  (whose `Set` node the third repair corrects) is extracted from the source, whatever it says.

  The inferred hint is a `Bear.Hint`; its meaning is `Bear.sat` (Core/Bear.lean). Objects are
  `Bear.Obj` trees (finite, hence non-recursive); self-referential containers are modelled on a
  heap with addresses (`Heap`, `unfoldGuard`), where the id-set guard is a real termination argument.
-/
namespace BearVerif.Infer
open BearVerif.Bear

/-! ### structural equality of hints (the `set(...)` de-duplication of item hints) -/

deriving instance DecidableEq for Vale

mutual
/-- `==` on inferred hints: structural (typing's / `GenericAlias.__eq__` on the grammar inference produces) -/
def hintEq : Hint → Hint → Bool
  | .any, .any => true
  | .cls a, .cls b => a == b
  | .shallow a, .shallow b => a == b
  | .union as, .union bs => hintsEq as bs
  | .literal a, .literal b => a == b
  | .tupleFixed as, .tupleFixed bs => hintsEq as bs
  | .seq o h, .seq o' h' => o == o' && hintEq h h'
  | .reit o h, .reit o' h' => o == o' && hintEq h h'
  | .quasi o h, .quasi o' h' => o == o' && hintEq h h'
  | .mapping o k v, .mapping o' k' v' => o == o' && hintEq k k' && hintEq v v'
  | .typeOf a, .typeOf b => a == b
  | .annotated h vs, .annotated h' vs' => hintEq h h' && vs == vs'
  | _, _ => false
def hintsEq : List Hint → List Hint → Bool
  | [], [] => true
  | a :: as, b :: bs => hintEq a b && hintsEq as bs
  | _, _ => false
end

/-- `tuple(set(hints))` up to order: keep the first occurrence of every distinct hint -/
def dedup : List Hint → List Hint
  | [] => []
  | h :: hs => h :: (dedup hs).filter (fun g => !hintEq h g)

/-- `make_hint_pep484604_union`: a single child is returned as is -/
def mkUnion : List Hint → Hint
  | [h] => h
  | hs => .union hs

/-- `hint is object` -/
def isAny : Hint → Bool
  | .any => true
  | _ => false

/-- `hint is int` (the class numbered `c`) -/
def isCls (c : Nat) : Hint → Bool
  | .cls d => d == c
  | _ => false

/-! ### the inference world: what the inferers read off classes -/

/-- which container logic the CHECKER applies to `factory[...]` (Bear core: sequence /
    reiterable / quasi-iterable / mapping logic; `Counter[K]`; `tuple[T, ...]`; any other
    subscripted class — e.g. a user subclass of `list` — is checked by `isinstance` only) -/
inductive Logic where
  | seq | reit | quasi | mapping | counter | tupleVar | shallow
deriving DecidableEq, Repr, Inhabited

/-- `conf.strategy`; `O1 r` carries the forced value of `get_integer_pseudorandom_signed_32bit()` -/
inductive Strategy where
  | On
  | O1 (r : Nat)
deriving DecidableEq, Repr, Inhabited

structure InferWorld where
  cCallable : Nat                 -- collections.abc.Callable: `callable(obj)`
  cMapping : Nat                  -- collections.abc.Mapping: `issubclass(origin_type, MappingABC)`
  cObject : Nat                   -- object
  cInt : Nat                      -- int (Counter values)
  scalar : Nat → Bool             -- `obj_type in BUILTIN_TYPES_SCALAR`
  builtin : Nat → Option Nat      -- `_infer_hint_factory_collection_builtin(cls)`: the hint factory (its origin class)
  abc : Nat → Option Nat          -- `_infer_hint_factory_collections_abc(cls)`: the protocol the FSM stops at
  logic : Nat → Logic             -- checker-side logic of `factory[...]`
  tupleMax : Nat                  -- `_ROOT_TUPLE_FIXED_ITEMS_LEN_MAX`

/-- facts about the tables the round trip relies on (decided for the extracted tables and the
    running interpreter's classes on every run by the driver: request `wf`) -/
structure InferWorld.Wf (W : World) (I : InferWorld) : Prop where
  builtin_sub : ∀ c o, I.builtin c = some o → W.sub c o = true
  tuple_only : ∀ o, I.logic o = .tupleVar → o = cTuple

variable (W : World) (I : InferWorld)

/-- `hint_factory[hints_item]` (`hint_factory[hints_item, ...]` for `Tuple`) as the checker reads it -/
def subscript1 (o : Nat) (h : Hint) : Hint :=
  match I.logic o with
  | .seq | .tupleVar => .seq o h
  | .reit => .reit o h
  | .quasi => .quasi o h
  | _ => .shallow o

/-- `hint_factory[hints_key, hints_value]`; `Counter[hints_key]` when every value hint is `int`
    (the repaired F-C20b: otherwise the unsubscripted factory) -/
def subscript2 (o : Nat) (hk hv : Hint) : Hint :=
  match I.logic o with
  | .mapping => .mapping o hk hv
  | .counter => if isCls I.cInt hv then .mapping o hk (.cls I.cInt) else .cls o
  | _ => .shallow o

/-- the one item the O(1) strategy (or a 1-item container) looks at:
    `obj[int_random % len(obj)]` for sequences, `next(iter(obj))` otherwise -/
def pickHint (strat : Strategy) (c : Nat) (hi : List Hint) : Hint :=
  match strat with
  | .O1 r => if W.sub c cSequence then hi.getD (r % hi.length) .any else hi.headD .any
  | .On => hi.headD .any

def Strategy.isO1 : Strategy → Bool
  | .O1 _ => true
  | .On => false

/-- `len(obj) == 1 or conf.strategy is O1`: the hint of the one item looked at; otherwise (On)
    the union of the distinct hints of all items -/
def sampledOr (strat : Strategy) (n : Nat) (one : Hint) (hs : List Hint) : Hint :=
  if n == 1 || strat.isO1 then one else mkUnion (dedup hs)

/-- subscription step of `_infer_hint_mapping_items` -/
def mapHint (o : Nat) (hk hw : Hint) : Hint :=
  if isAny hk && isAny hw then .cls o else subscript2 I o hk hw

/-- subscription step of `_infer_hint_reiterable_items` -/
def reitHint (o : Nat) (h : Hint) : Hint :=
  if isAny h then .cls o else subscript1 I o h

/-- `hint_factory is Tuple and len(__beartype_obj_ids_seen__) == 1 and len(obj) <= _ROOT_TUPLE_FIXED_ITEMS_LEN_MAX` -/
def rootTuple (d o n : Nat) : Bool := I.logic o == .tupleVar && d == 0 && decide (n ≤ I.tupleMax)

/-- `infer_hint_collection_items` + `_infer_hint_mapping_items` / `_infer_hint_reiterable_items`, given
    the hints already inferred for the items (`hi`: items or keys) and values (`hv`).
    `d` = number of enclosing containers = `len(__beartype_obj_ids_seen__)` on entry;
    `o` = the hint factory, `originType` = `origin_type`, `c` = the object's class. -/
def itemsHint (strat : Strategy) (d o originType c : Nat) (hi hv : List Hint) : Hint :=
  if hi.isEmpty then .cls o                                            -- `if not obj: return hint_factory`
  else if W.sub originType I.cMapping then
    mapHint I o (sampledOr strat hi.length (hi.headD .any) hi) (sampledOr strat hi.length (hv.headD .any) hv)
  else if rootTuple I d o hi.length then .tupleFixed hi
  else reitHint I o (sampledOr strat hi.length (pickHint W strat c hi) hi)

variable (strat : Strategy)

mutual
/-- **`infer_hint(obj)`** for an object that is not itself a type hint; `d` enclosing containers. -/
def infer (d : Nat) : Obj → Hint
  | .mk c a items vals _ =>
    if W.sub c cType then                                              -- isinstance(obj, type): type[obj]
      (match a with
       | .klass k => .typeOf [k]
       | _ => .cls c)
    else if W.sub c I.cCallable then .shallow I.cCallable              -- callable(obj): Callable / Callable[…]
    else if I.scalar c then .cls c                                     -- builtin scalar: its class
    else match I.builtin c with
      | some o => itemsHint W I strat d o c c (inferList (d + 1) items) (inferList (d + 1) vals)
      | none => match I.abc c with
        | some o => .annotated
            (if W.sub c cCollection then itemsHint W I strat d o o c (inferList (d + 1) items) (inferList (d + 1) vals)
             else .cls o)
            [.isInstance [c]]
        | none => if c == I.cObject then .any else .cls c              -- `return obj_type`
def inferList (d : Nat) : List Obj → List Hint
  | [] => []
  | y :: ys => infer d y :: inferList d ys
end

/-- the dispatch reaches `infer_hint_collections_abc` -/
def reachesAbc (c : Nat) : Bool :=
  !W.sub c cType && !W.sub c I.cCallable && !I.scalar c && (I.builtin c).isNone

/-- the protocol the FSM stops at is one the class really is a subclass of -/
def abcOk (c : Nat) : Bool :=
  match I.abc c with
  | some o => W.sub c o
  | none => true

/-- the items of this class are inferred as key/value pairs -/
def usesMapping (c : Nat) : Bool :=
  match I.builtin c with
  | some _ => W.sub c I.cMapping
  | none => match I.abc c with
    | some o => W.sub o I.cMapping
    | none => false

mutual
/-- The objects the round trip is claimed for. `Obj` is a finite tree, so self-referential
    containers are outside by construction (F-C20c, see `Heap` below). Inside `Obj`, excluded are
    exactly the objects (at any depth) whose class the method-name FSM assigns a `collections.abc`
    protocol the class is NOT a subclass of (duck-typed, unregistered Sequence/Mapping/Set
    look-alikes; enumeration members, whose metaclass's methods `dir()` lists): for those the
    inferred hint provably rejects the object (`C20_abc_mismatch_counterexample_general`).
    The other two conjuncts are well-formedness of the model object: an instance of `type` is a
    class, a mapping has one value per key. -/
def Inferable : Obj → Bool
  | .mk c a items vals _ =>
    (!W.sub c cType || (match a with | .klass _ => true | _ => false)) &&
    (!usesMapping W I c || vals.length == items.length) &&
    (!reachesAbc W I c || abcOk W I c) &&
    inferableList items && inferableList vals
def inferableList : List Obj → Bool
  | [] => true
  | y :: ys => Inferable y && inferableList ys
end

/-! ### the collections.abc finite state machine (`_infer_hint_factory_collections_abc`) -/

/-- `_FiniteStateMachineNode`: `hint_factory` (by name) and `nodes_next` (required method names → node) -/
inductive FsmNode where
  | mk (factory : Option String) (next : List (List String × FsmNode))
deriving Repr, Inhabited

def FsmNode.factory : FsmNode → Option String | .mk f _ => f
def FsmNode.next : FsmNode → List (List String × FsmNode) | .mk _ n => n

/-- `nodes_next_method_names` -/
def nextNames : List (List String × FsmNode) → List String
  | [] => []
  | (k, _) :: r => k ++ nextNames r

def subsetOf (a b : List String) : Bool := a.all (fun s => b.contains s)

mutual
/-- the `while True` loop from `node_curr = node`: the factory of the node the walk stops at -/
def fsmWalk (methods : List String) : FsmNode → Option String
  | .mk f next =>
    -- `cls_method_names & node_curr.nodes_next_method_names`
    if (methods.filter (fun m => (nextNames next).contains m)).isEmpty then f
    else match fsmExact methods (methods.filter (fun m => (nextNames next).contains m)) next with  -- nodes_next.get(frozenset(names))
      | some r => r
      | none => match fsmFirst methods next with                           -- first key (dict order) wholly defined by the class
        | some r => r
        | none => f
def fsmExact (methods names : List String) : List (List String × FsmNode) → Option (Option String)
  | [] => none
  | (k, n) :: r => if subsetOf k names && subsetOf names k then some (fsmWalk methods n) else fsmExact methods names r
def fsmFirst (methods : List String) : List (List String × FsmNode) → Option (Option String)
  | [] => none
  | (k, n) :: r => if subsetOf k methods then some (fsmWalk methods n) else fsmFirst methods r
end

/-! ### class table → inference world (what the driver builds from the harness' class table) -/

structure ClassRow where
  qual : String                   -- f'{module}.{qualname}'
  mro : List Nat                  -- class numbers of `cls.__mro__`
  methods : List String           -- names (within the FSM vocabulary) of callables bound to the class that are not object slot wrappers
  subscriptable : Bool            -- hasattr(cls, '__class_getitem__')
deriving Repr, Inhabited

/-- `_infer_hint_factory_collection_builtin` (with the repaired fallback for unsubscriptable
    C-based subclasses such as `odict_keys`: the factory of the nearest builtin superclass) -/
def builtinFactory (table : List (String × String)) (idOf : String → Option Nat) (rows : Array ClassRow) (c : Nat) : Option Nat :=
  match rows[c]? with
  | none => none
  | some row =>
    match table.lookup row.qual with
    | some f => idOf f
    | none =>
      let bases := row.mro.filterMap (fun b => (rows[b]?).bind (fun rb => table.lookup rb.qual))
      match bases with
      | [] => none
      | f :: _ => if row.subscriptable then some c else idOf f

def abcFactory (fsm : FsmNode) (idOf : String → Option Nat) (rows : Array ClassRow) (c : Nat) : Option Nat :=
  match rows[c]? with
  | none => none
  | some row => (fsmWalk row.methods fsm).bind idOf

/-! ### self-referential containers: objects on a heap, the id-set guard -/

/-- an object whose items are addresses into the heap -/
structure GNode where
  cls : Nat
  atom : Atom
  items : List Nat
  vals : List Nat
deriving Repr, Inhabited

abbrev Heap := List GNode

/-- the object `infer_hint` sees when it reaches, again, an address that is already on the
    current path: it warns and returns the placeholder class — an object of that class stands
    for "recursion detected here" in the unfolded tree -/
def markerObj (cMarker : Nat) : Obj := .mk cMarker (.other 0) [] [] []

/-- all-or-nothing map (out of fuel anywhere = out of fuel) -/
def mapOpt (f : Nat → Option Obj) : List Nat → Option (List Obj)
  | [] => some []
  | a :: as =>
    match f a, mapOpt f as with
    | some y, some ys => some (y :: ys)
    | _, _ => none

/-- The traversal of `infer_hint` over a heap, as a tree: `seen` = `__beartype_obj_ids_seen__`
    (addresses on the current path). An address already on the path is cut (marker object,
    one warning); `none` = out of fuel (the traversal did not finish within `fuel` nested calls). -/
def unfoldGuard (H : Heap) (cMarker : Nat) : Nat → List Nat → Nat → Option Obj
  | 0, _, _ => none
  | fuel + 1, seen, a =>
    if seen.contains a then some (markerObj cMarker)
    else match H[a]? with
      | none => some (markerObj cMarker)          -- dangling address: not a heap of Python objects
      | some n =>
        match mapOpt (unfoldGuard H cMarker fuel (a :: seen)) n.items, mapOpt (unfoldGuard H cMarker fuel (a :: seen)) n.vals with
        | some is, some vs => some (.mk n.cls n.atom is vs [])
        | _, _ => none

/-- the heap object as it really is, unfolded `k` levels (what the checker can look at within `k` levels) -/
def unfoldN (H : Heap) : Nat → Nat → Obj
  | 0, a => .mk ((H[a]?).map (·.cls) |>.getD 0) ((H[a]?).map (·.atom) |>.getD .none) [] [] []
  | k + 1, a =>
    match H[a]? with
    | none => .mk 0 .none [] [] []
    | some n => .mk n.cls n.atom (n.items.map (unfoldN H k)) (n.vals.map (unfoldN H k)) []

/-- the hint factory whose items are inferred for an object of class `c` (none: no items are looked at) -/
def itemFactory (c : Nat) : Option Nat :=
  if W.sub c cType || W.sub c I.cCallable || I.scalar c then none
  else match I.builtin c with
    | some o => some o
    | none => if W.sub c cCollection then I.abc c else none

mutual
/-- number of recursion warnings `infer_hint` emits on the (cut) tree: one per marker object it
    reaches — all items under On (and of a root tuple), the sampled item under O1 -/
def warnCount (cMarker : Nat) (d : Nat) : Obj → Nat
  | .mk c _ items vals _ =>
    if c == cMarker then 1
    else match itemFactory W I c with
      | none => 0
      | some o =>
        let wi := warnCountList cMarker (d + 1) items
        let wv := warnCountList cMarker (d + 1) vals
        if usesMapping W I c then
          (if wi.length == 1 || strat.isO1 then wi.headD 0 + wv.headD 0 else wi.foldl (· + ·) 0 + wv.foldl (· + ·) 0)
        else if rootTuple I d o wi.length then wi.foldl (· + ·) 0
        else if wi.length == 1 || strat.isO1 then
          (match strat with
           | .O1 r => if W.sub c cSequence then wi.getD (r % wi.length) 0 else wi.headD 0
           | .On => wi.headD 0)
        else wi.foldl (· + ·) 0
def warnCountList (cMarker : Nat) (d : Nat) : List Obj → List Nat
  | [] => []
  | y :: ys => warnCount cMarker d y :: warnCountList cMarker d ys
end

/-- does the hint mention the class `c` anywhere (the recursion placeholder surfaces in the hint) -/
def mentions (c : Nat) : Hint → Bool
  | .cls d => d == c
  | .union hs => mentionsList c hs
  | .tupleFixed hs => mentionsList c hs
  | .seq _ h | .reit _ h | .quasi _ h => mentions c h
  | .mapping _ k v => mentions c k || mentions c v
  | .annotated h _ => mentions c h
  | _ => false
where
  mentionsList (c : Nat) : List Hint → Bool
    | [] => false
    | h :: hs => mentions c h || mentionsList c hs

end BearVerif.Infer
