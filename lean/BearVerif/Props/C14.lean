import BearVerif.Lemmas.Memo
import BearVerif.Extracted.Memo
/-!
  C14 — "answers do not depend on what was asked before (memoisation is invisible)".

  `f` is what a fresh interpreter answers; a history is any finite list of operations;
  `answer (run hist) q` is what the process that lived through the history answers.
  `KeyCongruent f keyEq` is THE obligation of a key discipline. It is proved from the
  discipline itself where the code guarantees it (`==` keys; `repr` keys validated by
  `==`; `id` keys whose entries keep their objects alive) and refuted, with `decide`d
  witnesses, for the disciplines as originally found (`repr` keys returned unvalidated:
  finding F-C14a; bare `id` keys of objects that may die: finding F-C14b) and for
  forward-reference referents after a class redefinition beartype is not told about.
  Extracted/Memo.lean (regenerated from the source on every run) says which discipline
  every memoisation site of the code uses NOW; the table theorems at the end require
  each of them to be one with a full-strength theorem.
-/
namespace BearVerif.Memo

variable {K A V : Type}

/-! ### `==`-keyed memoisation (`callable_cached`, checker caches, `_HINT_TO_HINTSANE`, `_HINT_TO_WRAPPER`) -/

/-- **Memoisation is invisible.** If keys that the table cannot tell apart have the same answer, then after
    EVERY finite history of queries, failing queries, garbage collections, class redefinitions and cache
    clears, the answer to every query is the answer of a fresh interpreter — whether it comes from the value
    dictionary, the exception dictionary or a fresh call. -/
theorem C14_memo_invisible (f : K → A) (isExc : A → Bool) (hashable : K → Bool) (keyEq : K → K → Bool) (clearable : Bool)
    (hc : KeyCongruent f keyEq) (hist : List (Op K)) (q : K) :
    answerE f isExc hashable keyEq (runE f isExc hashable keyEq clearable hist) q = f q :=
  (callCached_spec hc (runE_sound hc hist) q).1

/-- **Cached and first-time answers are identical** (values and exceptions alike): asking again, after any
    history, gives what the first asking gave. -/
theorem C14_cached_equals_first (f : K → A) (isExc : A → Bool) (hashable : K → Bool) (keyEq : K → K → Bool) (clearable : Bool)
    (hc : KeyCongruent f keyEq) (hist : List (Op K)) (q : K) :
    answerE f isExc hashable keyEq (runE f isExc hashable keyEq clearable (hist ++ [.query q])) q =
    answerE f isExc hashable keyEq (runE f isExc hashable keyEq clearable hist) q := by
  rw [C14_memo_invisible f isExc hashable keyEq clearable hc, C14_memo_invisible f isExc hashable keyEq clearable hc]

/-- The history process and the fresh interpreter (empty history) agree — the comparison the harness makes. -/
theorem C14_fresh_interpreter_agrees (f : K → A) (isExc : A → Bool) (hashable : K → Bool) (keyEq : K → K → Bool)
    (clearable : Bool) (hc : KeyCongruent f keyEq) (hist : List (Op K)) (q : K) :
    answerE f isExc hashable keyEq (runE f isExc hashable keyEq clearable hist) q =
    answerE f isExc hashable keyEq (runE f isExc hashable keyEq clearable []) q := by
  rw [C14_memo_invisible f isExc hashable keyEq clearable hc, C14_memo_invisible f isExc hashable keyEq clearable hc]

/-- **`KeyCongruent` is necessary**: two hashable keys that the table identifies but `f` separates (a
    look-alike such as `1`/`True` that meant different things) give a one-query history after which the
    answer is wrong. -/
theorem C14_key_congruence_necessary (f : K → A) (isExc : A → Bool) (hashable : K → Bool) (keyEq : K → K → Bool)
    (clearable : Bool) (k k' : K) (hk : hashable k = true) (hk' : hashable k' = true)
    (he : keyEq k k' = true) (hf : f k ≠ f k') :
    answerE f isExc hashable keyEq (runE f isExc hashable keyEq clearable [.query k]) k' ≠ f k' := by
  have hrun : runE f isExc hashable keyEq clearable [.query k] =
      (if isExc (f k) then { vals := [], excs := [(k, f k)] } else { vals := [(k, f k)], excs := [] }) := by
    simp [runE, stepE, callCached, hk, Cached.empty, find]
    split <;> rfl
  rw [hrun]
  by_cases hx : isExc (f k) = true
  · simp [answerE, callCached, hk', hx, find, he, hf]
  · simp [answerE, callCached, hk', hx, find, he, hf]

/-! ### the checker pipeline: `==`-keyed checker table in front of the `repr`-keyed coercion -/

/-- **With the repaired `coerce_hint_any`** (a `repr` hit is used only if it `==` the passed hint) the
    answer of `is_bearable` / `die_if_unbearable` / a decorated call after every history is the fresh
    answer, for every hint language whose meaning respects Python `==`. No assumption on `repr`. -/
theorem C14_checker_pipeline_invisible (L : Lang V) (f : CKey V → A) (hc : KeyCongruent f (ckeyEq L))
    (hist : List (Op (CKey V))) (q : CKey V) :
    answerB L true f (runB L true f hist) q = f q := by
  have hinv : ∀ (h : List (Op (CKey V))) (s : BearState V A), Sound f (ckeyEq L) s.checker →
      Sound f (ckeyEq L) (h.foldl (stepB L true f) s).checker := by
    intro h
    induction h with
    | nil => intro s hs; exact hs
    | cons op r ih =>
      intro s hs
      apply ih
      cases op with
      | query q' => exact (askBear_spec hc hs q' (coerce_checked L _ _)).2
      | failingQuery q' => exact (askBear_spec hc hs q' (coerce_checked L _ _)).2
      | gc o => exact hs
      | redefine c => exact hs
      | clearCaches => exact sound_nil _ _
  exact (askBear_spec hc (hinv hist BearState.empty (sound_nil _ _)) q (coerce_checked L _ _)).1

/-- **The coercion as found** (hit returned unvalidated) is invisible only on histories whose hints have a
    faithful `repr` (`P` holds of every hint asked about, and on `P` equal `repr`s imply `==`) — in
    particular as long as no two distinct classes share a name. -/
theorem C14_repr_key_partial (L : Lang V) (f : CKey V → A) (hc : KeyCongruent f (ckeyEq L)) (P : V → Prop)
    (hP : ∀ v v', P v → P v' → L.repr v = L.repr v' → L.pyEq v v' = true)
    (hist : List (Op (CKey V))) (hh : ∀ v ∈ histVals hist, P v) (q : CKey V) (hq : P q.1) :
    answerB L false f (runB L false f hist) q = f q := by
  have hinv : ∀ (h : List (Op (CKey V))) (s : BearState V A), (∀ v ∈ histVals h, P v) →
      Sound f (ckeyEq L) s.checker → ReprInv L P s.reprT →
      Sound f (ckeyEq L) (h.foldl (stepB L false f) s).checker ∧ ReprInv L P (h.foldl (stepB L false f) s).reprT := by
    intro h
    induction h with
    | nil => intro s _ hs hr; exact ⟨hs, hr⟩
    | cons op r ih =>
      intro s hv hs hr
      have hask : ∀ q' : CKey V, P q'.1 →
          Sound f (ckeyEq L) (askBear L false f s q').2.checker ∧ ReprInv L P (askBear L false f s q').2.reprT := by
        intro q' hq'
        have hco := coerce_raw hP hr hq' false
        refine ⟨(askBear_spec hc hs q' hco.1).2, ?_⟩
        rcases askBear_reprT L false f s q' with h | h
        · rw [h]; exact hr
        · rw [h]; exact hco.2
      cases op with
      | query q' =>
        have := hask q' (hv _ (by simp [histVals]))
        exact ih _ (fun v hm => hv v (by simp [histVals, hm])) this.1 this.2
      | failingQuery q' =>
        have := hask q' (hv _ (by simp [histVals]))
        exact ih _ (fun v hm => hv v (by simp [histVals, hm])) this.1 this.2
      | gc o => exact ih _ (fun v hm => hv v (by simpa [histVals] using hm)) hs hr
      | redefine c => exact ih _ (fun v hm => hv v (by simpa [histVals] using hm)) hs hr
      | clearCaches =>
        exact ih _ (fun v hm => hv v (by simpa [histVals] using hm)) (sound_nil _ _) (by intro r v h; simp [stepB, BearState.empty] at h)
  obtain ⟨hs, hr⟩ := hinv hist BearState.empty hh (sound_nil _ _) (by intro r v h; simp [BearState.empty] at h)
  exact (askBear_spec hc hs q (coerce_raw hP hr hq false).1).1

/-- Two distinct classes named `Foo` (`uid`/`eqc` 1 and 2), hints `list[Foo₁]`, `list[Foo₂]`: same `repr`,
    not `==`. The "checker" of a hint is represented by the `eqc` of the hint it was built from. -/
private def listFoo1 : Val := { uid := 1, eqc := 1, rep := "list[c14mod.Foo]", hashable := true, worthy := true }
private def listFoo2 : Val := { uid := 2, eqc := 2, rep := "list[c14mod.Foo]", hashable := true, worthy := true }
private def meaning (k : CKey Val) : Nat := k.1.eqc

/-- **F-C14a (negation witness).** With the coercion as found, `is_bearable(·, list[Foo₁])` followed by
    `is_bearable(·, list[Foo₂])` answers the second query with the checker of `list[Foo₁]`: `KeyCongruent`
    fails for the `repr` key, although the meaning respects `==`. The repaired coercion answers correctly. -/
theorem C14_repr_key_counterexample :
    KeyCongruent meaning (ckeyEq valLang) ∧
    answerB valLang false meaning (runB valLang false meaning [.query (listFoo1, 0)]) (listFoo2, 0) = 1 ∧
    meaning (listFoo2, 0) = 2 ∧
    answerB valLang true meaning (runB valLang true meaning [.query (listFoo1, 0)]) (listFoo2, 0) = 2 := by
  refine ⟨?_, by decide, by decide, by decide⟩
  intro k k' h
  simp only [ckeyEq, valLang, Bool.and_eq_true, beq_iff_eq] at h
  exact h.1

/-! ### context-relative hints (`typing.Self`, stringified forward references): never cached under a context-free key -/

/-- **The cacheability flag accumulates over the whole tree**: `HintTreeCode.is_check_expr_cacheable` (`True` at
    the root, `&=` with every sanified hint) is `True` exactly when NO hint of the tree is context-relative —
    whatever the visiting order and wherever the context-relative hint sits among its siblings. -/
theorem C14_tree_flag_accumulates (visit : List Bool) :
    treeCacheable visit = true ↔ ∀ r ∈ visit, r = false := by
  rw [treeCacheable_eq]
  simp [mentionsRel]

/-- **An expression whose tree mentions a context-relative hint anywhere is never cached under a context-free
    key.** After EVERY history of queries asked from any contexts (classes being decorated, caller scopes) and
    cache clears, every key of the checker / expression table belongs to a hint whose tree mentions no
    context-relative hint (`==` hints have trees that agree on that: `hrel`). -/
theorem C14_context_relative_never_cached (L : Lang V) (visit : V → List Bool) (f : Nat → CKey V → A)
    (hrel : ∀ a b, L.pyEq a b = true → mentionsRel (visit a) = mentionsRel (visit b))
    (hist : List (COp V)) (k : CKey V) (a : A)
    (hm : (k, a) ∈ (runC L visit treeCacheable true f hist).checker) : mentionsRel (visit k.1) = false :=
  foldl_stepC_free hrel hist (by intro k v h; simp [BearState.empty] at h) k a hm

/-- **Memoisation is invisible across contexts.** `f c q` is what a fresh interpreter answers to `q` asked from
    context `c`. If in every context `==` keys mean the same (`hc`) and a hint whose tree mentions no
    context-relative hint means the same in every context (`hctx`), then after every history of queries asked
    from ANY contexts, in any order, the answer to `q` from context `c` is the fresh answer `f c q` — in
    particular not the answer an equal hint got in another class or scope before. -/
theorem C14_context_pipeline_invisible (L : Lang V) (visit : V → List Bool) (f : Nat → CKey V → A)
    (hc : ∀ c, KeyCongruent (f c) (ckeyEq L))
    (hrel : ∀ a b, L.pyEq a b = true → mentionsRel (visit a) = mentionsRel (visit b))
    (hctx : ∀ c c' k, mentionsRel (visit k.1) = false → f c k = f c' k)
    (hist : List (COp V)) (c : Nat) (q : CKey V) :
    answerC L visit treeCacheable true f (runC L visit treeCacheable true f hist) c q = f c q :=
  (askBearC_spec hc hrel hctx
    (foldl_stepC_inv hc hrel hctx hist (by intro k v h; simp [BearState.empty] at h)) c q (coerce_checked L _ _)).1

/-- On histories asked from one context over context-free trees the contextual pipeline IS the plain pipeline
    (`askBear`): the theorems above extend `C14_checker_pipeline_invisible`, they do not replace it. -/
theorem C14_context_free_is_plain_pipeline (L : Lang V) (visit : V → List Bool) (acc : List Bool → Bool) (checked : Bool)
    (f : Nat → CKey V → A) (hall : ∀ v, acc (visit v) = true) (s : BearState V A) (c : Nat) (q : CKey V) :
    askBearC L visit acc checked f s c q = askBear L checked (f c) s q := by
  simp [askBearC, askBear, hall]

/-- `tuple[Self, int]`: root, `Self` (context-relative), `int` in visiting order -/
private def selfPair : Val :=
  { uid := 1, eqc := 1, rep := "tuple[typing.Self, int]", hashable := true, worthy := true, visit := [false, true, false] }
/-- the checker built in context `c` tests membership in class `c` where the tree says `Self` -/
private def ctxMeaning (c : Nat) (k : CKey Val) : Nat := if mentionsRel k.1.visit then c else 0

/-- **Negation witness for "the flag of the hint sanified last wins"** (`=` instead of `&=` in
    `sanify_hint_child`): the tree of `tuple[Self, int]` is then called cacheable (the control `tuple[int, Self]`
    is not), the checker built for class 1 is stored under the context-free key, and the equal hint of class 2
    is answered with the checker of class 1; the accumulated flag answers class 2 with its own checker. -/
theorem C14_last_child_wins_counterexample :
    treeCacheableLast selfPair.visit = true ∧ treeCacheable selfPair.visit = false ∧
    treeCacheableLast [false, false, true] = false ∧
    answerC valLang (·.visit) treeCacheableLast true ctxMeaning
      (runC valLang (·.visit) treeCacheableLast true ctxMeaning [.ask 1 (selfPair, 0)]) 2 (selfPair, 0) = 1 ∧
    ctxMeaning 2 (selfPair, 0) = 2 ∧
    answerC valLang (·.visit) treeCacheable true ctxMeaning
      (runC valLang (·.visit) treeCacheable true ctxMeaning [.ask 1 (selfPair, 0)]) 2 (selfPair, 0) = 2 := by
  decide

/-- the hypotheses of `C14_context_pipeline_invisible` are satisfiable by a system in which contexts matter:
    `ctxMeaning` over `Val`s whose `==` class determines their tree -/
example :
    (∀ c, KeyCongruent (ctxMeaning c) (ckeyEq { valLang with pyEq := fun a b => a == b })) ∧
    (∀ c c' k, mentionsRel (Val.visit k.1) = false → ctxMeaning c k = ctxMeaning c' k) ∧
    ctxMeaning 1 (selfPair, 0) ≠ ctxMeaning 2 (selfPair, 0) := by
  refine ⟨?_, ?_, by decide⟩
  · intro c k k' h
    simp only [ckeyEq, Bool.and_eq_true, beq_iff_eq] at h
    simp [ctxMeaning, h.1]
  · intro c c' k h
    simp [ctxMeaning, h]

/-! ### `KeyCongruent` for the `==` discipline, discharged for a concrete hint language -/

/-- the checker a fresh interpreter builds for `(hint, conf/prefix tag)`: the set of objects it accepts -/
def checkerOf (k : CKey Hint) : PyObj → Bool := sat k.1

/-- **`==` keys are congruent** for class objects, `Literal`, `Union`, `list[…]`, `typing.List[…]`: hints that
    `typing` calls equal (whatever the order of union members or literal values) accept the same objects, and
    the look-alikes `Literal[1]`/`Literal[True]`, same-named distinct classes, `list[int]`/`typing.List[int]`
    are different keys. -/
theorem C14_eq_key_congruent : KeyCongruent checkerOf (ckeyEq hintLang) := by
  intro k k' h
  simp only [ckeyEq, hintLang, Bool.and_eq_true] at h
  funext x
  exact sat_congr k.1 k'.1 h.1 x

/-- … hence, with the repaired coercion, EVERY history over that language leaves every answer what a fresh
    interpreter gives — no hypothesis left. -/
theorem C14_concrete_hints_invisible (hist : List (Op (CKey Hint))) (q : CKey Hint) (x : PyObj) :
    answerB hintLang true checkerOf (runB hintLang true checkerOf hist) q x = sat q.1 x := by
  rw [C14_checker_pipeline_invisible hintLang checkerOf C14_eq_key_congruent hist q]
  rfl

/-- F-C14a in the concrete language: `is_bearable([Foo₁()], list[Foo₁])` then `is_bearable([Foo₂()], list[Foo₂])`
    with the coercion as found is `False`; `True` with the repaired one and in a fresh interpreter. -/
example :
    let foo1 := Hint.list585 (.atom (.cls "Foo" 1))
    let foo2 := Hint.list585 (.atom (.cls "Foo" 2))
    answerB hintLang false checkerOf (runB hintLang false checkerOf [.query (foo1, 0)]) (foo2, 0) (.list [.inst 2]) = false ∧
    answerB hintLang true checkerOf (runB hintLang true checkerOf [.query (foo1, 0)]) (foo2, 0) (.list [.inst 2]) = true ∧
    sat foo2 (.list [.inst 2]) = true ∧ hintEq foo1 foo2 = false ∧ hintRepr foo1 = hintRepr foo2 := by
  decide

/-- look-alikes: `Union[int-ish, str-ish]` in both orders are ONE key, `Literal[1]` and `Literal[True]` are two -/
example :
    hintEq (.union [.cls "A" 1, .cls "B" 2]) (.union [.cls "B" 2, .cls "A" 1]) = true ∧
    hintEq (.atom (.lit [.int 1])) (.atom (.lit [.bool true])) = false ∧
    hintEq (.atom (.lit [.int 1, .int 2])) (.atom (.lit [.int 2, .int 1])) = true ∧
    hintEq (.list585 (.atom (.cls "A" 1))) (.list484 (.atom (.cls "A" 1))) = false := by
  decide

/-! ### `id`-keyed memoisation (`method_cached_arg_by_id`: `TypeHint.is_subhint`, `TypeHint.__eq__`) -/

/-- **With the repaired decorator** (an entry keeps the two objects it was computed for alive) the answer
    for any two live objects after EVERY history of allocations, dropped references and queries is `g` of
    their values: an address in a key is never handed to another object. -/
theorem C14_id_key_pinned_invisible (g : V → V → A) (hist : List (IdOp V)) (a b : Nat) (va vb : V)
    (ha : heapGet (runI true g hist).heap a = some va) (hb : heapGet (runI true g hist).heap b = some vb) :
    answerI true g (runI true g hist) a b = some (g va vb) :=
  answerI_of_inv (foldl_stepI_inv hist (Or.inl rfl) (by intro a b r h; simp [IdState.empty] at h)) ha hb

/-- **The decorator as found** is invisible only on histories in which no object ever dies. -/
theorem C14_id_key_partial (g : V → V → A) (hist : List (IdOp V)) (hnodrop : hist.all (fun op => !isDrop op) = true)
    (a b : Nat) (va vb : V)
    (ha : heapGet (runI false g hist).heap a = some va) (hb : heapGet (runI false g hist).heap b = some vb) :
    answerI false g (runI false g hist) a b = some (g va vb) :=
  answerI_of_inv (foldl_stepI_inv hist (Or.inr hnodrop) (by intro a b r h; simp [IdState.empty] at h)) ha hb

/-- values: 0 = `Annotated[int, []]`, 1 = `Annotated[str, []]`, 2 = `int`; `g` = "is a subhint of" -/
private def subhint (x y : Nat) : Bool := (x == 0 && y == 2) || x == y

/-- **F-C14b (negation witness).** `TypeHint(Annotated[int, []])` at address 7 is asked against `TypeHint(int)`,
    dies, and `TypeHint(Annotated[str, []])` is allocated at address 7: the decorator as found answers `True`
    (the fresh answer is `False`); the repaired one answers `False` (the first object cannot die: the second
    gets another address). -/
theorem C14_id_key_counterexample :
    answerI false subhint (runI false subhint [.new 9 2, .new 7 0, .ask 7 9, .drop 7, .new 7 1]) 7 9 = some true ∧
    heapGet (runI false subhint [.new 9 2, .new 7 0, .ask 7 9, .drop 7, .new 7 1]).heap 7 = some 1 ∧
    subhint 1 2 = false ∧
    answerI true subhint (runI true subhint [.new 9 2, .new 7 0, .ask 7 9, .drop 7, .new 7 1, .new 8 1]) 8 9 = some false := by
  decide

/-! ### forward references: failures are not remembered; successes are -/

/-- **A hint that failed once is not remembered as failing.** From ANY state (hence after any history): a
    check that raised the forward-reference exception left every table as it was, and once the name is
    defined (decorated or not) the very same proxy resolves to the new class. -/
theorem C14_exception_not_sticky (s : FwdState) (p : Proxy) (hfail : answerF s p = some .unresolved) :
    (stepF s (.call p)).1 = s ∧
    ∀ c bt, answerF (stepF (stepF s (.call p)).1 (.define p.name c bt)).1 p = some (.cls c) := by
  have hnone : find (fun a b => a == b) s.resolved p = none ∧ envGet s.env p.name = none := by
    simp only [answerF, stepF] at hfail
    split at hfail
    · simp at hfail
    · next hr =>
      split at hfail
      · next he => exact ⟨hr, he⟩
      · simp at hfail
  have hsame : (stepF s (.call p)).1 = s := by simp [stepF, hnone.1, hnone.2]
  refine ⟨hsame, ?_⟩
  intro c bt
  rw [hsame]
  have hfind : ∀ t : Table Proxy Nat, (∀ q c', (q, c') ∈ t → (q, c') ∈ s.resolved) →
      find (fun a b => a == b) t p = none := by
    intro t ht
    cases hf : find (fun a b => a == b) t p with
    | none => rfl
    | some c' =>
      have hm := ht p c' (find_proxy_mem hf)
      have : find (fun a b => a == b) s.resolved p ≠ none := find_proxy_ne_none hm
      exact absurd hnone.1 this
  cases bt with
  | false =>
    simp [answerF, stepF, hnone.1, envGet]
  | true =>
    have hres := hfind (noteBeartyped s p.name).resolved (fun q c' h => noteBeartyped_resolved s p.name h)
    simp [answerF, stepF, hres, envGet, noteBeartyped_env]

/-- **Redefinition under @beartype clears**: when a name decorated before is decorated again, every proxy
    answers as a fresh interpreter would (`clear_caches()` on redefinition). -/
theorem C14_redefinition_clears (s : FwdState) (n : String) (c : Nat) (hb : s.beartyped.contains n = true) (p : Proxy) :
    answerF (stepF s (.define n c true)).1 p = some (freshF (stepF s (.define n c true)).1 p) := by
  apply answerF_of_inv
  intro q c' hm
  have hb' : n ∈ s.beartyped := by simpa using hb
  simp [stepF, noteBeartyped, hb'] at hm

/-- … and so does an explicit `clear_caches()`. -/
theorem C14_clear_restores (s : FwdState) (p : Proxy) :
    answerF (stepF s .clear).1 p = some (freshF s p) := by
  have : freshF s p = freshF (stepF s .clear).1 p := by simp [freshF, stepF]
  rw [this]
  apply answerF_of_inv
  intro q c' hm
  simp [stepF] at hm

/-- **Remembered referents are invisible as long as no name is bound twice** (every history of definitions,
    checks and clears without a redefinition). -/
theorem C14_fwdref_partial (hist : List FwdOp) (hno : noRedefinition hist [] = true) (p : Proxy) :
    answerF (runF hist) p = some (freshF (runF hist) p) :=
  answerF_of_inv (foldl_stepF_inv hist (by intro q c h; simp [FwdState.empty] at h)
    (by intro n h; simp [FwdState.empty, envGet] at h) hno) p

/-- **Negation witnesses for redefinition.** (1) A function decorated with the forward reference `'Foo'` is
    called, `Foo` is redefined WITHOUT @beartype, the function is called again: the remembered referent is
    the old class (a fresh interpreter resolves to the new one). (2) The same with @beartype on every class
    when another decorated class was redefined in between: `_uncache_beartype_if_type_redefined` resets its
    set of decorated names to that other class, so the redefinition of `Foo` goes unnoticed. -/
theorem C14_fwdref_counterexample :
    (let h := [FwdOp.define "Foo" 1 false, .call ⟨0, "Foo"⟩, .define "Foo" 2 false]
     answerF (runF h) ⟨0, "Foo"⟩ = some (.cls 1) ∧ freshF (runF h) ⟨0, "Foo"⟩ = .cls 2) ∧
    (let h := [FwdOp.define "Foo" 1 true, .define "Bar" 1 true, .define "Bar" 2 true, .call ⟨0, "Foo"⟩, .define "Foo" 2 true]
     answerF (runF h) ⟨0, "Foo"⟩ = some (.cls 1) ∧ freshF (runF h) ⟨0, "Foo"⟩ = .cls 2) := by
  decide

/-! ### the memoisation sites of the code, as extracted on this run -/

/-- disciplines for which memo-invisibility is proved above at full strength (`name`-keyed registries are the
    redefinition detector and C06's registry, not memos of answers) -/
def disciplineProved : String → Bool
  | "eq" => true            -- C14_memo_invisible / C14_checker_pipeline_invisible
  | "id-pinned" => true     -- C14_id_key_pinned_invisible
  | "repr-checked" => true  -- C14_checker_pipeline_invisible
  | "attr" => true          -- stored on the object itself: dies with it, keyed by nothing
  | "name" => true
  | _ => false              -- "id-raw", "repr-raw", "fwdref", "unknown"

/-- **Every memoising decorator keys by a discipline with a full-strength theorem.** Breaks when a decorator
    keys by bare `id()` (as `method_cached_arg_by_id` did: F-C14b) or cannot be classified. -/
theorem C14_table_decorators :
    Extracted.memoDecorators.all (fun d => disciplineProved d.2) = true := by decide

/-- Every memoisation site is decorated with a decorator of the table above. -/
theorem C14_table_sites :
    Extracted.memoSites.all (fun s => Extracted.memoDecorators.any (fun d => d.1 == s.2)) = true := by decide

/-- **Every module-level cache is keyed by a discipline with a full-strength theorem**, except the two
    forward-reference referent tables, whose theorem is `C14_fwdref_partial` (+ `C14_redefinition_clears`).
    Breaks on `repr-raw` (`_hint_repr_to_hint` as found: F-C14a), on any `id-raw` table and on any table the
    translator cannot classify. -/
theorem C14_table_tables :
    Extracted.memoTables.all (fun t => disciplineProved t.2 || t.2 == "fwdref") = true ∧
    (Extracted.memoTables.filter (fun t => t.2 == "fwdref")).length = 2 := by decide

/-- **The tree-wide cacheability flag is and-accumulated and guards every store** into the checker / expression
    tables, as read from the source on this run (`sanify_hint_child`, `make_check_expr`, `make_func_checker`):
    the model the theorems above are about (`treeCacheable`) is the one the code implements. Breaks when the
    accumulation becomes a plain assignment ("last") or a store loses its guard. -/
theorem C14_table_tree_flag :
    Extracted.memoTreeFlag = "and" ∧ Extracted.memoCtxStoresGuarded = true := by decide

/-! ### non-vacuity: the hypotheses are satisfiable by non-trivial states -/

/-- a congruent system with look-alike keys (`1`, `True`, `1.0` ↦ the same class under `==`), a history that
    caches a value, caches an exception, clears, and asks again -/
example :
    let f : Nat → Nat := fun k => k % 3
    let keyEq : Nat → Nat → Bool := fun a b => a % 3 == b % 3
    let hist : List (Op Nat) := [.query 1, .failingQuery 2, .query 4, .gc 0, .redefine "Foo", .clearCaches, .query 7]
    let s := runE f (· == 2) (fun _ => true) keyEq true hist
    s.vals = [(7, 1)] ∧ answerE f (· == 2) (fun _ => true) keyEq s 10 = 1 ∧
    (runE f (· == 2) (fun _ => true) keyEq false hist).excs = [(2, 2)] := by
  decide

/-- the repaired pipeline on the F-C14a history keeps both checkers apart and overwrites the repr entry -/
example :
    let s := runB valLang true meaning [.query (listFoo1, 0), .query (listFoo2, 0), .query (listFoo1, 1)]
    s.checker.map (·.2) = [1, 2, 1] ∧ s.reprT.map (·.2.uid) = [1, 2, 1] := by
  decide

/-- a forward reference that fails, is defined, resolves, and survives an unrelated definition -/
example :
    let p : Proxy := ⟨0, "Later"⟩
    answerF (runF [.call p]) p = some .unresolved ∧
    answerF (runF [.call p, .define "Later" 5 false, .call p, .define "Other" 6 true]) p = some (.cls 5) ∧
    noRedefinition [.call p, .define "Later" 5 false, .call p, .define "Other" 6 true] [] = true := by
  decide

end BearVerif.Memo
