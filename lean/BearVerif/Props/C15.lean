import BearVerif.Lemmas.Conc
import BearVerif.Extracted.Conc
/-!
  C15 — property theorems (PARTIAL: they are about the model of `Core/Conc.lean`).

  Two layers. (1) Table theorems (`decide`) over the lock skeletons that `harness/extract/conc.py` re-reads
  from the source on every run: every shared access of the synchronised regions is under the variable's lock,
  every public operation is ONE critical section, the lock-free sites have the memo shape, the lock order is
  ranked. (2) What those disciplines guarantee, proved for EVERY schedule (induction over the schedule) and
  any number of threads, in transition systems whose atomic steps are the operations CPython executes without
  a thread switch (one lock acquire/release, one dict get/set, one list pop/append, one factory call on
  private data — see the header of `Core/Conc.lean`).

  What the theorems cannot say: that CPython's real switch points are no finer than the model's steps
  (free-threaded builds, C extensions releasing the GIL), and that the skeleton translator reads the source
  faithfully — the controlled scheduler of the harness searches real interleavings for that.
-/
namespace BearVerif.Conc
open BearVerif.Extracted

/-- the lock that guards each shared variable, as the source uses it -/
def guards : List (Var × LockId) := inferGuards concProgs

def lockOrder : List LockId := concLocks.map (·.1)

/-! ### (1) the extracted skeletons follow the disciplines -/

/-- **Every write to a shared variable, every read of a guarded variable (hence every read-then-write pair)
    of every synchronised region happens under the variable's lock**, and every `with <lock>:` is closed.
    Regions: KeyPool.acquire/release, CacheUnboundedStrong.*, BeartypeConf.__new__, hook_packages,
    get_package_conf_or_none, beartyping() enter/exit (with add/remove path hook inlined). -/
theorem C15_wellLocked : ∀ p ∈ concProgs, wellLocked guards [] p.acts = true := by decide +kernel

/-- **Every public operation is one critical section**: all its shared accesses lie inside a single outermost
    `with <lock>:` (so it takes effect at one point of any interleaving — `beartyping()` included). -/
theorem C15_atomic_ops : ∀ p ∈ concProgs, atomicOp p = true := by decide +kernel

/-- After dropping re-entrant re-acquisitions the regions are flat critical sections whose every access is to a
    variable of the section's lock: the hypothesis of `C15_mutex_serial`. -/
theorem C15_flat_sections : ∀ p ∈ concProgs, flatWL guards none (flattenRe [] p.acts) = true := by decide +kernel

/-- The deliberately lock-free sites (callable_cached, method_cached_arg_by_id, beartype(conf=…)) take no lock
    and only read their table before writing it: the shape `C15_memo_benign` is about. -/
theorem C15_memo_sites : ∀ p ∈ concMemoProgs, memoShape false p.acts = true := by decide +kernel

/-- No region acquires two different locks nested against the declared order; a lock is re-acquired while held
    only if it is an `RLock`; releases are LIFO. -/
theorem C15_lock_order : ∀ p ∈ concProgs ++ concMemoProgs,
    lockDisc (reentOf concLocks) (rankIn lockOrder) [] p.acts = true := by decide +kernel

/-- the discipline is not vacuous: it rejects a region that pops the pool after releasing the lock, a
    get-or-create that looks up outside the lock, and a two-section `beartyping()` entry -/
example : wellLocked guards [] [.acq "KeyPool._thread_lock", .rd "KeyPool._key_to_pool", .rel "KeyPool._thread_lock",
    .wr "KeyPool._key_to_pool"] = false := by decide +kernel
example : wellLocked guards [] [.rd "CacheUnboundedStrong._key_to_value", .acq "CacheUnboundedStrong._lock",
    .wr "CacheUnboundedStrong._key_to_value", .rel "CacheUnboundedStrong._lock"] = false := by decide +kernel
example : atomicOp ⟨"enter", [.acq "claw_lock", .wr "claw_state.packages_trie_whitelist", .rel "claw_lock",
    .acq "claw_lock", .rd "claw_state.packages_trie_whitelist", .rel "claw_lock"]⟩ = false := by decide +kernel

/-! ### (2) what the disciplines guarantee, for every schedule -/

/-- **Mutual exclusion serialises.** Threads (any number) run programs whose accesses to shared variables all
    happen inside flat critical sections of the variable's lock. Then for EVERY schedule there is a serial
    schedule — the same threads in the order of their lock acquisitions, each critical section executed without
    interruption — that produces the same state once the sections in progress are completed; in particular,
    when all threads have finished, the same memory and the same thread-local results. -/
theorem C15_mutex_serial {M L : Type} (g : List (Var × LockId)) (P : Nat → List (CS.SAct M L))
    (hP : ∀ t, flatWL g none ((P t).map CS.SAct.skel) = true) (m0 : LockId → M) (l0 : Nat → L) (sched : List Nat) :
    ∃ serial : List Nat, serial.Sublist sched ∧
      CS.abs g (CS.run g sched (CS.init P m0 l0)) = CS.runA g serial (CS.init P m0 l0) ∧
      ((∀ t, (CS.run g sched (CS.init P m0 l0)).rem t = []) →
        CS.run g sched (CS.init P m0 l0) = CS.runA g serial (CS.init P m0 l0)) := by
  have hi := CS.init_inv (g := g) P m0 l0 hP
  obtain ⟨hinv, serial, hsub, he⟩ := CS.run_sim sched hi
  have h0 : CS.abs g (CS.init P m0 l0) = CS.init P m0 l0 := CS.abs_idle hi (fun _ => rfl)
  rw [h0] at he
  refine ⟨serial, hsub, he, fun hf => ?_⟩
  rw [← he]
  exact (CS.abs_idle hinv (CS.finished_idle hinv hf)).symm

/-- **Get-or-create under a lock yields one object per key** (BeartypeConf.__new__ under `_beartype_conf_lock`;
    TypeHint(hint) through `CacheUnboundedStrong` under its RLock, whose factory may re-entrantly create other
    keys). In every reachable state: a thread that has returned `v` for its key finds `v` in the table under
    that key, two threads with equal keys have returned the same object, and an entry is never replaced. -/
theorem C15_singleton (keys : Nat → Nat) (sched : List GoC.Move) :
    (∀ t k v, (GoC.run sched (GoC.init keys)).pc t = .done k v →
        k = keys t ∧ (GoC.run sched (GoC.init keys)).tbl k = some v) ∧
    (∀ t t' k k' v v', (GoC.run sched (GoC.init keys)).pc t = .done k v →
        (GoC.run sched (GoC.init keys)).pc t' = .done k' v' → keys t = keys t' → v = v') ∧
    (∀ more k v, (GoC.run sched (GoC.init keys)).tbl k = some v →
        (GoC.run more (GoC.run sched (GoC.init keys))).tbl k = some v) := by
  have hinv := GoC.run_inv sched (GoC.init_inv keys)
  refine ⟨fun t k v h => ?_, fun t t' k k' v v' h h' hk => ?_, fun more k v h => GoC.run_stable more hinv h⟩
  · have := hinv.pc t; rw [h] at this; exact this
  · have h1 := hinv.pc t; rw [h] at h1
    have h2 := hinv.pc t'; rw [h'] at h2
    have e : k = k' := by rw [h1.1, h2.1, hk]
    subst e
    have := h1.2; rw [h2.2] at this; cases this; rfl

/-- **No pooled item is held by two threads.** Threads (any number) acquire and release items of a `KeyPool`
    (lock; `list.pop` or the item factory; unlock — lock; `list.append`; unlock) in any interleaving: no item
    is in the hands of two threads, no item in somebody's hands is in the pool, the pool has no duplicates. -/
theorem C15_pool_exclusive (sched : List Nat) :
    (∀ t t' i, Pool.holds ((Pool.run sched Pool.init).pc t) = some i →
        Pool.holds ((Pool.run sched Pool.init).pc t') = some i → t = t') ∧
    (∀ t i, Pool.holds ((Pool.run sched Pool.init).pc t) = some i → i ∉ (Pool.run sched Pool.init).pool) ∧
    (Pool.run sched Pool.init).pool.Nodup := by
  have hinv := Pool.run_inv sched Pool.init_inv
  exact ⟨hinv.excl, fun t i h => (hinv.fresh t i h).2, hinv.nodup⟩

/-- **The lock-free memo is benign.** If the memoised function is deterministic, then under every interleaving
    of `dict.get` / call / `dict.__setitem__` by any number of threads every caller gets `f key`, and the
    table only ever holds `f key` under `key` (duplicate work, never a wrong answer). -/
theorem C15_memo_benign {V : Type} (f : Nat → V) (keys : Nat → Nat) (sched : List Nat) :
    (∀ t k v, (Memo.run f sched (Memo.init keys)).pc t = .done k v → k = keys t ∧ v = f k) ∧
    (∀ k v, (Memo.run f sched (Memo.init keys)).tbl k = some v → v = f k) := by
  have hinv := Memo.run_inv sched (Memo.init_inv f keys)
  refine ⟨fun t k v h => ?_, hinv.tbl⟩
  have := hinv.pc t; rw [h] at this; exact this

/-- **No deadlock.** Threads (any number) whose programs acquire locks in increasing rank, re-acquire a held
    lock only if it is reentrant (RLock: owner and nesting depth are modelled) and release in LIFO order: in
    every reachable state, if some thread has not finished then some thread can take a step. -/
theorem C15_no_deadlock (reent : LockId → Bool) (rank : LockId → Nat) (B : Nat) (hB : ∀ l, rank l ≤ B)
    (P : Nat → List Act) (hP : ∀ t, lockDisc reent rank [] (P t) = true) (sched : List Nat) (t : Nat)
    (ht : (LK.run sched (LK.init P)).rem t ≠ []) :
    ∃ t', (LK.step t' (LK.run sched (LK.init P))).isSome = true := by
  have hinv := LK.run_inv sched (LK.init_inv (reent := reent) (rank := rank) P hP)
  obtain ⟨t', h⟩ := LK.no_deadlock hB hinv t ht
  exact ⟨t', LK.enabled_iff_step.mp h⟩

/-- … instantiated: threads that each run any sequence of the extracted regions never deadlock. -/
theorem C15_no_deadlock_extracted (P : Nat → List Act)
    (hP : ∀ t, lockDisc (reentOf concLocks) (rankIn lockOrder) [] (P t) = true) (sched : List Nat) (t : Nat)
    (ht : (LK.run sched (LK.init P)).rem t ≠ []) :
    ∃ t', (LK.step t' (LK.run sched (LK.init P))).isSome = true :=
  C15_no_deadlock _ _ lockOrder.length (rankIn_le lockOrder) P hP sched t ht

/-! ### non-vacuity: concrete runs of the transition systems -/

/-- two threads ask for the same key, interleaved: both end with object 0 -/
example : (GoC.run [.main 0, .main 1, .main 0, .main 0, .main 1, .main 0, .main 0, .main 1, .main 1, .main 1]
    (GoC.init fun _ => 7)).pc 1 = .done 7 0 := by decide
example : (GoC.run [.main 0, .main 1, .main 0, .main 0, .main 1, .main 0, .main 0, .main 1, .main 1, .main 1]
    (GoC.init fun _ => 7)).pc 0 = .done 7 0 := by decide
/-- the factory of thread 0 creates key 3 re-entrantly, thread 1 then finds it -/
example : (GoC.run [.main 0, .main 0, .nested 0 3, .main 0, .main 0, .main 0, .main 1, .main 1, .main 1]
    (GoC.init fun t => if t = 0 then 7 else 3)).pc 1 = .done 3 0 := by decide
/-- two threads use the pool concurrently: thread 1 is blocked while thread 0 pops, then gets a second item -/
example : (Pool.run [0, 1, 0, 0, 1, 1, 1] Pool.init).pc 1 = .using 1 := by decide
example : (Pool.run [0, 1, 0, 0, 1, 1, 1] Pool.init).pc 0 = .using 0 := by decide
/-- both threads miss, both compute, both store: same value -/
example : (Memo.run (fun k => k * k) [0, 1, 0, 1, 0, 1] (Memo.init fun _ => 5)).pc 1 = .done 5 25 := by decide
/-- a reentrant acquisition by the owner proceeds, another thread is blocked until the outer release -/
example : (LK.step 1 (LK.run [0, 0] (LK.init fun t =>
    if t = 0 then [.acq "claw_lock", .acq "claw_lock", .rel "claw_lock", .rel "claw_lock"] else [.acq "claw_lock", .rel "claw_lock"]))).isSome
    = false := by decide
example : (LK.step 1 (LK.run [0, 0, 0, 0] (LK.init fun t =>
    if t = 0 then [.acq "claw_lock", .acq "claw_lock", .rel "claw_lock", .rel "claw_lock"] else [.acq "claw_lock", .rel "claw_lock"]))).isSome
    = true := by decide
/-- a serialisable two-thread program in the `CS` system: two increments of a counter under a lock -/
example : (CS.run [("n", "L")] [0, 1, 0, 1, 0, 1, 1, 1]
    (CS.init (fun _ => [.acq "L", .acc "n" (fun m c => (m + 1, c)), .rel "L"]) (fun _ => 0) (fun _ => ()))).mem "L" = 2 := by decide

end BearVerif.Conc
