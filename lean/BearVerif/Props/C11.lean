import BearVerif.Lemmas.Roar
import BearVerif.Extracted.Roar
/-!
  C11 — only beartype's own exceptions for bad hints; user exceptions pass through (PARTIAL: see the note at the end).

  Statements use the definitions of `Core/Roar.lean` and the tables of `Extracted/Roar.lean`, which are re-extracted from
  beartype's source text on every run: the table theorems (`decide +kernel`) are therefore re-checked against what the
  code says NOW.
-/
namespace BearVerif.Roar
open BearVerif.Extracted

/-! ### the extracted exception / warning algebra -/

/-- short names for the anchored classes -/
abbrev A : Anchors := roarAnchors

/-- The indices used below denote the classes they are named after (the only place where class NAMES are compared). -/
theorem C11_anchors :
    roarExc.nameIs A.exception "BeartypeException" ∧ roarExc.nameIs A.callException "BeartypeCallException" ∧
    roarExc.nameIs A.decorException "BeartypeDecorException" ∧ roarExc.nameIs A.hintViolation "BeartypeHintViolation" ∧
    roarExc.nameIs A.decorHintViolation "BeartypeDecorHintViolation" ∧
    roarExc.nameIs A.callHintViolation "BeartypeCallHintViolation" ∧
    roarExc.nameIs A.doorHintViolation "BeartypeDoorHintViolation" ∧ roarExc.nameIs A.doorException "BeartypeDoorException" ∧
    roarExc.nameIs A.valeException "BeartypeValeException" ∧ roarExc.nameIs A.confException "BeartypeConfException" ∧
    roarExc.nameIs A.decorHintException "BeartypeDecorHintException" ∧
    roarExc.nameIs A.callHintException "BeartypeCallHintException" ∧
    roarExc.nameIs A.nonpep "BeartypeDecorHintNonpepException" ∧
    roarExc.nameIs A.pepUnsupported "BeartypeDecorHintPepUnsupportedException" ∧
    roarExc.nameIs A.pep484 "BeartypeDecorHintPep484Exception" ∧
    roarExc.nameIs A.mixin "_BeartypeHintForwardRefExceptionMixin" ∧
    roarExc.nameIs A.pepRaise "_BeartypeCallHintPepRaiseException" ∧
    roarExc.nameIs A.callFwdRefStr "BeartypeCallHintPep484ForwardRefStrException" ∧
    roarWarn.nameIs A.warning "BeartypeWarning" := by
  refine ⟨?_, ?_, ?_, ?_, ?_, ?_, ?_, ?_, ?_, ?_, ?_, ?_, ?_, ?_, ?_, ?_, ?_, ?_, ?_⟩ <;> decide +kernel

/-- The extracted hierarchies are well formed: every base class is defined before its subclasses (acyclic) and the
    ancestor list each row carries is the reflexive-transitive closure of `bases`, so `Table.under` is `issubclass`. -/
theorem C11_hierarchy_wf : roarExc.wf = true ∧ roarWarn.wf = true := by
  constructor <;> decide +kernel

/-- … and on them `Table.under` IS `issubclass`: class `c` is under `r` iff `r` is reachable from `c` through zero or more
    base-class edges of the extracted table (for every pair of indices, not only the anchored ones). -/
theorem C11_under_is_reachability (c r : Nat) :
    (roarExc.under c r = true ↔ Reach roarExc c r) ∧ (roarWarn.under c r = true ↔ Reach roarWarn c r) :=
  ⟨under_iff_reach C11_hierarchy_wf.1 c r, under_iff_reach C11_hierarchy_wf.2 c r⟩

/-- "Public" is one notion: a class is re-exported by `beartype.roar` iff its name has no leading underscore (no internal
    class is exported, no public class is forgotten). -/
theorem C11_public_iff_exported :
    (roarExc ++ roarWarn).all (fun r => r.exported == r.isPublic) = true := by decide +kernel

/-- **Every public exception class is a `BeartypeException`** — and so is every internal one except the forward-reference
    mixin (which is never raised by itself), so that `except BeartypeException` catches whatever beartype raises. -/
theorem C11_public_under_BeartypeException :
    (List.range roarExc.length).all (fun c => roarExc.under c A.exception || c == A.mixin) = true ∧
    (List.range roarExc.length).all (fun c => !roarExc.publicAt c || roarExc.under c A.exception) = true := by
  constructor <;> decide +kernel

/-- The roots are what the documentation says: `BeartypeException` derives `Exception` directly, `BeartypeWarning`
    derives `UserWarning` directly (foreign base codes 0 and 1). -/
theorem C11_roots :
    roarExc.basesOf A.exception = ([], [0]) ∧ roarWarn.basesOf A.warning = ([], [1]) := by
  constructor <;> decide +kernel

/-- **The decoration-time and call-time families are rooted as documented**: `BeartypeDecorException` and
    `BeartypeCallException` are direct children of `BeartypeException`; the violations form their own tree
    `BeartypeHintViolation` ⟵ `BeartypeDecorHintViolation`, `BeartypeCallHintViolation` ⟵ `BeartypeDoorHintViolation`;
    the door and validator families hang directly under the root. -/
theorem C11_families_rooted :
    roarExc.basesOf A.decorException = ([A.exception], []) ∧
    roarExc.basesOf A.callException = ([A.exception], []) ∧
    roarExc.basesOf A.hintViolation = ([A.exception], []) ∧
    roarExc.basesOf A.decorHintViolation = ([A.hintViolation], []) ∧
    roarExc.basesOf A.callHintViolation = ([A.hintViolation], []) ∧
    roarExc.basesOf A.doorHintViolation = ([A.callHintViolation], []) ∧
    roarExc.basesOf A.doorException = ([A.exception], []) ∧
    roarExc.basesOf A.valeException = ([A.exception], []) ∧
    roarExc.basesOf A.decorHintException = ([A.decorException], []) ∧
    roarExc.basesOf A.callHintException = ([A.callException], []) := by
  refine ⟨?_, ?_, ?_, ?_, ?_, ?_, ?_, ?_, ?_, ?_⟩ <;> decide +kernel

/-- the four time-stamped families -/
def timeRoots : List Nat := [A.decorException, A.callException, A.decorHintViolation, A.callHintViolation]

/-- **Decoration-time and call-time families are disjoint**: no class (public or internal) lies under two of
    `BeartypeDecorException`, `BeartypeCallException`, `BeartypeDecorHintViolation`, `BeartypeCallHintViolation`; a
    handler for one time never catches the other. -/
theorem C11_decor_call_disjoint :
    (List.range roarExc.length).all
      (fun c => (timeRoots.filter (fun root => roarExc.under c root)).length ≤ 1) = true := by
  decide +kernel

/-- **Every warning class is a `BeartypeWarning`.** -/
theorem C11_warnings_under_BeartypeWarning :
    (List.range roarWarn.length).all (fun c => roarWarn.under c A.warning) = true := by decide +kernel

/-- Every family an entry point is allowed to raise from is a public class of the hierarchy under `BeartypeException`;
    what the door functions document is inside their allowed families (or is the configuration family). -/
theorem C11_allowed_roots_public :
    Entry.all.all (fun e => (e.allowedRoots A).all (fun r => roarExc.publicAt r && roarExc.under r A.exception)) = true ∧
    roarDoorDocumented.all (fun (fn, _, c) => match c with
      | none => false
      | some c => roarExc.allowed A (if fn == "is_bearable" then .isBearable else .dieIfUnbearable) c ||
                  roarExc.under c A.confException) = true := by
  constructor <;> decide +kernel

/-- **Every extracted `raise X(…)` site raises a class rooted in `BeartypeException`, or is accounted for**: a
    literally named beartype class is in the table under the root; a class received as `exception_cls` has no default or a
    default under the root; the builtins raised literally are the eleven protocol raisers of `protocolRaisers`
    (`__getattr__` → `AttributeError`, `__hash__` → `TypeError`, abstract methods → `NotImplementedError`, …) — nothing in
    beartype says `raise TypeError(` on a hint path; every explicit `exception_cls=` keyword and every literally named
    warning class is rooted likewise (`DeprecationWarning` only in the two deprecation helpers). -/
theorem C11_raise_sites_rooted_or_wrapped :
    roarRaiseSites.all (fun s => s.ok roarExc A.exception) = true ∧
    roarExcKeywords.all (fun (_, _, _, _, c) => match c with
      | some c => roarExc.under c A.exception
      | none => false) = true ∧
    roarWarnSites.all (fun (_, fn, _, w) => match w with
      | .warn i => roarWarn.under i A.warning
      | .param => true
      | .deprecation => deprecationWarners.contains fn
      | .other => false) = true := by
  refine ⟨?_, ?_, ?_⟩ <;> decide +kernel

/-- **Placeholder messages are provably wrapped**: every executed mention of `EXCEPTION_PLACEHOLDER` is lexically under a
    handler calling `reraise_exception_placeholder`, or lies in the code-generation subtree `beartype/_check/`, whose three
    entrances (`make_func_checker`, `code_check_args`, `code_check_return`) and whose reducer `reduce_hint` own such a
    handler. -/
theorem C11_placeholder_sites_wrapped :
    roarPlaceholderUses.all (fun (file, _, wrapped) => wrapped || file.startsWith "beartype/_check/") = true ∧
    [("beartype/_check/checkmake.py", "make_func_checker"),
     ("beartype/_check/convert/_reduce/redmain.py", "reduce_hint"),
     ("beartype/_decor/_nontype/_wrap/_wrapargs.py", "code_check_args"),
     ("beartype/_decor/_nontype/_wrap/_wrapreturn.py", "code_check_return")].all
       (fun h => roarReraiseHandlers.contains h) = true := by
  constructor <;> decide +kernel

/-- **Witnesses for the listed findings that escape as beartype classes** (known_findings.json): the internal
    `_BeartypeCallHintPepRaiseException` seen at call time and from `die_if_unbearable`, and the call-time
    `BeartypeCallHintPep484ForwardRefStrException` seen at DECORATION time (`type['int | nonexistent']`), are indeed outside
    what `Table.allowed` admits there — while the latter is admitted where it is documented (calls, the functional door API).
    The other listed findings escape as builtins (`TypeError`, `AttributeError`, `AssertionError`, `RecursionError`), which
    no index of the table denotes. -/
theorem C11_wrong_family_counterexample :
    roarExc.allowed A .call A.pepRaise = false ∧ roarExc.allowed A .dieIfUnbearable A.pepRaise = false ∧
    roarExc.allowed A .decor A.callFwdRefStr = false ∧
    roarExc.allowed A .call A.callFwdRefStr = true ∧ roarExc.allowed A .isBearable A.callFwdRefStr = true := by
  refine ⟨?_, ?_, ?_, ?_, ?_⟩ <;> decide +kernel

/-! ### `reraise_exception_placeholder` -/

/-- **Re-raising keeps the class**: whatever the exception and the substituted text, the re-raised object has the class
    of the caught one. -/
theorem C11_reraise_preserves_class (e : Exc) (target source : String) : (reraise e target source).cls = e.cls := by
  unfold reraise
  split
  · split <;> rfl
  · rfl

/-- … and it is the SAME object (identity and the remaining arguments untouched); only a string message can change, and
    only when the placeholder occurs in it. -/
theorem C11_reraise_same_object (e : Exc) (target source : String) :
    (reraise e target source).oid = e.oid ∧ (reraise e target source).rest = e.rest ∧
    (∀ m, e.arg0 = some (.str m) → strReplace m source target = m → reraise e target source = e) ∧
    (∀ t, e.arg0 = some (.obj t) → reraise e target source = e) ∧ (e.arg0 = none → reraise e target source = e) := by
  refine ⟨?_, ?_, ?_, ?_, ?_⟩
  · unfold reraise; split
    · split <;> rfl
    · rfl
  · unfold reraise; split
    · split <;> rfl
    · rfl
  · intro m hm hrep; simp [reraise, hm, hrep]
  · intro t ht; simp [reraise, ht]
  · intro h; simp [reraise, h]

/-! ### `callable_cached` -/

/-- **A memoised call never leaks the `TypeError` of hashing**: after EVERY history of calls (any function, any mix of
    hashable, unhashable and hash-raising arguments), the caller observes exactly what the function itself answers for
    those arguments (`resOf`) — `Res` has no constructor for the hashing error, and for an unhashable argument the result
    is the uncached call's own outcome. -/
theorem C11_cached_call_never_leaks_hash_error (f : Key → Own) (hist : List Key) :
    (cachedRun f Cache.empty hist).map (·.1) = hist.map (resOf f) := by
  suffices h : ∀ c : Cache, c.consistent f → (cachedRun f c hist).map (·.1) = hist.map (resOf f) from
    h _ (consistent_empty f)
  induction hist with
  | nil => intro c _; rfl
  | cons a rest ih =>
    intro c hc
    simp only [cachedRun, List.map_cons]
    rw [cachedCall_res f c a hc, ih _ (cachedCall_consistent f c a hc)]

/-- For an unhashable argument this needs no assumption on the state at all: whatever the cache holds, the answer is the
    uncached call's own outcome, the cache is untouched and the function ran exactly once. -/
theorem C11_unhashable_falls_back_uncached (f : Key → Own) (c : Cache) (u : Nat) :
    cachedCall f c (.unhashable u) = (c, .own (f (.unhashable u)), 1) := rfl

/-- A user `__hash__` raising something other than `TypeError` is not swallowed either: it propagates unchanged. -/
theorem C11_user_hash_error_propagates (f : Key → Own) (c : Cache) (t : Nat) :
    cachedCall f c (.hashRaises t) = (c, .userHashError t, 0) := rfl

/-! ### classifying an arbitrary object used as a hint -/

set_option linter.unusedSimpArgs false in
/-- **The decision table of `die_unless_hint`** (totality is by construction: `classify` is a total function into
    `Outcome`, which has no "raw exception" constructor): an object is accepted iff `is_hint` holds; a PEP-compliant but
    unsupported one is answered by `BeartypeDecorHintPepUnsupportedException` (`typing.NoReturn`:
    `BeartypeDecorHintPep484Exception`); everything else — any non-type, non-tuple object, a non-isinstanceable class, a
    bad tuple — by the caller's `exception_cls` (`BeartypeDecorHintNonpepException`). -/
theorem C11_classify_table (sv : Bool) (d : HintDescr) :
    (classify sv d = .accepted ↔ isHint sv d = true) ∧
    (classify sv d = .pepUnsupported ↔ d.pep = some false ∧ d.isNoReturn = false) ∧
    (classify sv d = .pep484NoReturn ↔ d.pep = some false ∧ d.isNoReturn = true) ∧
    (classify sv d = .nonpep ↔ d.pep = none ∧ isHintNonpep sv d = false) := by
  rcases d with ⟨pep, nr, ty, inst, tup⟩
  rcases pep with _ | sup
  · -- not PEP-compliant
    cases ty <;> cases inst <;> cases nr <;> cases h : tupleOk sv tup <;>
      simp [classify, isHint, isHintPep, isHintPepSupported, isHintNonpep, isNonpepType, dieUnlessNonpep,
        dieIfPepUnsupported, h]
  · cases sup <;> cases nr <;>
      simp [classify, isHint, isHintPep, isHintPepSupported, dieIfPepUnsupported]

/-- **Whatever the object, the answer to a bad hint is a public decoration-time hint exception.** -/
theorem C11_classify_outcome_public (sv : Bool) (d : HintDescr) :
    match (classify sv d).cls A with
    | none => classify sv d = .accepted
    | some c => roarExc.allowed A .decor c = true ∧ roarExc.under c A.decorHintException = true := by
  cases h : classify sv d <;> simp only [Outcome.cls] <;> constructor <;> decide +kernel

/-- Objects that are no hints at all (neither PEP-compliant, nor a class, nor a tuple — integers, strings of a tuple,
    instances, modules, functions, lambdas, …) are all answered by the non-PEP exception. -/
theorem C11_arbitrary_object_is_nonpep (sv nr inst : Bool) :
    classify sv ⟨none, nr, false, inst, none⟩ = .nonpep := by
  cases nr <;> cases inst <;> rfl

/-! ### user exceptions -/

/-- **User exceptions propagate unchanged.** Whatever escapes the decorated callable as `raised e` IS (same object:
    identity, class, arguments) an exception raised by user code — a validator / `__instancecheck__` hook reached by a
    parameter or return check (also while the violation finder re-runs it) or the wrapped body; the wrapper creates no
    exception object of its own on that path. -/
theorem C11_user_exception_unchanged (params : List Step) (body : Option Exc) (ret : Step) (e : Exc)
    (h : wrapperCall params body ret = .raised e) :
    (∃ s ∈ params, s.user = some e) ∨ body = some e ∨ ret.user = some e := by
  unfold wrapperCall at h
  cases hp : runChecks params 0 with
  | some r =>
    rw [hp] at h; simp only at h; subst h
    exact Or.inl (runChecks_raised_mem params 0 e hp)
  | none =>
    rw [hp] at h; simp only at h
    cases body with
    | some e' => simp only [CallRes.raised.injEq] at h; subst h; exact Or.inr (Or.inl rfl)
    | none =>
      simp only at h
      cases hr : runChecks [ret] params.length with
      | none => rw [hr] at h; simp at h
      | some r =>
        rw [hr] at h; simp only [Option.getD_some] at h; subst h
        obtain ⟨s, hs, hu⟩ := runChecks_raised_mem [ret] params.length e hr
        simp only [List.mem_singleton] at hs; subst hs
        exact Or.inr (Or.inr hu)

/-- Conversely the exception of the body is never replaced: when every parameter check passes and the body raises `e`,
    the caller gets `e`; and when the body returns and user code under the return check raises `e`, the caller gets `e`. -/
theorem C11_body_exception_passes (params : List Step) (e : Exc) (ret : Step) (hp : ∀ s ∈ params, s = .pass) :
    wrapperCall params (some e) ret = .raised e ∧
    wrapperCall params none (.raises e) = .raised e ∧ wrapperCall params none (.fail (some e)) = .raised e := by
  have h0 := runChecks_all_pass params 0 hp
  refine ⟨?_, ?_, ?_⟩ <;> simp [wrapperCall, h0, runChecks]

/-- The same for the functional API: `is_bearable` / `die_if_unbearable` let the user exception through as is. -/
theorem C11_door_user_exception_unchanged (s : Step) (e : Exc) :
    (testerCall s = .raised e → s = .raises e) ∧ (raiserCall s = .raised e → s.user = some e) := by
  constructor
  · cases s <;> simp [testerCall]
  · cases s with
    | pass => simp [raiserCall, runChecks]
    | fail fd => cases fd <;> simp [raiserCall, runChecks, Step.user]
    | raises e' => simp [raiserCall, runChecks, Step.user]

/-! ### non-vacuity: concrete, non-trivial instances -/

/-- the extracted hierarchy has the shape the theorems talk about -/
example : roarExc.under A.doorHintViolation A.hintViolation = true ∧
    roarExc.under A.doorHintViolation A.callException = false ∧
    roarExc.allowed A .dieIfUnbearable A.doorHintViolation = true ∧
    roarExc.allowed A .call A.doorHintViolation = true ∧
    roarExc.allowed A .decor A.doorHintViolation = false ∧
    roarExc.allowed A .isBearable A.doorHintViolation = false ∧
    roarExc.allowed A .decor A.mixin = false ∧
    roarExc.allowed A .decor roarExc.length = false := by
  refine ⟨?_, ?_, ?_, ?_, ?_, ?_, ?_, ?_⟩ <;> decide +kernel

/-- a history mixing an unhashable argument, a cached `TypeError` of the function's own and a cached value -/
example :
    let f : Key → Own := fun a => match a with
      | .hashable 0 => .val 7 | .hashable 1 => .typeErr 3 | .unhashable _ => .otherErr 9 | _ => .val 0
    cachedRun f Cache.empty [.hashable 0, .unhashable 5, .hashable 1, .hashable 1, .hashable 0, .hashRaises 4] =
      [(.own (.val 7), 1), (.own (.otherErr 9), 1), (.own (.typeErr 3), 2), (.own (.typeErr 3), 1), (.own (.val 7), 0),
       (.userHashError 4, 0)] := by decide

/-- the placeholder is substituted, the first letter capitalised, class and identity kept -/
example : reraise ⟨42, "BeartypeDecorHintNonpepException", some (.str "$%ROOT_PITH_LABEL/~type hint 5 invalid."), [1]⟩ "is_bearable() " =
    ⟨42, "BeartypeDecorHintNonpepException", some (.str "Is_bearable() type hint 5 invalid."), [1]⟩ := by decide +kernel

/-- classification: `5`, `typing.ClassVar`, `typing.NoReturn`, a non-isinstanceable class, `(int, 5)`, `(int, 'x')` -/
example : classify false ⟨none, false, false, false, none⟩ = .nonpep ∧
    classify false ⟨some false, false, false, false, none⟩ = .pepUnsupported ∧
    classify false ⟨some false, true, false, false, none⟩ = .pep484NoReturn ∧
    classify false ⟨none, false, true, false, none⟩ = .nonpep ∧
    classify false ⟨none, false, true, true, none⟩ = .accepted ∧
    classify false ⟨none, false, false, false, some [.type true false, .other]⟩ = .nonpep ∧
    classify true ⟨none, false, false, false, some [.type true false, .str]⟩ = .accepted ∧
    classify false ⟨none, false, false, false, some [.type true false, .str]⟩ = .nonpep := by decide

/-- a call whose second parameter check fails and whose violation finder then runs into a raising validator -/
example : wrapperCall [.pass, .fail (some ⟨1, "Boom", none, []⟩)] none .pass = .raised ⟨1, "Boom", none, []⟩ ∧
    wrapperCall [.pass, .fail none] (some ⟨1, "Boom", none, []⟩) .pass = .violation 1 ∧
    wrapperCall [.pass, .pass] none (.fail none) = .violation 2 := by decide

/-
  PARTIAL. "Whatever object is supplied as a type hint" ranges over all of Python; `HintDescr` abstracts an object by the
  five primitive tests `die_unless_hint` performs on it, and the theorems above are about the exception algebra, the
  extracted tables, the memoiser and that decision logic. That the REAL pipeline (reducers, code generator, door classes)
  answers every object as classified and never lets a raw exception through is supported by the differential generator of
  `harness/props/c11.py` only.
-/

end BearVerif.Roar
