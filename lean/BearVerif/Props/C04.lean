import BearVerif.Lemmas.Wrap
/-!
  C04 — property theorems (statements only use definitions of `Core/Wrap.lean`).

  `iterArgs`/`codeCheckArgs`/`localise`/`wrapperRun` mirror the code beartype generates;
  `pyBind`/`Binding.expected` restate the property ("every passed value against the
  annotation of the parameter Python binds it to, however it was passed; unpassed
  defaults unchecked"). All theorems hold for EVERY signature (any number of
  parameters of each of the five kinds, any annotated subset, any defaults), every
  call (any positional/keyword mix, missing, surplus, duplicate, keywords colliding
  with positional-only names), every per-parameter check `ok` and every body.
-/
namespace BearVerif.Wrap

/-- **`iter_func_args` yields the declared parameters, in declared order, with their
    kinds** — whatever the counts of each kind and of defaults — **and the index that
    `code_check_args` hands to the localisation snippets (the `enumerate` position) is
    the positional index of a positional-only / flexible parameter and the number of
    positional parameters for `*args`.** -/
theorem C04_iterArgs (s : Sig) :
    iterArgs (factsOf s) = declared s ∧
    (∀ (i : Nat) (p : Param), s.posonly[i]? = some p →
      (iterArgs (factsOf s))[i]? = some (Kind.posonly, p.name)) ∧
    (∀ (i : Nat) (p : Param), s.flex[i]? = some p →
      (iterArgs (factsOf s))[s.posonly.length + i]? = some (Kind.flex, p.name)) ∧
    (∀ p, s.varpos = some p →
      (iterArgs (factsOf s))[s.posonly.length + s.flex.length]? = some (Kind.varpos, p.name)) := by
  refine ⟨iterArgs_factsOf s, ?_, ?_, ?_⟩
  · intro i p h
    have hi : i < s.posonly.length := by
      rcases Nat.lt_or_ge i s.posonly.length with hl | hl
      · exact hl
      · rw [List.getElem?_eq_none hl] at h; cases h
    simp only [iterArgs_factsOf, declared, List.append_assoc]
    rw [List.getElem?_append_left (by simpa using hi)]
    simp [h]
  · intro i p h
    have hi : i < s.flex.length := by
      rcases Nat.lt_or_ge i s.flex.length with hl | hl
      · exact hl
      · rw [List.getElem?_eq_none hl] at h; cases h
    simp only [iterArgs_factsOf, declared, List.append_assoc]
    rw [List.getElem?_append_right (by simp)]
    rw [List.getElem?_append_left (by simpa using hi)]
    simp [h]
  · intro p h
    simp only [iterArgs_factsOf, declared, List.append_assoc, h, optList]
    rw [List.getElem?_append_right (by simp)]
    rw [List.getElem?_append_right (by simp)]
    simp

/-- **What "the parameter Python binds it to" means, without the slot machine**: when a
    call binds, positional-only parameter `i` holds `args[i]` (or its default), flexible
    parameter `i` holds `args[i]` if that many positionals were passed, else the keyword
    of its name (or its default), a keyword-only parameter holds the keyword of its name
    (or its default), `*args` holds the positionals beyond the positional parameters and
    `**kwargs` every keyword that names no flexible or keyword-only parameter — in
    particular a keyword colliding with a positional-only name. -/
theorem C04_bind_spec (s : Sig) (c : Call) (b : Binding) (hwf : s.WF) (h : pyBind s c = .ok b) :
    b.slots = (slots0 s c).map (fill c.kwargs) ∧
    b.star = c.args.drop (s.posonly.length + s.flex.length) ∧
    b.dstar = c.kwargs.filter (fun kv => !((s.flex ++ s.kwonly).map Param.name).contains kv.1) := by
  obtain ⟨e1, e2, e3⟩ := pyBind_ok s c b hwf h
  exact ⟨e1, e2, by rw [e3, keywordable_declared]; rfl⟩

/-- **Every passed value is checked against the annotation of the parameter Python binds
    it to, however it was passed, and nothing else is checked**: when the call binds, the
    (parameter, value) checks the wrapper performs are, as a multiset, exactly the bound
    (parameter, value) pairs of annotated parameters whose value was actually passed —
    each `*args` item against the `*args` annotation, each excess keyword against the
    `**kwargs` annotation, unpassed defaults absent. -/
theorem C04_checks_eq_binding (s : Sig) (c : Call) (b : Binding) (hwf : s.WF) (h : pyBind s c = .ok b) :
    (argChecks s c).Perm (b.expected s) :=
  checks_perm_expected s c b hwf h

/-- **A call that cannot bind raises TypeError or a parameter violation, without running
    the original** (and a parameter violation is raised only for a value that really
    fails the check of the parameter it was localised for). -/
theorem C04_unbindable (ok : Name → Val → Bool) (body : Binding → BodyRes) (s : Sig) (c : Call) (e : BindErr)
    (h : pyBind s c = .error e) :
    ((wrapperRun ok body s c).result = .typeError ∨
      ∃ n v, (wrapperRun ok body s c).result = .paramViolation n v ∧ (n, v) ∈ argChecks s c ∧ ok n v = false) ∧
    (wrapperRun ok body s c).ran = 0 ∧ (wrapperRun ok body s c).received = none := by
  simp only [wrapperRun]
  split
  · next x hx =>
    obtain ⟨h1, h2, _⟩ := runChecks_some ok _ x hx
    exact ⟨Or.inr ⟨x.1, x.2, rfl, h1, h2⟩, rfl, rfl⟩
  · simp [callThrough, h]

/-- **If all checks pass, the original callable runs exactly once with exactly the
    arguments given and its result or exception comes back unchanged**: same `(args,
    kwargs)`, bound as a bare call binds them; a raised exception propagates as the same
    object; a returned value comes back as the same object (or, when the return
    annotation rejects it, as a return violation — after the single run). -/
theorem C04_transparent (ok : Name → Val → Bool) (body : Binding → BodyRes) (s : Sig) (c : Call) (b : Binding)
    (hwf : s.WF) (h : pyBind s c = .ok b) (hall : ∀ x ∈ b.expected s, ok x.1 x.2 = true) :
    (wrapperRun ok body s c).ran = 1 ∧ (wrapperRun ok body s c).received = some c ∧
    (wrapperRun ok body s c).bound = some b ∧
    (∀ e, body b = .exc e → (wrapperRun ok body s c).result = .raised e) ∧
    (∀ v, body b = .ret v → (s.retAnn = false ∨ ok retName v = true) → (wrapperRun ok body s c).result = .returned v) ∧
    (∀ v, body b = .ret v → s.retAnn = true → ok retName v = false →
      (wrapperRun ok body s c).result = .returnViolation v) := by
  have hnone : (runChecks ok (argChecks s c)).2 = none := by
    rw [runChecks_none_iff]
    intro x hx
    exact hall x ((checks_perm_expected s c b hwf h).mem_iff.mp hx)
  simp only [wrapperRun]
  rw [hnone]
  simp only [callThrough, h]
  cases hb : body b with
  | exc e => simp
  | ret v =>
    simp only [finishReturn]
    cases hr : s.retAnn with
    | false => simp
    | true =>
      cases ho : ok retName v with
      | false => simp [ho]
      | true => simp [ho]

/-- … and in that case the wrapper performed every one of its parameter checks, in its
    fixed order, plus the return check iff the original returned and a return annotation exists. -/
theorem C04_trace_complete (ok : Name → Val → Bool) (body : Binding → BodyRes) (s : Sig) (c : Call) (b : Binding)
    (hwf : s.WF) (h : pyBind s c = .ok b) (hall : ∀ x ∈ b.expected s, ok x.1 x.2 = true) :
    (wrapperRun ok body s c).trace = argChecks s c ++
      (match body b with
       | .ret v => if s.retAnn then [(retName, v)] else []
       | .exc _ => []) := by
  have hnone : (runChecks ok (argChecks s c)).2 = none := by
    rw [runChecks_none_iff]
    intro x hx
    exact hall x ((checks_perm_expected s c b hwf h).mem_iff.mp hx)
  simp only [wrapperRun]
  rw [hnone]
  simp only [callThrough, h, runChecks_trace_of_none ok _ hnone]
  cases hb : body b with
  | exc e => simp
  | ret v =>
    simp only [finishReturn]
    cases hr : s.retAnn with
    | false => simp
    | true => cases ho : ok retName v <;> simp

/-- **If a parameter check fails the original never runs**: when the call binds and some
    passed value fails the annotation of the parameter it is bound to, the call raises a
    parameter violation for such a (parameter, value) pair and the original ran 0 times. -/
theorem C04_param_fail_no_run (ok : Name → Val → Bool) (body : Binding → BodyRes) (s : Sig) (c : Call) (b : Binding)
    (hwf : s.WF) (h : pyBind s c = .ok b) (hfail : ∃ x ∈ b.expected s, ok x.1 x.2 = false) :
    (∃ x ∈ b.expected s, ok x.1 x.2 = false ∧ (wrapperRun ok body s c).result = .paramViolation x.1 x.2) ∧
    (wrapperRun ok body s c).ran = 0 ∧ (wrapperRun ok body s c).received = none := by
  have hsome : ∃ x, (runChecks ok (argChecks s c)).2 = some x := by
    cases hr : (runChecks ok (argChecks s c)).2 with
    | some x => exact ⟨x, rfl⟩
    | none =>
      obtain ⟨x, hx, hb⟩ := hfail
      have := (runChecks_none_iff ok _).mp hr x ((checks_perm_expected s c b hwf h).mem_iff.mpr hx)
      rw [hb] at this; cases this
  obtain ⟨x, hx⟩ := hsome
  obtain ⟨h1, h2, _⟩ := runChecks_some ok _ x hx
  simp only [wrapperRun]
  rw [hx]
  exact ⟨⟨x, (checks_perm_expected s c b hwf h).mem_iff.mp h1, h2, rfl⟩, rfl, rfl⟩

/-- **Unpassed defaults are left unchecked**: when the call binds and a parameter's default
    is used (its slot holds no passed value), the wrapper performs no check at all for
    that parameter — whatever its annotation. -/
theorem C04_default_unchecked (s : Sig) (c : Call) (b : Binding) (hwf : s.WF) (h : pyBind s c = .ok b)
    (sl : Slot) (hsl : sl ∈ b.slots) (hv : sl.val = none) (v : Val) : (sl.p.name, v) ∉ argChecks s c :=
  default_slot_unchecked s c b hwf h sl hsl hv v

/-! ### non-vacuity: all five kinds, a keyword colliding with a positional-only name -/

/-- `def f(a: A, b=…, /, c: C=…, d: D=…, *e: E, g: G, h=…, **k: K) -> R` -/
private def sigAll : Sig :=
  ⟨[⟨"a", true, false⟩, ⟨"b", false, true⟩], [⟨"c", true, true⟩, ⟨"d", true, true⟩], some ⟨"e", true, false⟩,
   [⟨"g", true, false⟩, ⟨"h", false, true⟩], some ⟨"k", true, false⟩, true⟩

/-- `f(1, 2, 3, 4, 5, 6, g=7, a=8, z=9)` : `a=8` collides with positional-only `a` and lands in `**k` -/
private def callAll : Call := ⟨[1, 2, 3, 4, 5, 6], [("g", 7), ("a", 8), ("z", 9)]⟩

private def okOf : Except BindErr Binding → Option Binding
  | .ok b => some b
  | .error _ => none

private def errOf : Except BindErr Binding → Option BindErr
  | .ok _ => none
  | .error e => some e

example : sigAll.WF := by decide
example : callAll.WF := by decide

example :
    (okOf (pyBind sigAll callAll)).map (fun b => (b.star, b.dstar, b.expected sigAll)) =
      some ([5, 6], [("a", 8), ("z", 9)],
        [("a", 1), ("c", 3), ("d", 4), ("g", 7), ("e", 5), ("e", 6), ("k", 8), ("k", 9)]) ∧
    argChecks sigAll callAll = [("a", 1), ("c", 3), ("d", 4), ("e", 5), ("e", 6), ("g", 7), ("k", 8), ("k", 9)] ∧
    (wrapperRun (fun _ _ => true) (fun _ => .ret 100) sigAll callAll).result = .returned 100 ∧
    (wrapperRun (fun _ _ => true) (fun _ => .ret 100) sigAll callAll).ran = 1 ∧
    (wrapperRun (fun n v => !(n = "k" ∧ v = 8)) (fun _ => .ret 100) sigAll callAll).result = .paramViolation "k" 8 ∧
    (wrapperRun (fun n v => !(n = "k" ∧ v = 8)) (fun _ => .ret 100) sigAll callAll).ran = 0 := by
  decide

/-- `f(1, c=5, a=3)`: flexible `c` by keyword, `b` `d` `h` defaulted (unchecked), `g` missing ⇒ unbindable;
    `f(1, 2, 3, c=4, g=5)`: `c` twice ⇒ unbindable; the wrapper still checked what it localised. -/
example :
    errOf (pyBind sigAll ⟨[1], [("c", 5), ("a", 3)]⟩) = some .missing ∧
    (wrapperRun (fun _ _ => true) (fun _ => .ret 100) sigAll ⟨[1], [("c", 5), ("a", 3)]⟩).result = .typeError ∧
    (wrapperRun (fun _ _ => true) (fun _ => .ret 100) sigAll ⟨[1], [("c", 5), ("a", 3)]⟩).trace =
      [("a", 1), ("c", 5), ("k", 3)] ∧
    errOf (pyBind sigAll ⟨[1, 2, 3], [("c", 4), ("g", 5)]⟩) = some (.multipleValues "c") ∧
    (wrapperRun (fun n _ => n != "g") (fun _ => .ret 100) sigAll ⟨[1, 2, 3], [("c", 4), ("g", 5)]⟩).result =
      .paramViolation "g" 5 := by
  decide

end BearVerif.Wrap
