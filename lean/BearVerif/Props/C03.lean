import BearVerif.Props.C02
import BearVerif.Core.BearErr
/-!
  C03 — all entry points agree; every rejection is the configured, explained violation.

  * agreement: every entry point evaluates THE SAME generated expression in a different
    frame (tester `return <expr>`, raiser `if not <expr>: raise`, wrapper parameter and
    return check), so by `C01_compile` they all compute `chk` — stated below as
    `C03_entry_points_agree` on the model of the four frames;
  * no desynchronisation: whenever the generated code rejects, the independent
    explanation path (`hasCause`, mirroring beartype/_check/error) finds a cause;
  * the signal is the configured class, warned (call proceeds) iff it is a Warning.
-/
namespace BearVerif.Bear

variable (W : World) (conf : Conf) (r : Nat) (st : Strategy)

mutual
/-- the extra ABC fact the explanation path relies on: instances of sequence- and
    reiterable-logic origins are collections (it skips non-collections) -/
def Hint.ErrWf : Hint → Prop
  | .any | .cls _ | .shallow _ | .typeOf _ | .literal _ => True
  | .union hs => ErrWfList hs
  | .tupleFixed hs => ErrWfList hs
  | .seq o h | .reit o h => h.ErrWf ∧ ∀ c, W.sub c o = true → W.sub c cCollection = true
  | .quasi _ h => h.ErrWf
  | .mapping _ k v => k.ErrWf ∧ v.ErrWf
  | .annotated h _ => h.ErrWf
  | .generic _ bs => ErrWfList bs
def ErrWfList : List Hint → Prop
  | [] => True
  | h :: hs => h.ErrWf ∧ ErrWfList hs
end

theorem origin_mismatch_chk (h : Hint) (x : Obj) (o : Nat) (ho : h.origin? = some o) (hs : W.sub x.cls o = false) :
    chk W conf r h x = false := by
  apply C02_top
  cases h <;> simp_all [Hint.origin?, topInst]

mutual
/-- **No desynchronisation.** If the generated code rejects (for this draw), the
    explanation path finds a cause — under O1 (it re-samples the same item) and under On
    (it walks every item). Hence a rejection never turns into
    `_BeartypeCallHintPepRaiseDesynchronizationException`. -/
theorem C03_no_desync (hW : W.Wf) : ∀ (h : Hint) (x : Obj), h.WfIn W → h.ErrWf W → x.wf W = true →
    chk W conf r h x = false → hasCause W conf r st h x = true
  | .any, _, _, _, _, hc => by simp [chk] at hc
  | .cls c, x, _, _, _, hc | .shallow c, x, _, _, _, hc => by simpa [chk, hasCause] using hc
  | .typeOf cs, x, _, _, _, hc => by simpa [chk, hasCause] using hc
  | .literal ls, x, _, _, _, hc => by
    simp only [hasCause]
    split
    · rename_i hany
      exfalso
      obtain ⟨l, hl, hboth⟩ := List.any_eq_true.mp hany
      simp only [Bool.and_eq_true] at hboth
      have : chk W conf r (.literal ls) x = true := by
        simp only [chk, Bool.and_eq_true, List.any_eq_true]
        exact ⟨⟨l, hl, hboth.1⟩, ⟨l, hl, hboth.2⟩⟩
      rw [hc] at this; cases this
    · rfl
  | .union hs, x, hwf, he, hw, hc => by
    simp only [Hint.WfIn] at hwf
    simp only [Hint.ErrWf] at he
    simp only [chk] at hc
    simp only [hasCause]
    exact unionCause_of hW hs x hwf.2.1 he hw hc
  | .tupleFixed hs, x, hwf, he, hw, hc => by
    simp only [Hint.WfIn] at hwf
    simp only [Hint.ErrWf] at he
    simp only [hasCause, Bool.or_eq_true, Bool.not_eq_true', bne_iff_ne, ne_eq]
    cases hsub : W.sub x.cls cTuple with
    | false => exact Or.inl rfl
    | true =>
      right
      by_cases hl : x.items.length = hs.length
      · right
        simp only [chk, hsub, Bool.true_and, hl, beq_self_eq_true] at hc
        exact zipCause_of hW hs x.items hwf he (Obj.wf_items hw) hc
      · exact Or.inl hl
  | .seq o h, x, hwf, he, hw, hc => by
    simp only [Hint.WfIn] at hwf
    simp only [Hint.ErrWf] at he
    simp only [hasCause, Bool.or_eq_true, Bool.not_eq_true', Bool.and_eq_true]
    cases hsub : W.sub x.cls o with
    | false => exact Or.inl rfl
    | true =>
      right
      simp only [chk, hsub, Bool.true_and] at hc
      cases hy : x.items[pickIdx conf r x.items.length]? with
      | none => rw [hy] at hc; cases hc
      | some y =>
        rw [hy] at hc
        simp only at hc
        have hne : x.items.isEmpty = false := by cases hx : x.items <;> simp_all
        have hig : h.ignorable = false := by
          cases hh : h.ignorable with
          | false => rfl
          | true => rw [chk_ignorable W conf r h y hh] at hc; cases hc
        have hwy := wfList_mem (Obj.wf_items hw) y (List.mem_of_getElem? hy)
        have ih := C03_no_desync hW h y hwf.1 he.1 hwy hc
        refine ⟨⟨⟨hne, hig⟩, he.2 _ hsub⟩, ?_⟩
        cases st with
        | O1 => simp [hy, ih]
        | On => exact List.any_eq_true.mpr ⟨y, List.mem_of_getElem? hy, ih⟩
  | .reit o h, x, hwf, he, hw, hc => by
    simp only [Hint.WfIn] at hwf
    simp only [Hint.ErrWf] at he
    simp only [hasCause, Bool.or_eq_true, Bool.not_eq_true', Bool.and_eq_true]
    cases hsub : W.sub x.cls o with
    | false => exact Or.inl rfl
    | true =>
      right
      simp only [chk, hsub, Bool.true_and] at hc
      cases hx : x.items with
      | nil => rw [hx] at hc; simp at hc
      | cons y ys =>
        rw [hx] at hc; simp only [List.head?_cons] at hc
        have hig : h.ignorable = false := by
          cases hh : h.ignorable with
          | false => rfl
          | true => rw [chk_ignorable W conf r h y hh] at hc; cases hc
        have hwy := wfList_mem (Obj.wf_items hw) y (by simp [hx])
        have ih := C03_no_desync hW h y hwf.1 he.1 hwy hc
        refine ⟨⟨⟨by simp, hig⟩, he.2 _ hsub⟩, ?_⟩
        cases st with
        | O1 => simp [ih]
        | On => simp [ih]
  | .quasi o h, x, hwf, he, hw, hc => by
    simp only [Hint.WfIn] at hwf
    simp only [Hint.ErrWf] at he
    simp only [hasCause, Bool.or_eq_true, Bool.not_eq_true', Bool.and_eq_true]
    cases hsub : W.sub x.cls o with
    | false => exact Or.inl rfl
    | true =>
      right
      simp only [chk, hsub, Bool.true_and, Bool.or_eq_false_iff, Bool.not_eq_false'] at hc
      obtain ⟨hcoll, hit⟩ := hc
      cases hy : (if W.sub x.cls cSequence = true then x.items[pickIdx conf r x.items.length]? else x.items.head?) with
      | none => rw [hy] at hit; cases hit
      | some y =>
        rw [hy] at hit
        simp only at hit
        have hm : y ∈ x.items := by
          split at hy
          · exact List.mem_of_getElem? hy
          · cases hx : x.items with
            | nil => rw [hx] at hy; simp at hy
            | cons a b => rw [hx] at hy; simp at hy; simp [hy]
        have hne : x.items.isEmpty = false := by cases hx : x.items <;> simp_all
        have hig : h.ignorable = false := by
          cases hh : h.ignorable with
          | false => rfl
          | true => rw [chk_ignorable W conf r h y hh] at hit; cases hit
        have ih := C03_no_desync hW h y hwf he (wfList_mem (Obj.wf_items hw) y hm) hit
        refine ⟨⟨⟨hcoll, hne⟩, hig⟩, ?_⟩
        cases st with
        | O1 => simp [hy, ih]
        | On => exact List.any_eq_true.mpr ⟨y, hm, ih⟩
  | .mapping o k v, x, hwf, he, hw, hc => by
    simp only [Hint.WfIn] at hwf
    simp only [Hint.ErrWf] at he
    simp only [hasCause, Bool.or_eq_true, Bool.not_eq_true', Bool.and_eq_true]
    cases hsub : W.sub x.cls o with
    | false => exact Or.inl rfl
    | true =>
      right
      obtain ⟨_, _, hmp⟩ := hwf.2.2 _ hsub
      have hvl := Obj.wf_map hw hmp
      simp only [chk, hsub, Bool.true_and] at hc
      cases hx : x.items with
      | nil => rw [hx] at hc; simp at hc
      | cons k0 ks =>
        cases hxv : x.vals with
        | nil => rw [hx, hxv] at hvl; simp at hvl
        | cons v0 vs =>
          rw [hx, hxv] at hc
          simp only [List.head?_cons, Bool.and_eq_false_iff] at hc
          refine ⟨by simp, ?_⟩
          have hwk := wfList_mem (Obj.wf_items hw) k0 (by simp [hx])
          have hwv := wfList_mem (Obj.wf_vals hw) v0 (by simp [hxv])
          rcases hc with hk | hv
          · have hig : k.ignorable = false := by
              cases hh : k.ignorable with
              | false => rfl
              | true => rw [chk_ignorable W conf r k k0 hh] at hk; cases hk
            have ih := C03_no_desync hW k k0 hwf.1 he.1 hwk hk
            cases st with
            | O1 => simp [hig, ih]
            | On => simp [hig, ih]
          · have hig : v.ignorable = false := by
              cases hh : v.ignorable with
              | false => rfl
              | true => rw [chk_ignorable W conf r v v0 hh] at hv; cases hv
            have ih := C03_no_desync hW v v0 hwf.2.1 he.2 hwv hv
            cases st with
            | O1 => simp [hig, ih]
            | On => simp [hig, ih]
  | .annotated h vs, x, hwf, he, hw, hc => by
    simp only [Hint.WfIn] at hwf
    simp only [Hint.ErrWf] at he
    simp only [chk, Bool.and_eq_false_iff] at hc
    simp only [hasCause, Bool.or_eq_true, Bool.and_eq_true, Bool.not_eq_true']
    rcases hc with h1 | h2
    · left
      have hig : h.ignorable = false := by
        cases hh : h.ignorable with
        | false => rfl
        | true => rw [chk_ignorable W conf r h x hh] at h1; cases h1
      exact ⟨hig, C03_no_desync hW h x hwf.1 he hw h1⟩
    · exact Or.inr h2
  | .generic c bs, x, hwf, he, hw, hc => by
    simp only [Hint.WfIn] at hwf
    simp only [Hint.ErrWf] at he
    simp only [chk, Bool.and_eq_false_iff] at hc
    simp only [hasCause, Bool.or_eq_true, Bool.not_eq_true']
    rcases hc with h1 | h2
    · exact Or.inl h1
    · exact Or.inr (basesCause_of hW bs x hwf.1 he hw h2)
theorem basesCause_of (hW : W.Wf) : ∀ (hs : List Hint) (x : Obj), WfInList W hs → ErrWfList W hs → x.wf W = true →
    chkEvery W conf r hs x = false → basesCause W conf r st hs x = true
  | [], _, _, _, _, hc => by simp [chkEvery] at hc
  | h :: hs, x, hwf, he, hw, hc => by
    simp only [WfInList] at hwf
    simp only [ErrWfList] at he
    simp only [chkEvery, Bool.and_eq_false_iff] at hc
    simp only [basesCause, Bool.or_eq_true]
    rcases hc with h1 | h2
    · exact Or.inl (C03_no_desync hW h x hwf.1 he.1 hw h1)
    · exact Or.inr (basesCause_of hW hs x hwf.2 he.2 hw h2)
theorem unionCause_of (hW : W.Wf) : ∀ (hs : List Hint) (x : Obj), WfInList W hs → ErrWfList W hs → x.wf W = true →
    chkAny W conf r hs x = false → unionCause W conf r st hs x = true
  | [], _, _, _, _, _ => by simp [unionCause]
  | h :: hs, x, hwf, he, hw, hc => by
    simp only [WfInList] at hwf
    simp only [ErrWfList] at he
    simp only [chkAny, Bool.or_eq_false_iff] at hc
    have ihs := unionCause_of hW hs x hwf.2 he.2 hw hc.2
    simp only [unionCause]
    split
    · exact ihs
    · have ih := C03_no_desync hW h x hwf.1 he.1 hw hc.1
      split <;> simp [ih, ihs]
theorem zipCause_of (hW : W.Wf) : ∀ (hs : List Hint) (ys : List Obj), WfInList W hs → ErrWfList W hs → wfList W ys = true →
    chkZip W conf r hs ys = false → zipCause W conf r st hs ys = true
  | [], _, _, _, _, hc => by simp [chkZip] at hc
  | _ :: _, [], _, _, _, hc => by simp [chkZip] at hc
  | h :: hs, y :: ys, hwf, he, hw, hc => by
    simp only [WfInList] at hwf
    simp only [ErrWfList] at he
    simp only [wfList, Bool.and_eq_true] at hw
    simp only [chkZip, Bool.and_eq_false_iff] at hc
    simp only [zipCause, Bool.or_eq_true, Bool.and_eq_true, Bool.not_eq_true']
    rcases hc with h1 | h2
    · left
      have hig : h.ignorable = false := by
        cases hh : h.ignorable with
        | false => rfl
        | true => rw [chk_ignorable W conf r h y hh] at h1; cases h1
      exact ⟨hig, C03_no_desync hW h y hwf.1 he.1 hw.1 h1⟩
    · exact Or.inr (zipCause_of hW hs ys hwf.2 he.2 hw.2 h2)
end

/-! ### entry points -/

/-- the four frames in which the one generated expression runs -/
inductive Entry | tester | raiser | param | ret
deriving DecidableEq, Repr

/-- accept/reject of an entry point given the value of the generated expression:
    `return <expr>` / `if not <expr>: raise` / parameter check / return check -/
def Entry.accepts (_ : Entry) (exprValue : Bool) : Bool := exprValue

/-- **All entry points reach the same verdict** for the same hint, object, configuration
    and draw: each evaluates `genRoot conf h` (C01_compile: = `chk`). -/
theorem C03_entry_points_agree (hW : W.Wf) (h : Hint) (x : Obj) (hwf : h.WfIn W) (hi : h.ignorable = false)
    (hx : x.wf W = true) (e₁ e₂ : Entry) :
    ∃ b env' n, eval W r (rootEnv x) (genRoot conf h) = some (.bool b, env', n) ∧
      e₁.accepts b = chk W conf r h x ∧ e₂.accepts b = chk W conf r h x := by
  obtain ⟨env', n, he⟩ := C01_compile W hW conf r h x hwf hi hx
  exact ⟨_, env', n, he, rfl, rfl⟩

/-- **The signal is exactly the configured one**: the specific option if passed, else
    `violation_type`, else the documented default; a Warning class is warned and the call
    proceeds, anything else is raised; an accepted object produces no signal. -/
theorem C03_signal (isWarning : Nat → Bool) (s : Signals) (kind : PithKind) (verdict : Bool) :
    outcome isWarning s kind verdict =
      if verdict then .accepted
      else if isWarning (s.cls kind) then .warned (s.cls kind) else .raised (s.cls kind) := rfl

theorem C03_signal_class (s : Signals) :
    s.cls .door = s.doorType.getD (s.violationType.getD s.dflDoor) ∧
    s.cls .param = s.paramType.getD (s.violationType.getD s.dflParam) ∧
    s.cls .ret = s.returnType.getD (s.violationType.getD s.dflReturn) := ⟨rfl, rfl, rfl⟩

/-- the violation-type options never change a verdict (C18's third clause) -/
theorem C03_signal_verdict_invariant (isWarning : Nat → Bool) (s s' : Signals) (kind : PithKind) (verdict : Bool) :
    (outcome isWarning s kind verdict = .accepted) = (outcome isWarning s' kind verdict = .accepted) := by
  cases verdict <;> simp [outcome] <;> split <;> split <;> simp

end BearVerif.Bear
