import BearVerif.Lemmas.Gen
import BearVerif.Extracted.Gen
/-!
  C08 — "Wrapped coroutines and generators are indistinguishable from the originals".

  Statements use only definitions of `Core/Gen.lean`:
    `G.trace k body` / `A.trace body`    per-operation (finalisation log, result) of the UNDECORATED object
    `wrap342 / wrapCoro / wrap525`       the body of the wrapper @beartype emits, over the inner object
    `checkRet chk body`                  the undecorated body whose returned value goes through the return check
    `reinitDecision`, `runReinit …`      which wrapper `BeartypeCallDecorFuncData.reinit` emits
  Bodies are arbitrary (`Body σ` for any state type σ and any reaction function): the finite transition tables the
  harness enumerates are instances (`Table.toBody`).
-/
namespace BearVerif.Gen
open BearVerif.Extracted

/-! ## same kind -/

/-- **Same kind as reported by inspect.** For every combination of code-object flags the compiler can produce,
    the `reinit` block as it reads in /repo NOW (re-extracted on every run) decides exactly what the hand model
    `reinitDecision` decides; the wrapper emitted from that decision (checked and unchecked variant) compiles to
    a callable of the decoratee's kind (`async def` iff coroutine or async generator, `yield` inside iff generator
    or async generator — never `yield from` inside `async def`, never `await` outside it); it calls the decoratee,
    and awaits the call exactly when the decoratee is a coroutine function. -/
theorem C08_kind :
    (∀ c g a : Bool, runReinit genReinitDefaults genReinitProg ⟨c, g, a⟩ = reinitDecision ⟨c, g, a⟩) ∧
    (∀ c g a : Bool, (Flags.mk c g a).wf = true → ∀ checked : Bool,
        wrapperKind genSnippetFeats (runReinit genReinitDefaults genReinitProg ⟨c, g, a⟩) checked
          = some (Flags.mk c g a).kind ∧
        callShape genSnippetFeats (runReinit genReinitDefaults genReinitProg ⟨c, g, a⟩) checked = some (true, c)) ∧
    genFlagTests = [("is_func_async_generator", "CO_ASYNC_GENERATOR"), ("is_func_coro", "CO_COROUTINE"),
                    ("is_func_sync_generator", "CO_GENERATOR")] := by
  refine ⟨by decide, by decide, by decide⟩

/-- **The snippets are the ones modelled.** The structural dumps of CODE_PEP342_RETURN_*, CODE_PEP525_RETURN_*,
    CODE_NORMAL_RETURN_* and CODE_CALL_CHECKED re-extracted from /repo equal the dumps `wrapDeleg`, `wrapCoro`
    and `wrap525` were written from (`modelledSnippets`, clause-by-clause map in `Core/Gen.lean`). -/
theorem C08_snippets_as_modelled : genSnippetDumps = modelledSnippets := rfl

/-! ## same behaviour: sync generators -/

/-- The property's clause at full strength, sync generators: for bodies that do not yield while handling
    GeneratorExit, every operation sequence gives the same per-operation results and finalisation log. -/
def C08_bisim_sync_statement : Prop :=
  ∀ (σ : Type) (b : Body σ), NoYieldOnExit b → ∀ ops : List Op,
    G.trace .gen (wrap342 true b) .created ops = G.trace .gen b .created ops

/-- body `try: yield 1 / except GeneratorExit: log; return 7` -/
def swallowTable : Table :=
  [⟨([], .yld (.lit (some 1)) 1), ([], .rse .same), ([], .rse .same), ([], .rse .same)⟩,
   ⟨([], .ret (.lit none)), ([], .rse .same), ([5], .ret (.lit (some 7))), ([], .rse .same)⟩]

/-- **F-C08a.** The full-strength clause is FALSE: `[next, throw(GeneratorExit)]` on a body that swallows
    GeneratorExit and returns — the original raises StopIteration(7), the `yield from` wrapper re-raises GeneratorExit. -/
theorem C08_bisim_sync_counterexample : ¬ C08_bisim_sync_statement := by
  intro h
  have hy : NoYieldOnExit (swallowTable.toBody) := Table.noYieldOnExit_sound _ _ (by decide)
  have := h Nat swallowTable.toBody hy [.send none, .throw .genExit]
  revert this
  decide

/-- **Sync generators, everything but the F-C08a family.** For every body that does not yield while handling
    GeneratorExit, and every finite sequence of next/send/throw/close — provided the body never answers GeneratorExit
    by returning, or the sequence contains no explicit `throw(GeneratorExit)` (`close()` is allowed) — the decorated
    generator produces the same yielded values, returned value, exceptions and finalisation log, operation by operation. -/
theorem C08_bisim_sync_partial (b : Body σ) (hy : NoYieldOnExit b) (ops : List Op)
    (hfam : NoReturnOnExit b ∨ ∀ op ∈ ops, op ≠ .throw .genExit) :
    G.trace .gen (wrap342 true b) .created ops = G.trace .gen b .created ops := by
  have := G.trace_lift .gen (fun _ => true) b hy ops hfam .created
  rwa [checkRet_true] at this

/-- The excluded family is exactly where decoration shows, for generators and coroutines alike: whenever a
    suspended body answers GeneratorExit by returning `v`, an explicit throw of GeneratorExit gives StopIteration(v)
    on the original and GeneratorExit on the decorated object (same log; both finished afterwards). -/
theorem C08_bisim_family_differs (k : Kind) (chk : Val → Bool) (b : Body σ) (s : σ) (l : Log) (v : Val)
    (h : b.resume s (.throw .genExit) = (l, .ret v)) :
    G.step k b (.suspended s) (.throw .genExit) = (l, .closed, .exc (.stopIter v)) ∧
    G.step k (wrapDeleg k true chk b) (.suspended (.deleg (.suspended s))) (.throw .genExit)
      = (l, .closed, .exc .genExit) := by
  constructor
  · show G.finish (run k b s (.throw .genExit)) = _
    rw [run_ret h]; rfl
  · show G.finish (run k (wrapDeleg k true chk b) (.deleg (.suspended s)) (.throw .genExit)) = _
    rw [wrap_exit_ret k true chk b s l v h]; rfl

/-! ## same behaviour: coroutines (`return await f(...)`), and the awaited value is checked -/

def C08_bisim_coro_statement : Prop :=
  ∀ (σ : Type) (b : Body σ), NoYieldOnExit b → ∀ ops : List Op,
    G.trace .coro (wrapCoro (fun _ => true) b) .created ops = G.trace .coro b .created ops

/-- F-C08a for coroutines: `[send(None), throw(GeneratorExit)]` into a coroutine that swallows it and returns. -/
theorem C08_bisim_coro_counterexample : ¬ C08_bisim_coro_statement := by
  intro h
  have hy : NoYieldOnExit (swallowTable.toBody true) := Table.noYieldOnExit_sound _ _ (by decide)
  have := h Nat (swallowTable.toBody true) hy [.send none, .throw .genExit]
  revert this
  decide

/-- **Coroutines + "the awaited value is checked against the return annotation".** Outside the F-C08a family the
    decorated coroutine behaves, under every sequence of send/throw/close, exactly like the original coroutine
    whose returned value goes through the return check `chk` (a failing value raises the violation instead of
    StopIteration(value); a passing value is returned unchanged). With nothing to check (`chk = fun _ => true`)
    this is plain indistinguishability (`C08_bisim_coro_partial`). -/
theorem C08_return_checked (chk : Val → Bool) (b : Body σ) (hy : NoYieldOnExit b) (ops : List Op)
    (hfam : NoReturnOnExit b ∨ ∀ op ∈ ops, op ≠ .throw .genExit) :
    G.trace .coro (wrapCoro chk b) .created ops = G.trace .coro (checkRet chk b) .created ops :=
  G.trace_lift .coro chk b hy ops hfam .created

theorem C08_bisim_coro_partial (b : Body σ) (hy : NoYieldOnExit b) (ops : List Op)
    (hfam : NoReturnOnExit b ∨ ∀ op ∈ ops, op ≠ .throw .genExit) :
    G.trace .coro (wrapCoro (fun _ => true) b) .created ops = G.trace .coro b .created ops := by
  have := C08_return_checked (fun _ => true) b hy ops hfam
  rwa [checkRet_true] at this

/-- a value failing the check never comes back from the decorated coroutine as a result: where the original
    (suspended at `s`, resumed with `i`) would return `v` with `chk v = false`, the decorated one raises the violation -/
theorem C08_return_checked_rejects (chk : Val → Bool) (b : Body σ) (s : σ) (i : In) (l : Log) (v : Val)
    (hi : i ≠ .throw .genExit) (h : b.resume s i = (l, .ret v)) (hv : chk v = false) :
    (checkRet chk b).resume s i = (l, .rse .violation) := by
  rw [checkRet_other chk b s i hi, h]; simp [hv]

/-- **The returned generator object is checked**: when it does not satisfy the return hint, the decorated
    (sync / async) generator is the generator that raises the violation as soon as it is started — under every
    operation sequence; nothing of the body runs. -/
theorem C08_return_checked_object (b : Body σ) :
    (∀ ops, G.trace .gen (wrap342 false b) .created ops = G.trace .gen violBody .created ops) ∧
    (∀ ops, A.trace (wrap525 false b) A.init ops = A.trace violBody A.init ops) :=
  ⟨G.trace_badobj .gen _ b, A.trace_badobj b⟩

/-! ## same behaviour: async generators (the hand-written "async yield from") -/

def C08_bisim_async_statement : Prop :=
  ∀ (σ : Type) (b : Body σ), NoYieldOnExit b → ∀ ops : List AOp,
    A.trace (wrap525 true b) A.init ops = A.trace b A.init ops

/-- F-C08a for async generators: `[anext, athrow(GeneratorExit)]`: StopAsyncIteration vs GeneratorExit. -/
theorem C08_bisim_async_counterexample : ¬ C08_bisim_async_statement := by
  intro h
  have hy : NoYieldOnExit (swallowTable.toBody) := Table.noYieldOnExit_sound _ _ (by decide)
  have := h Nat swallowTable.toBody hy [.asend none, .athrow .genExit]
  revert this
  decide

/-- **Async generators, everything but the F-C08a family.** For every body that does not yield while handling
    GeneratorExit and every finite sequence of anext/asend/athrow/aclose (each awaited to completion) — provided the
    body never answers GeneratorExit by returning, or the sequence has no explicit `athrow(GeneratorExit)` — the
    decorated async generator gives the same values, StopAsyncIteration, exceptions and finalisation log. -/
theorem C08_bisim_async_partial (b : Body σ) (hy : NoYieldOnExit b) (ops : List AOp)
    (hfam : NoReturnOnExit b ∨ ∀ op ∈ ops, op ≠ .athrow .genExit) :
    A.trace (wrap525 true b) A.init ops = A.trace b A.init ops :=
  A.trace_lift b hy ops hfam A.init (by simp [Good, A.init])

theorem C08_bisim_async_family_differs (b : Body σ) (s : σ) (l : Log) (v : Val)
    (h : b.resume s (.throw .genExit) = (l, .ret v)) :
    A.step b ⟨.suspended s, false⟩ (.athrow .genExit) = (l, ⟨.closed, true⟩, .exc .stopAsync) ∧
    A.step (wrap525 true b) ⟨.suspended (.deleg ⟨.suspended s, false⟩), false⟩ (.athrow .genExit)
      = (l, ⟨.closed, true⟩, .exc .genExit) := by
  constructor
  · show A.finish false (run .agen b s (.throw .genExit)) = _
    rw [run_ret h]; rfl
  · show A.finish false (run .agen (wrap525 true b) (.deleg ⟨.suspended s, false⟩) (.throw .genExit)) = _
    rw [wrap525_exit_ret true b s l v h]; rfl

/-! ## non-vacuity -/

/-- body with try/finally cleanup, catch-and-continue, echo of sent values, early return:
    s1: `x = yield 1` (finally: log 3 on any throw) ; s2: `yield x` catching ValueError -> continues at s1,
    GeneratorExit -> log 4 and re-raise, StopIteration -> return 9 -/
def demoTable : Table :=
  [⟨([], .yld (.lit (some 1)) 1), ([], .rse .same), ([], .rse .same), ([], .rse .same)⟩,
   ⟨([], .yld .echo 2), ([3], .rse .same), ([3], .rse .same), ([3], .rse .same)⟩,
   ⟨([], .ret (.lit (some 8))), ([6], .yld (.lit (some 1)) 1), ([4], .rse .same), ([], .ret (.lit (some 9)))⟩]

example : NoYieldOnExit demoTable.toBody ∧ NoReturnOnExit demoTable.toBody :=
  ⟨Table.noYieldOnExit_sound _ _ (by decide), Table.noReturnOnExit_sound _ _ (by decide)⟩

/-- the hypotheses are met by a body whose trace is not trivial, and the theorem then speaks about it -/
example : G.trace .gen demoTable.toBody .created
      [.send none, .send (some 5), .throw (.user 0 (some 7)), .send none, .throw .genExit, .send none]
    = [([], .val (some 1)), ([], .val (some 5)), ([6], .val (some 1)), ([], .val none),
       ([4], .exc .genExit), ([], .exc (.stopIter none))] := by decide

example : A.trace demoTable.toBody A.init [.asend none, .asend (some 5), .athrow .stopAsync, .aclose, .athrow (.user 0 none)]
    = [([], .val (some 1)), ([], .val (some 5)), ([], .exc .stopAsync), ([], .val none), ([], .val none)] := by decide

example : G.trace .coro (wrapCoro (fun v => v.isSome) (swallowTable.toBody true)) .created [.send none, .send none]
    = [([], .val (some 1)), ([], .exc .violation)] := by decide

example : (Flags.mk false false true).wf = true ∧ (Flags.mk true false false).wf = true := by decide

end BearVerif.Gen
