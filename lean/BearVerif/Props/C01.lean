import BearVerif.Lemmas.BearCompile3
import BearVerif.Lemmas.BearTable
import BearVerif.Lemmas.BearAlias
import BearVerif.Lemmas.Bfs
/-!
  C01 — no false alarms. Statements only use definitions of `Core/Bear.lean` and
  `Core/BearExpr.lean`: `sat` is the published meaning at full depth, `chk` the sampled
  check, `gen` the code generator (tied to /repo by the code-level comparison on every
  run), `eval` the evaluation of generated code (tied behaviourally).
-/
namespace BearVerif.Bear

/-- the environment in which generated code starts: `__beartype_pith_0` is the object -/
def rootEnv (x : Obj) : Env := fun v => if v = pv 0 then some x else none

/-- **L0 → L1.** Whatever conforms to the hint at full depth passes the sampled check,
    whichever item the sampler picks (every draw `r`, random or first-item sampling). -/
theorem C01_sat_imp_chk (W : World) (hW : W.Wf) (conf : Conf) (r : Nat) (h : Hint) (x : Obj)
    (hs : sat W h x = true) : chk W conf r h x = true :=
  sat_imp_chk W conf r hW h x hs

/-- **L1 → L2 (compiler correctness).** Evaluating the generated expression on a
    well-formed object never raises and yields exactly the sampled check — for every hint
    of any nesting, every object of any size, every draw. -/
theorem C01_compile (W : World) (hW : W.Wf) (conf : Conf) (r : Nat) (h : Hint) (x : Obj)
    (hwf : h.WfIn W) (hi : h.ignorable = false) (hx : x.wf W = true) :
    ∃ env' n, eval W r (rootEnv x) (genRoot conf h) = some (.bool (chk W conf r h x), env', n) := by
  obtain ⟨env', n, he, _⟩ := compile_correct W conf r hW h .var 0 (rootEnv x) x hwf hi hx (by simp [PithOK, rootEnv])
  exact ⟨env', n, he⟩

/-- **No false alarms.** If the object conforms to the hint under its published meaning,
    the generated check code evaluates to `True` (and does not raise) for every sampler
    draw and both sampling modes. -/
theorem C01_no_false_alarm (W : World) (hW : W.Wf) (h : Hint) (x : Obj)
    (hwf : h.WfIn W) (hi : h.ignorable = false) (hx : x.wf W = true) (hs : sat W h x = true) :
    ∀ (conf : Conf) (r : Nat), ∃ env' n, eval W r (rootEnv x) (genRoot conf h) = some (.bool true, env', n) := by
  intro conf r
  obtain ⟨env', n, he⟩ := C01_compile W hW conf r h x hwf hi hx
  rw [C01_sat_imp_chk W hW conf r h x hs] at he
  exact ⟨env', n, he⟩

/-- an ignorable hint (object, Any, a union containing one) accepts everything: eliding
    it from the generated code never changes a verdict -/
theorem C01_ignorable_accepts (W : World) (conf : Conf) (r : Nat) (h : Hint) (x : Obj) (hi : h.ignorable = true) :
    chk W conf r h x = true :=
  chk_ignorable W conf r h x hi

/-- **The same, with every hypothesis decidable**: for a finite class table (the one the
    harness extracts from the running interpreter for each run) the side conditions are
    Boolean checks — `t.checkWf`, `h.capsOk t`, `x.wf` — which the driver evaluates for EVERY
    case of the behaviour tie and the harness requires to be true (evidence:
    `hypotheses_checked`). -/
theorem C01_no_false_alarm_table (t : Table) (pred : Nat → Obj → Bool) (h : Hint) (x : Obj)
    (hn : 4 ≤ t.rows.length) (hwf : t.checkWf = true) (hcaps : h.capsOk t = true) (hi : h.ignorable = false)
    (hx : x.wf (t.world pred) = true) (hs : sat (t.world pred) h x = true) :
    ∀ (conf : Conf) (r : Nat), ∃ env' n, eval (t.world pred) r (rootEnv x) (genRoot conf h) = some (.bool true, env', n) :=
  C01_no_false_alarm (t.world pred) (t.wf_of_check pred hn hwf) h x (Hint.wfIn_of_capsOk t pred h hcaps) hi hx hs

/-! ### non-vacuity: a concrete world, hint and object meeting every hypothesis -/

/-- classes: 0 type, 1 tuple, 2 Sequence, 3 Collection, 4 int, 5 str, 6 list -/
private def W0 : World :=
  { sub := fun c d => c == d || (c == 6 && (d == 2 || d == 3)) || (c == 1 && (d == 2 || d == 3)) || (c == 2 && d == 3),
    sized := fun c => c == 6 || c == 1 || c == 2 || c == 3,
    indexable := fun c => c == 6 || c == 1 || c == 2,
    reiter := fun c => c == 6 || c == 1 || c == 2 || c == 3,
    mapping := fun _ => false, pred := fun _ _ => true }

private def int_ (i : Int) : Obj := .mk 4 (.int i) [] [] []
private def str_ (s : String) : Obj := .mk 5 (.str s) [] [] []
private def list_ (xs : List Obj) : Obj := .mk 6 (.other 0) xs [] []

/-- `list[int | list[str]]` -/
private def h0 : Hint := .seq 6 (.union [.cls 4, .seq 6 (.cls 5)])
/-- `[1, ['a', 'b'], 2]` -/
private def x0 : Obj := list_ [int_ 1, list_ [str_ "a", str_ "b"], int_ 2]

example : sat W0 h0 x0 = true ∧ x0.wf W0 = true ∧ h0.ignorable = false := by decide +kernel
example : chk W0 {} 1 h0 x0 = true ∧ chk W0 {} 1 h0 (list_ [int_ 1, list_ [int_ 3], int_ 2]) = false := by decide +kernel

/-- **Recursive aliases (PEP 695).** The meaning of `type A = body[A]` is the union of its finite approximations
    `unroll a body ⊥ n` (the occurrence of `A` inside `body` is the leaf `.cls a`). beartype checks the `k`-fold
    unrolling whose innermost occurrence is ignorable. Whatever conforms to the alias — at ANY approximation depth
    `n`, smaller or larger than `k` — conforms to the hint that is actually checked: bounding the unrolling never
    produces a false alarm. -/
theorem C01_alias_unroll_sound (W : World) (a : Nat) (body : Hint) (k : Nat) (x : Obj)
    (hx : ∃ n, sat W (unroll a body Hint.bot n) x = true) : sat W (unroll a body .any k) x = true := by
  obtain ⟨n, hn⟩ := hx
  rcases Nat.le_total k n with hkn | hnk
  · obtain ⟨j, rfl⟩ := Nat.exists_eq_add_of_le hkn
    rw [unroll_add] at hn
    exact unroll_mono W a body _ _ (fun _ _ => by simp [sat]) k x hn
  · obtain ⟨j, rfl⟩ := Nat.exists_eq_add_of_le hnk
    rw [unroll_add]
    exact unroll_mono W a body _ _ (fun y hy => by simp [sat_bot] at hy) n x hn

/-- … hence the sampled check of the bounded unrolling accepts it, whichever items are drawn -/
theorem C01_alias_no_false_alarm (W : World) (hW : W.Wf) (conf : Conf) (r : Nat) (a : Nat) (body : Hint) (k : Nat) (x : Obj)
    (hx : ∃ n, sat W (unroll a body Hint.bot n) x = true) : chk W conf r (unroll a body .any k) x = true :=
  C01_sat_imp_chk W hW conf r _ x (C01_alias_unroll_sound W a body k x hx)

-- non-vacuity: `type R = int | list[R]` (a := 99): [[1]] conforms at approximation depth 3, and to the 2-unrolling
example : sat W0 (unroll 99 (.union [.cls 4, .seq 6 (.cls 99)]) Hint.bot 3) (list_ [list_ [int_ 1]]) = true ∧
    sat W0 (unroll 99 (.union [.cls 4, .seq 6 (.cls 99)]) .any 2) (list_ [list_ [int_ 1]]) = true := by decide +kernel

/-- **The code generator's placeholder mechanism equals the recursive composition** that `gen` (and every theorem
    above) is about. `make_check_expr` visits hints breadth-first; each visit produces the hint's snippet in which
    children are unique placeholders, enqueues the children and splices the snippet into the code generated so far
    (`str.replace`). For EVERY snippet tree — any branching, any depth — after at most `root.size` visits the queue is
    empty, no placeholder is left, and the text is the recursive in-place composition of the snippets. (Tied to
    /repo on every run by replaying the real snippets of each generated hint through `Bfs.run`/`Node.flat`.) -/
theorem C01_placeholder_mechanism (root : Bfs.Node) :
    (Bfs.run root.size (Bfs.init root)).queue = [] ∧
    Bfs.Code.holeFree (Bfs.run root.size (Bfs.init root)).code = true ∧
    Bfs.Code.text (Bfs.run root.size (Bfs.init root)).code = root.flat :=
  Bfs.bfs_eq_flat root

-- non-vacuity: a root with two children, the second of which has a child of its own
example : Bfs.Code.text (Bfs.run 4 (Bfs.init (.mk [.txt "a", .child (.mk [.txt "b"]), .txt "c",
    .child (.mk [.txt "d", .child (.mk [.txt "e"])])]))).code = ["a", "b", "c", "d", "e"] := by decide +kernel

end BearVerif.Bear
