import BearVerif.Props.C01
/-!
  C12 — validator algebra: generated code, `is_valid` and boolean meaning coincide.
  `Vale.holds` is the boolean meaning (& is and, | is or, ~ is not, IsAttr = the attribute
  exists and its value satisfies the inner validator); `Vale.code` the inline code with
  its `{obj}_isattr_{name}` temporaries; `Vale.isValid` the composed callables.
-/
namespace BearVerif.Bear

variable (W : World) (conf : Conf) (r : Nat)

/-- the composed `is_valid` callables of beartype/vale: each factory builds a lambda and
    the operators compose lambdas (`_valecorebinary.py`, `_valecoreunary.py`, `_valeisobj.py`) -/
def Vale.isValid : Vale → Obj → Bool
  | .isFn f, x => W.pred f x
  | .isAttr n v, x => (match x.attr? n with       -- `pith_attr is not SENTINEL and attr_validator.is_valid(pith_attr)`
    | none => false
    | some y => v.isValid y)
  | .isEqual a, x => x.atom.pyEq a
  | .isInstance cs, x => cs.any (W.sub x.cls)
  | .isSubclass cs, x => (match x.atom with       -- `is_type_subclass(pith, types)`
    | .klass d => W.sub x.cls cType && cs.any (W.sub d)
    | _ => false)
  | .and v w, x => v.isValid x && w.isValid x
  | .or v w, x => v.isValid x || w.isValid x
  | .not v, x => !v.isValid x

/-- **`is_valid` = boolean meaning**, for every validator expression and every object. -/
theorem C12_isValid (v : Vale) (x : Obj) : v.isValid W x = v.holds W x := by
  induction v generalizing x with
  | isFn f => rfl
  | isAttr n v ih => simp only [Vale.isValid, Vale.holds]; split <;> simp_all
  | isEqual a => rfl
  | isInstance cs => rfl
  | isSubclass cs => rfl
  | and v w ihv ihw => simp [Vale.isValid, Vale.holds, ihv, ihw]
  | or v w ihv ihw => simp [Vale.isValid, Vale.holds, ihv, ihw]
  | not v ih => simp [Vale.isValid, Vale.holds, ih]

/-- **Inline code = boolean meaning.** Given the object in an IDENTIFIER `t`, the code
    generated from a validator of any nesting evaluates to its boolean meaning, never
    raises, and only writes its own `t_isattr_…` temporaries. -/
theorem C12_code (v : Vale) (t : Var) (env : Env) (x : Obj) (hx : x.wf W = true) (ht : env t = some x) :
    ∃ env' n, eval W r env (v.code t) = some (.bool (v.holds W x), env', n) ∧ ∀ u, ¬ Below t u → env' u = env u :=
  vale_code_ok W r v t env x hx ht

/-- **Annotated[T, V1, …, Vn]** accepts exactly when the object passes T's check and
    every Vi holds — in every pith position (root variable, item expression, assignment
    handed down by a union), with ignorable and unignorable T alike. -/
theorem C12_annotated (hW : W.Wf) (h : Hint) (vs : List Vale) (p : Pith) (k : Nat) (env : Env) (x : Obj)
    (hwf : (Hint.annotated h vs).WfIn W) (hx : x.wf W = true) (hp : PithOK W r env p k x) :
    ∃ env' n, eval W r env (gen conf (.annotated h vs) p k) =
      some (.bool (chk W conf r h x && vs.all (fun v => v.holds W x)), env', n) := by
  obtain ⟨env', n, he, _⟩ := compile_correct W conf r hW (.annotated h vs) p k env x hwf (by simp [Hint.ignorable]) hx hp
  exact ⟨env', n, by simpa [chk] using he⟩

/-- the verdict each validator contributes to the violation message (`get_diagnosis`
    re-evaluates `is_valid`) is its boolean meaning -/
theorem C12_diagnosis (vs : List Vale) (x : Obj) :
    vs.map (fun v => v.isValid W x) = vs.map (fun v => v.holds W x) := by
  simp [C12_isValid]

/-! ### non-vacuity -/
private def W1 : World :=
  { sub := fun c d => c == d, sized := fun _ => false, indexable := fun _ => false, reiter := fun _ => false,
    mapping := fun _ => false, pred := fun _ x => match x.atom with | .int i => i > 0 | _ => false }
private def o1 : Obj := .mk 9 (.other 0) [] [] [("x", .mk 4 (.int 3) [] [] []), ("y", .mk 5 (.str "a") [] [] [])]
private def v1 : Vale := .and (.isAttr "x" (.and (.isFn 0) (.not (.isEqual (.int 2))))) (.or (.isAttr "z" (.isFn 0)) (.isInstance [9]))

example : v1.holds W1 o1 = true ∧ o1.wf W1 = true := by decide +kernel
example : ∃ env' n, eval W1 0 (fun u => if u = pv 0 then some o1 else none) (v1.code (pv 0)) = some (.bool true, env', n) := by
  obtain ⟨env', n, h, _⟩ := C12_code W1 0 v1 (pv 0) (fun u => if u = pv 0 then some o1 else none) o1 (by decide +kernel) (by simp)
  exact ⟨env', n, by simpa [show v1.holds W1 o1 = true by decide +kernel] using h⟩

end BearVerif.Bear
