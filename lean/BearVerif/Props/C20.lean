import BearVerif.Lemmas.Infer
import BearVerif.Extracted.Infer
import BearVerif.Props.C01
/-!
  C20 — an inferred hint always accepts the object it was inferred from.

  `infer` (Core/Infer.lean) is the model of `beartype.door.infer_hint`, tied to /repo on every
  run (harness/props/c20.py: real `infer_hint(obj)` == `infer` for generated objects; the tables
  it consults are re-extracted from the source into Extracted/Infer.lean). `sat` is the published
  meaning of a hint at full depth (Core/Bear.lean), `chk` the sampled check the generated code
  performs (C01).

  Status of the clauses of the property
  * round trip, every non-recursive object: proved (`C20_roundtrip`, `C20_roundtrip_accepted`)
    for the code WITH the repairs /verif/fixes/C20_*.patch (F-C20a `set` -> `AbstractSet` in the
    FSM, F-C20b Counter values); the pre-repair outputs are kept as `_legacy_…_counterexample`.
  * excluded from `Inferable`, because the code violates the clause there (known findings):
    classes for which the method-name FSM claims a protocol they are not a subclass of
    (`C20_abc_mismatch_counterexample_general`: then the inferred hint provably rejects), and
    self-referential containers (`C20_roundtrip_recursive_counterexample`).
  * recursion guard: the traversal of any finite heap finishes (`C20_recursive_terminates`) and a
    revisited address yields the placeholder and one warning (`C20_recursive_marker`).
-/
namespace BearVerif.Infer
open BearVerif.Bear

/-- **Round trip (published meaning).** For every object that is not itself a hint, of any
    nesting and mix of item types — scalars, None, classes, callables, empty and heterogeneous
    builtin containers, fixed and variadic tuples, views, mappings, Counters, user-defined
    collections described through a collections.abc protocol — the hint inferred under the
    default O(n) strategy, at any nesting depth `d`, is satisfied by the object at full depth.
    By induction on the object; the union over the (de-duplicated) item hints is where `sat` of
    every item is used. -/
theorem C20_roundtrip (W : World) (hW : W.Wf) (I : InferWorld) (hI : I.Wf W) (d : Nat) (x : Obj)
    (hx : Inferable W I x = true) : sat W (infer W I .On d x) x = true :=
  infer_roundtrip W I hW hI x d hx

/-- **Round trip (what `is_bearable` runs).** The sampled check accepts the object against its
    inferred hint for every sampler draw `r` and both sampling modes (by `C01_sat_imp_chk`). -/
theorem C20_roundtrip_accepted (W : World) (hW : W.Wf) (I : InferWorld) (hI : I.Wf W) (x : Obj)
    (hx : Inferable W I x = true) (conf : Conf) (r : Nat) :
    chk W conf r (infer W I .On 0 x) x = true :=
  C01_sat_imp_chk W hW conf r _ x (C20_roundtrip W hW I hI 0 x hx)

/-- **The exclusion is exact.** Whenever the dispatch reaches the collections.abc inferer and the
    protocol `o` the FSM stops at is not a superclass of the object's class, the inferred hint
    (either strategy, any depth) REJECTS the object: these shapes fail on the real code
    (duck-typed unregistered Sequence/Mapping/Set look-alikes; enumeration members). -/
theorem C20_abc_mismatch_counterexample_general (W : World) (I : InferWorld) (hI : I.Wf W) (strat : Strategy) (d c o : Nat)
    (a : Atom) (items vals : List Obj) (attrs : List (String × Obj))
    (hr : reachesAbc W I c = true) (ha : I.abc c = some o) (hsub : W.sub c o = false) :
    sat W (infer W I strat d (.mk c a items vals attrs)) (.mk c a items vals attrs) = false :=
  infer_abc_mismatch W I strat hI d c o a items vals attrs hr ha hsub

/-- **Unions are sets.** The meaning of the union `make_hint_pep484604_union` builds depends only
    on which hints are members: order and multiplicity (Python iterates a `set` of hints in an
    arbitrary order) do not matter — the harness compares unions as sets. -/
theorem C20_union_is_set (W : World) (hs hs' : List Hint) (x : Obj) (h : ∀ g, g ∈ hs ↔ g ∈ hs') :
    sat W (mkUnion hs) x = sat W (mkUnion hs') x := by
  rw [Bool.eq_iff_iff, sat_mkUnion, sat_mkUnion]
  constructor
  · rintro ⟨g, hg, hs⟩; exact ⟨g, (h g).mp hg, hs⟩
  · rintro ⟨g, hg, hs⟩; exact ⟨g, (h g).mpr hg, hs⟩

/-- de-duplicating the item hints (`set(hints)`) loses no member and adds none -/
theorem C20_dedup_members (hs : List Hint) (g : Hint) : g ∈ dedup hs ↔ g ∈ hs :=
  ⟨dedup_subset hs g, mem_dedup hs g⟩

/-- whatever protocol the FSM walk returns is the hint factory of a node of the machine (for
    every machine and every set of method names) -/
theorem C20_fsm_result_is_node (methods : List String) (fsm : FsmNode) (s : String)
    (h : fsmWalk methods fsm = some s) : s ∈ fsmFactories fsm :=
  fsmWalk_mem methods fsm s h

/-- **The recursion guard terminates.** On every finite heap (objects referring to each other by
    address, back-edges allowed) the traversal of `infer_hint`, which never descends into an
    address already on the current path, finishes within `|heap| + 1` nested calls — from every
    start address. -/
theorem C20_recursive_terminates (H : Heap) (cMarker : Nat) (a : Nat) :
    (unfoldGuard H cMarker (H.length + 1) [] a).isSome = true :=
  unfoldGuard_isSome H cMarker (H.length + 1) [] a (by rw [freeCount_nil]; omega)

/-- **… and emits the placeholder.** Reaching an address that is already on the path yields the
    recursion placeholder (no descent); inference maps it to the placeholder class and counts one
    warning — provided the placeholder class is an ordinary class. -/
theorem C20_recursive_marker (W : World) (I : InferWorld) (strat : Strategy) (H : Heap) (m fuel d : Nat) (seen : List Nat) (a : Nat)
    (hs : seen.contains a = true)
    (h1 : W.sub m cType = false) (h2 : W.sub m I.cCallable = false) (h3 : I.scalar m = false)
    (h4 : I.builtin m = none) (h5 : I.abc m = none) (h6 : (m == I.cObject) = false) :
    unfoldGuard H m (fuel + 1) seen a = some (markerObj m) ∧
    infer W I strat d (markerObj m) = .cls m ∧ warnCount W I strat m d (markerObj m) = 1 := by
  have hm : a ∈ seen := by simpa using hs
  refine ⟨by simp [unfoldGuard, hm], ?_, by simp [warnCount, markerObj]⟩
  simp [infer, markerObj, h1, h2, h3, h4, h5, h6]

/-! ### a concrete world: non-vacuity and the witnesses of the excluded / repaired shapes -/

/-- classes: 0 type, 1 tuple, 2 Sequence, 3 Collection, 4 int, 5 str, 6 list, 7 dict, 8 Mapping,
    9 Callable, 10 object, 11 BeartypeInferHintContainerRecursion, 12 Counter, 13 UserSeq(Sequence),
    14 DuckSeq (all Sequence methods, not registered), 15 dict_items, 16 collections.abc.Set,
    17 set, 18 function, 19 NoneType, 20 float -/
private def sub0 (c d : Nat) : Bool :=
  c == d || (d == 3 && (c == 1 || c == 2 || c == 5 || c == 6 || c == 7 || c == 8 || c == 12 || c == 13 || c == 14 ||
                        c == 15 || c == 16 || c == 17)) ||
  (d == 2 && (c == 1 || c == 5 || c == 6 || c == 13)) ||
  (d == 8 && (c == 7 || c == 12)) || (d == 7 && c == 12) || (d == 16 && (c == 15 || c == 17)) || (d == 9 && c == 18)

private def W0 : World :=
  { sub := sub0, sized := fun c => sub0 c 3, indexable := fun c => sub0 c 2, reiter := fun c => sub0 c 3,
    mapping := fun c => sub0 c 8, pred := fun _ _ => true }

private def I0 : InferWorld :=
  { cCallable := 9, cMapping := 8, cObject := 10, cInt := 4, tupleMax := 10,
    scalar := fun c => c == 4 || c == 5 || c == 20,
    builtin := fun c => if c == 6 || c == 1 || c == 7 || c == 12 || c == 17 then some c else none,
    abc := fun c => if c == 13 || c == 14 then some 2 else if c == 15 then some 16 else none,
    logic := fun o => if o == 6 || o == 2 then .seq else if o == 1 then .tupleVar else if o == 7 || o == 8 then .mapping
                      else if o == 12 then .counter else if o == 16 || o == 17 || o == 3 then .reit else .shallow }

private theorem W0_wf : W0.Wf where
  seq_cap := by intro c h; simp only [W0, sub0, cSequence, cCollection] at h ⊢; revert h; simp; omega
  coll_cap := by intro c h; exact ⟨h, h⟩
  tuple_cap := by intro c h; simp only [W0, sub0, cTuple, cSequence, cCollection] at h ⊢; revert h; simp; omega
  sub_refl := by intro c; simp [W0, sub0]

private theorem I0_wf : I0.Wf W0 where
  builtin_sub := by
    intro c o h
    simp only [I0] at h
    split at h <;> simp at h
    subst h; simp [W0, sub0]
  tuple_only := by
    intro o h
    simp only [I0] at h
    by_cases h1 : (o == 6 || o == 2) = true
    · simp [h1] at h
    · by_cases h2 : (o == 1) = true
      · simpa [cTuple] using h2
      · by_cases h3 : (o == 7 || o == 8) = true
        · simp [h1, h2, h3] at h
        · by_cases h4 : (o == 12) = true
          · simp [h1, h2, h3, h4] at h
          · by_cases h5 : (o == 16 || o == 17 || o == 3) = true <;> simp [h1, h2, h3, h4, h5] at h

private def int_ (i : Int) : Obj := .mk 4 (.int i) [] [] []
private def str_ (s : String) : Obj := .mk 5 (.str s) [] [] []
private def float_ : Obj := .mk 20 (.other 0) [] [] []
private def list_ (xs : List Obj) : Obj := .mk 6 (.other 0) xs [] []
private def tuple_ (xs : List Obj) : Obj := .mk 1 (.other 0) xs [] []
private def dict_ (ks vs : List Obj) : Obj := .mk 7 (.other 0) ks vs []
private def counter_ (ks vs : List Obj) : Obj := .mk 12 (.other 0) ks vs []
private def userSeq_ (xs : List Obj) : Obj := .mk 13 (.other 0) xs [] []
private def duckSeq_ (xs : List Obj) : Obj := .mk 14 (.other 0) xs [] []
private def dictItems_ (xs : List Obj) : Obj := .mk 15 (.other 0) xs [] []
private def fn_ : Obj := .mk 18 (.other 0) [] [] []
private def intClass_ : Obj := .mk 0 (.klass 4) [] [] []

/-- `(1, 'a', [1, 'a', [], (1, 'a')], {1: [2], 'k': fn}, UserSeq([1]), int, {(1, 2)}.items()-like view, Counter(a=1))` -/
private def x0 : Obj := tuple_ [int_ 1, str_ "a", list_ [int_ 1, str_ "a", list_ [], tuple_ [int_ 1, str_ "a"]],
  dict_ [int_ 1, str_ "k"] [list_ [int_ 2], fn_], userSeq_ [int_ 1], intClass_, dictItems_ [tuple_ [int_ 1, int_ 2]],
  counter_ [str_ "a"] [int_ 1]]

/-- non-vacuity: the hypotheses of `C20_roundtrip` hold for a nested heterogeneous object, and the
    inferred hint is (`hintEq`, proved to be equality in Lemmas/Infer.lean) the expected one:
    `tuple[int, str, list[int | str | list | tuple[int | str, ...]], dict[int | str, list[int] | Callable],
           Annotated[Sequence[int], IsInstance[UserSeq]], type[int],
           Annotated[Set[tuple[int, ...]], IsInstance[dict_items]], Counter[str]]` -/
example : Inferable W0 I0 x0 = true ∧
    hintEq (infer W0 I0 .On 0 x0) (.tupleFixed [.cls 4, .cls 5,
      .seq 6 (.union [.cls 4, .cls 5, .cls 6, .seq 1 (.union [.cls 4, .cls 5])]),
      .mapping 7 (.union [.cls 4, .cls 5]) (.union [.seq 6 (.cls 4), .shallow 9]),
      .annotated (.seq 2 (.cls 4)) [.isInstance [13]], .typeOf [4],
      .annotated (.reit 16 (.seq 1 (.cls 4))) [.isInstance [15]], .mapping 12 (.cls 5) (.cls 4)]) = true ∧
    sat W0 (infer W0 I0 .On 0 x0) x0 = true := by decide +kernel
example : W0.Wf ∧ I0.Wf W0 := ⟨W0_wf, I0_wf⟩
example : ∀ r, chk W0 {} r (infer W0 I0 .On 0 x0) x0 = true :=
  fun r => C20_roundtrip_accepted W0 W0_wf I0 I0_wf x0 (by decide +kernel) {} r

/-- the extracted machine: a class defining exactly the `Sequence` methods stops at
    `collections.abc.Sequence`; a generator at `collections.abc.Generator`; no method, no protocol -/
example : fsmWalk ["__contains__", "__iter__", "__len__", "__getitem__", "__reversed__", "count", "index"]
    Extracted.inferFsm = some "collections.abc.Sequence" ∧
    fsmWalk ["__iter__", "__next__", "close", "send", "throw"] Extracted.inferFsm = some "collections.abc.Generator" ∧
    fsmWalk [] Extracted.inferFsm = none := by decide +kernel

/-- **F-C20e witness** (known finding): `DuckSeq([1])` defines every `Sequence` method but is not
    registered; the FSM says `Sequence`, the inferred `Annotated[Sequence[int], IsInstance[DuckSeq]]`
    rejects the object — it is not `Inferable` -/
theorem C20_abc_mismatch_counterexample :
    Inferable W0 I0 (duckSeq_ [int_ 1]) = false ∧
    hintEq (infer W0 I0 .On 0 (duckSeq_ [int_ 1])) (.annotated (.seq 2 (.cls 4)) [.isInstance [14]]) = true ∧
    sat W0 (infer W0 I0 .On 0 (duckSeq_ [int_ 1])) (duckSeq_ [int_ 1]) = false := by decide +kernel

/-- **F-C20a witness** (repaired by /verif/fixes/C20_abc_set_factory.patch): the hint the unrepaired
    code infers for `{1: 2}.items()` — `Annotated[set[tuple[int, ...]], IsInstance[dict_items]]`,
    with the BUILTIN `set` where the abstract `Set` was meant — rejects the view -/
theorem C20_legacy_dict_items_counterexample :
    sat W0 (.annotated (.reit 17 (.seq 1 (.cls 4))) [.isInstance [15]]) (dictItems_ [tuple_ [int_ 1, int_ 2]]) = false ∧
    sat W0 (infer W0 I0 .On 0 (dictItems_ [tuple_ [int_ 1, int_ 2]])) (dictItems_ [tuple_ [int_ 1, int_ 2]]) = true := by
  decide +kernel

/-- **F-C20b witness** (repaired by /verif/fixes/C20_counter_value_hint.patch): the unrepaired code
    infers `Counter[str]` for `Counter({'a': 1.5})`, which (values are checked as `int`) rejects
    it; the repaired code infers the unsubscripted `Counter` -/
theorem C20_legacy_counter_counterexample :
    sat W0 (.mapping 12 (.cls 5) (.cls 4)) (counter_ [str_ "a"] [float_]) = false ∧
    hintEq (infer W0 I0 .On 0 (counter_ [str_ "a"] [float_])) (.cls 12) = true ∧
    sat W0 (infer W0 I0 .On 0 (counter_ [str_ "a"] [float_])) (counter_ [str_ "a"] [float_]) = true := by
  decide +kernel

/-- heap `l = [1]; l.append(l)`: address 0 is the list, 1 the int -/
private def H0 : Heap := [⟨6, .other 0, [1, 0], []⟩, ⟨4, .int 1, [], []⟩]

/-- **F-C20c witness** (known finding): for the self-referential list `l = [1, l]` inference
    terminates, warns once and returns `list[int | BeartypeInferHintContainerRecursion]`; the list
    itself (its second item is a list, not an instance of the placeholder class) does not satisfy it -/
theorem C20_roundtrip_recursive_counterexample :
    ((unfoldGuard H0 11 (H0.length + 1) [] 0).map (fun t => hintEq (infer W0 I0 .On 0 t) (.seq 6 (.union [.cls 4, .cls 11])))) = some true ∧
    (unfoldGuard H0 11 (H0.length + 1) [] 0).map (warnCount W0 I0 .On 11 0) = some 1 ∧
    mentions 11 (.seq 6 (.union [.cls 4, .cls 11])) = true ∧
    sat W0 (.seq 6 (.union [.cls 4, .cls 11])) (unfoldN H0 3 0) = false := by decide +kernel

end BearVerif.Infer
