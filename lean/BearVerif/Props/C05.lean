import BearVerif.Lemmas.ClawAst
/-!
  C05 — property theorems (statements only use definitions of `Core/ClawAst.lean`).

  `xform` mirrors `BeartypeNodeTransformer` (scope stack, index loops, beforelist); `byHand` restates the
  property ("@beartype on every annotated function and every class, die_if_unbearable after every annotated
  assignment that has a value outside class bodies, one import after the docstring and `__future__` imports").
  All theorems quantify over ALL modules (any nesting of functions, classes, compound statements, decorator
  stacks, assignment targets), all four configuration options and every beforelist schema.

  Not theorems (CPython is not modelled): "the transformed module compiles" and run-time equivalence — these
  are the behavioural tie of `harness/props/c05.py`.
-/
namespace BearVerif.ClawAst

/-- **Only additions.** Removing the three kinds of node the hook can add (the import, `@beartype`
    decorators, `die_if_unbearable` calls) from the transformed module gives what the same removal gives on
    the input: nothing original is dropped, reordered, rewritten or relocated (line numbers are part of
    every statement and expression of the mini-AST). -/
theorem C05_erase (c : ClawConf) (m : Module) : eraseBody (xform c m) = eraseBody m := by
  unfold xform
  rw [erase_xBody, addImport_eq_spec, eraseBody_addImportSpec]

/-- … and for an original module (none of the added node kinds occurs in it) that is the module itself:
    `erase (xform c m) = m`. -/
theorem C05_erase_original (c : ClawConf) (m : Module) (h : cleanBody m = true) : eraseBody (xform c m) = m := by
  rw [C05_erase, erase_clean_body m h]

/-- The clause "the hooked module equals the hand-decorated one", at full strength. -/
def EqByHandStatement : Prop := ∀ (c : ClawConf) (m : Module), cleanBody m = true → xform c m = byHand c m

/-- **Equals writing the checks by hand** — on modules without annotated assignments to subscript
    targets: the scope stack decides exactly "outside class bodies / not a method", the index loops place
    the import and the decorators exactly where the declarative rule does. -/
theorem C05_eq_byHand_partial (c : ClawConf) (m : Module) (h : noSubBody m = true) : xform c m = byHand c m := by
  unfold xform byHand
  rw [addImport_eq_spec]
  exact x_eq_h_body c [.module] false [] _ rfl (by rw [noSubBody_addImportSpec]; exact h)

def confAll : ClawConf :=
  { pep526 := true, placeFunc := .lastBeforeHostile, placeType := .last, isDefault := false, schema := [] }

/-- `d[k]: int = v` at module level: an annotated assignment that has a value, outside any class body. -/
def subModule : Module := [.annAssign 1 (.sub ⟨1, true, 1⟩ ⟨2, true, 1⟩) ⟨3, true, 1⟩ [] (some ⟨4, true, 1⟩)]

/-- The full clause is FALSE on the code (F-C05b): the hook never checks `d[k]: int = v`, the statement's
    rule ("every annotated assignment that has a value outside class bodies") does. -/
theorem C05_eq_byHand_counterexample : ¬ EqByHandStatement := by
  intro h
  have h1 := congrArg checksTop (h confAll subModule (by decide))
  have h2 : checksTop (xform confAll subModule) = 0 := by decide
  have h3 : checksTop (byHand confAll subModule) = 1 := by decide
  omega

/-- **Position of the import.** When the module consists of docstring / `__future__` statements only,
    nothing is added at all. Otherwise the output is `prefix ++ import :: s' :: …` where `prefix` is the
    unchanged leading run of docstring / `__future__` statements, `s'` is the (transformed) first other
    statement — neither a prefix statement nor an added one — the import carries the line of `s'`, and it is
    the only added import at any depth. -/
theorem C05_import_pos (c : ClawConf) (m : Module) (h : cleanBody m = true) :
    (m.dropWhile Stmt.isPrefix = [] → xform c m = m) ∧
    (m.dropWhile Stmt.isPrefix ≠ [] → ∃ s' tl,
      xform c m = m.takeWhile Stmt.isPrefix ++ .btImport s'.line :: s' :: tl ∧
      (∀ p ∈ m.takeWhile Stmt.isPrefix, p.isPrefix = true) ∧
      s'.isPrefix = false ∧ s'.isAdded = false ∧ importsBody (xform c m) = 1) := by
  have hsh := xform_shape c m
  refine ⟨hsh.1, ?_⟩
  intro hne
  cases hd : m.dropWhile Stmt.isPrefix with
  | nil => exact absurd hd hne
  | cons s rest =>
    have hx := hsh.2 s rest hd
    have hcl : cleanBody (m.takeWhile Stmt.isPrefix) = true ∧ cleanBody (s :: rest) = true := by
      have := h
      rw [split_prefix m, cleanBody_append, hd, Bool.and_eq_true] at this
      exact this
    have hs : cleanStmt s = true := by
      have := hcl.2
      simp only [cleanBody, Bool.and_eq_true] at this
      exact this.1
    have hnp : s.isPrefix = false := by
      cases hp : s.isPrefix with
      | false => rfl
      | true =>
        have hhead : (m.dropWhile Stmt.isPrefix).head? = some s := by rw [hd]; rfl
        have := List.head?_dropWhile_not Stmt.isPrefix m
        rw [hhead] at this
        simp [hp] at this
    obtain ⟨s', tl0, hxs, hline, hadd, hpre⟩ := xStmt_head c [.module] [] s (erase_clean_stmt s hs).2
    refine ⟨s', tl0 ++ xBody c [.module] (envStmt c [] s) rest, ?_, ?_, ?_, hadd, ?_⟩
    · rw [hx, xBody, hxs, hline]; rfl
    · exact fun p hp => mem_takeWhile_pred _ _ p hp
    · rw [hpre]; exact hnp
    · rw [hx, importsBody_append]
      have h1 : importsBody (m.takeWhile Stmt.isPrefix) = 0 := imports_clean_body _ hcl.1
      have h2 : importsBody (xBody c [.module] [] (s :: rest)) = 0 := by
        rw [imports_xBody]; exact imports_clean_body _ hcl.2
      simp [importsBody, importsStmt, h1, h2]

/-- **Locations.** In the transformed module every added decorator carries the line of the `def`/`class`
    it decorates, every added check stands right after an annotated assignment with a value, re-reads exactly
    that assignment's target and annotation and carries its line, and the added import carries the line of
    the (non-added) statement right after it. Together with `C05_erase` (original nodes keep their lines)
    this is "keeps every original line number". -/
theorem C05_lines (c : ClawConf) (m : Module) (h : cleanBody m = true) : linesFrom none (xform c m) = true := by
  have hsh := xform_shape c m
  cases hd : m.dropWhile Stmt.isPrefix with
  | nil =>
    rw [hsh.1 hd]
    have hm : m = m.takeWhile Stmt.isPrefix ++ [] := by
      have := split_prefix m; rw [hd] at this; exact this
    rw [hm]
    exact linesFrom_prefix_append _ [] none (fun p hp => mem_takeWhile_pred _ _ p hp) (fun _ => by simp [linesFrom])
  | cons s rest =>
    rw [hsh.2 s rest hd]
    have hcl : cleanBody (s :: rest) = true := by
      have := h
      rw [split_prefix m, cleanBody_append, hd, Bool.and_eq_true] at this
      exact this.2
    have hs : cleanStmt s = true := by
      simp only [cleanBody, Bool.and_eq_true] at hcl
      exact hcl.1
    apply linesFrom_prefix_append _ _ none (fun p hp => mem_takeWhile_pred _ _ p hp)
    intro p
    obtain ⟨s', tl0, hxs, hline, hadd, _⟩ := xStmt_head c [.module] [] s (erase_clean_stmt s hs).2
    have hall := lines_xBody c [.module] [] (s :: rest) (some (.btImport s.line)) hcl
    have hhead : headLineIs (xBody c [.module] [] (s :: rest)) s.line = true := by
      rw [xBody, hxs]
      simp [headLineIs, hadd, hline]
    simp only [linesFrom, hhead, hall, Bool.and_self]

/-- **No double decoration.** In the transformed module every class carries exactly one added decorator;
    a function whose nearest enclosing def/class is a class (a method — also under `if`/`try`/… in the class
    body) carries none; every other annotated function — including functions nested inside methods — carries
    exactly one; unannotated functions carry none. -/
theorem C05_no_double (c : ClawConf) (m : Module) (h : cleanBody m = true) : decoBody false (xform c m) = true := by
  have hsh := xform_shape c m
  have hp : ∀ p ∈ m.takeWhile Stmt.isPrefix, p.isPrefix = true := fun p hp => mem_takeWhile_pred _ _ p hp
  cases hd : m.dropWhile Stmt.isPrefix with
  | nil =>
    rw [hsh.1 hd]
    have hm : m = m.takeWhile Stmt.isPrefix := by
      have := split_prefix m; rw [hd, List.append_nil] at this; exact this
    rw [hm]; exact decoBody_prefix false _ hp
  | cons s rest =>
    rw [hsh.2 s rest hd]
    have hcl : cleanBody (s :: rest) = true := by
      have := h
      rw [split_prefix m, cleanBody_append, hd, Bool.and_eq_true] at this
      exact this.2
    have := deco_xBody c [.module] false [] (s :: rest) rfl hcl
    have hcons : ∀ l, decoBody false (Stmt.btImport s.line :: l) = decoBody false l := by
      intro l; simp [decoBody, decoStmt]
    rw [decoBody_append, decoBody_prefix false _ hp, hcons, this]; rfl

/-- The clause "evaluates each original expression exactly once", at full strength: every expression
    occurs in evaluated positions of the output exactly as often as in the input. -/
def OnceStatement : Prop :=
  ∀ (c : ClawConf) (m : Module), cleanBody m = true → ∀ e : E, (occBody (xform c m)).count e = (occBody m).count e

/-- **Each side-effecting expression exactly once** — provided the annotated assignments' annotations and
    attribute-target object expressions are free of side effects (those are re-read by the added check; every
    other original expression is never duplicated, whatever its purity). -/
theorem C05_once_partial (c : ClawConf) (m : Module) (h : pureBody m = true) (e : E) (he : e.pure = false) :
    (occBody (xform c m)).count e = (occBody m).count e := by
  unfold xform
  rw [addImport_eq_spec, once_xBody c e he [.module] [] _ (by rw [pureBody_addImportSpec]; exact h),
    occBody_addImportSpec]

/-- `get().attr: int = 5` at module level (expression 1 = `get()`, impure). -/
def attrModule : Module := [.annAssign 1 (.attr ⟨1, false, 1⟩ "attr") ⟨2, true, 1⟩ [] (some ⟨3, true, 1⟩)]

/-- The full clause is FALSE on the code (F-C05a): the added check re-reads `get().attr`, so `get()` occurs
    twice in evaluated positions of the output. -/
theorem C05_once_counterexample : ¬ OnceStatement := by
  intro h
  have h1 := h confAll attrModule (by decide) ⟨1, false, 1⟩
  have h2 : (occBody (xform confAll attrModule)).count ⟨1, false, 1⟩ = 2 := by decide
  have h3 : (occBody attrModule).count ⟨1, false, 1⟩ = 1 := by decide
  omega

/-! ### non-vacuity: the hypotheses hold on concrete, non-trivial modules and the transformation acts -/

/-- docstring; `from __future__ …`; `class K:` with a typed method `m` containing a typed nested function
    `inner` and `x: int = v`; a class-level `y: int = v`; a typed method under `if`; then an untyped and a
    typed module-level function with an existing decorator -/
def demo : Module :=
  [ .docExpr 1, .futureImport 2,
    .classDef 3 "K" [] [] [
      .funcDef 4 false "m" [] true [] [
        .funcDef 5 false "inner" [] true [] [.simple 6 []],
        .annAssign 7 (.name "x") ⟨1, true, 7⟩ [] (some ⟨2, false, 7⟩)],
      .annAssign 8 (.name "y") ⟨3, true, 8⟩ [] (some ⟨4, false, 8⟩),
      .compound 9 "if" [⟨5, false, 9⟩] [[.funcDef 10 true "am" [] true [] [.simple 11 []]], []]],
    .funcDef 12 false "g" [] false [] [.simple 13 []],
    .funcDef 15 false "f" [.orig ⟨6, true, 14⟩ ["deco"]] true [] [.simple 16 []] ]

example : cleanBody demo = true ∧ noSubBody demo = true ∧ pureBody demo = true := by decide

example : xform confAll demo =
  [ .docExpr 1, .futureImport 2, .btImport 3,
    .classDef 3 "K" [.bt 3 true] [] [
      .funcDef 4 false "m" [] true [] [
        .funcDef 5 false "inner" [.bt 5 true] true [] [.simple 6 []],
        .annAssign 7 (.name "x") ⟨1, true, 7⟩ [] (some ⟨2, false, 7⟩),
        .dieIf 7 (.name "x") ⟨1, true, 7⟩ true],
      .annAssign 8 (.name "y") ⟨3, true, 8⟩ [] (some ⟨4, false, 8⟩),
      .compound 9 "if" [⟨5, false, 9⟩] [[.funcDef 10 true "am" [] true [] [.simple 11 []]], []]],
    .funcDef 12 false "g" [] false [] [.simple 13 []],
    .funcDef 15 false "f" [.bt 15 true, .orig ⟨6, true, 14⟩ ["deco"]] true [] [.simple 16 []] ] := by rfl

example : importsBody (xform confAll demo) = 1 ∧ decoBody false (xform confAll demo) = true ∧
    linesFrom none (xform confAll demo) = true := by decide

/-- the checkers are not constantly true: a doubly decorated method, a misplaced line, are rejected -/
example : decoBody false [.classDef 1 "K" [.bt 1 true] [] [.funcDef 2 false "m" [.bt 2 true] true [] []]] = false := by decide
example : linesFrom none [.annAssign 1 (.name "x") ⟨1, true, 1⟩ [] (some ⟨2, true, 1⟩),
    .dieIf 2 (.name "x") ⟨1, true, 1⟩ true] = false := by decide
example : linesFrom none [.docExpr 1, .btImport 1, .simple 2 []] = false := by decide

end BearVerif.ClawAst
