import BearVerif.Props.C01
/-!
  C02 — guaranteed detection. All statements are about the sampled check `chk`;
  `C01_compile` transports each of them to the generated code (`eval (gen …) = chk …`).
-/
namespace BearVerif.Bear

variable (W : World) (conf : Conf) (r : Nat)

/-- the test that involves no sampling at the top of each hint: the origin class(es) -/
def topInst : Hint → Obj → Bool
  | .any, _ => true
  | .cls c, x | .shallow c, x => W.sub x.cls c
  | .union _, _ => true
  | .literal ls, x => ls.any (fun l => W.sub x.cls l.1)
  | .tupleFixed _, x => W.sub x.cls cTuple
  | .seq o _, x | .reit o _, x | .quasi o _, x | .mapping o _ _, x => W.sub x.cls o
  | .typeOf _, x => W.sub x.cls cType
  | .annotated h _, x => topInst h x
  | .generic c _, x => W.sub x.cls c

/-- **Top-level class.** An object that is not an instance of the hint's origin class is
    rejected on every call, whatever the sampler draws. -/
theorem C02_top : ∀ (h : Hint) (x : Obj), topInst W h x = false → chk W conf r h x = false
  | .any, _, ht => by simp [topInst] at ht
  | .union hs, _, ht => by simp [topInst] at ht
  | .cls c, x, ht | .shallow c, x, ht => by simpa [chk, topInst] using ht
  | .literal ls, x, ht => by simp only [topInst] at ht; simp [chk, ht]
  | .tupleFixed hs, x, ht => by simp only [topInst] at ht; simp [chk, ht]
  | .seq o h, x, ht | .reit o h, x, ht | .quasi o h, x, ht => by simp only [topInst] at ht; simp [chk, ht]
  | .mapping o k v, x, ht => by simp only [topInst] at ht; simp [chk, ht]
  | .typeOf cs, x, ht => by simp only [topInst] at ht; simp [chk, typeOfTest, ht]
  | .annotated h vs, x, ht => by simp only [topInst] at ht; simp [chk, C02_top h x ht]
  | .generic c bs, x, ht => by simp only [topInst] at ht; simp [chk, ht]

/-- **Fixed tuples: length.** A tuple of the wrong length is rejected for every draw. -/
theorem C02_tuple_len (hs : List Hint) (x : Obj) (hl : x.items.length ≠ hs.length) :
    chk W conf r (.tupleFixed hs) x = false := by
  have : (x.items.length == hs.length) = false := by simpa using hl
  simp [chk, this]

theorem chkZip_pos : ∀ (hs : List Hint) (ys : List Obj) (i : Nat) (h : Hint) (y : Obj),
    chkZip W conf r hs ys = true → hs[i]? = some h → ys[i]? = some y → chk W conf r h y = true
  | [], _, _, _, _, _, hh, _ => by simp at hh
  | _ :: _, [], _, _, _, _, _, hy => by simp at hy
  | h0 :: hs, y0 :: ys, 0, h, y, hc, hh, hy => by
    simp only [chkZip, Bool.and_eq_true] at hc
    simp at hh hy; subst hh hy; exact hc.1
  | h0 :: hs, y0 :: ys, i + 1, h, y, hc, hh, hy => by
    simp only [chkZip, Bool.and_eq_true] at hc
    exact chkZip_pos hs ys i h y hc.2 (by simpa using hh) (by simpa using hy)

/-- **Fixed tuples: every position.** An accepted tuple has EVERY position accepted by
    its own child hint (no position is sampled away): a violation at any position —
    detectable by the child's own check — rejects the tuple for every draw. -/
theorem C02_tuple_pos (hs : List Hint) (x : Obj) (i : Nat) (h : Hint) (y : Obj)
    (hh : hs[i]? = some h) (hy : x.items[i]? = some y) (hbad : chk W conf r h y = false) :
    chk W conf r (.tupleFixed hs) x = false := by
  cases hc : chk W conf r (.tupleFixed hs) x with
  | false => rfl
  | true =>
    simp only [chk, Bool.and_eq_true] at hc
    have := chkZip_pos W conf r hs x.items i h y hc.2.2 hh hy
    rw [hbad] at this; cases this

/-- **Literals.** A value equal to none of the members, or an instance of none of their
    types, is rejected for every draw. -/
theorem C02_literal (ls : List (Nat × Atom)) (x : Obj)
    (hbad : (∀ l ∈ ls, x.atom.pyEq l.2 = false) ∨ (∀ l ∈ ls, W.sub x.cls l.1 = false)) :
    chk W conf r (.literal ls) x = false := by
  simp only [chk, Bool.and_eq_false_iff, List.any_eq_false]
  rcases hbad with h | h
  · exact Or.inr (fun l hl => by simp [h l hl])
  · exact Or.inl (fun l hl => by simp [h l hl])

/-- **type[...].** A non-class, or a class that is no subclass of the bound, is rejected. -/
theorem C02_typeOf (cs : List Nat) (x : Obj)
    (hbad : ∀ d, x.atom = .klass d → cs.any (W.sub d) = false) : chk W conf r (.typeOf cs) x = false := by
  simp only [chk, typeOfTest]
  cases ha : x.atom with
  | klass d => simp [hbad d ha]
  | none | bool _ | int _ | str _ | other _ => simp

theorem chkAny_false : ∀ (hs : List Hint) (x : Obj), (∀ h ∈ hs, chk W conf r h x = false) → chkAny W conf r hs x = false
  | [], _, _ => rfl
  | h :: hs, x, hall => by
    simp only [chkAny, Bool.or_eq_false_iff]
    exact ⟨hall h List.mem_cons_self, chkAny_false hs x (fun h' hh => hall h' (List.mem_cons_of_mem _ hh))⟩

/-- **Unions.** An object matching no member is rejected. -/
theorem C02_union_none (hs : List Hint) (x : Obj) (hbad : ∀ h ∈ hs, chk W conf r h x = false) :
    chk W conf r (.union hs) x = false := by
  simp only [chk]; exact chkAny_false W conf r hs x hbad

/-- **Validators.** One failed validator rejects, whatever the metahint and the draw. -/
theorem C02_validator (h : Hint) (vs : List Vale) (x : Obj) (v : Vale) (hv : v ∈ vs) (hbad : v.holds W x = false) :
    chk W conf r (.annotated h vs) x = false := by
  simp only [chk, Bool.and_eq_false_iff]
  right
  apply List.all_eq_false.mpr
  exact ⟨v, hv, by simp [hbad]⟩

/-- **Every item bad ⇒ always rejected** (sequences; `all items` includes the sampled one). -/
theorem C02_all_items_bad_seq (o : Nat) (h : Hint) (x : Obj) (hne : x.items ≠ [])
    (hbad : ∀ y ∈ x.items, chk W conf r h y = false) : chk W conf r (.seq o h) x = false := by
  simp only [chk, Bool.and_eq_false_iff]
  right
  have hlt := pickIdx_lt conf r (n := x.items.length) (by cases hx : x.items <;> simp_all)
  have : x.items[pickIdx conf r x.items.length]? = some (x.items[pickIdx conf r x.items.length]) := by simp [hlt]
  rw [this]
  exact hbad _ (List.getElem_mem hlt)

/-- … sets, frozensets, views, deques, collections -/
theorem C02_all_items_bad_reit (o : Nat) (h : Hint) (x : Obj) (hne : x.items ≠ [])
    (hbad : ∀ y ∈ x.items, chk W conf r h y = false) : chk W conf r (.reit o h) x = false := by
  simp only [chk, Bool.and_eq_false_iff]
  right
  cases hx : x.items with
  | nil => exact absurd hx hne
  | cons y ys => simpa using hbad y (by simp [hx])

/-- … mappings: every key bad, or every value bad -/
theorem C02_all_items_bad_mapping (o : Nat) (k v : Hint) (x : Obj) (hne : x.items ≠ [])
    (hbad : (∀ y ∈ x.items, chk W conf r k y = false) ∨ (∀ y ∈ x.vals, chk W conf r v y = false)) :
    chk W conf r (.mapping o k v) x = false := by
  simp only [chk, Bool.and_eq_false_iff]
  right
  cases hx : x.items with
  | nil => exact absurd hx hne
  | cons k0 ks =>
    simp only [List.head?_cons, Bool.and_eq_false_iff]
    rcases hbad with hk | hv
    · exact Or.inl (hk k0 (by simp [hx]))
    · right
      cases hxv : x.vals with
      | nil => rfl
      | cons v0 vs => simpa using hv v0 (by simp [hxv])

/-- **Every index of a sequence is reachable by a 32-bit draw**: if only item `i` is bad
    (its own check fails for every draw), the draw `r = i` rejects the sequence. -/
theorem C02_reachable (o : Nat) (h : Hint) (x : Obj) (i : Nat) (y : Obj) (hy : x.items[i]? = some y)
    (h32 : x.items.length ≤ 2 ^ 32) (hbad : ∀ r', chk W { isRandom := true } r' h y = false) :
    ∃ r', r' < 2 ^ 32 ∧ chk W { isRandom := true } r' (.seq o h) x = false := by
  have hi : i < x.items.length := by
    cases hlt : decide (i < x.items.length) with
    | true => simpa using hlt
    | false =>
      have : x.items.length ≤ i := by simpa using hlt
      rw [List.getElem?_eq_none this] at hy; cases hy
  refine ⟨i, Nat.lt_of_lt_of_le hi h32, ?_⟩
  simp only [chk, pickIdx, ↓reduceIte, Nat.mod_eq_of_lt hi, hy, hbad i, Bool.and_false]

/-- with `is_random=False` the inspected item is item 0, whatever the draw -/
theorem C02_nonrandom (o : Nat) (h : Hint) (x : Obj) (y : Obj) (hy : x.items[0]? = some y) :
    chk W { isRandom := false } r (.seq o h) x = (W.sub x.cls o && chk W { isRandom := false } r h y) := by
  simp [chk, pickIdx, hy]

mutual
/-- an accepted object has, at each container level the hint describes, emptiness or at
    least one item consistent with the child hint -/
def consistent : Hint → Obj → Bool
  | .any, _ => true
  | .cls c, x | .shallow c, x => W.sub x.cls c
  | .union hs, x => consistentAny hs x
  | .literal ls, x => ls.any (fun l => W.sub x.cls l.1) && ls.any (fun l => x.atom.pyEq l.2)
  | .tupleFixed hs, x => W.sub x.cls cTuple && (x.items.length == hs.length && consistentZip hs x.items)
  | .seq o h, x | .reit o h, x => W.sub x.cls o && (x.items.isEmpty || x.items.any (fun y => consistent h y))
  | .quasi o h, x => W.sub x.cls o && (!W.sub x.cls cCollection || x.items.isEmpty || x.items.any (fun y => consistent h y))
  | .mapping o k v, x => W.sub x.cls o &&
      (x.items.isEmpty || (x.items.any (fun y => consistent k y) && x.vals.any (fun y => consistent v y)))
  | .typeOf cs, x => typeOfTest W cs x
  | .annotated h vs, x => consistent h x && vs.all (fun v => v.holds W x)
  | .generic c bs, x => W.sub x.cls c && consistentEvery bs x
def consistentAny : List Hint → Obj → Bool
  | [], _ => false
  | h :: hs, x => consistent h x || consistentAny hs x
def consistentZip : List Hint → List Obj → Bool
  | h :: hs, y :: ys => consistent h y && consistentZip hs ys
  | _, _ => true
def consistentEvery : List Hint → Obj → Bool
  | [], _ => true
  | h :: hs, x => consistent h x && consistentEvery hs x
end

mutual
/-- **Accepted ⇒ consistent sampled path.** -/
theorem C02_accept_consistent : ∀ (h : Hint) (x : Obj), chk W conf r h x = true → consistent W h x = true
  | .any, _, _ => by simp [consistent]
  | .cls c, x, hc | .shallow c, x, hc => by simpa [chk, consistent] using hc
  | .union hs, x, hc => by simp only [chk] at hc; simp only [consistent]; exact accept_consistentAny hs x hc
  | .literal ls, x, hc => by simpa [chk, consistent] using hc
  | .typeOf cs, x, hc => by simpa [chk, consistent] using hc
  | .tupleFixed hs, x, hc => by
    simp only [chk, Bool.and_eq_true] at hc
    simp only [consistent, Bool.and_eq_true]
    exact ⟨hc.1, hc.2.1, accept_consistentZip hs x.items hc.2.2⟩
  | .seq o h, x, hc => by
    simp only [chk, Bool.and_eq_true] at hc
    simp only [consistent, Bool.and_eq_true, Bool.or_eq_true]
    refine ⟨hc.1, ?_⟩
    cases hy : x.items[pickIdx conf r x.items.length]? with
    | none => left; simp [pick_none_nil conf r hy]
    | some y =>
      right; rw [hy] at hc
      exact List.any_eq_true.mpr ⟨y, List.mem_of_getElem? hy, C02_accept_consistent h y hc.2⟩
  | .reit o h, x, hc => by
    simp only [chk, Bool.and_eq_true] at hc
    simp only [consistent, Bool.and_eq_true, Bool.or_eq_true]
    refine ⟨hc.1, ?_⟩
    cases hx : x.items with
    | nil => left; rfl
    | cons y ys =>
      right; rw [hx] at hc
      exact List.any_eq_true.mpr ⟨y, by simp, C02_accept_consistent h y (by simpa using hc.2)⟩
  | .quasi o h, x, hc => by
    simp only [chk, Bool.and_eq_true, Bool.or_eq_true, Bool.not_eq_true'] at hc
    simp only [consistent, Bool.and_eq_true, Bool.or_eq_true, Bool.not_eq_true']
    refine ⟨hc.1, ?_⟩
    rcases hc.2 with hnc | hit
    · exact Or.inl (Or.inl hnc)
    · cases hx : x.items with
      | nil => exact Or.inl (Or.inr rfl)
      | cons y0 ys =>
        right
        cases hy : (if W.sub x.cls cSequence = true then x.items[pickIdx conf r x.items.length]? else x.items.head?) with
        | none =>
          exfalso
          split at hy
          · have := pick_none_nil conf r hy; rw [hx] at this; cases this
          · rw [hx] at hy; simp at hy
        | some y =>
          rw [hy] at hit
          have hm : y ∈ x.items := by
            split at hy
            · exact List.mem_of_getElem? hy
            · rw [hx] at hy ⊢; simp at hy; simp [hy]
          rw [← hx]
          exact List.any_eq_true.mpr ⟨y, hm, C02_accept_consistent h y hit⟩
  | .mapping o k v, x, hc => by
    simp only [chk, Bool.and_eq_true] at hc
    simp only [consistent, Bool.and_eq_true, Bool.or_eq_true]
    refine ⟨hc.1, ?_⟩
    cases hx : x.items with
    | nil => left; rfl
    | cons k0 ks =>
      right
      rw [hx] at hc
      simp only [List.head?_cons, Bool.and_eq_true] at hc
      cases hxv : x.vals with
      | nil => rw [hxv] at hc; simp at hc
      | cons v0 vs =>
        rw [hxv] at hc
        exact ⟨List.any_eq_true.mpr ⟨k0, by simp, C02_accept_consistent k k0 hc.2.1⟩,
               List.any_eq_true.mpr ⟨v0, by simp, C02_accept_consistent v v0 (by simpa using hc.2.2)⟩⟩
  | .annotated h vs, x, hc => by
    simp only [chk, Bool.and_eq_true] at hc
    simp only [consistent, Bool.and_eq_true]
    exact ⟨C02_accept_consistent h x hc.1, hc.2⟩
  | .generic c bs, x, hc => by
    simp only [chk, Bool.and_eq_true] at hc
    simp only [consistent, Bool.and_eq_true]
    exact ⟨hc.1, accept_consistentEvery bs x hc.2⟩
theorem accept_consistentEvery : ∀ (hs : List Hint) (x : Obj), chkEvery W conf r hs x = true → consistentEvery W hs x = true
  | [], _, _ => by simp [consistentEvery]
  | h :: hs, x, hc => by
    simp only [chkEvery, Bool.and_eq_true] at hc
    simp only [consistentEvery, Bool.and_eq_true]
    exact ⟨C02_accept_consistent h x hc.1, accept_consistentEvery hs x hc.2⟩
theorem accept_consistentAny : ∀ (hs : List Hint) (x : Obj), chkAny W conf r hs x = true → consistentAny W hs x = true
  | [], _, hc => by simp [chkAny] at hc
  | h :: hs, x, hc => by
    simp only [chkAny, Bool.or_eq_true] at hc
    simp only [consistentAny, Bool.or_eq_true]
    rcases hc with h1 | h2
    · exact Or.inl (C02_accept_consistent h x h1)
    · exact Or.inr (accept_consistentAny hs x h2)
theorem accept_consistentZip : ∀ (hs : List Hint) (ys : List Obj), chkZip W conf r hs ys = true → consistentZip W hs ys = true
  | [], _, _ => by simp [consistentZip]
  | _ :: _, [], _ => by simp [consistentZip]
  | h :: hs, y :: ys, hc => by
    simp only [chkZip, Bool.and_eq_true] at hc
    simp only [consistentZip, Bool.and_eq_true]
    exact ⟨C02_accept_consistent h y hc.1, accept_consistentZip hs ys hc.2⟩
end

mutual
/-- **Elision is safe**: a child dropped as ignorable accepts every object under the
    published meaning, so dropping it never hides a violation. -/
theorem C02_ignorable_sat : ∀ (h : Hint) (x : Obj), h.ignorable = true → sat W h x = true
  | .any, _, _ => by simp [sat]
  | .union hs, x, hi => by simp only [Hint.ignorable] at hi; simp only [sat]; exact ignorable_satAny hs x hi
  | .cls _, _, hi | .shallow _, _, hi | .literal _, _, hi | .tupleFixed _, _, hi | .seq _ _, _, hi
  | .reit _ _, _, hi | .quasi _ _, _, hi | .mapping _ _ _, _, hi | .typeOf _, _, hi | .annotated _ _, _, hi
  | .generic _ _, _, hi => by
    simp [Hint.ignorable] at hi
theorem ignorable_satAny : ∀ (hs : List Hint) (x : Obj), anyIgnorable hs = true → satAny W hs x = true
  | [], _, hi => by simp [anyIgnorable] at hi
  | h :: hs, x, hi => by
    simp only [anyIgnorable, Bool.or_eq_true] at hi
    simp only [satAny, Bool.or_eq_true]
    rcases hi with h1 | h2
    · exact Or.inl (C02_ignorable_sat h x h1)
    · exact Or.inr (ignorable_satAny hs x h2)
end

/-- the same statements hold of the generated code: a rejection by `chk` IS a `False` of
    the evaluated expression (never an exception) -/
theorem C02_code_rejects (hW : W.Wf) (h : Hint) (x : Obj) (hwf : h.WfIn W) (hi : h.ignorable = false)
    (hx : x.wf W = true) (hrej : chk W conf r h x = false) :
    ∃ env' n, eval W r (rootEnv x) (genRoot conf h) = some (.bool false, env', n) := by
  obtain ⟨env', n, he⟩ := C01_compile W hW conf r h x hwf hi hx
  rw [hrej] at he; exact ⟨env', n, he⟩

end BearVerif.Bear
