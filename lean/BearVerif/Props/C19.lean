import BearVerif.Lemmas.DoorEq
/-!
  C19 — `is_subhint` is a sound preorder and `TypeHint` wrappers are coherent.

  Statements only use definitions of `Core/Door.lean` (the executable model of
  `beartype.door`, tied to /repo on every run by comparing every ordered pair of a hint
  pool) and `Core/Bear.lean` (`sat`: the published meaning of a hint at full depth).

  `subhint D a b : Except Err Bool` models `is_subhint(a, b)`: `.ok true/false`, or
  `.error .arity` when the real code raises BeartypeDoorIsSubhintException
  ("undecidable"). The laws are stated for decided pairs: a law "X holds" is
  "whenever the model answers, the answer is `true`".

  The model is the code WITH the three repairs of /verif/fixes/C19_*.patch
  (Literal members compared by type and equality, also inside unions; Annotated metahints
  compared with `is_subhint`; `Callable[..., Any]` is not ignorable). On the repaired code
  reflexivity and soundness hold at full strength; transitivity needs decidable side
  conditions (`DHint.Reg`), and for each excluded shape a decided counterexample is kept
  below and replayed on the real code by the harness (known findings).
-/
namespace BearVerif.Door
open BearVerif.Bear DHint

variable (D : DWorld)

/-! ### reflexivity -/

/-- **Reflexivity (every hint of the grammar, no side condition).** `is_subhint(a, a)` never
    answers `False` — nor does `TypeHint(a) == TypeHint(a)`. -/
theorem C19_refl_partial (hD : D.Wf) (a : DHint) (r : Bool) (h : subhint D a a = .ok r) : r = true := by
  cases r with
  | true => rfl
  | false => exact absurd h ((leF_refl D hD _).1 a)

theorem C19_eq_refl (hD : D.Wf) (a : DHint) (r : Bool) (h : eqW D a a = .ok r) : r = true := by
  cases r with
  | true => rfl
  | false => exact absurd h ((leF_refl D hD _).2 a)

/-! ### transitivity -/

/-- **Transitivity on regular hints** (`DHint.Reg`: Any-free; members of unions and TypeVar
    bounds are not themselves unions/TypeVars; TypeVar constraints all-or-none ignorable;
    Literal members of one type; Callable-free): if `a ≤ b` and `b ≤ c` then `a ≤ c`
    whenever `is_subhint(a, c)` answers at all. -/
theorem C19_trans_partial (hD : D.Wf) (a b c : DHint) (ha : a.Reg D) (hb : b.Reg D) (hc : c.Reg D)
    (h1 : subhint D a b = .ok true) (h2 : subhint D b c = .ok true) (r : Bool) (h3 : subhint D a c = .ok r) : r = true := by
  cases r with
  | true => rfl
  | false => exact absurd h3 (leF_trans D hD ha hb hc h1 h2)

/-! ### soundness -/

/-- **Soundness on the Any-free, Callable-free grammar** (`DHint.Sem`): if `is_subhint(a, b)` is
    `True`, every (well-formed) object that satisfies `a` at full depth satisfies `b`. -/
theorem C19_sound (hD : D.Wf) (a b : DHint) (ha : a.Sem D) (hb : b.Sem D) (h : subhint D a b = .ok true)
    (x : Obj) (hx : x.wf D.W = true) (hs : dsat D a x = true) : dsat D b x = true :=
  leF_sound D hD _ a b ha hb h x hx hs

/-! ### wrappers: equality, hash, children, identity -/

/-- **Equal wrappers are mutual subhints**: if `TypeHint(a) == TypeHint(b)` then neither
    `is_subhint(a, b)` nor `is_subhint(b, a)` answers `False`. -/
theorem C19_eq_mutual (hD : D.Wf) (a b : DHint) (hp : a.Proper) (h : eqW D a b = .ok true) :
    (∀ r, subhint D a b = .ok r → r = true) ∧ (∀ r, subhint D b a = .ok r → r = true) := by
  obtain ⟨m, h1, h2⟩ := eq_imp_le D hD _ a b hp h
  exact ⟨fun r hr => (leF_det D h1 hr).symm, fun r hr => (leF_det D h2 hr).symm⟩

/-- **Equal wrappers have equal hashes — the part the code guarantees.** `hash(TypeHint(h))` is
    `hash(h)`, so equal hashes are guaranteed only for wrappers of equal hints. On rigid hints (classes
    and subscripted hints whose arguments are not all ignorable, at every depth) over an antisymmetric
    class table, wrappers that compare equal do wrap the same hint. Outside them the clause is false in
    the code: `C19_eq_hash_counterexample`. -/
theorem C19_eq_hash_partial (hD : D.Wf) (anti : ∀ c d, D.W.sub c d = true → D.W.sub d c = true → c = d)
    (a b : DHint) (ha : a.Rigid D) (hb : b.Rigid D) (hp : a.Proper) (h : eqW D a b = .ok true) : a.erase = b.erase := by
  obtain ⟨m, h1, h2⟩ := eq_imp_le D hD _ a b hp h
  exact antisym_rigid D hD anti m a b ha hb h1 h2

/-- the answers of the model do not depend on the fuel it is given -/
theorem C19_fuel_independent (n m : Nat) (a b : DHint) (r r' : Bool) (h1 : leF D n a b = .ok r) (h2 : leF D m a b = .ok r') :
    r = r' := leF_det D h1 h2

/-- how `args` relates to the children, per wrapper class (documented special cases: a Literal's
    args are values and it has no children; a TypeVar has no args and its bounds as children;
    `Callable[[], r]` / `Callable[..., r]` present `tuple[()]` / `Any` as the parameter child) -/
def argsDescribe (a : DHint) : Prop :=
  match a with
  | .literal ms => witer a = [] ∧ args a = ms.map .value
  | .typevar hs => witer a = hs ∧ args a = []
  | .callable _ ell ps r =>
      if ell then witer a = [.any, r] ∧ args a = [.ellipsis, .hint r]
      else if ps.isEmpty then witer a = [.tupleFixed [], r] ∧ args a = [.hint r]
      else witer a = ps ++ [r] ∧ args a = (ps ++ [r]).map .hint
  | _ => args a = (witer a).map .hint

/-- **len / iter / getitem / contains / args describe the same children.** `hash` and `same` stand
    for `hash(wrapper)` and object identity. -/
theorem C19_children (hash : DHint → Nat) (same : DHint → DHint → Bool) (hsame : ∀ h, same h h = true) (a : DHint) :
    wlen a = (witer a).length ∧
    (∀ i, wgetitem a i = (witer a)[i]?) ∧
    (∀ c ∈ witer a, wcontains D hash same a c = true) ∧
    (∀ c, wcontains D hash same a c = true → ∃ ch ∈ witer a, hash ch = hash c ∧ (same ch c = true ∨ eqW D ch c = .ok true)) ∧
    argsDescribe a := by
  refine ⟨rfl, fun _ => rfl, ?_, ?_, ?_⟩
  · intro c hc
    simp only [wcontains, List.any_eq_true]
    exact ⟨c, hc, by simp [hsame]⟩
  · intro c hc
    simp only [wcontains, List.any_eq_true, Bool.and_eq_true, beq_iff_eq, Bool.or_eq_true] at hc
    obtain ⟨ch, hm, hk, he⟩ := hc
    exact ⟨ch, hm, hk, he⟩
  · cases a <;> simp [argsDescribe, args, witer, children]
    rename_i o ell ps r
    cases ell <;> simp
    cases ps <;> simp

/-- **`TypeHint(h) is TypeHint(h)`**: once a hashable hint has been wrapped, wrapping it again —
    after any number of other wrappings — returns the same wrapper. -/
theorem C19_singleton (c : Cache) (k : Nat) (ks : List Nat) :
    (((c.wrap k).1.run ks).wrap k).2 = (c.wrap k).2 := by
  have keep : ∀ (ks : List Nat) (c : Cache) (i : Nat), c.entries.lookup k = some i → ((c.run ks).wrap k).2 = i := by
    intro ks
    induction ks with
    | nil => intro c i h; simp [Cache.run, Cache.wrap, h]
    | cons k' ks ih =>
      intro c i h
      simp only [Cache.run]
      apply ih
      simp only [Cache.wrap]
      cases hl : c.entries.lookup k' with
      | some j => simpa using h
      | none =>
        have : (k == k') = false := by
          apply beq_false_of_ne; intro e; subst e; rw [h] at hl; cases hl
        simp [List.lookup, this, h]
  apply keep
  simp only [Cache.wrap]
  cases hl : c.entries.lookup k with
  | some j => simp [hl]
  | none => simp [List.lookup]

/-! ### a concrete world: non-vacuity and the excluded shapes -/

/-- classes: 0 type, 1 tuple, 2 Sequence, 3 Collection, 4 object, 5 int, 6 bool, 7 str, 8 list,
    9 Iterable, 10 dict, 11 Callable, 12 NoneType, 13 the class fabricated for `NewType('NT', int)` -/
def ancX : Nat → List Nat
  | 1 => [2, 3, 9, 4] | 2 => [3, 9, 4] | 3 => [9, 4] | 4 => [] | 6 => [5, 4] | 8 => [2, 3, 9, 4] | 10 => [3, 9, 4]
  | 13 => [5, 4] | _ => [4]
def subX (c d : Nat) : Bool := c == d || (ancX c).contains d

def Dx : DWorld :=
  { W := { sub := subX, sized := fun c => c == 8 || c == 1 || c == 10, indexable := fun c => c == 8 || c == 1,
           reiter := fun c => c == 8 || c == 1 || c == 10, mapping := fun c => c == 10, pred := fun _ _ => true },
    ntParent := fun c => if c == 13 then some 5 else none }

theorem ancX_big (c : Nat) (h : 14 ≤ c) : ancX c = [4] := by
  obtain ⟨k, rfl⟩ := Nat.exists_eq_add_of_le h
  rw [Nat.add_comm]
  rfl

theorem ancX_closed : ∀ c d, d ∈ ancX c → ∀ e, e ∈ ancX d → e ∈ ancX c := by
  intro c d hd e he
  by_cases hc : c < 14
  · have : ∀ c < 14, ∀ d ∈ ancX c, ∀ e ∈ ancX d, e ∈ ancX c := by decide +kernel
    exact this c hc d hd e he
  · rw [ancX_big c (by omega)] at hd
    simp at hd; subst hd; simp [ancX] at he

theorem Dx_wf : Dx.Wf := by
  constructor
  · intro c; simp [Dx, subX]
  · intro a b c h1 h2
    simp only [Dx, subX, Bool.or_eq_true, beq_iff_eq, List.contains_iff_mem] at *
    rcases h1 with rfl | h1
    · exact h2
    · rcases h2 with rfl | h2
      · exact Or.inr h1
      · exact Or.inr (ancX_closed a b h1 c h2)
  · intro c
    simp only [Dx, subX, cObject, Bool.or_eq_true, beq_iff_eq, List.contains_iff_mem]
    by_cases hc : c < 14
    · have : ∀ c < 14, c = 4 ∨ 4 ∈ ancX c := by decide +kernel
      exact this c hc
    · rw [ancX_big c (by omega)]; simp
  · intro c h
    have h' : subX 4 c = true := h
    simp only [subX, ancX, Bool.or_eq_true, beq_iff_eq, List.contains_iff_mem, List.not_mem_nil, or_false] at h'
    exact h'.symm
  · intro c h
    simp only [Dx, subX, cTuple, cCollection, Bool.or_eq_true, beq_iff_eq, List.contains_iff_mem] at h ⊢
    by_cases hc : c < 14
    · have : ∀ c < 14, (c = 1 ∨ 1 ∈ ancX c) → (c = 3 ∨ 3 ∈ ancX c) := by decide +kernel
      exact this c hc h
    · rw [ancX_big c (by omega)] at h; simp at h; omega
  · intro c p hp d
    simp only [Dx] at hp
    split at hp
    · rename_i hc
      have hc : c = 13 := by simpa using hc
      cases hp
      subst hc
      simp only [Dx, subX, ancX]
      rw [Bool.eq_iff_iff]
      simp only [Bool.or_eq_true, beq_iff_eq, List.contains_iff_mem, List.mem_cons, List.not_mem_nil, or_false]
      omega
    · cases hp
  · intro c p hp d h
    simp only [Dx] at hp
    split at hp
    · rename_i hc
      have hc : c = 13 := by simpa using hc
      subst hc
      simp only [Dx, subX, Bool.or_eq_true, beq_iff_eq, List.contains_iff_mem] at h
      by_cases hd : d < 14
      · have : ∀ d < 14, (d = 13 ∨ 13 ∈ ancX d) → d = 13 := by decide +kernel
        exact this d hd h
      · rw [ancX_big d (by omega)] at h; simp at h; omega
    · cases hp
  · simp [Dx, cObject]
  · simp [Dx, cTuple]

private def int_ : DHint := .cls 5
private def bool_ : DHint := .cls 6
private def str_ : DHint := .cls 7
private def obj_ : DHint := .cls 4
private def list_ (h : DHint) : DHint := .cont .seq 8 h
private def seq_ (h : DHint) : DHint := .cont .seq 2 h

/-- the hypotheses of the theorems are satisfiable by non-trivial hints: `list[bool] ≤ Sequence[int | str] ≤
    Iterable[int | str | None]`, a NewType below its alias, a Literal below a union -/
example : (list_ bool_).Reg Dx ∧ (seq_ (.union [int_, str_])).Reg Dx ∧ (DHint.cont .quasi 9 (.union [int_, str_, .cls 12])).Reg Dx := by
  simp [list_, seq_, bool_, int_, str_, DHint.Reg, RegAll, isUnionLike, Dx, cObject]
example : subhint Dx (list_ bool_) (seq_ (.union [int_, str_])) = .ok true ∧
    subhint Dx (seq_ (.union [int_, str_])) (.cont .quasi 9 (.union [int_, str_, .cls 12])) = .ok true ∧
    subhint Dx (list_ bool_) (.cont .quasi 9 (.union [int_, str_, .cls 12])) = .ok true ∧
    subhint Dx (.cls 13) int_ = .ok true ∧ subhint Dx int_ (.cls 13) = .ok false ∧
    subhint Dx (.literal [(5, .int 1), (5, .int 2)]) (.union [int_, str_]) = .ok true := by decide +kernel
theorem Dx_coll : ∀ o, (o = 8 ∨ o = 2) → CollOrigin Dx o := by
  intro o ho c h
  simp only [Dx, subX, cCollection, Bool.or_eq_true, beq_iff_eq, List.contains_iff_mem] at h ⊢
  by_cases hc : c < 14
  · have : ∀ c < 14, ∀ o, (o = 8 ∨ o = 2) → (c = o ∨ o ∈ ancX c) → (c = 3 ∨ 3 ∈ ancX c) := by
      intro c hc o ho
      rcases ho with rfl | rfl <;> revert c <;> decide +kernel
    exact this c hc o ho h
  · rw [ancX_big c (by omega)] at h ⊢
    rcases ho with rfl | rfl <;> simp at h <;> omega
example : (list_ bool_).Sem Dx ∧ (seq_ (.union [int_, str_])).Sem Dx :=
  ⟨⟨trivial, rfl, Or.inr (Dx_coll 8 (Or.inl rfl))⟩, ⟨⟨by simp, trivial, trivial, trivial⟩, rfl, Or.inr (Dx_coll 2 (Or.inr rfl))⟩⟩
/-- `[True, False]` satisfies `list[bool]` and hence `Sequence[int | str]` -/
example : dsat Dx (list_ bool_) (.mk 8 (.other 0) [.mk 6 (.bool true) [] [] [], .mk 6 (.bool false) [] [] []] [] []) = true ∧
    dsat Dx (seq_ (.union [int_, str_])) (.mk 8 (.other 0) [.mk 6 (.bool true) [] [] [], .mk 6 (.bool false) [] [] []] [] []) = true := by
  decide +kernel

/-- **Reflexivity, excluded point** (known finding): a union one of whose members is a
    two-argument hint and an earlier member a one-argument hint over a superclass —
    `Union[Iterable[int], dict[str, int]]` — is not comparable with itself: the real code raises
    BeartypeDoorIsSubhintException. -/
theorem C19_refl_counterexample :
    subhint Dx (.union [.cont .quasi 9 int_, .mapping 10 str_ int_]) (.union [.cont .quasi 9 int_, .mapping 10 str_ int_])
      = .error .arity := by decide +kernel

/-- **Transitivity, excluded point "nested branches"** (known finding): a TypeVar bounded by a
    union — `int ≤ T_int ≤ T_(int|str)` but not `int ≤ T_(int|str)` (`_branches` are not flattened). -/
theorem C19_trans_counterexample_nested :
    subhint Dx int_ (.typevar [int_]) = .ok true ∧ subhint Dx (.typevar [int_]) (.typevar [.union [int_, str_]]) = .ok true ∧
    subhint Dx int_ (.typevar [.union [int_, str_]]) = .ok false := by decide +kernel

/-- **excluded point "TypeVar constraints partly ignorable"** (known finding): with
    `T = TypeVar('T', object, int)`: `list ≤ list[object] ≤ list[T]` but not `list ≤ list[T]`
    (a TypeVar is ignorable only if ALL constraints are, a union if ANY member is). -/
theorem C19_trans_counterexample_typevar :
    subhint Dx (.cls 8) (list_ obj_) = .ok true ∧ subhint Dx (list_ obj_) (list_ (.typevar [obj_, int_])) = .ok true ∧
    subhint Dx (.cls 8) (list_ (.typevar [obj_, int_])) = .ok false := by decide +kernel

/-- **excluded point "Literal with members of several types"** (known finding):
    `Annotated[Literal[1, 'a'], m] ≤ Literal[1, 'a'] ≤ int | str` but not `Annotated[…] ≤ int | str`
    (the member-class test is made against the whole right side, not branch by branch). -/
theorem C19_trans_counterexample_literal :
    subhint Dx (.annotated (.literal [(5, .int 1), (7, .str "a")]) [0]) (.literal [(5, .int 1), (7, .str "a")]) = .ok true ∧
    subhint Dx (.literal [(5, .int 1), (7, .str "a")]) (.union [int_, str_]) = .ok true ∧
    subhint Dx (.annotated (.literal [(5, .int 1), (7, .str "a")]) [0]) (.union [int_, str_]) = .ok false := by decide +kernel

/-- **excluded point "Callable with explicit parameters"** (known finding): parameters are compared
    with `self_param > branch_param` (strictly wider), which incomparable parameters pass:
    `Callable[[int], str] ≤ Callable[[], str] ≤ Callable[[bool], str]` but not `Callable[[int], str] ≤ Callable[[bool], str]`. -/
theorem C19_trans_counterexample_callable :
    subhint Dx (.callable 11 false [int_] str_) (.callable 11 false [] str_) = .ok true ∧
    subhint Dx (.callable 11 false [] str_) (.callable 11 false [bool_] str_) = .ok true ∧
    subhint Dx (.callable 11 false [int_] str_) (.callable 11 false [bool_] str_) = .ok false := by decide +kernel

/-- **Equal wrappers, unequal hashes** (known finding): `TypeHint(list) == TypeHint(list[object])`
    (mutual subhints) although the wrapped hints — and therefore `hash(wrapper) = hash(hint)` — differ;
    likewise `int` and `int | bool`. -/
theorem C19_eq_hash_counterexample :
    eqW Dx (.cls 8) (list_ obj_) = .ok true ∧ eqW Dx int_ (.union [int_, bool_]) = .ok true := by decide +kernel

end BearVerif.Door
