import BearVerif.Lemmas.Decor
/-!
  C13 — property theorems (statements only use definitions of `Core/Decor.lean`).

  `decorClass` / `loop` / `decorObject` / `decorLeaf` / `decorFunc` mirror
  `beartype_type` / its attribute loop / `beartype_object` / `beartype_nontype` + the builtin
  descriptor decorators / `beartype_func`; `specClass` / `specMembers` / `specMember` restate
  the property ("the same class, every function, classmethod, staticmethod and property the class
  itself defines decorated as if by hand, recursively for classes nested in it; inherited members
  and referenced classes untouched"). Object identity is the `oid`; allocation is the threaded
  counter. `Klass.wf` is the Python fact that dictionary keys are unique, at every depth.
-/
namespace BearVerif.Decor

/-- **Decorating a class equals decorating its members.** For every class (any member mix, any
    nesting depth, any inherited members), every configuration and interpreter mode, the class
    decorator computes exactly the member-wise decoration of the specification: own functions,
    classmethods, staticmethods and properties as if decorated by hand, classes nested in it
    recursively, referenced classes / other attributes / inherited members untouched, the class
    marked — including which new objects are allocated and in which order. -/
theorem C13_class_eq_members (env : Env) (conf : Conf) (k : Klass) (n : Nat) (hwf : k.wf) :
    decorClass env conf k n = specClass env conf k n :=
  decorClass_eq_spec env conf k n hwf

/-- … the same statement for what is stored under each attribute name: the decorated class maps
    a name to the hand-decorated value of that name (so the `setattr`-by-name of the loop never
    hits another attribute). -/
theorem C13_class_eq_members_lookup (env : Env) (conf : Conf) (oid : Nat) (qual : List String)
    (dict inh : Members) (n : Nat) (hwf : (Klass.mk oid qual false dict inh).wf) :
    (decorClass env conf (.mk oid qual false dict inh) n).1.dict = (specMembers env conf qual dict n).1 := by
  rw [C13_class_eq_members env conf _ n hwf]; simp [specClass, Klass.dict]

/-- **Descriptor kind, name, docstring, signature are kept** — for the whole class at every
    nesting depth: attribute names and their order, the kind of every attribute (function /
    classmethod / staticmethod / property / class / other), the name, docstring and signature of
    every function inside, property docstrings, qualified names, and the inherited part. -/
theorem C13_kind_preserved (env : Env) (conf : Conf) (k : Klass) (n : Nat) (hwf : k.wf) :
    (decorClass env conf k n).1.shape = k.shape := by
  rw [C13_class_eq_members env conf k n hwf]; exact specClass_shape env conf k n

/-- … and for a member decorated by hand (`beartype(conf=…)(member)`). -/
theorem C13_kind_preserved_member (env : Env) (conf : Conf) (m : Member) (n : Nat) (hwf : m.wf) :
    (beartype env conf m n).1.shape = m.shape := by
  unfold beartype
  split
  · rfl
  · cases m with
    | klass k =>
      simp only [Member.wf] at hwf
      simp only [decorObject, Member.shape]
      exact C13_kind_preserved env conf k n hwf
    | other o => rfl
    | func f => simp only [decorObject]; exact decorLeaf_shape ..
    | cmeth o f => simp only [decorObject]; exact decorLeaf_shape ..
    | smeth o f => simp only [decorObject]; exact decorLeaf_shape ..
    | prop o doc g s d => simp only [decorObject]; exact decorLeaf_shape ..

/-- **The original is reachable as `__wrapped__`.** Decorating a function returns either the very
    object passed in (flagged `__no_type_check__` under strategy O0, nothing allocated) or a NEW
    object (its oid is the one allocated now) that carries the wrapper marker, the name, docstring,
    signature and annotations of the original, and `__wrapped__` = the original. -/
theorem C13_wrapped_original (env : Env) (conf : Conf) (f : Func) (n : Nat) :
    (decorFunc env conf f n = (if conf.o0 then f.setNtc else f, n) ∧ (decorFunc env conf f n).1.oid = f.oid) ∨
    ((decorFunc env conf f n).2 = n + 1 ∧ (decorFunc env conf f n).1.oid = n ∧
      (decorFunc env conf f n).1.marker = true ∧ (decorFunc env conf f n).1.wrapped = some f ∧
      (decorFunc env conf f n).1.facts = f.facts ∧ (decorFunc env conf f n).1.ann = f.ann ∧ conf.o0 = false) := by
  func_bash f env conf

/-- allocation only moves forward: every object created by a decoration has an oid ≥ the counter
    it started from, so it is none of the objects that existed before (their oids are below it) -/
theorem C13_new_objects_fresh (env : Env) (conf : Conf) (f : Func) (n : Nat) (hf : f.oid < n) :
    (decorFunc env conf f n).1.oid = f.oid ∨ (decorFunc env conf f n).1.oid ≠ f.oid ∧ n ≤ (decorFunc env conf f n).1.oid := by
  rcases decorFunc_oid env conf f n with ⟨h, _⟩ | ⟨h, _⟩
  · exact Or.inl h
  · right; rw [h]; omega

/-- **Decorating a class returns the same class object**: same oid, same qualified name, the
    inherited members untouched, and the class is marked as decorated. -/
theorem C13_same_object (env : Env) (conf : Conf) (k : Klass) (n : Nat) :
    (decorClass env conf k n).1.oid = k.oid ∧ (decorClass env conf k n).1.qual = k.qual ∧
    (decorClass env conf k n).1.inherited = k.inherited ∧ (decorClass env conf k n).1.beartyped = true :=
  decorClass_fields env conf k n

/-- **Idempotence, classes.** Decorating an already decorated class — with ANY configuration, in
    any interpreter mode — returns it unchanged (the same value: same class object, every attribute
    the same object) and allocates nothing. -/
theorem C13_idempotent (env env' : Env) (conf conf' : Conf) (k : Klass) (n n' : Nat) :
    decorClass env' conf' (decorClass env conf k n).1 n' = ((decorClass env conf k n).1, n') :=
  decorClass_of_beartyped env' conf' _ n' (decorClass_fields env conf k n).2.2.2

/-- **Idempotence, functions.** Decorating the result of a decoration returns that result itself
    (the same object, nothing allocated): a beartype wrapper is never wrapped again, and a function
    that was left alone is left alone again. -/
theorem C13_idempotent_func (env : Env) (conf : Conf) (f : Func) (n n' : Nat) :
    decorFunc env conf (decorFunc env conf f n).1 n' = ((decorFunc env conf f n).1, n') :=
  decorFunc_idem env conf f n n'

/-- **Idempotence, any member.** `decor (decor o) = decor o`: for functions and classes the second
    application returns the SAME object and allocates nothing; for classmethod / staticmethod /
    property objects the second application rebuilds the descriptor object around the SAME function
    objects (equal up to the oid of the descriptor object itself). -/
theorem C13_idempotent_member (env : Env) (conf : Conf) (m : Member) (n n' : Nat) :
    (decorObject env conf (decorObject env conf m n).1 n').1.core = (decorObject env conf m n).1.core ∧
    ((∃ f, m = .func f) ∨ (∃ k, m = .klass k) ∨ (∃ o, m = .other o) →
      decorObject env conf (decorObject env conf m n).1 n' = ((decorObject env conf m n).1, n')) := by
  cases m with
  | klass k =>
    have h := C13_idempotent env env conf conf k n n'
    simp only [decorObject, h, true_and]
    intro _; trivial
  | other o => simp [decorObject]
  | func f =>
    simp only [decorObject, decorLeaf, decorFunc_idem, true_and]
    intro _; trivial
  | cmeth o f =>
    have := decorLeaf_idem env conf (.cmeth o f) n n'
    simp only [decorLeaf] at this
    simp [decorObject, decorLeaf, this]
  | smeth o f =>
    have := decorLeaf_idem env conf (.smeth o f) n n'
    simp only [decorLeaf] at this
    simp [decorObject, decorLeaf, this]
  | prop o doc g s d =>
    have := decorLeaf_idem env conf (.prop o doc g s d) n n'
    simp only [decorLeaf] at this
    simp [decorObject, decorLeaf, this]

/-- **No-op cases are identities, functions.** Unannotated, annotated with ignorable hints only,
    `@no_type_check`, already a beartype wrapper, or Python running with `-O`: the function comes
    back as the same unchanged object and nothing is allocated. Under strategy O0 every function
    comes back as the same object (flagged `__no_type_check__` in place), nothing allocated. -/
theorem C13_noop_identity (env : Env) (conf : Conf) (f : Func) (n : Nat) :
    (conf.o0 = false →
      (env.optimized = true ∨ f.ann = .none ∨ f.ann = .ignorable ∨ f.ntc = true ∨ f.marker = true) →
      decorFunc env conf f n = (f, n)) ∧
    (conf.o0 = true → decorFunc env conf f n = (f.setNtc, n)) := by
  constructor
  · intro ho h
    revert h ho
    func_bash f env conf
  · intro ho
    revert ho
    func_bash f env conf

/-- **`python -O`: the public decorator is the identity** on every object (function, descriptor,
    class of any shape), whatever the configuration. -/
theorem C13_noop_identity_optimized (env : Env) (conf : Conf) (m : Member) (k : Klass) (n : Nat)
    (h : env.optimized = true) :
    beartype env conf m n = (m, n) ∧ beartypeClass env conf k n = (k, n) := by
  simp [beartype, beartypeClass, h]

/-- **No-op cases are identities, whole classes.** If every function reachable through the members
    the class itself defines (at every nesting depth) is a no-op case — in particular for EVERY
    class under strategy O0 — then decorating the class creates no wrapper at all: up to the class
    markers, the `__no_type_check__` flags set by O0 and the oids of the rebuilt descriptor objects,
    the class is unchanged (the same function objects under the same names in the same kinds). -/
theorem C13_noop_identity_class (env : Env) (conf : Conf) (k : Klass) (n : Nat) (hwf : k.wf)
    (h : k.allNoop env conf = true) :
    (decorClass env conf k n).1.erase = k.erase := by
  rw [C13_class_eq_members env conf k n hwf]; exact specClass_noop env conf k n h

/-- … under strategy O0 the hypothesis holds for every class. -/
theorem C13_noop_identity_O0 (env : Env) (conf : Conf) (k : Klass) (n : Nat) (hwf : k.wf)
    (ho : conf.o0 = true) :
    (decorClass env conf k n).1.erase = k.erase := by
  apply C13_noop_identity_class env conf k n hwf
  have hf : ∀ f : Func, f.noop env conf = true := by intro f; simp [Func.noop, ho]
  have hfo : ∀ f : Option Func, Func.noopOpt env conf f = true := by
    intro f; cases f <;> simp [Func.noopOpt, hf]
  -- every member is a no-op when every function is
  have key : (∀ m : Member, m.allNoop env conf = true) ∧ (∀ k : Klass, k.allNoop env conf = true) ∧
      (∀ ms : Members, ms.allNoop env conf = true) := by
    refine ⟨fun m => ?_, fun k => ?_, fun ms => ?_⟩
    · exact Member.rec (motive_1 := fun m => m.allNoop env conf = true)
        (motive_2 := fun k => k.allNoop env conf = true) (motive_3 := fun ms => ms.allNoop env conf = true)
        (fun f => by simp [Member.allNoop, hf]) (fun _ f => by simp [Member.allNoop, hf])
        (fun _ f => by simp [Member.allNoop, hf]) (fun _ _ g s d => by simp [Member.allNoop, hf, hfo])
        (fun k ih => by simpa [Member.allNoop] using ih) (fun _ => by simp [Member.allNoop])
        (fun _ _ _ d _ ihd _ => by simpa [Klass.allNoop] using ihd)
        (by simp [Members.allNoop]) (fun _ _ _ ihm ihr => by simp [Members.allNoop, ihm, ihr]) m
    · exact Klass.rec (motive_1 := fun m => m.allNoop env conf = true)
        (motive_2 := fun k => k.allNoop env conf = true) (motive_3 := fun ms => ms.allNoop env conf = true)
        (fun f => by simp [Member.allNoop, hf]) (fun _ f => by simp [Member.allNoop, hf])
        (fun _ f => by simp [Member.allNoop, hf]) (fun _ _ g s d => by simp [Member.allNoop, hf, hfo])
        (fun k ih => by simpa [Member.allNoop] using ih) (fun _ => by simp [Member.allNoop])
        (fun _ _ _ d _ ihd _ => by simpa [Klass.allNoop] using ihd)
        (by simp [Members.allNoop]) (fun _ _ _ ihm ihr => by simp [Members.allNoop, ihm, ihr]) k
    · exact Members.rec (motive_1 := fun m => m.allNoop env conf = true)
        (motive_2 := fun k => k.allNoop env conf = true) (motive_3 := fun ms => ms.allNoop env conf = true)
        (fun f => by simp [Member.allNoop, hf]) (fun _ f => by simp [Member.allNoop, hf])
        (fun _ f => by simp [Member.allNoop, hf]) (fun _ _ g s d => by simp [Member.allNoop, hf, hfo])
        (fun k ih => by simpa [Member.allNoop] using ih) (fun _ => by simp [Member.allNoop])
        (fun _ _ _ d _ ihd _ => by simpa [Klass.allNoop] using ihd)
        (by simp [Members.allNoop]) (fun _ _ _ ihm ihr => by simp [Members.allNoop, ihm, ihr]) ms
  exact key.2.1 k

/-- **An already decorated class is returned unchanged** (any configuration, any mode). -/
theorem C13_noop_identity_decorated_class (env : Env) (conf : Conf) (k : Klass) (n : Nat)
    (h : k.beartyped = true) : decorClass env conf k n = (k, n) :=
  decorClass_of_beartyped env conf k n h

/-! ### Non-vacuity: a concrete class exercising every branch

```
class Base:           def inh(self, x: int): …
class AX:             def ext(self, x: int): …            # defined elsewhere, name extends "A"
class A(Base):
    def f(self, x: int) -> int: …                         # wrapped
    def u(self, x): …                                     # unannotated: same object
    @classmethod      def c(cls, x: int): …               # descriptor rebuilt around a wrapper
    @property         def p(self) -> int: … ; @p.setter def p(self, v: int): …
    class N:                                              # nested: recursed into
        @staticmethod def s(x: int): …
        class NN:     def g(self, x: int): …              # depth 2
    Alias = AX                                            # referenced, NOT decorated
    X = 3
```
-/
section Examples
def fn (oid : Nat) (nm : String) (a : Ann) : Func := .mk oid nm "doc" ["self", "x"] a false false none

def exAX : Klass := .mk 20 ["AX"] false (.cons "ext" (.func (fn 21 "ext" .checked)) .nil) .nil
def exNN : Klass := .mk 10 ["A", "N", "NN"] false (.cons "g" (.func (fn 11 "g" .checked)) .nil) .nil
def exN : Klass := .mk 7 ["A", "N"] false
  (.cons "s" (.smeth 8 (fn 9 "s" .checked)) (.cons "NN" (.klass exNN) .nil)) .nil
def exA : Klass := .mk 0 ["A"] false
  (.cons "f" (.func (fn 1 "f" .checked))
  (.cons "u" (.func (fn 2 "u" .none))
  (.cons "c" (.cmeth 3 (fn 4 "c" .checked))
  (.cons "p" (.prop 5 "pdoc" (fn 6 "p" .checked) (some (fn 12 "p" .checked)) none)
  (.cons "N" (.klass exN)
  (.cons "Alias" (.klass exAX)
  (.cons "X" (.other 13) .nil)))))))
  (.cons "inh" (.func (fn 30 "inh" .checked)) .nil)

def envN : Env := ⟨false⟩
def cDef : Conf := ⟨false⟩
def cO0 : Conf := ⟨true⟩

/-- which functions under the class's own members carry the wrapper marker, by name, depth-first -/
def markersOf : Members → List (String × Bool)
  | .nil => []
  | .cons nm m r =>
    (match m with
     | .func f => [(nm, f.marker)]
     | .cmeth _ f => [(nm, f.marker)]
     | .smeth _ f => [(nm, f.marker)]
     | .prop _ _ g s _ => [(nm, g.marker), (nm ++ ".setter", (s.map Func.marker).getD false)]
     | .klass k => (match k with | .mk _ _ bt d _ => (nm, bt) :: markersOf d)
     | .other _ => []) ++ markersOf r

example : exA.wf := by
  simp [Klass.wf, Members.wf, Member.wf, exA, exN, exNN, exAX, Members.names]

/-- the hypotheses are satisfiable and the conclusion is not trivial: f, c, p (getter and setter),
    N.s and N.NN.g are wrapped, u is not, the referenced class AX is not entered -/
example : markersOf (decorClass envN cDef exA 100).1.dict =
    [("f", true), ("u", false), ("c", true), ("p", true), ("p.setter", true),
     ("N", true), ("s", true), ("NN", true), ("g", true), ("Alias", false), ("ext", false)] := by
  decide

/-- eight new objects: wrappers of f, c, p, p.setter, s, g and… the rebuilt classmethod, property,
    staticmethod objects (6 + 3 = 9) -/
example : (decorClass envN cDef exA 100).2 = 109 := by decide

/-- strategy O0: nothing is wrapped, only the three descriptor objects are rebuilt -/
example : markersOf (decorClass envN cO0 exA 100).1.dict =
    [("f", false), ("u", false), ("c", false), ("p", false), ("p.setter", false),
     ("N", true), ("s", false), ("NN", true), ("g", false), ("Alias", false), ("ext", false)] ∧
    (decorClass envN cO0 exA 100).2 = 103 := by decide

/-- `-O`: the identity -/
example : (beartypeClass ⟨true⟩ cDef exA 100).2 = 100 := by decide

/-- the wrapper of `f` is a new object whose `__wrapped__` is `f` -/
example : ((decorFunc envN cDef (fn 1 "f" .checked) 100).1.oid,
           ((decorFunc envN cDef (fn 1 "f" .checked) 100).1.wrapped.map Func.oid)) = (100, some 1) := by decide
end Examples

end BearVerif.Decor
