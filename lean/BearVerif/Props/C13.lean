import BearVerif.Lemmas.Decor
/-!
  C13 — property theorems (statements only use definitions of `Core/Decor.lean`).

  `decorClass` / `loop` / `decorObject` / `decorLeaf` / `decorFunc` mirror
  `beartype_type` / its attribute loop / `beartype_object` / `beartype_nontype` + the builtin
  descriptor decorators / `beartype_func`; `specClass` / `specMembers` / `specMember` restate
  the property ("the same class, every function, classmethod, staticmethod and property the class
  itself defines decorated as if by hand, recursively for classes nested in it; inherited members
  and referenced classes untouched"). Object identity is the `oid`; allocation is the threaded
  counter. `Klass.wf` is the Python fact that dictionary keys are unique, at every depth.

  Decoration may RAISE (`Ann.failing`: a hint rejected at decoration time). Every function returns a
  `Res` = (value, state = allocation counter + warnings issued, exception propagating?). `guard` is
  `_beartype_object_nonfatal` (configurations with `warning_cls_on_decorator_exception`, `conf.warn`):
  the exception of ONE object becomes one warning and the object is returned as it was.
-/
namespace BearVerif.Decor

/-- **Decorating a class equals decorating its members.** For every class (any member mix, any
    nesting depth, any inherited members), every configuration and interpreter mode, the class
    decorator computes exactly the member-wise decoration of the specification: own functions,
    classmethods, staticmethods and properties as if decorated by hand, classes nested in it
    recursively, referenced classes / other attributes / inherited members untouched, the class
    marked — including which new objects are allocated and in which order, how many warnings are
    issued, and, when the decoration of a member raises, that the SAME exception propagates at the
    SAME member on both routes leaving the SAME half-decorated, unmarked class. -/
theorem C13_class_eq_members (env : Env) (conf : Conf) (k : Klass) (st : St) (hwf : k.wf) :
    decorClass env conf k st = specClass env conf k st :=
  decorClass_eq_spec env conf k st hwf

/-- … the same statement for what is stored under each attribute name: the decorated class maps
    a name to the hand-decorated value of that name (so the `setattr`-by-name of the loop never
    hits another attribute). -/
theorem C13_class_eq_members_lookup (env : Env) (conf : Conf) (oid : Nat) (qual : List String)
    (dict inh : Members) (st : St) (hwf : (Klass.mk oid qual false dict inh).wf) :
    (decorClass env conf (.mk oid qual false dict inh) st).val.dict = (specMembers env conf qual dict st).val := by
  rw [C13_class_eq_members env conf _ st hwf]; simp [specClass, Klass.dict]

/-- **A configuration with `warning_cls_on_decorator_exception`: nothing propagates.** Decorating
    any class (directly through `beartype_type` or through the public decorator) or any member
    never raises, and the class ends up marked as decorated. -/
theorem C13_warn_never_raises (env : Env) (conf : Conf) (k : Klass) (m : Member) (st : St)
    (hw : conf.warn = true) :
    (decorClass env conf k st).raised = false ∧ (decorClass env conf k st).val.beartyped = true ∧
    (beartypeClass env conf k st).raised = false ∧ (decorObject env conf m st).raised = false ∧
    (beartype env conf m st).raised = false := by
  have h := decorClass_warn env conf k st hw
  refine ⟨h, (decorClass_fields env conf k st).2.2.2.1 h, ?_, decorObject_warn env conf m st hw, ?_⟩
  · unfold beartypeClass; split
    · rfl
    · exact guard_warn _ _ _ hw
  · unfold beartype; split
    · rfl
    · exact decorObject_warn env conf m st hw

/-- **… a member whose decoration raises is left as it was, with exactly one warning.** For a
    function, classmethod, staticmethod or property decorated by hand (`beartype(conf=…)(member)`)
    or as a member of a class: when `beartype_nontype` raises on it (`failsLeaf`: a function with a
    hint rejected at decoration time that nothing guards — the wrappee of a classmethod /
    staticmethod and the accessors of a property are guarded on their own, see
    `C13_descriptor_functions_independent`), the result is the very same object, nothing is
    allocated, one warning is issued. Without the warning option the exception propagates, and
    again nothing was changed. -/
theorem C13_failing_member_left_alone (env : Env) (conf : Conf) (m : Member) (st : St)
    (h : m.failsLeaf env conf = true) :
    (conf.warn = true → decorObject env conf m st = ⟨m, ⟨st.next, st.warns + 1⟩, false⟩) ∧
    (conf.warn = false → decorObject env conf m st = ⟨m, st, true⟩) := by
  have hk : ∀ k, m ≠ .klass k := by
    intro k e; subst e; simp [Member.failsLeaf] at h
  rw [decorObject_leaf env conf m st hk]
  constructor
  · intro hw; exact decorLeafObj_of_fails_warn env conf m st hw h
  · intro hw; simp [decorLeafObj, decorLeaf_of_fails env conf m st h, guard, hw]

/-- **… inside a descriptor, only the function that cannot be decorated is left as it was.** Under
    the warning option the wrappee of a classmethod / staticmethod and each accessor of a property
    is decorated on its own under the guard: a function that cannot be decorated comes back as the
    very same object with one warning (nothing allocated), every other accessor is decorated
    exactly as by hand (`beartype_func`), and the descriptor is always rebuilt around the results —
    a property is NOT all-or-nothing. -/
theorem C13_descriptor_functions_independent (env : Env) (conf : Conf) (o : Nat) (doc : String)
    (f g : Func) (s d : Option Func) (st : St) (hw : conf.warn = true) :
    (f.fails env conf = true → decorFuncObj env conf f st = ⟨f, ⟨st.next, st.warns + 1⟩, false⟩) ∧
    (f.fails env conf = false → decorFuncObj env conf f st = decorFunc env conf f st) ∧
    decorObject env conf (.cmeth o f) st =
      ⟨.cmeth (decorFuncObj env conf f st).st.next (decorFuncObj env conf f st).val,
       ⟨(decorFuncObj env conf f st).st.next + 1, (decorFuncObj env conf f st).st.warns⟩, false⟩ ∧
    decorObject env conf (.prop o doc g s d) st =
      (let rg := decorFuncObj env conf g st
       let rs := decorFuncObjOpt env conf s rg.st
       let rd := decorFuncObjOpt env conf d rs.st
       ⟨.prop rd.st.next doc rg.val rs.val rd.val, ⟨rd.st.next + 1, rd.st.warns⟩, false⟩) := by
  refine ⟨fun h => decorFuncObj_st_fails env conf f st hw h, fun h => decorFuncObj_not_fails env conf f st h, ?_, ?_⟩
  · have hf : (Member.cmeth o f).failsLeaf env conf = false := by simp [Member.failsLeaf, hw]
    have hr : (decorFuncObj env conf f st).raised = false := by rw [decorFuncObj_raised]; simp [hw]
    simp only [decorObject]
    rw [decorLeafObj_of_not_fails env conf _ st hf]
    simp [decorLeaf, hr]
  · have hf : (Member.prop o doc g s d).failsLeaf env conf = false := by simp [Member.failsLeaf, hw]
    simp only [decorObject]
    rw [decorLeafObj_of_not_fails env conf _ st hf, decorLeaf_of_not_fails_prop env conf o doc g s d st hf]

/-- **… and every other member is decorated exactly as if the failing one were absent.** Under the
    warning option, for a class dictionary `pre ++ [(nm, m)] ++ rest` whose member `m` (a plain
    function; a descriptor is rebuilt, see above) cannot be decorated: the members before it and the members after it are decorated to exactly the values
    (the very same wrappers and rebuilt descriptors, oid for oid) that the dictionary
    `pre ++ rest` without `m` gives; `m` itself stays; the only other difference is one more warning. -/
theorem C13_failing_member_as_if_absent (env : Env) (conf : Conf) (qual : List String)
    (pre rest : Members) (nm : String) (m : Member) (st : St)
    (hw : conf.warn = true) (h : m.failsLeaf env conf = true) :
    let a := specMembers env conf qual pre st
    let b := specMembers env conf qual rest a.st
    specMembers env conf qual (pre.append rest) st = ⟨a.val.append b.val, b.st, false⟩ ∧
    specMembers env conf qual (pre.append (.cons nm m rest)) st =
      ⟨a.val.append (.cons nm m b.val), ⟨b.st.next, b.st.warns + 1⟩, false⟩ := by
  intro a b
  have ha : a.raised = false := specMembers_warn env conf qual hw pre st
  have hb : b.raised = false := specMembers_warn env conf qual hw rest a.st
  have hk : ∀ k, m ≠ .klass k := by
    intro k e; subst e; simp [Member.failsLeaf] at h
  constructor
  · rw [specMembers_append]
    simp only [show (specMembers env conf qual pre st).raised = false from ha, Bool.false_eq_true, ↓reduceIte]
    show _ = (⟨a.val.append b.val, b.st, false⟩ : Res Members)
    rw [← hb]
  · rw [specMembers_append]
    simp only [show (specMembers env conf qual pre st).raised = false from ha, Bool.false_eq_true, ↓reduceIte]
    have hm : specMember env conf qual m a.st = ⟨m, ⟨a.st.next, a.st.warns + 1⟩, false⟩ := by
      rw [specMember_leaf env conf qual m a.st hk]
      exact decorLeafObj_of_fails_warn env conf m a.st hw h
    have hs := specMembers_shift env conf qual rest a.st 1
    simp only [specMembers]
    rw [show specMember env conf qual m (specMembers env conf qual pre st).st = _ from hm]
    simp only [Bool.false_eq_true, ↓reduceIte]
    rw [hs]
    simp only [Res.shift_val, Res.shift_st, Res.shift_raised]
    rw [show (specMembers env conf qual rest a.st).raised = false from hb]

/-- **Descriptor kind, name, docstring, signature are kept** — for the whole class at every
    nesting depth: attribute names and their order, the kind of every attribute (function /
    classmethod / staticmethod / property / class / other), the name, docstring and signature of
    every function inside, property docstrings, qualified names, and the inherited part — also for
    the half-decorated class an exception leaves behind. -/
theorem C13_kind_preserved (env : Env) (conf : Conf) (k : Klass) (st : St) (hwf : k.wf) :
    (decorClass env conf k st).val.shape = k.shape := by
  rw [C13_class_eq_members env conf k st hwf]; exact specClass_shape env conf k st

/-- … and for a member decorated by hand (`beartype(conf=…)(member)`). -/
theorem C13_kind_preserved_member (env : Env) (conf : Conf) (m : Member) (st : St) (hwf : m.wf) :
    (beartype env conf m st).val.shape = m.shape := by
  unfold beartype
  split
  · rfl
  · cases m with
    | klass k =>
      simp only [Member.wf] at hwf
      simp only [decorObject]
      rw [guard_klass_shape]
      simp only [Member.shape]
      exact C13_kind_preserved env conf k st hwf
    | other o => rfl
    | func f => simp only [decorObject]; exact decorLeafObj_shape ..
    | cmeth o f => simp only [decorObject]; exact decorLeafObj_shape ..
    | smeth o f => simp only [decorObject]; exact decorLeafObj_shape ..
    | prop o doc g s d => simp only [decorObject]; exact decorLeafObj_shape ..

/-- **The original is reachable as `__wrapped__`.** Decorating a function returns either the very
    object passed in (flagged `__no_type_check__` under strategy O0, nothing allocated; this
    includes the case in which the decoration raises) or a NEW object (its oid is the one allocated
    now) that carries the wrapper marker, the name, docstring, signature and annotations of the
    original, and `__wrapped__` = the original. -/
theorem C13_wrapped_original (env : Env) (conf : Conf) (f : Func) (st : St) :
    ((decorFunc env conf f st).val = (if conf.o0 then f.setNtc else f) ∧ (decorFunc env conf f st).st = st ∧
      (decorFunc env conf f st).val.oid = f.oid) ∨
    ((decorFunc env conf f st).st = ⟨st.next + 1, st.warns⟩ ∧ (decorFunc env conf f st).val.oid = st.next ∧
      (decorFunc env conf f st).raised = false ∧
      (decorFunc env conf f st).val.marker = true ∧ (decorFunc env conf f st).val.wrapped = some f ∧
      (decorFunc env conf f st).val.facts = f.facts ∧ (decorFunc env conf f st).val.ann = f.ann ∧ conf.o0 = false) := by
  func_bash f env conf

/-- allocation only moves forward: every object created by a decoration has an oid ≥ the counter
    it started from, so it is none of the objects that existed before (their oids are below it) -/
theorem C13_new_objects_fresh (env : Env) (conf : Conf) (f : Func) (st : St) (hf : f.oid < st.next) :
    (decorFunc env conf f st).val.oid = f.oid ∨
    (decorFunc env conf f st).val.oid ≠ f.oid ∧ st.next ≤ (decorFunc env conf f st).val.oid := by
  rcases decorFunc_oid env conf f st with ⟨h, _⟩ | ⟨h, _⟩
  · exact Or.inl h
  · right; rw [h]; omega

/-- **Decorating a class returns the same class object**: same oid, same qualified name, the
    inherited members untouched, and the class is marked as decorated exactly when no exception
    propagated out of its decoration. -/
theorem C13_same_object (env : Env) (conf : Conf) (k : Klass) (st : St) :
    (decorClass env conf k st).val.oid = k.oid ∧ (decorClass env conf k st).val.qual = k.qual ∧
    (decorClass env conf k st).val.inherited = k.inherited ∧
    ((decorClass env conf k st).raised = false → (decorClass env conf k st).val.beartyped = true) ∧
    ((decorClass env conf k st).raised = true → (decorClass env conf k st).val.beartyped = false) :=
  decorClass_fields env conf k st

/-- **Idempotence, classes.** Decorating an already decorated class (one whose decoration did not
    raise — always the case under the warning option) — with ANY configuration, in any interpreter
    mode — returns it unchanged (the same value: same class object, every attribute the same
    object), allocates nothing, issues no warning and raises nothing. -/
theorem C13_idempotent (env env' : Env) (conf conf' : Conf) (k : Klass) (st st' : St)
    (h : (decorClass env conf k st).raised = false) :
    decorClass env' conf' (decorClass env conf k st).val st' = ⟨(decorClass env conf k st).val, st', false⟩ :=
  decorClass_of_beartyped env' conf' _ st' ((decorClass_fields env conf k st).2.2.2.1 h)

/-- **Idempotence, functions.** Decorating the result of a decoration returns that result itself
    (the same object, nothing allocated): a beartype wrapper is never wrapped again, a function
    that was left alone is left alone again, and a function whose decoration raised makes it raise
    again. -/
theorem C13_idempotent_func (env : Env) (conf : Conf) (f : Func) (st st' : St) :
    decorFunc env conf (decorFunc env conf f st).val st' =
      ⟨(decorFunc env conf f st).val, st', (decorFunc env conf f st).raised⟩ :=
  decorFunc_idem env conf f st st'

/-- **Idempotence, any member.** `decor (decor o) = decor o`: for a function, classmethod,
    staticmethod or property the second application returns the SAME function objects (for the
    descriptors: inside a rebuilt descriptor object — equal up to the oid of the descriptor object
    itself) and raises iff the first did; for a class whose decoration did not raise, and for
    functions and other objects, the second application returns the SAME object and allocates
    nothing. -/
theorem C13_idempotent_member (env : Env) (conf : Conf) (m : Member) (st st' : St) :
    ((∀ k, m ≠ .klass k) ∨ (decorObject env conf m st).raised = false →
      (decorObject env conf (decorObject env conf m st).val st').val.core = (decorObject env conf m st).val.core ∧
      (decorObject env conf (decorObject env conf m st).val st').raised = (decorObject env conf m st).raised) ∧
    ((∃ f, m = .func f) ∨ (∃ k, m = .klass k) ∨ (∃ o, m = .other o) →
      (decorObject env conf m st).raised = false →
      (decorObject env conf (decorObject env conf m st).val st').val = (decorObject env conf m st).val ∧
      (decorObject env conf (decorObject env conf m st).val st').st.next = st'.next) := by
  by_cases hk : ∀ k, m ≠ .klass k
  · -- function, classmethod, staticmethod, property, other
    rw [decorObject_leaf env conf m st hk, decorObject_leaf env conf _ st' (decorLeafObj_not_klass env conf m st hk)]
    refine ⟨fun _ => decorLeafObj_idem env conf m st st', fun hkind hr => ?_⟩
    rcases hkind with ⟨f, rfl⟩ | ⟨k, rfl⟩ | ⟨o, rfl⟩
    · exact decorLeafObj_func_idem env conf f st st' hr
    · exact absurd rfl (hk k)
    · simp [decorLeafObj, decorLeaf, guard]
  · -- a class
    have ⟨k, hm⟩ : ∃ k, m = .klass k := by
      cases m with
      | klass k => exact ⟨k, rfl⟩
      | _ => exact absurd (by intro k e; cases e) hk
    subst hm
    have key : (decorObject env conf (.klass k) st).raised = false →
        decorObject env conf (decorObject env conf (.klass k) st).val st' =
          ⟨(decorObject env conf (.klass k) st).val, st', false⟩ := by
      intro hr
      have hv : (decorObject env conf (.klass k) st).val = .klass (decorClass env conf k st).val := by
        simp only [decorObject]; exact guard_klass_shape conf (decorClass env conf k st)
      rw [hv]
      by_cases hc : (decorClass env conf k st).raised = true
      · -- the decoration of the class raised: then it also propagates out of `decorObject` (the guard
        -- only ever swallows under the warning option, under which a class never raises)
        exfalso
        by_cases hw : conf.warn = true
        · have := decorClass_warn env conf k st hw; rw [this] at hc; cases hc
        · simp [decorObject, guard, hc, hw] at hr
      · have hc' : (decorClass env conf k st).raised = false := by simpa using hc
        have h := C13_idempotent env env conf conf k st st' hc'
        simp only [decorObject, h, guard, Bool.false_and, Bool.false_eq_true, ↓reduceIte]
    constructor
    · intro h
      rcases h with h | h
      · exact absurd rfl (h k)
      · rw [key h]; simp [h]
    · intro _ hr
      rw [key hr]; exact ⟨rfl, rfl⟩

/-- **No-op cases are identities, functions.** Unannotated, annotated with ignorable hints only,
    `@no_type_check`, already a beartype wrapper, or Python running with `-O`: the function comes
    back as the same unchanged object, nothing is allocated, nothing raises (whatever its hints).
    Under strategy O0 every function comes back as the same object (flagged `__no_type_check__` in
    place), nothing allocated, nothing raised. -/
theorem C13_noop_identity (env : Env) (conf : Conf) (f : Func) (st : St) :
    (conf.o0 = false →
      (env.optimized = true ∨ f.ann = .none ∨ f.ann = .ignorable ∨ f.ntc = true ∨ f.marker = true) →
      decorFunc env conf f st = ⟨f, st, false⟩) ∧
    (conf.o0 = true → decorFunc env conf f st = ⟨f.setNtc, st, false⟩) := by
  constructor
  · intro ho h
    revert h ho
    func_bash f env conf
  · intro ho
    revert ho
    func_bash f env conf

/-- **`python -O`: the public decorator is the identity** on every object (function, descriptor,
    class of any shape, hints of any kind), whatever the configuration; nothing raises. -/
theorem C13_noop_identity_optimized (env : Env) (conf : Conf) (m : Member) (k : Klass) (st : St)
    (h : env.optimized = true) :
    beartype env conf m st = ⟨m, st, false⟩ ∧ beartypeClass env conf k st = ⟨k, st, false⟩ := by
  simp [beartype, beartypeClass, h]

/-- **No-op cases are identities, whole classes.** If every function reachable through the members
    the class itself defines (at every nesting depth) is a no-op case — in particular for EVERY
    class under strategy O0 — then decorating the class creates no wrapper at all and raises
    nothing: up to the class markers, the `__no_type_check__` flags set by O0 and the oids of the
    rebuilt descriptor objects, the class is unchanged (the same function objects under the same
    names in the same kinds). -/
theorem C13_noop_identity_class (env : Env) (conf : Conf) (k : Klass) (st : St) (hwf : k.wf)
    (h : k.allNoop env conf = true) :
    (decorClass env conf k st).val.erase = k.erase ∧ (decorClass env conf k st).raised = false := by
  rw [C13_class_eq_members env conf k st hwf]; exact specClass_noop env conf k st h

/-- … under strategy O0 the hypothesis holds for every class. -/
theorem C13_noop_identity_O0 (env : Env) (conf : Conf) (k : Klass) (st : St) (hwf : k.wf)
    (ho : conf.o0 = true) :
    (decorClass env conf k st).val.erase = k.erase ∧ (decorClass env conf k st).raised = false := by
  apply C13_noop_identity_class env conf k st hwf
  have hf : ∀ f : Func, f.noop env conf = true := by intro f; simp [Func.noop, ho]
  have hfo : ∀ f : Option Func, Func.noopOpt env conf f = true := by
    intro f; cases f <;> simp [Func.noopOpt, hf]
  -- every member is a no-op when every function is
  have key : (∀ m : Member, m.allNoop env conf = true) ∧ (∀ k : Klass, k.allNoop env conf = true) ∧
      (∀ ms : Members, ms.allNoop env conf = true) := by
    refine ⟨fun m => ?_, fun k => ?_, fun ms => ?_⟩
    · exact Member.rec (motive_1 := fun m => m.allNoop env conf = true)
        (motive_2 := fun k => k.allNoop env conf = true) (motive_3 := fun ms => ms.allNoop env conf = true)
        (fun f => by simp [Member.allNoop, hf]) (fun _ f => by simp [Member.allNoop, hf])
        (fun _ f => by simp [Member.allNoop, hf]) (fun _ _ g s d => by simp [Member.allNoop, hf, hfo])
        (fun k ih => by simpa [Member.allNoop] using ih) (fun _ => by simp [Member.allNoop])
        (fun _ _ _ d _ ihd _ => by simpa [Klass.allNoop] using ihd)
        (by simp [Members.allNoop]) (fun _ _ _ ihm ihr => by simp [Members.allNoop, ihm, ihr]) m
    · exact Klass.rec (motive_1 := fun m => m.allNoop env conf = true)
        (motive_2 := fun k => k.allNoop env conf = true) (motive_3 := fun ms => ms.allNoop env conf = true)
        (fun f => by simp [Member.allNoop, hf]) (fun _ f => by simp [Member.allNoop, hf])
        (fun _ f => by simp [Member.allNoop, hf]) (fun _ _ g s d => by simp [Member.allNoop, hf, hfo])
        (fun k ih => by simpa [Member.allNoop] using ih) (fun _ => by simp [Member.allNoop])
        (fun _ _ _ d _ ihd _ => by simpa [Klass.allNoop] using ihd)
        (by simp [Members.allNoop]) (fun _ _ _ ihm ihr => by simp [Members.allNoop, ihm, ihr]) k
    · exact Members.rec (motive_1 := fun m => m.allNoop env conf = true)
        (motive_2 := fun k => k.allNoop env conf = true) (motive_3 := fun ms => ms.allNoop env conf = true)
        (fun f => by simp [Member.allNoop, hf]) (fun _ f => by simp [Member.allNoop, hf])
        (fun _ f => by simp [Member.allNoop, hf]) (fun _ _ g s d => by simp [Member.allNoop, hf, hfo])
        (fun k ih => by simpa [Member.allNoop] using ih) (fun _ => by simp [Member.allNoop])
        (fun _ _ _ d _ ihd _ => by simpa [Klass.allNoop] using ihd)
        (by simp [Members.allNoop]) (fun _ _ _ ihm ihr => by simp [Members.allNoop, ihm, ihr]) ms
  exact key.2.1 k

/-- **An already decorated class is returned unchanged** (any configuration, any mode). -/
theorem C13_noop_identity_decorated_class (env : Env) (conf : Conf) (k : Klass) (st : St)
    (h : k.beartyped = true) : decorClass env conf k st = ⟨k, st, false⟩ :=
  decorClass_of_beartyped env conf k st h

/-! ### Non-vacuity: a concrete class exercising every branch

```
class Base:           def inh(self, x: int): …
class AX:             def ext(self, x: int): …            # defined elsewhere, name extends "A"
class A(Base):
    def f(self, x: int) -> int: …                         # wrapped
    def u(self, x): …                                     # unannotated: same object
    @classmethod      def c(cls, x: int): …               # descriptor rebuilt around a wrapper
    @property         def p(self) -> int: … ; @p.setter def p(self, v: int): …
    class N:                                              # nested: recursed into
        @staticmethod def s(x: int): …
        class NN:     def g(self, x: int): …              # depth 2
    Alias = AX                                            # referenced, NOT decorated
    X = 3
```
-/
section Examples
def fn (oid : Nat) (nm : String) (a : Ann) : Func := .mk oid nm "doc" ["self", "x"] a false false none

def exAX : Klass := .mk 20 ["AX"] false (.cons "ext" (.func (fn 21 "ext" .checked)) .nil) .nil
def exNN : Klass := .mk 10 ["A", "N", "NN"] false (.cons "g" (.func (fn 11 "g" .checked)) .nil) .nil
def exN : Klass := .mk 7 ["A", "N"] false
  (.cons "s" (.smeth 8 (fn 9 "s" .checked)) (.cons "NN" (.klass exNN) .nil)) .nil
def exA : Klass := .mk 0 ["A"] false
  (.cons "f" (.func (fn 1 "f" .checked))
  (.cons "u" (.func (fn 2 "u" .none))
  (.cons "c" (.cmeth 3 (fn 4 "c" .checked))
  (.cons "p" (.prop 5 "pdoc" (fn 6 "p" .checked) (some (fn 12 "p" .checked)) none)
  (.cons "N" (.klass exN)
  (.cons "Alias" (.klass exAX)
  (.cons "X" (.other 13) .nil)))))))
  (.cons "inh" (.func (fn 30 "inh" .checked)) .nil)

def envN : Env := ⟨false⟩
def cDef : Conf := ⟨false, false⟩
def cO0 : Conf := ⟨true, false⟩
def cWarn : Conf := ⟨false, true⟩
def st100 : St := ⟨100, 0⟩

/-- which functions under the class's own members carry the wrapper marker, by name, depth-first -/
def markersOf : Members → List (String × Bool)
  | .nil => []
  | .cons nm m r =>
    (match m with
     | .func f => [(nm, f.marker)]
     | .cmeth _ f => [(nm, f.marker)]
     | .smeth _ f => [(nm, f.marker)]
     | .prop _ _ g s _ => [(nm, g.marker), (nm ++ ".setter", (s.map Func.marker).getD false)]
     | .klass k => (match k with | .mk _ _ bt d _ => (nm, bt) :: markersOf d)
     | .other _ => []) ++ markersOf r

example : exA.wf := by
  simp [Klass.wf, Members.wf, Member.wf, exA, exN, exNN, exAX, Members.names]

/-- the hypotheses are satisfiable and the conclusion is not trivial: f, c, p (getter and setter),
    N.s and N.NN.g are wrapped, u is not, the referenced class AX is not entered -/
example : markersOf (decorClass envN cDef exA st100).val.dict =
    [("f", true), ("u", false), ("c", true), ("p", true), ("p.setter", true),
     ("N", true), ("s", true), ("NN", true), ("g", true), ("Alias", false), ("ext", false)] := by
  decide

/-- eight new objects: wrappers of f, c, p, p.setter, s, g and… the rebuilt classmethod, property,
    staticmethod objects (6 + 3 = 9); no warning, no exception -/
example : (decorClass envN cDef exA st100).st = ⟨109, 0⟩ ∧ (decorClass envN cDef exA st100).raised = false := by
  decide

/-- strategy O0: nothing is wrapped, only the three descriptor objects are rebuilt -/
example : markersOf (decorClass envN cO0 exA st100).val.dict =
    [("f", false), ("u", false), ("c", false), ("p", false), ("p.setter", false),
     ("N", true), ("s", false), ("NN", true), ("g", false), ("Alias", false), ("ext", false)] ∧
    (decorClass envN cO0 exA st100).st.next = 103 := by decide

/-- `-O`: the identity -/
example : (beartypeClass ⟨true⟩ cDef exA st100).st.next = 100 := by decide

/-- the wrapper of `f` is a new object whose `__wrapped__` is `f` -/
example : ((decorFunc envN cDef (fn 1 "f" .checked) st100).val.oid,
           ((decorFunc envN cDef (fn 1 "f" .checked) st100).val.wrapped.map Func.oid)) = (100, some 1) := by decide

/-! A class with members that cannot be decorated:
```
class B:
    def a(self, x: int): …
    @classmethod      def cb(cls, x: NoReturn): …          # wrappee guarded on its own
    @property         def pb(self) -> int: … ; @pb.setter def pb(self, v: NoReturn): …   # accessors guarded one by one
    def bad(self, x: NoReturn): …
    class M:
        def g(self, x: int): … ; def mb(self, x: NoReturn): … ; def h(self, x: int): …
    def z(self, x: int): …
```
-/
def exM : Klass := .mk 50 ["B", "M"] false
  (.cons "g" (.func (fn 51 "g" .checked))
  (.cons "mb" (.func (fn 52 "mb" .failing))
  (.cons "h" (.func (fn 53 "h" .checked)) .nil))) .nil
def exB : Klass := .mk 40 ["B"] false
  (.cons "a" (.func (fn 41 "a" .checked))
  (.cons "cb" (.cmeth 42 (fn 43 "cb" .failing))
  (.cons "pb" (.prop 44 "pdoc" (fn 45 "pb" .checked) (some (fn 46 "pb" .failing)) none)
  (.cons "bad" (.func (fn 47 "bad" .failing))
  (.cons "M" (.klass exM)
  (.cons "z" (.func (fn 48 "z" .checked)) .nil)))))) .nil

example : exB.wf := by
  simp [Klass.wf, Members.wf, Member.wf, exB, exM, Members.names]

/-- under the warning option: four warnings (cb, the setter of pb, bad, M.mb; none for the classes),
    every decorable function wrapped — also those AFTER a failing one, and the getter of the
    half-bad property —, both classes marked, nothing propagates -/
example : markersOf (decorClass envN cWarn exB st100).val.dict =
    [("a", true), ("cb", false), ("pb", true), ("pb.setter", false), ("bad", false),
     ("M", true), ("g", true), ("mb", false), ("h", true), ("z", true)] ∧
    (decorClass envN cWarn exB st100).st.warns = 4 ∧ (decorClass envN cWarn exB st100).raised = false ∧
    (decorClass envN cWarn exB st100).val.beartyped = true := by decide

/-- without it: the decoration raises at `cb` (the first failing member in dictionary order); `a`
    is wrapped, nothing after `cb` is, neither class is marked, no warning -/
example : markersOf (decorClass envN cDef exB st100).val.dict =
    [("a", true), ("cb", false), ("pb", false), ("pb.setter", false), ("bad", false),
     ("M", false), ("g", false), ("mb", false), ("h", false), ("z", false)] ∧
    (decorClass envN cDef exB st100).st = ⟨101, 0⟩ ∧ (decorClass envN cDef exB st100).raised = true ∧
    (decorClass envN cDef exB st100).val.beartyped = false := by decide

/-- a nested class whose decoration raises is left half-decorated (g wrapped, h not) and the
    exception ends the loop of the enclosing class as well -/
example :
    let k : Klass := .mk 60 ["B"] false (.cons "M" (.klass exM) (.cons "z" (.func (fn 48 "z" .checked)) .nil)) .nil
    markersOf (decorClass envN cDef k st100).val.dict =
      [("M", false), ("g", true), ("mb", false), ("h", false), ("z", false)] ∧
    (decorClass envN cDef k st100).raised = true := by decide

/-- hypotheses of `C13_failing_member_left_alone` / `C13_failing_member_as_if_absent` are satisfiable -/
example : (Member.func (fn 47 "bad" .failing)).failsLeaf envN cWarn = true ∧
    (Member.prop 44 "pdoc" (fn 45 "pb" .checked) (some (fn 46 "pb" .failing)) none).failsLeaf envN cWarn = false ∧
    (Member.prop 44 "pdoc" (fn 45 "pb" .checked) (some (fn 46 "pb" .failing)) none).failsLeaf envN cDef = true ∧
    (fn 46 "pb" .failing).fails envN cWarn = true ∧
    (Member.cmeth 42 (fn 43 "cb" .failing)).failsLeaf envN cWarn = false ∧
    (Member.cmeth 42 (fn 43 "cb" .failing)).failsLeaf envN cDef = true := by decide
end Examples

end BearVerif.Decor
