import BearVerif.Props.C01
import BearVerif.Lemmas.BearCost2
import BearVerif.Lemmas.BearErrCost
/-!
  C09 — call-time checking cost does not grow with container size. Cost = number of
  container items read (`x[i]`, `next(iter(x))`, `next(iter(x.values()))`, `x[key]`),
  which `eval` counts.
-/
namespace BearVerif.Bear

variable (W : World) (conf : Conf) (r : Nat)

/-- **Items read ≤ a constant of the hint alone**, for every object of any size and
    nesting, accepted or rejected, every draw: at most one item per container level
    reached (a key and its value for mappings), summed over fixed-tuple positions and
    union members. -/
theorem C09_cost (h : Hint) (x : Obj) (env' : Env) (v : Val) (n : Nat)
    (he : eval W r (rootEnv x) (genRoot conf h) = some (v, env', n)) : n ≤ levels h := by
  have h1 := eval_le_bound W r _ _ _ _ _ he
  have h2 := pick_le_max v (genRoot conf h).bound
  have h3 := gen_cost conf h .var 0
  simp only [Expr.cost, Pith.cost, genRoot] at *
  omega

/-- combined with compiler correctness: the check always terminates with a verdict
    after reading at most `levels h` items -/
theorem C09_verdict_within_budget (hW : W.Wf) (h : Hint) (x : Obj) (hwf : h.WfIn W) (hi : h.ignorable = false)
    (hx : x.wf W = true) :
    ∃ env' n, eval W r (rootEnv x) (genRoot conf h) = some (.bool (chk W conf r h x), env', n) ∧ n ≤ levels h := by
  obtain ⟨env', n, he⟩ := C01_compile W hW conf r h x hwf hi hx
  exact ⟨env', n, he, C09_cost W conf r h x env' _ n he⟩

/-- one container level costs one item; one mapping level one key and one value -/
theorem C09_levels_examples (o c : Nat) :
    levels (.seq o (.cls c)) = 1 ∧ levels (.reit o (.seq o (.cls c))) = 2 ∧ levels (.quasi o (.cls c)) = 1 ∧
    levels (.mapping o (.cls c) (.cls c)) = 2 ∧ levels (.mapping o (.cls c) .any) = 1 ∧
    levels (.seq o .any) = 0 := by
  simp [levels, Hint.ignorable]

/-- a non-collection checked against Iterable[T]/Container[T]/Reversible[T] is not
    iterated at all: zero items read -/
theorem C09_noncollection_zero (o : Nat) (h : Hint) (x : Obj) (hnc : W.sub x.cls cCollection = false)
    (env' : Env) (v : Val) (n : Nat)
    (he : eval W r (rootEnv x) (genRoot conf (.quasi o h)) = some (v, env', n)) : n = 0 := by
  have hk : (rootEnv x) (pv 0) = some x := by simp [rootEnv]
  have ha : eval W r (rootEnv x) (Pith.asg .var 0) = some (.obj x, rootEnv x, 0) := by simp [Pith.asg, eval, hk]
  simp only [genRoot, gen] at he
  split at he
  · simp [Pith.raw, eval, hk] at he; omega
  · cases hs : W.sub x.cls o with
    | false =>
      rw [and_first_false W r ha (by simp [hs])] at he
      simp at he; omega
    | true =>
      have hnc' : eval W r (rootEnv x) (.not (.isinst (.var (pv (Pith.idx .var 0))) [cCollection])) =
          some (.bool true, rootEnv x, 0) := by
        rw [not_isinst W r (by simpa [Pith.idx] using hk)]; simp [hnc]
      rw [and_first_true W r ha (by simp [hs]) (or_true W r hnc')] at he
      simp at he; omega

/-- **The explanation path is bounded by the hint alone too.** When a check rejects, the violation finder (default
    O1 strategy) re-derives the cause; instrumented with the number of container items it looks at (`causeRC`,
    whose verdict is proved equal to the finder model `hasCause` of C03), it reads at most `causeBound h` items —
    one per container level, a key and a value per mapping level, the positions of fixed tuples, summed over union
    members — for every object of any size and nesting and every draw. -/
theorem C09_explainer_cost (h : Hint) (x : Obj) :
    (causeRC W conf r h x).1 = hasCause W conf r .O1 h x ∧ (causeRC W conf r h x).2 ≤ causeBound h :=
  ⟨causeRC_fst W conf r h x, causeRC_le W conf r h x⟩

/-- the bound does not mention the object: growing a container never grows it -/
example : causeBound (.seq 6 (.mapping 13 (.cls 10) (.seq 6 (.cls 7)))) = 4 := by decide +kernel

end BearVerif.Bear
