import BearVerif.Props.C01
import BearVerif.Lemmas.BearTable
import BearVerif.Extracted.BearTables
/-!
  C10 — checking never modifies or consumes the object being checked.

  How the model says it: the expression language `Expr` has no mutating construct at all
  (the code-level tie rejects any real generated code that leaves this language), and in
  `eval` every read that could consume or fail is GUARDED BY CAPABILITY: `len` needs a
  sized class, indexing an indexable one, `next(iter(x))` a class whose instances are
  safely re-iterable (`World.reiter`: collections) — applied to anything else (a one-shot
  iterator, a generator) `eval` yields `none`. "The generated code never evaluates to
  `none`" therefore includes "it never advances a one-shot iterable".
-/
namespace BearVerif.Bear

variable (W : World) (conf : Conf) (r : Nat)

/-- the encoding made explicit: iterating an object whose class is not safely
    re-iterable is an error of the model -/
theorem C10_iter_needs_reiterable (env : Env) (v : Var) (o : Obj) (hv : env v = some o) (hr : W.reiter o.cls = false) :
    eval W r env (.nextIter (.var v)) = none ∧ eval W r env (.nextIterValues (.var v)) = none := by
  simp [eval, hv, hr]

/-- **No check ever consumes its subject.** For every hint, every well-formed object —
    in particular one-shot iterators and generators, whose class is not re-iterable —
    every draw and both sampling modes, the generated code evaluates without error: no
    `next(iter(·))`, `len(·)` or `·[i]` is ever applied to an object lacking the capability. -/
theorem C10_never_consumes (hW : W.Wf) (h : Hint) (x : Obj) (hwf : h.WfIn W) (hi : h.ignorable = false)
    (hx : x.wf W = true) : eval W r (rootEnv x) (genRoot conf h) ≠ none := by
  obtain ⟨env', n, he⟩ := C01_compile W hW conf r h x hwf hi hx
  rw [he]; simp

/-- a quasi-iterable hint (Iterable[T], Container[T], Reversible[T]) on a
    non-collection decides by `isinstance` alone -/
theorem C10_noncollection_shallow (o : Nat) (h : Hint) (x : Obj) (hnc : W.sub x.cls cCollection = false) :
    chk W conf r (.quasi o h) x = W.sub x.cls o := by
  simp [chk, hnc]

/-- shallow hints (Iterator[T], Generator[...], AsyncIterator[T], Callable[...], …)
    generate an `isinstance` test and nothing else -/
theorem C10_shallow_is_isinstance (c : Nat) (p : Pith) (k : Nat) :
    gen conf (.shallow c) p k = .isinst (p.raw k) [c] := by simp [gen]

/-! ### the real sign tables (re-extracted from /repo and the running interpreter on every run) -/

/-- the extracted class table -/
def stdTable : Table :=
  { rows := Extracted.subRows, sized := Extracted.sizedBits, indexable := Extracted.indexableBits,
    reiter := Extracted.reiterBits, mapping := Extracted.mappingBits }

/-- the standard world satisfies the ABC facts every Bear-core theorem assumes (`W.Wf`) -/
theorem C10_table_world_wf (pred : Nat → Obj → Bool) : (stdTable.world pred).Wf :=
  stdTable.wf_of_check pred (by decide +kernel) (by decide +kernel)

/-- every origin of a SEQUENCE-logic sign (beartype's HINT_SIGNS_SEQUENCE) is indexable and sized -/
theorem C10_table_seq_caps (pred : Nat → Obj → Bool) :
    ∀ o ∈ Extracted.seqOrigins, CapSeq (stdTable.world pred) o := by
  intro o ho c hc
  have hall : Extracted.seqOrigins.all (fun o => decide (o < stdTable.rows.length) &&
      stdTable.checkCap o (fun c => bitAt stdTable.indexable c && bitAt stdTable.sized c)) = true := by decide +kernel
  have := List.all_eq_true.mp hall o ho
  simp only [Bool.and_eq_true, decide_eq_true_eq] at this
  have := stdTable.cap_of_check o _ this.1 this.2 c hc
  simpa [Table.world] using this

/-- every origin of a REITERABLE-logic sign (HINT_SIGNS_REITERABLE) is a sized, safely
    re-iterable Collection — so `next(iter(x))` never meets a one-shot iterator. Moving
    Iterator/Generator/… into that sign set breaks this theorem. -/
theorem C10_table_reit_caps (pred : Nat → Obj → Bool) :
    ∀ o ∈ Extracted.reitOrigins, CapReit (stdTable.world pred) o ∧
      ∀ c, (stdTable.world pred).sub c o = true → (stdTable.world pred).sub c cCollection = true := by
  intro o ho
  have hall : Extracted.reitOrigins.all (fun o => decide (o < stdTable.rows.length) &&
      stdTable.checkCap o (fun c => bitAt stdTable.sized c && bitAt stdTable.reiter c) &&
      stdTable.checkCap o (fun c => stdTable.sub c cCollection)) = true := by decide +kernel
  have := List.all_eq_true.mp hall o ho
  simp only [Bool.and_eq_true, decide_eq_true_eq] at this
  obtain ⟨⟨hlt, h1⟩, h2⟩ := this
  constructor
  · intro c hc
    have := stdTable.cap_of_check o _ hlt h1 c hc
    simpa [Table.world] using this
  · intro c hc
    exact stdTable.cap_of_check o _ hlt h2 c hc

/-- sequence origins are Collections too (what the explanation path relies on: `Hint.ErrWf`) -/
theorem C10_table_seq_collections (pred : Nat → Obj → Bool) :
    ∀ o ∈ Extracted.seqOrigins, ∀ c, (stdTable.world pred).sub c o = true → (stdTable.world pred).sub c cCollection = true := by
  intro o ho c hc
  have hall : Extracted.seqOrigins.all (fun o => decide (o < stdTable.rows.length) &&
      stdTable.checkCap o (fun c => stdTable.sub c cCollection)) = true := by decide +kernel
  have := List.all_eq_true.mp hall o ho
  simp only [Bool.and_eq_true, decide_eq_true_eq] at this
  exact stdTable.cap_of_check o _ this.1 this.2 c hc

/-- every MAPPING origin (HINT_SIGNS_MAPPING) is a sized, re-iterable mapping -/
theorem C10_table_map_caps (pred : Nat → Obj → Bool) :
    ∀ o ∈ Extracted.mapOrigins, CapMap (stdTable.world pred) o := by
  intro o ho c hc
  have hall : Extracted.mapOrigins.all (fun o => decide (o < stdTable.rows.length) &&
      stdTable.checkCap o (fun c => bitAt stdTable.sized c && (bitAt stdTable.reiter c && bitAt stdTable.mapping c))) = true := by
    decide +kernel
  have := List.all_eq_true.mp hall o ho
  simp only [Bool.and_eq_true, decide_eq_true_eq] at this
  have := stdTable.cap_of_check o _ this.1 this.2 c hc
  simpa [Table.world] using this

end BearVerif.Bear
