import BearVerif.Props.C01
/-!
  C10 — checking never modifies or consumes the object being checked.

  How the model says it: the expression language `Expr` has no mutating construct at all
  (the code-level tie rejects any real generated code that leaves this language), and in
  `eval` every read that could consume or fail is GUARDED BY CAPABILITY: `len` needs a
  sized class, indexing an indexable one, `next(iter(x))` a class whose instances are
  safely re-iterable (`World.reiter`: collections) — applied to anything else (a one-shot
  iterator, a generator) `eval` yields `none`. "The generated code never evaluates to
  `none`" therefore includes "it never advances a one-shot iterable".
-/
namespace BearVerif.Bear

variable (W : World) (conf : Conf) (r : Nat)

/-- the encoding made explicit: iterating an object whose class is not safely
    re-iterable is an error of the model -/
theorem C10_iter_needs_reiterable (env : Env) (v : Var) (o : Obj) (hv : env v = some o) (hr : W.reiter o.cls = false) :
    eval W r env (.nextIter (.var v)) = none ∧ eval W r env (.nextIterValues (.var v)) = none := by
  simp [eval, hv, hr]

/-- **No check ever consumes its subject.** For every hint, every well-formed object —
    in particular one-shot iterators and generators, whose class is not re-iterable —
    every draw and both sampling modes, the generated code evaluates without error: no
    `next(iter(·))`, `len(·)` or `·[i]` is ever applied to an object lacking the capability. -/
theorem C10_never_consumes (hW : W.Wf) (h : Hint) (x : Obj) (hwf : h.WfIn W) (hi : h.ignorable = false)
    (hx : x.wf W = true) : eval W r (rootEnv x) (genRoot conf h) ≠ none := by
  obtain ⟨env', n, he⟩ := C01_compile W hW conf r h x hwf hi hx
  rw [he]; simp

/-- a quasi-iterable hint (Iterable[T], Container[T], Reversible[T]) on a
    non-collection decides by `isinstance` alone -/
theorem C10_noncollection_shallow (o : Nat) (h : Hint) (x : Obj) (hnc : W.sub x.cls cCollection = false) :
    chk W conf r (.quasi o h) x = W.sub x.cls o := by
  simp [chk, hnc]

/-- shallow hints (Iterator[T], Generator[...], AsyncIterator[T], Callable[...], …)
    generate an `isinstance` test and nothing else -/
theorem C10_shallow_is_isinstance (c : Nat) (p : Pith) (k : Nat) :
    gen conf (.shallow c) p k = .isinst (p.raw k) [c] := by simp [gen]

end BearVerif.Bear
