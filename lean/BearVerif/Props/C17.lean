import BearVerif.Lemmas.Conf
import BearVerif.Extracted.Conf
/-!
  C17 — property theorems. Statements use only definitions of `Core/Conf.lean`
  (`confNew` = `BeartypeConf.__new__`, `run`/`runFrom` = a history of constructions,
  `normArgs` = the pure normalisation "bind, alias, environment colour, default, validate,
  numeric tower", `kwargsOf`/`readback`/`confEq`/`confHash`) and the table extracted from /repo.

  Every theorem is for EVERY well-formed option table `t` (in particular the extracted
  `confTable`, `C17_table_wf`), EVERY history `ops` and EVERY keyword dictionary.
-/
namespace BearVerif.Conf
open BearVerif.Extracted

/-! ## the extracted table -/

/-- The table read from /repo on this run satisfies the side conditions of the theorems below
    (deprecated names are not options; the options named by `get_is_color`, `default_conf_kwargs`
    and `sanify_conf_kwargs` exist with the validators those functions rely on; the unpassed
    sentinel compares unequal to `True`, `False`, `None`). -/
theorem C17_table_wf : confTable.wf = true := by decide

/-- `die_if_conf_kwargs_invalid` ends with the generic "every value is hashable" test — the model's
    `validArgs` includes `hashable`, this is the extracted evidence that the code does too. -/
theorem C17_table_hash_check : confHashCheck = true := by decide

/-! ## same arguments -> same object, in any keyword order -/

/-- **Memoisation, every history.** Whatever `BeartypeConf(**kw)` returned (an object) or raised
    after a history `ops1`, the same call after ANY further history `ops2` returns that very
    object (raises that very exception) and leaves the memo table as it is. -/
theorem C17_same_args_same_obj (t : Table) (hwf : t.wf = true) (ops1 ops2 : List Op)
    (env : Option String) (kw : RawKwargs) :
    let first := confNew t (run t ops1) env kw
    let later := runFrom t first.1 ops2
    confNew t later env kw = (later, first.2) := by
  intro first later
  have hw := wf_of hwf
  cases hn : normArgs t env kw with
  | error r =>
    have hz : normalize t env kw = .error r := by simp [normalize, hn]
    have : first.2 = r := by simp [first, confNew_err hz]
    rw [confNew_err hz, this]
  | ok a =>
    have hna := normArgs_normal hw hn
    obtain ⟨i, rest, h1, hinv1, hi, hk⟩ := confNew_ok (run_inv hw ops1) hn hna
    have hf1 : first.1 = run t ops1 ++ rest := by simp [first, h1]
    have hf2 : first.2 = .conf i := by simp [first, h1]
    obtain ⟨rest2, h2, hinv2⟩ := runFrom_inv hw ops2 (hf1 ▸ hinv1)
    have hl : later = first.1 ++ rest2 := h2
    have hi2 : i < later.length := by rw [hl, hf1]; simp at hi ⊢; omega
    have hk2 : later[i].key = keyOf t a := by
      have : later[i] = (run t ops1 ++ rest)[i] := by
        simp only [hl, hf1]
        exact List.getElem_append_left hi
      rw [this]; exact hk
    have hinvl : Inv t later := by rw [hl]; exact hinv2
    have hz : normalize t env kw = .ok (keyOf t a) := by simp [normalize, hn]
    simp only [confNew, hz, lookup_of_getElem hinvl hi2 hk2, hf2]

/-- **Keyword order is irrelevant.** -/
theorem C17_kw_order (t : Table) (cache : Cache) (env : Option String) (kw kw' : RawKwargs)
    (hp : kw.Perm kw') (hnd : (kw.map (·.1)).Nodup) :
    confNew t cache env kw = confNew t cache env kw' := by
  simp only [confNew, normalize, normArgs, bindArgs_perm t hp hnd]

/-! ## differing arguments -> different, unequal objects; `==` is identity; hash agrees -/

/-- **Two successful calls anywhere in a history return the same object iff their normalised
    arguments are identical** (`normArgs` = the passed arguments after the documented adjustments:
    alias folding, `${BEARTYPE_IS_COLOR}`, `violation_*_type` defaulting, numeric-tower merge). -/
theorem C17_same_obj_iff_same_normalised_args (t : Table) (hwf : t.wf = true) (ops1 ops2 : List Op)
    (e1 e2 : Option String) (k1 k2 : RawKwargs) (a1 a2 : Args)
    (h1 : normArgs t e1 k1 = .ok a1) (h2 : normArgs t e2 k2 = .ok a2) :
    let first := confNew t (run t ops1) e1 k1
    let second := confNew t (runFrom t first.1 ops2) e2 k2
    ∃ i j, first.2 = .conf i ∧ second.2 = .conf j ∧ (i = j ↔ keyOf t a1 = keyOf t a2) := by
  intro first second
  have hw := wf_of hwf
  obtain ⟨i, rest, hc1, hinv1, hi, hk⟩ := confNew_ok (run_inv hw ops1) h1 (normArgs_normal hw h1)
  have hf1 : first.1 = run t ops1 ++ rest := by simp [first, hc1]
  obtain ⟨rest2, hr2, hinv2⟩ := runFrom_inv hw ops2 (hf1 ▸ hinv1)
  obtain ⟨j, rest3, hc2, hinv3, hj, hkj⟩ := confNew_ok (hr2 ▸ hinv2) h2 (normArgs_normal hw h2)
  refine ⟨i, j, by simp [first, hc1], by simp [second, hc2], ?_⟩
  -- both objects live in the final table
  have hfin : runFrom t first.1 ops2 ++ rest3 = (run t ops1 ++ rest) ++ (rest2 ++ rest3) := by
    rw [hr2, hf1]; simp [List.append_assoc]
  have hi3 : i < (runFrom t first.1 ops2 ++ rest3).length := by
    rw [hfin, List.length_append]; omega
  have hki : (runFrom t first.1 ops2 ++ rest3)[i].key = keyOf t a1 := by
    have : (runFrom t first.1 ops2 ++ rest3)[i] = (run t ops1 ++ rest)[i] := by
      simp only [hfin]
      exact List.getElem_append_left hi
    rw [this]; exact hk
  constructor
  · intro e
    subst e
    rw [← hki, ← hkj]
  · intro e
    exact hinv3.2 i j hi3 hj (by rw [hki, hkj, e]; exact pyEqL_refl _)

/-- **Differing arguments give unequal configurations**: if some option normalises differently the
    two objects differ and `==` between them is False (both directions of creation order are
    instances of this statement). -/
theorem C17_diff_args_unequal (t : Table) (hwf : t.wf = true) (ops1 ops2 : List Op)
    (e1 e2 : Option String) (k1 k2 : RawKwargs) (a1 a2 : Args)
    (h1 : normArgs t e1 k1 = .ok a1) (h2 : normArgs t e2 k2 = .ok a2)
    (o : Opt) (ho : o ∈ t.opts) (hdiff : a1 o.name ≠ a2 o.name) :
    let first := confNew t (run t ops1) e1 k1
    let second := confNew t (runFrom t first.1 ops2) e2 k2
    ∃ i j c d, first.2 = .conf i ∧ second.2 = .conf j ∧ i ≠ j ∧
      second.1[i]? = some c ∧ second.1[j]? = some d ∧ confEq c d = false ∧ confEq d c = false := by
  intro first second
  have hw := wf_of hwf
  have hkeys : keyOf t a1 ≠ keyOf t a2 := by
    intro e
    unfold keyOf at e
    exact hdiff (List.map_inj_left.mp e o ho)
  obtain ⟨i, rest, hc1, hinv1, hi, hk⟩ := confNew_ok (run_inv hw ops1) h1 (normArgs_normal hw h1)
  have hf1 : first.1 = run t ops1 ++ rest := by simp [first, hc1]
  obtain ⟨rest2, hr2, hinv2⟩ := runFrom_inv hw ops2 (hf1 ▸ hinv1)
  obtain ⟨j, rest3, hc2, hinv3, hj, hkj⟩ := confNew_ok (hr2 ▸ hinv2) h2 (normArgs_normal hw h2)
  have hfin : runFrom t first.1 ops2 ++ rest3 = (run t ops1 ++ rest) ++ (rest2 ++ rest3) := by
    rw [hr2, hf1]; simp [List.append_assoc]
  have hi3 : i < (runFrom t first.1 ops2 ++ rest3).length := by
    rw [hfin, List.length_append]; omega
  have hki : (runFrom t first.1 ops2 ++ rest3)[i].key = keyOf t a1 := by
    have : (runFrom t first.1 ops2 ++ rest3)[i] = (run t ops1 ++ rest)[i] := by
      simp only [hfin]
      exact List.getElem_append_left hi
    rw [this]; exact hk
  have hs1 : second.1 = runFrom t first.1 ops2 ++ rest3 := by simp [second, hc2]
  have hne : pyEqL (keyOf t a1) (keyOf t a2) = false := by
    cases hp : pyEqL (keyOf t a1) (keyOf t a2) with
    | false => rfl
    | true => exact absurd (normal_keys_eq (normArgs_normal hw h1) (normArgs_normal hw h2) hp) hkeys
  have hne' : pyEqL (keyOf t a2) (keyOf t a1) = false := by
    cases hp : pyEqL (keyOf t a2) (keyOf t a1) with
    | false => rfl
    | true => rw [pyEqL_symm hp] at hne; exact absurd hne (by simp)
  refine ⟨i, j, (runFrom t first.1 ops2 ++ rest3)[i], (runFrom t first.1 ops2 ++ rest3)[j],
    by simp [first, hc1], by simp [second, hc2], ?_, ?_, ?_, ?_, ?_⟩
  · intro e; subst e; exact hkeys (by rw [← hki, ← hkj])
  · rw [hs1]; exact List.getElem?_eq_getElem hi3
  · rw [hs1]; exact List.getElem?_eq_getElem hj
  · simp only [confEq, hki, hkj, hne]
  · simp only [confEq, hki, hkj, hne']

/-- **`==` on configurations is object identity** after every history (so "equal" and "same
    object" coincide, and unequal objects never compare equal). -/
theorem C17_eq_iff_same_obj (t : Table) (hwf : t.wf = true) (ops : List Op) (i j : Nat)
    (hi : i < (run t ops).length) (hj : j < (run t ops).length) :
    confEq (run t ops)[i] (run t ops)[j] = true ↔ i = j := by
  constructor
  · exact (run_inv (wf_of hwf) ops).2 i j hi hj
  · intro e; subst e; exact pyEqL_refl _

/-- **Hash agrees with equality** (for any two configurations whatsoever). -/
theorem C17_hash_eq (c d : Conf) (h : confEq c d = true) : confHash c = confHash d := by
  simpa [confEq, confHash, pyEqL] using h

/-- **No look-alike reaches the memo table**: two values accepted by the validator of one option
    that compare `==` are the same value (`1`, `1.0`, `Decimal(1)`, an `IntEnum` member of another
    class … are rejected before the lookup instead of hitting the entry of `True`). -/
theorem C17_valid_equal_identical (k : Kind) (a b : Val) (ha : validKind k a = true) (hb : validKind k b = true)
    (h : pyEq a b = true) : a = b :=
  valid_canon_inj ha hb (by simpa [pyEq] using h)

/-! ## read-back -/

/-- **Read-back, every history**: the object returned for `kw` carries exactly the normalised
    arguments — in `kwargs` (which keeps the private default of
    `warning_cls_on_decorator_exception`) and in every public property (where that private
    default reads as `None`). -/
theorem C17_readback (t : Table) (hwf : t.wf = true) (ops : List Op) (env : Option String) (kw : RawKwargs)
    (a : Args) (h : normArgs t env kw = .ok a) :
    let r := confNew t (run t ops) env kw
    ∃ i c, r.2 = .conf i ∧ r.1[i]? = some c ∧
      kwargsOf t c = (t.opts.map (·.name)).zip (keyOf t a) ∧
      ∀ n ∈ t.opts.map (·.name), readback t c n =
        if n = "warning_cls_on_decorator_exception" ∧ a n = t.warnDefault then .none else a n := by
  intro r
  have hw := wf_of hwf
  obtain ⟨i, rest, hc, _, hi, hk⟩ := confNew_ok (run_inv hw ops) h (normArgs_normal hw h)
  refine ⟨i, (run t ops ++ rest)[i], by simp [r, hc], ?_, by simp [kwargsOf, hk], ?_⟩
  · have : r.1 = run t ops ++ rest := by simp [r, hc]
    rw [this]; exact List.getElem?_eq_getElem hi
  · intro n hn
    have hl : lookupKw (kwargsOf t (run t ops ++ rest)[i]) n = some (a n) := by
      simp only [kwargsOf, hk, keyOf]
      rw [lookupKw_zip t.opts a n]; simp [hn]
    simp only [readback, hl, Option.getD_some]

/-- **… as passed**: an option passed under its own name (its deprecated alias not passed), other
    than the three documented adjustments (`is_color` under `${BEARTYPE_IS_COLOR}`, `None` for a
    defaulted `violation_*_type`, `hint_overrides` under `is_pep484_tower=True`), normalises to — hence
    reads back as — exactly the passed value. -/
theorem C17_readback_as_passed (t : Table) (env : Option String) (kw : RawKwargs) (a : Args)
    (h : normArgs t env kw = .ok a) (n : String) (o : Opt) (v : Val)
    (ho : findOpt t n = some o) (hv : lookupKw kw n = some v)
    (hal : ∀ old, aliasOf t n = some old → lookupKw kw old = none)
    (hcolor : n ≠ "is_color") (hfb : t.fallbacks.lookup n = none ∨ v ≠ .none)
    (htower : n ≠ "hint_overrides" ∨ a "is_pep484_tower" ≠ .bool true) : a n = v := by
  obtain ⟨ic, _, _, _, ht⟩ := normArgs_shape h
  have hb := bindArgs_passed ho hv hal
  have h2 : defaulted t (upd (bindArgs t kw) "is_color" ic) n = v := by
    simp only [defaulted, upd, hcolor, ↓reduceIte, hb]
    cases hl : t.fallbacks.lookup n with
    | none => rfl
    | some fb =>
      rcases hfb with e | e
      · simp [hl] at e
      · simp [e]
  rcases htower with e | e
  · rw [towerStep_other ht e, h2]
  · by_cases e' : n = "hint_overrides"
    · subst e'
      by_cases hp : defaulted t (upd (bindArgs t kw) "is_color" ic) "is_pep484_tower" = .bool true
      · exfalso
        apply e
        rw [towerStep_other ht (show "is_pep484_tower" ≠ "hint_overrides" by decide)]
        exact hp
      · unfold towerStep at ht
        rw [if_neg hp] at ht
        simp only [Except.ok.injEq] at ht
        rw [← ht, h2]
    · rw [towerStep_other ht e', h2]

/-- adjustment 1 — `${BEARTYPE_IS_COLOR}`: unset, `is_color` is what was passed (the unpassed
    sentinel, or anything `==` to it, reading as `None`); set to a recognised string, it is that
    string's value whatever was passed. -/
theorem C17_readback_is_color (t : Table) (hwf : t.wf = true) (env : Option String) (kw : RawKwargs) (a : Args)
    (h : normArgs t env kw = .ok a) :
    match env with
    | none => a "is_color" =
        if pyEq (bindArgs t kw "is_color") t.unpassed then .none else bindArgs t kw "is_color"
    | some s => t.colorEnv.lookup s = some (a "is_color") := by
  have hw := wf_of hwf
  obtain ⟨oc, hoc, hock⟩ := hw.color
  have hnf := not_fallback_of_kind hw hoc (by rw [hock]; decide)
  obtain ⟨ic, hic, _, _, ht⟩ := normArgs_shape h
  have hav : a "is_color" = ic := by
    rw [towerStep_other ht (by decide)]; simp [defaulted, hnf, upd]
  cases env with
  | none =>
    simp only [getIsColor, Except.ok.injEq] at hic
    simp only
    rw [hav, hic]
  | some s =>
    simp only [getIsColor] at hic
    simp only
    cases hl : t.colorEnv.lookup s with
    | none => simp [hl] at hic
    | some ov =>
      simp only [hl, Except.ok.injEq] at hic
      rw [hav, hic]

/-- adjustment 2 — a `violation_door/param/return_type` left `None` reads back as
    `violation_type` if that is not `None`, else as its own default class. -/
theorem C17_readback_violation_default (t : Table) (hwf : t.wf = true) (env : Option String) (kw : RawKwargs)
    (a : Args) (h : normArgs t env kw = .ok a) (n : String) (fb : Val)
    (hfb : t.fallbacks.lookup n = some fb) (hnone : bindArgs t kw n = .none) :
    a n = orElse (a "violation_type") fb ∧ a "violation_type" = bindArgs t kw "violation_type" := by
  have hw := wf_of hwf
  obtain ⟨oc, hoc, hock⟩ := hw.color
  obtain ⟨oh, hoh, hohk⟩ := hw.overrides
  have hn1 : n ≠ "is_color" := by
    intro e; subst e
    rw [not_fallback_of_kind hw hoc (by rw [hock]; decide)] at hfb; cases hfb
  have hn2 : n ≠ "hint_overrides" := by
    intro e; subst e
    rw [not_fallback_of_kind hw hoh (by rw [hohk]; decide)] at hfb; cases hfb
  obtain ⟨ic, _, _, _, ht⟩ := normArgs_shape h
  have hvt : a "violation_type" = bindArgs t kw "violation_type" := by
    rw [towerStep_other ht (by decide)]
    simp [defaulted, hw.vt_not_fallback, upd]
  refine ⟨?_, hvt⟩
  rw [towerStep_other ht hn2, hvt]
  simp [defaulted, hfb, upd, hn1, hnone]

/-- adjustment 3 — under `is_pep484_tower=True` the passed `hint_overrides` holds no conflicting
    `float`/`complex` entry and reads back with both entries replaced by the tower's. -/
theorem C17_readback_tower (t : Table) (hwf : t.wf = true) (env : Option String) (kw : RawKwargs)
    (a : Args) (h : normArgs t env kw = .ok a) (htow : a "is_pep484_tower" = .bool true) :
    ∃ f c r hh ki, bindArgs t kw "hint_overrides" = .fdict f c r hh ki ∧ f.conflict = false ∧ c.conflict = false ∧
      a "hint_overrides" = .fdict .tower .tower r hh false := by
  have hw := wf_of hwf
  obtain ⟨oh, hoh, hohk⟩ := hw.overrides
  obtain ⟨ic, _, _, hv, ht⟩ := normArgs_shape h
  have hho : defaulted t (upd (bindArgs t kw) "is_color" ic) "hint_overrides" = bindArgs t kw "hint_overrides" := by
    simp [defaulted, not_fallback_of_kind hw hoh (by rw [hohk]; decide), upd]
  have hval := (validArgs_at hv (findOpt_some hoh).1).1
  rw [hohk, (findOpt_some hoh).2, hho] at hval
  have htow2 : defaulted t (upd (bindArgs t kw) "is_color" ic) "is_pep484_tower" = .bool true := by
    rw [← towerStep_other ht (by decide)]; exact htow
  unfold towerStep at ht
  rw [if_pos htow2, hho] at ht
  cases hb : bindArgs t kw "hint_overrides" with
  | fdict f c r hh ki =>
    simp only [hb] at ht
    by_cases hc : (f.conflict || c.conflict) = true
    · simp [hc] at ht
    · simp only [hc, Bool.false_eq_true, ↓reduceIte, Except.ok.injEq] at ht
      simp only [Bool.or_eq_true, not_or, Bool.not_eq_true] at hc
      exact ⟨f, c, r, hh, ki, rfl, hc.1, hc.2, by rw [← ht]; simp [upd]⟩
  | _ => simp [hb, validKind] at hval

/-! ## `BeartypeConf(**conf.kwargs) is conf` -/

/-- **Round trip, every history**: for every configuration object `i` that exists after a history,
    `BeartypeConf(**conf.kwargs)` returns that very object and creates nothing — provided
    `${BEARTYPE_IS_COLOR}` is unset or names the colour the configuration already has. -/
theorem C17_roundtrip (t : Table) (hwf : t.wf = true) (ops : List Op) (i : Nat) (hi : i < (run t ops).length)
    (env : Option String) (henv : EnvOK t env (readback t (run t ops)[i] "is_color")) :
    step t (run t ops) (.again env i) = (run t ops, .conf i) := by
  have hw := wf_of hwf
  have hinv := run_inv hw ops
  obtain ⟨a, hk, hna⟩ := hinv.1 (run t ops)[i] (List.getElem_mem hi)
  obtain ⟨oc, hoc, _⟩ := hw.color
  have hrb : readback t (run t ops)[i] "is_color" = a "is_color" := by
    have hl : lookupKw (kwargsOf t (run t ops)[i]) "is_color" = some (a "is_color") := by
      simp only [kwargsOf, hk, keyOf]
      rw [lookupKw_zip t.opts a "is_color"]; simp [findOpt_mem_names hoc]
    simp [readback, hl]
  rw [hrb] at henv
  have hc : (run t ops)[i] = ⟨keyOf t a⟩ := by
    cases hh : (run t ops)[i] with
    | mk key => simp only [hh] at hk; rw [hk]
  simp only [step, List.getElem?_eq_getElem hi, hc]
  simp only [confNew, normalize_kwargsOf hw hna henv, lookup_of_getElem hinv hi (by rw [hc])]

/-! ## invalid values: rejected uniformly, never a raw exception -/

/-- **Uniform outcome**: whether `BeartypeConf(**kw)` raises, and which exception, does not depend
    on the memo table (on what was created before); a raising call leaves the table alone. -/
theorem C17_invalid_uniform (t : Table) (cache cache' : Cache) (env : Option String) (kw : RawKwargs)
    (r : Result) (h : (confNew t cache env kw).2 = r) (hr : ∀ i, r ≠ .conf i) :
    confNew t cache' env kw = (cache', r) := by
  cases hn : normalize t env kw with
  | error r' =>
    rw [confNew_err hn] at h ⊢
    simp only at h
    rw [h]
  | ok key =>
    exfalso
    simp only [confNew, hn] at h
    cases hl : lookup cache key with
    | some i => simp only [hl] at h; exact hr i h.symm
    | none => simp only [hl] at h; exact hr _ h.symm

/-- **An invalid or unhashable option value is BeartypeConfParamException, whatever the history**:
    if the value bound to option `n` (other than `is_color`, which the environment may override;
    and not the `None` that a `violation_*_type` is defaulted from) fails the option's validator or is
    unhashable, the call raises BeartypeConfParamException from every memo-table state — provided
    `${BEARTYPE_IS_COLOR}` itself is not garbage (then BeartypeConfShellVarException comes first). -/
theorem C17_invalid_rejected (t : Table) (cache : Cache) (env : Option String) (kw : RawKwargs)
    (n : String) (o : Opt) (ho : findOpt t n = some o) (hcolor : n ≠ "is_color")
    (hfb : t.fallbacks.lookup n = none ∨ bindArgs t kw n ≠ .none)
    (hbad : validKind o.kind (bindArgs t kw n) = false ∨ hashable (bindArgs t kw n) = false)
    (henv : ∀ s, env = some s → (t.colorEnv.lookup s).isSome = true) :
    confNew t cache env kw = (cache, .paramExc) := by
  apply confNew_err
  obtain ⟨hom, hon⟩ := findOpt_some ho
  simp only [normalize, normArgs]
  cases hic : getIsColor t env (bindArgs t kw "is_color") with
  | error r =>
    exfalso
    cases env with
    | none => simp [getIsColor] at hic
    | some s =>
      have := henv s rfl
      simp only [getIsColor] at hic
      cases hl : t.colorEnv.lookup s with
      | none => simp [hl] at this
      | some ov => simp [hl] at hic
  | ok ic =>
    simp only
    cases hd : defaultStep t (upd (bindArgs t kw) "is_color" ic) with
    | error r =>
      unfold defaultStep at hd
      split at hd
      · simp only [Except.error.injEq] at hd; rw [← hd]
      · simp at hd
    | ok a2 =>
      have ha2 : a2 n = bindArgs t kw n := by
        unfold defaultStep at hd
        split at hd
        · simp at hd
        · simp only [Except.ok.injEq] at hd
          rw [← hd]
          simp only [defaulted, upd, hcolor, ↓reduceIte]
          rcases hfb with e | e
          · simp [e]
          · cases t.fallbacks.lookup n <;> simp [e]
      have hinval : validArgs t a2 = false := by
        unfold validArgs
        rw [List.all_eq_false]
        refine ⟨o, hom, ?_⟩
        rw [hon, ha2]
        rcases hbad with e | e <;> simp [e]
      simp [hinval]

/-- **Never a raw exception** (no `TypeError: unhashable type`, nothing but the two documented
    exception classes): the result of a construction is an object, BeartypeConfParamException or
    BeartypeConfShellVarException. -/
theorem C17_no_raw_error (t : Table) (cache : Cache) (env : Option String) (kw : RawKwargs) :
    (confNew t cache env kw).2 ≠ .rawError := by
  have hnorm : ∀ r, normalize t env kw = .error r → r ≠ .rawError := by
    intro r hr
    simp only [normalize, normArgs] at hr
    cases hic : getIsColor t env (bindArgs t kw "is_color") with
    | error r' =>
      simp only [hic, Except.error.injEq] at hr
      subst hr
      unfold getIsColor at hic
      split at hic
      · split at hic
        · simp at hic
        · simp only [Except.error.injEq] at hic; rw [← hic]; simp
      · simp at hic
    | ok ic =>
      simp only [hic] at hr
      cases hd : defaultStep t (upd (bindArgs t kw) "is_color" ic) with
      | error r' =>
        simp only [hd, Except.error.injEq] at hr
        subst hr
        unfold defaultStep at hd
        split at hd
        · simp only [Except.error.injEq] at hd; rw [← hd]; simp
        · simp at hd
      | ok a2 =>
        simp only [hd] at hr
        by_cases hv : validArgs t a2 = true
        · simp only [hv, ↓reduceIte] at hr
          cases ht : towerStep a2 with
          | ok a3 => simp [ht] at hr
          | error r' =>
            simp only [ht, Except.error.injEq] at hr
            subst hr
            unfold towerStep at ht
            split at ht
            · split at ht
              · split at ht
                · simp only [Except.error.injEq] at ht; rw [← ht]; simp
                · simp at ht
              · simp at ht
            · simp at ht
        · simp only [hv, Bool.false_eq_true, ↓reduceIte, Except.error.injEq] at hr
          rw [← hr]; simp
  cases hn : normalize t env kw with
  | error r => rw [confNew_err hn]; exact hnorm r hn
  | ok key =>
    simp only [confNew, hn]
    cases lookup cache key <;> simp

/-! ## non-vacuity: the hypotheses above are satisfiable, on the extracted table -/

/-- `BeartypeConf(is_debug=True)` then `BeartypeConf(is_debug=1)`: the second call raises
    BeartypeConfParamException (the first hit of the unrepaired code), the table keeps one entry -/
example : (resultsFrom confTable [] [.new none [("is_debug", .bool true)], .new none [("is_debug", .num .int 1)],
    .new none [("is_debug", .bool true)]]) = [.conf 0, .paramExc, .conf 0] := by decide

/-- unhashable values — the invalid `hint_overrides={int: str}` and the otherwise valid
    `claw_skip_package_names=['a']` — are BeartypeConfParamException -/
example : (resultsFrom confTable [] [.new none [("hint_overrides", .dict 1 false)],
    .new none [("claw_skip_package_names", .coll .list [.str "a" true])],
    .new none [("claw_skip_package_names", .coll .tuple [.str "a" true])]]) = [.paramExc, .paramExc, .conf 0] := by decide

/-- `BeartypeConf()`, `BeartypeConf(is_pep484_tower=True)` and their `kwargs` round trips -/
example : (resultsFrom confTable [] [.new none [], .new none [("is_pep484_tower", .bool true)],
    .again none 0, .again none 1, .again (some "None") 0, .again (some "True") 0]) =
    [.conf 0, .conf 1, .conf 0, .conf 1, .conf 0, .conf 2] := by decide

/-- keyword order, differing arguments, environment override, garbage environment -/
example : (resultsFrom confTable [] [
    .new none [("is_debug", .bool true), ("strategy", .enum 1 3)],
    .new none [("strategy", .enum 1 3), ("is_debug", .bool true)],
    .new none [("strategy", .enum 1 3)],
    .new (some "True") [("is_color", .num .int 7)],
    .new none [("is_color", .bool true)],
    .new (some "rubbish") []]) = [.conf 0, .conf 0, .conf 1, .conf 2, .conf 2, .shellVarExc] := by decide

end BearVerif.Conf
