import BearVerif.Props.C03
/-!
  C18 — hint-rewriting options behave exactly like rewriting the hints by hand.

  `hint_overrides={A: B}` (and `is_pep484_tower=True`, which beartype folds into
  `hint_overrides` as float ↦ float | int, complex ↦ complex | float | int at
  configuration time: _confoverrides.py) is applied by `_reduce_hint_overrides` FIRST in
  every reduction of every (child) hint, guarded against self-recursive overrides
  (`A ↦ A | B` is expanded once). `rewrite` is that function on the model's hints; a
  replacement that is a union lands inside unions and is flattened by the union factory
  (`flattenU`). The theorems: rewriting reaches every depth, expands once, and flattening
  changes neither the published meaning nor the sampled check; the violation_type family
  never changes a verdict (`C03_signal_verdict_invariant`).
  That the REAL options produce the same code and verdicts as the REAL hand-rewritten
  hints is the metamorphic tie of the C18 check.
-/
namespace BearVerif.Bear

variable (W : World) (conf : Conf) (r : Nat)

mutual
/-- replace every class `c` with `ov c` when defined — at every nesting depth, once
    (the replacement itself is not rewritten again: the recursion guard) -/
def rewrite (ov : Nat → Option Hint) : Hint → Hint
  | .any => .any
  | .cls c => (ov c).getD (.cls c)
  | .shallow c => .shallow c
  | .union hs => .union (rewriteList ov hs)
  | .literal ls => .literal ls
  | .tupleFixed hs => .tupleFixed (rewriteList ov hs)
  | .seq o h => .seq o (rewrite ov h)
  | .reit o h => .reit o (rewrite ov h)
  | .quasi o h => .quasi o (rewrite ov h)
  | .mapping o k v => .mapping o (rewrite ov k) (rewrite ov v)
  | .typeOf cs => .typeOf cs
  | .annotated h vs => .annotated (rewrite ov h) vs
  | .generic c bs => .generic c (rewriteList ov bs)
def rewriteList (ov : Nat → Option Hint) : List Hint → List Hint
  | [] => []
  | h :: hs => rewrite ov h :: rewriteList ov hs
end

mutual
/-- splice nested unions into their parent union, at every depth
    (`_get_hint_pep484604_union_args_flattened`) -/
def flattenU : Hint → Hint
  | .union hs => .union (flattenMembers hs)
  | .tupleFixed hs => .tupleFixed (flattenList hs)
  | .seq o h => .seq o (flattenU h)
  | .reit o h => .reit o (flattenU h)
  | .quasi o h => .quasi o (flattenU h)
  | .mapping o k v => .mapping o (flattenU k) (flattenU v)
  | .annotated h vs => .annotated (flattenU h) vs
  | .generic c bs => .generic c (flattenList bs)
  | h => h
/-- members of a union, nested unions spliced in -/
def flattenMembers : List Hint → List Hint
  | [] => []
  | .union gs :: hs => flattenMembers gs ++ flattenMembers hs
  | h :: hs => flattenU h :: flattenMembers hs
def flattenList : List Hint → List Hint
  | [] => []
  | h :: hs => flattenU h :: flattenList hs
end

theorem chkAny_append (as bs : List Hint) (x : Obj) :
    chkAny W conf r (as ++ bs) x = (chkAny W conf r as x || chkAny W conf r bs x) := by
  induction as with
  | nil => simp [chkAny]
  | cons a as ih => simp [chkAny, ih, Bool.or_assoc]

theorem satAny_append (as bs : List Hint) (x : Obj) :
    satAny W (as ++ bs) x = (satAny W as x || satAny W bs x) := by
  induction as with
  | nil => simp [satAny]
  | cons a as ih => simp [satAny, ih, Bool.or_assoc]

mutual
/-- **Flattening never changes the sampled check**: a union produced by an override inside
    a union behaves exactly like the hand-written flat union, for every object and draw. -/
theorem C18_flatten_chk : ∀ (h : Hint) (x : Obj), chk W conf r (flattenU h) x = chk W conf r h x
  | .any, _ | .cls _, _ | .shallow _, _ | .literal _, _ | .typeOf _, _ => by simp [flattenU]
  | .union hs, x => by simp only [flattenU, chk]; exact flattenMembers_chk hs x
  | .tupleFixed hs, x => by
    simp only [flattenU, chk]
    rw [flattenList_length hs, flattenList_chk hs x.items]
  | .seq o h, x => by
    simp only [flattenU, chk]
    cases x.items[pickIdx conf r x.items.length]? with
    | none => rfl
    | some y => simp [C18_flatten_chk h y]
  | .reit o h, x => by
    simp only [flattenU, chk]
    cases x.items.head? with
    | none => rfl
    | some y => simp [C18_flatten_chk h y]
  | .quasi o h, x => by
    simp only [flattenU, chk]
    cases (if W.sub x.cls cSequence = true then x.items[pickIdx conf r x.items.length]? else x.items.head?) with
    | none => rfl
    | some y => simp [C18_flatten_chk h y]
  | .mapping o k v, x => by
    simp only [flattenU, chk]
    cases x.items.head? with
    | none => rfl
    | some k0 =>
      cases x.vals.head? with
      | none => simp [C18_flatten_chk k k0]
      | some v0 => simp [C18_flatten_chk k k0, C18_flatten_chk v v0]
  | .annotated h vs, x => by simp [flattenU, chk, C18_flatten_chk h x]
  | .generic c bs, x => by simp only [flattenU, chk]; rw [flattenList_chkEvery bs x]
theorem flattenMembers_chk : ∀ (hs : List Hint) (x : Obj),
    chkAny W conf r (flattenMembers hs) x = chkAny W conf r hs x
  | [], _ => rfl
  | .union gs :: hs, x => by
    simp only [flattenMembers, chkAny_append, chkAny, chk]
    rw [flattenMembers_chk gs x, flattenMembers_chk hs x]
  | .any :: hs, x | .cls _ :: hs, x | .shallow _ :: hs, x | .literal _ :: hs, x | .typeOf _ :: hs, x => by
    simp [flattenMembers, chkAny, flattenU, flattenMembers_chk hs x]
  | .tupleFixed gs :: hs, x => by
    simp only [flattenMembers, chkAny]; rw [C18_flatten_chk (.tupleFixed gs) x, flattenMembers_chk hs x]
  | .seq o g :: hs, x => by
    simp only [flattenMembers, chkAny]; rw [C18_flatten_chk (.seq o g) x, flattenMembers_chk hs x]
  | .reit o g :: hs, x => by
    simp only [flattenMembers, chkAny]; rw [C18_flatten_chk (.reit o g) x, flattenMembers_chk hs x]
  | .quasi o g :: hs, x => by
    simp only [flattenMembers, chkAny]; rw [C18_flatten_chk (.quasi o g) x, flattenMembers_chk hs x]
  | .mapping o k v :: hs, x => by
    simp only [flattenMembers, chkAny]; rw [C18_flatten_chk (.mapping o k v) x, flattenMembers_chk hs x]
  | .annotated g vs :: hs, x => by
    simp only [flattenMembers, chkAny]; rw [C18_flatten_chk (.annotated g vs) x, flattenMembers_chk hs x]
  | .generic c bs :: hs, x => by
    simp only [flattenMembers, chkAny]; rw [C18_flatten_chk (.generic c bs) x, flattenMembers_chk hs x]
theorem flattenList_chk : ∀ (hs : List Hint) (ys : List Obj),
    chkZip W conf r (flattenList hs) ys = chkZip W conf r hs ys
  | [], _ => by simp [flattenList, chkZip]
  | _ :: _, [] => by simp [flattenList, chkZip]
  | h :: hs, y :: ys => by simp [flattenList, chkZip, C18_flatten_chk h y, flattenList_chk hs ys]
theorem flattenList_chkEvery : ∀ (hs : List Hint) (x : Obj),
    chkEvery W conf r (flattenList hs) x = chkEvery W conf r hs x
  | [], _ => by simp [flattenList, chkEvery]
  | h :: hs, x => by simp [flattenList, chkEvery, C18_flatten_chk h x, flattenList_chkEvery hs x]
theorem flattenList_length : ∀ (hs : List Hint), (flattenList hs).length = hs.length
  | [] => rfl
  | _ :: hs => by simp [flattenList, flattenList_length hs]
end

/-- **Rewriting reaches every depth**: under a container the item hint is rewritten. -/
theorem C18_rewrite_every_depth (ov : Nat → Option Hint) (o : Nat) (h k v : Hint) :
    rewrite ov (.seq o h) = .seq o (rewrite ov h) ∧ rewrite ov (.reit o h) = .reit o (rewrite ov h) ∧
    rewrite ov (.quasi o h) = .quasi o (rewrite ov h) ∧
    rewrite ov (.mapping o k v) = .mapping o (rewrite ov k) (rewrite ov v) := by
  simp [rewrite]

/-- **An overridden class is replaced, once** — also for a self-recursive override
    `A ↦ A | B` (the replacement still mentions `A`, which is not expanded again). -/
theorem C18_rewrite_once (ov : Nat → Option Hint) (c : Nat) (h' : Hint) (hc : ov c = some h') :
    rewrite ov (.cls c) = h' := by simp [rewrite, hc]

/-- the numeric tower as an override map: float ↦ float | int, complex ↦ complex | float | int -/
def towerMap (cInt cFloat cComplex : Nat) (c : Nat) : Option Hint :=
  if c = cFloat then some (.union [.cls cFloat, .cls cInt])
  else if c = cComplex then some (.union [.cls cComplex, .cls cFloat, .cls cInt])
  else none

/-- **is_pep484_tower**: a float position accepts exactly floats and ints, at any depth
    (here: as the item hint of a sequence; other positions alike by `C18_rewrite_every_depth`). -/
theorem C18_tower_float (cInt cFloat cComplex o : Nat) (hne : cFloat ≠ cComplex) (x : Obj) :
    chk W conf r (flattenU (rewrite (towerMap cInt cFloat cComplex) (.seq o (.cls cFloat)))) x =
    chk W conf r (.seq o (.union [.cls cFloat, .cls cInt])) x := by
  rw [C18_flatten_chk]
  simp [rewrite, towerMap]

/-- the violation_type family selects only the class of the signal, never the verdict -/
theorem C18_violation_type_verdict_invariant (isWarning : Nat → Bool) (s s' : Signals) (kind : PithKind) (verdict : Bool) :
    (outcome isWarning s kind verdict = .accepted) = (outcome isWarning s' kind verdict = .accepted) :=
  C03_signal_verdict_invariant isWarning s s' kind verdict

end BearVerif.Bear
