import BearVerif.Lemmas.Pyc
/-!
  C16 — property theorems (statements only use definitions of `Core/Pyc.lean`).

  `runHist tg World.init rs` executes the history `rs` of interpreter runs (each with its own
  hook registrations, source edits before it, imports) over one source tree starting from an empty
  cache, under the marker recipe `tg`; `spec` is "the run's configuration for that module applied to
  the current source". `crun` executes concurrent imports of one run under a schedule, with
  `importlib._bootstrap_external.cache_from_source` as a shared variable.

  The recipe is a parameter: `extractedTag` is what /repo does NOW (re-observed on every run,
  `Extracted/Pyc.lean`), `legacyTag` the unrepaired constant marker, `fixedTag` the repaired one.
-/
namespace BearVerif.Pyc

/-! ## clause 1 — hooked and unhooked caches never mix -/

/-- **No mixing, every history, any recipe that never yields the stock name.** Every import names its
    cache file by the tag of the CURRENT run's configuration for that module, and that tag is the
    stock one iff the module is not hooked; and every file left on disk holds untransformed code iff
    its name is the stock one, otherwise code transformed with the shape of a configuration whose
    marker is exactly the file's tag. -/
theorem C16_no_mix (tg : Conf → Tag) (hne : TagNonempty tg) (rs : List Run) :
    (∀ rc ∈ (runHist tg World.init rs).2, ∀ o ∈ rc.obs,
        o.tag = tagOf tg (rc.run.hook o.mod) ∧ (o.tag = "" ↔ rc.run.hook o.mod = none)) ∧
    (∀ k e, dget (runHist tg World.init rs).1.disk k = some e →
        (k.2 = "" ↔ e.code.shape = none) ∧ ∀ s, e.code.shape = some s → ∃ c, shapeOf c = s ∧ tg c = k.2) := by
  constructor
  · intro rc hrc o ho
    have h := runHist_tag tg rs World.init rc hrc o ho
    refine ⟨h, ?_⟩
    rw [h]
    cases hh : rc.run.hook o.mod with
    | none => simp [tagOf]
    | some c => simpa [tagOf] using hne c
  · intro k e hke
    obtain ⟨_, h2, h3⟩ := runHist_inv (P := fun _ => True) rs World.init (histIn_true rs) (inv_nil tg _) k e hke
    refine ⟨⟨fun hk => ?_, h2⟩, fun s hs => ?_⟩
    · cases hsh : e.code.shape with
      | none => rfl
      | some s =>
        obtain ⟨c, _, _, ht⟩ := h3 s hsh
        exact absurd (ht.trans hk) (hne c)
    · obtain ⟨c, _, h5, h6⟩ := h3 s hs
      exact ⟨c, h5, h6⟩

/-- the recipe observed on /repo never yields the stock name (re-decided on every run against the
    freshly extracted table), and unhooked modules get the stock name -/
theorem C16_no_mix_extracted_recipe :
    TagNonempty extractedTag ∧ Extracted.pycUnhookedTag = tagOf extractedTag none := by
  refine ⟨fun c => (shapeTagNonemptyB_iff extractedShapeTag).mp (by decide) (shapeOf c), by decide⟩

/-! ## clause 2 — cached bytecode is never stale -/

/-- **Never stale, every history, every recipe.** Whatever a run executes for a module was compiled
    from the source version current in that run. -/
theorem C16_not_stale_src (tg : Conf → Tag) (rs : List Run) :
    ∀ rc ∈ (runHist tg World.init rs).2, ∀ o ∈ rc.obs, o.beh.src = rc.src o.mod :=
  runHist_src (P := fun _ => True) rs World.init (histIn_true rs) (inv_nil tg _)

/-- **An edit invalidates.** A cache file whose stamp differs from the source is not reused: the
    module is recompiled with the current configuration. -/
theorem C16_not_stale_src_edit (tg : Conf → Tag) (d : Disk) (h : Option Conf) (m : Mod) (v : Nat) (e : Entry)
    (he : dget d (m, tagOf tg h) = some e) (hne : e.stamp ≠ v) :
    (load tg d h m v).reused = false ∧ (load tg d h m v).code = compile h v :=
  load_recompiles tg d h m v e he hne

/-! ## clause 3 — the current configuration applied to the current source -/

/-- **Full statement, for every recipe whose marker determines the AST shape** (the repaired recipe
    `fixedTag` is one, see `C16_current_conf_fixed`): in every history every imported module behaves
    as its configuration in THAT run applied to the source as it is in that run. -/
theorem C16_current_conf (tg : Conf → Tag) (hne : TagNonempty tg) (hinj : ShapeInjective tg) (rs : List Run) :
    CurrentConf tg rs :=
  runHist_spec (good_of tg hne hinj) rs World.init (histIn_true rs) (inv_nil tg _)

/-- **Exact characterisation.** The clause holds for every history iff the marker determines the shape. -/
theorem C16_current_conf_iff (tg : Conf → Tag) (hne : TagNonempty tg) :
    (∀ rs, CurrentConf tg rs) ↔ ShapeInjective tg := by
  constructor
  · intro H c₁ c₂ ht
    apply Classical.byContradiction
    intro hs
    exact twoRuns_breaks tg c₁ c₂ ht hs (H _)
  · exact fun hinj rs => C16_current_conf tg hne hinj rs

def confNoPep526 : Conf := ⟨false, .lastBeforeHostile, .last, 1⟩
def confHooked : Conf := ⟨true, .lastBeforeHostile, .last, 1⟩

/-- F-C16a witness: `[run(hook claw_is_pep526=False) ; run(hook default)]` over one module -/
def witnessHistory : List Run :=
  [⟨fun _ => some confNoPep526, [], ["pkg.ma"]⟩, ⟨fun _ => some confHooked, [], ["pkg.ma"]⟩]

/-- **The clause is FALSE for the unrepaired recipe** (`'beartype' + version`, configuration
    ignored): the second run reuses the first run's file and drops the PEP 526 checks. -/
theorem C16_current_conf_counterexample : ¬ CurrentConf legacyTag witnessHistory := by
  intro H
  have := H ⟨⟨fun _ => some confHooked, [], ["pkg.ma"]⟩, fun _ => 0,
      [⟨"pkg.ma", legacyTag confHooked, true, behave (some confHooked) ⟨0, some (shapeOf confNoPep526)⟩⟩]⟩
    (by simp [witnessHistory, runHist, runImports, load, dget, dput, tagOf, World.init, applyEdits, compile, legacyTag])
    _ (List.mem_singleton.mpr rfl)
  revert this
  decide

/-- … and the same two runs in the other order add checks the current configuration switched off -/
theorem C16_current_conf_counterexample_reverse : ¬ CurrentConf legacyTag witnessHistory.reverse := by
  intro H
  have := H ⟨⟨fun _ => some confNoPep526, [], ["pkg.ma"]⟩, fun _ => 0,
      [⟨"pkg.ma", legacyTag confNoPep526, true, behave (some confNoPep526) ⟨0, some (shapeOf confHooked)⟩⟩]⟩
    (by simp [witnessHistory, runHist, runImports, load, dget, dput, tagOf, World.init, applyEdits, compile, legacyTag])
    _ (List.mem_singleton.mpr rfl)
  revert this
  decide

/-- **Partial, any recipe: histories whose hooked runs share one AST shape** (any run may be
    unhooked, any edits, any run-time options such as violation types). -/
theorem C16_current_conf_partial (tg : Conf → Tag) (hne : TagNonempty tg) (S : Shape) (rs : List Run)
    (hS : ∀ r ∈ rs, ∀ m c, r.hook m = some c → shapeOf c = S) : CurrentConf tg rs :=
  runHist_spec (P := fun c => shapeOf c = S) ⟨fun c _ => hne c, fun _ _ h₁ h₂ _ => h₁.trans h₂.symm⟩
    rs World.init hS (inv_nil tg _)

/-- Partial, general form: it suffices that the marker separates the shapes that OCCUR in the history. -/
theorem C16_current_conf_partial_occurring (tg : Conf → Tag) (P : Conf → Prop) (rs : List Run)
    (hP : ∀ r ∈ rs, ∀ m c, r.hook m = some c → P c) (hne : ∀ c, P c → tg c ≠ "")
    (hinj : ∀ c₁ c₂, P c₁ → P c₂ → tg c₁ = tg c₂ → shapeOf c₁ = shapeOf c₂) : CurrentConf tg rs :=
  runHist_spec ⟨hne, hinj⟩ rs World.init hP (inv_nil tg _)

/-- **The repaired recipe** (marker + `p<0|1>f<place>t<place>c<0|1>`) satisfies the full statement. -/
theorem C16_current_conf_fixed (rs : List Run) : CurrentConf fixedTag rs :=
  C16_current_conf fixedTag fixedTag_nonempty fixedTag_injective rs

/-- **The recipe /repo uses now**: the full statement holds as soon as the observed table is
    injective (the driver evaluates `shapeTagInjectiveB extractedShapeTag` on every run and the
    harness reports which case applies: `false` on the unrepaired code, where
    `C16_current_conf_iff` says the clause fails and the harness exhibits it). -/
theorem C16_current_conf_extracted (h : shapeTagInjectiveB extractedShapeTag = true) (rs : List Run) :
    CurrentConf extractedTag rs :=
  C16_current_conf extractedTag C16_no_mix_extracted_recipe.1
    (fun _ _ ht => (shapeTagInjectiveB_iff _).mp h _ _ ht) rs

/-! ## clause 4 — concurrent imports within a run -/

/-- **Partial: serial schedules** (threads import one after the other, in any order), any recipe
    that determines the shape on the configurations in use, any cache state reachable by such
    runs: every module behaves as specified, the cache invariant survives and the global is
    restored. -/
theorem C16_concurrent_partial (tg : Conf → Tag) (P : Conf → Prop) (hne : ∀ c, P c → tg c ≠ "")
    (hinj : ∀ c₁ c₂, P c₁ → P c₂ → tg c₁ = tg c₂ → shapeOf c₁ = shapeOf c₂)
    (hook : Mod → Option Conf) (hP : ∀ m c, hook m = some c → P c) (src : Mod → Nat) (d : Disk) (hd : Inv tg P d)
    (mods : Nat → Mod) (n : Nat) (order : List Nat) (hnd : order.Nodup) (hall : ∀ i, i < n → i ∈ order) :
    ConcurrentOk tg hook src d mods n (serial order) ∧
    Inv tg P (crun tg hook src (CState.init hook d mods) (serial order)).disk ∧
    (crun tg hook src (CState.init hook d mods) (serial order)).patch = none := by
  obtain ⟨h1, h2, h3, _⟩ := serial_ok ⟨hne, hinj⟩ hook src hP mods order (CState.init hook d mods) hnd rfl hd
    (fun i _ => rfl)
  exact ⟨fun _ i hi => (h3 i (hall i hi)).2, h1, h2⟩

def hookPkgOnly : Mod → Option Conf := fun m => if m = "pkg.ma" ∨ m = "pkg.mb" then some confHooked else none
def hookBoth : Mod → Option Conf := fun _ => some confHooked

/-- the cache after a sequential run that hooked `other` as well and imported `other.mc` -/
def diskOtherHooked : Disk := (runImports fixedTag hookBoth (fun _ => 0) [] ["other.mc"]).1

/-- **The clause is FALSE (F-C16b), even with the repaired marker.** Run hooking only `pkg`;
    thread 0 imports hooked `pkg.ma`, thread 1 unhooked `other.mc`; schedule: 0 patches the global,
    1 names its file (gets the marked name), finds the transformed file of an earlier run that
    hooked `other`, and executes it although `other` is not hooked now. -/
theorem C16_concurrent_counterexample :
    ¬ ConcurrentOk fixedTag hookPkgOnly (fun _ => 0) diskOtherHooked
        (fun i => if i = 0 then "pkg.ma" else "other.mc") 2 [0, 1, 1, 0, 0, 0, 0] := by
  unfold ConcurrentOk
  decide

/-- Second witness: two hooked imports. 0 patches; 1 patches, imports, restores the ORIGINAL; 0 now
    names its file with the stock name and writes transformed code there. In that run both modules
    still behave as specified — -/
theorem C16_concurrent_counterexample_leak_run_ok :
    ConcurrentOk fixedTag hookPkgOnly (fun _ => 0) []
        (fun i => if i = 0 then "pkg.ma" else "pkg.mb") 2 [0, 1, 1, 1, 1, 1, 0, 0, 0, 0] := by
  unfold ConcurrentOk
  decide

/-- — but the stock-named file now holds transformed code, and the next, UNHOOKED run executes it. -/
theorem C16_concurrent_counterexample_leak :
    let d := (crun fixedTag hookPkgOnly (fun _ => 0) (CState.init hookPkgOnly []
        (fun i => if i = 0 then "pkg.ma" else "pkg.mb")) [0, 1, 1, 1, 1, 1, 0, 0, 0, 0]).disk
    (∃ e, dget d ("pkg.ma", "") = some e ∧ e.code.shape ≠ none) ∧
    ¬ ∀ o ∈ (runImports fixedTag (fun _ => none) (fun _ => 0) d ["pkg.ma"]).2, o.beh = spec none 0 := by
  decide

/-- Hence the full-strength concurrent statement (every schedule) is false. -/
theorem C16_concurrent_false :
    ¬ ∀ (hook : Mod → Option Conf) (d : Disk), Inv fixedTag (fun _ => True) d → ∀ (mods : Nat → Mod) (sched : List Nat),
        ConcurrentOk fixedTag hook (fun _ => 0) d mods 2 sched := by
  intro H
  refine C16_concurrent_counterexample (H hookPkgOnly diskOtherHooked ?_ _ _)
  exact runImports_inv hookBoth _ (fun _ _ _ => trivial) ["other.mc"] [] (inv_nil _ _)

/-! ## non-vacuity -/

/-- the hypotheses of `C16_current_conf` are satisfiable (by the repaired recipe) … -/
example : TagNonempty fixedTag ∧ ShapeInjective fixedTag := ⟨fixedTag_nonempty, fixedTag_injective⟩

/-- … and the statement is about something: a five-run history (hook; unhooked; other shape after an
    edit; unhooked; that shape again) — four compiles, one reuse, three cache files side by side -/
example :
    let rs : List Run := [⟨fun _ => some confHooked, [], ["pkg.ma"]⟩, ⟨fun _ => none, [], ["pkg.ma"]⟩,
                          ⟨fun _ => some confNoPep526, [("pkg.ma", 1)], ["pkg.ma"]⟩,
                          ⟨fun _ => none, [], ["pkg.ma"]⟩, ⟨fun _ => some confNoPep526, [], ["pkg.ma"]⟩]
    ((runHist fixedTag World.init rs).2.map fun rc => rc.obs.map fun o => (o.reused, o.beh.src)) =
      [[(false, 0)], [(false, 0)], [(false, 1)], [(false, 1)], [(true, 1)]] ∧
    (runHist fixedTag World.init rs).1.disk.length = 3 := by
  decide

/-- the partial theorem's hypothesis is satisfiable by a history that the unrepaired recipe handles
    correctly: same shape, different violation types (`rt`), an unhooked run in between -/
example : ∀ r ∈ ([⟨fun _ => some ⟨true, .lastBeforeHostile, .last, 1⟩, [], ["pkg.ma"]⟩, ⟨fun _ => none, [], ["pkg.ma"]⟩,
      ⟨fun _ => some ⟨true, .lastBeforeHostile, .last, 2⟩, [], ["pkg.ma"]⟩] : List Run),
    ∀ m c, r.hook m = some c → shapeOf c = ⟨true, .lastBeforeHostile, .last, true⟩ := by
  intro r hr m c h
  simp only [List.mem_cons, List.not_mem_nil, or_false] at hr
  rcases hr with rfl | rfl | rfl <;> simp at h <;> subst h <;> decide

end BearVerif.Pyc
