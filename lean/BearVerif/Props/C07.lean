import BearVerif.Lemmas.Fwd
/-!
  C07 — property theorems: string and postponed annotations are checked exactly like evaluated ones
  (statements only use definitions of `Core/Fwd.lean`; PARTIAL, see the module header there).

  Reading guide. `evalH hp lk false e` is Python evaluating the annotation `e`; `decorVal s fr cs` is what the
  decorator stores for the callable `fr` (every string resolved by `resolveStr` in the forward scope, unbound names
  becoming proxies); `force s h` is the hint a call in state `s` checks against (`RH`), `resolveProxy` one step of
  the proxy state machine; `specNow` the hint Python's own scoping prescribes at that moment. A check is a function
  of that `RH`, the object and the draw — equal `RH`s are equal verdicts for EVERY such function (`C07_checked_alike`).
-/
namespace BearVerif.Fwd
set_option linter.unusedSimpArgs false

/-! ## 1. the string / postponed forms denote what the evaluated form denotes -/

/-- **C07_equiv.** When every name of the (string-free) annotation `e` is bound to the same object in the forward
    scope the decorator builds as Python's evaluation sees (and the whole-string short cut for components of the
    qualified name does not apply), the callable annotated with the string `'e'` — written as a literal or produced
    by `from __future__ import annotations` — is stored with exactly the hint of the callable annotated with the
    evaluated `e`. Structural induction over `e` (`evalH_congr`). -/
theorem C07_equiv (s : St) (fr : FuncRec) (cs : List (Name × Nat)) (e : HExpr) (v : H)
    (hplain : e.plain = true)
    (hpy : evalH s.heap (pyLk s fr.lex) false e = .ok v)
    (hagree : ∀ n ∈ e.names, fwLk s fr cs n = pyLk s fr.lex n)
    (hshort : shortcut s fr cs e = none) :
    decorVal s { fr with hint0 := .str e } cs = .ok v := by
  have hfw : fwLk s { fr with hint0 := .str e } cs = fwLk s fr cs := rfl
  have hsc : shortcut s { fr with hint0 := .str e } cs e = shortcut s fr cs e := rfl
  simp only [decorVal, resolveH, resolveStr, hsc, hshort, hfw]
  rw [evalH_congr s.heap (fwLk s fr cs) (pyLk s fr.lex) true e hagree, evalH_plain s.heap _ e hplain]
  exact hpy

/-- **C07_equiv, third variant** (strings only at some names: `list['A']`, `Optional['A']`): Python evaluates the
    rest, the resolver the quoted names; if each quoted name resolves (no short cut) to what Python's lookup gives,
    the stored hint is again that of the evaluated form. (`|` with a string operand is a TypeError in Python, hence
    `borFree`; attribute chains stay unquoted.) -/
theorem C07_equiv_leaves (s : St) (fr : FuncRec) (cs : List (Name × Nat)) (e : HExpr) (v : H) (q : Name → Bool)
    (hplain : e.plain = true) (hbf : e.borFree = true)
    (hpy : evalH s.heap (pyLk s fr.lex) false e = .ok v)
    (hh : HeapClosed s.heap) (hl : ∀ n w, pyLk s fr.lex n = .ok w → w.closed = true)
    (hagree : ∀ n, q n = true → fwLk s fr cs n = pyLk s fr.lex n)
    (hshort : ∀ n, q n = true → shortcut s fr cs (.name n) = none) :
    ∃ w, evalH s.heap (pyLk s fr.lex) false (quoteLeaves q e) = .ok w ∧
      decorVal s { fr with hint0 := w } cs = .ok v := by
  have hrs : ∀ n, q n = true → resolveStr s fr cs (.name n) = pyLk s fr.lex n := by
    intro n hq
    simp only [resolveStr, hshort n hq, evalH]
    exact hagree n hq
  obtain ⟨w, hw1, hw2⟩ := leaves_core s.heap (pyLk s fr.lex) (resolveStr s fr cs) q hh hl hrs e v hplain hbf hpy
  exact ⟨w, hw1, hw2⟩

/-- … and the evaluated form is stored unchanged (nothing to resolve in a proxy- and string-free hint). -/
theorem C07_equiv_evaluated (s : St) (fr : FuncRec) (cs : List (Name × Nat)) (v : H) (hv : v.closed = true) :
    decorVal s { fr with hint0 := v } cs = .ok v := by
  simp only [decorVal]
  exact resolveH_closed _ v hv

/-- **A hint without proxies is checked as it is, in every later state** (after any history): the call checks
    `embed v`, the proxy cache is not touched. Together with `C07_equiv`: the string, postponed and evaluated
    forms are checked against the same hint forever, hence give the same verdict for every check function. -/
theorem C07_checked_alike (s : St) (f : Nat) (fr : FuncRec) (v : H) (hv : v.closed = true)
    (hf : s.func? f = some fr) (hh : fr.hint = some v) :
    step s (.call f) = (s, .called (embed v) (specNow s fr)) ∧
    ∀ {α} (chk : RH → α), chk (force s v).1 = chk (embed v) := by
  constructor
  · simp only [step, hf, hh, force_closed s v hv]
  · intro α chk; rw [force_closed s v hv]

/-! ## 2. scope order of the forward scope -/

/-- **C07_scope_order (layers).** The forward scope answers a name from the innermost layer that binds it:
    locals (closure locals, or class attributes and class names over closure locals when a class is decorated),
    then module globals, then builtins; only a name bound nowhere becomes a proxy. -/
theorem C07_scope_order (s : St) (fr : FuncRec) (cs : List (Name × Nat)) (n : Name) :
    fwLk s fr cs n =
      match (fwLocals s fr cs).1.get? n with
      | some v => .ok v                                   -- a closure local / class attribute shadows …
      | none => match s.globals.get? n with
        | some v => .ok v                                 -- … a global, which shadows …
        | none => match s.builtins.get? n with
          | some v => .ok v                               -- … a builtin
          | none => .ok (.fwd { owner := fr.fid, path := [n], frame := (fwLocals s fr cs).2 }) := by
  simp only [fwLk, proxyLk, fwLayers, Scope.get?_append]
  cases (fwLocals s fr cs).1.get? n <;> cases s.globals.get? n <;> cases s.builtins.get? n <;> rfl

/-- **C07_scope_order (class decoration).** When a class is decorated, the locals layer is, innermost first: the
    attributes of the class directly defining the method, that class by name, the root decorated class by name,
    the locals of the function the root class is defined in (if it is running). Attributes of outer classes are
    not consulted — as in Python, where class scopes do not nest. -/
theorem C07_scope_order_class (s : St) (fr : FuncRec) (root curr : Name × Nat) (mid : List (Name × Nat))
    (hlex : fr.lex ≠ []) :
    let cs := root :: (mid ++ [curr])
    (fwLocals s fr cs).1 =
      s.heap.attrs curr.2 ++ [(curr.1, H.obj curr.2), (root.1, H.obj root.2)] ++
        optLocals (parentFrame s fr cs) := by
  intro cs
  have hne : fr.lex.isEmpty = false := by cases h : fr.lex <;> simp_all
  have hl : cs.getLast? = some curr := by simp [cs, List.getLast?_cons]
  simp only [fwLocals, hne, Bool.and_false, Bool.false_eq_true, ↓reduceIte, clsLayer, hl]
  simp [cs]

/-- **C07_scope_order (= Python's scoping, module level).** For a callable defined at module level the forward
    scope binds exactly what Python's evaluation of the annotation sees: globals, then builtins. -/
theorem C07_scope_python_module (s : St) (fr : FuncRec) (n : Name) (hmod : fr.lex = []) :
    (fwLayers s fr []).get? n = specLookup s fr.lex n := by
  simp only [fwLayers, fwLocals, hmod, List.isEmpty_nil, Bool.and_self, ↓reduceIte, List.nil_append,
    specLookup, visible, List.map_nil, Scope.get?_append, firstSome_cons, firstSome]
  cases s.globals.get? n <;> cases s.builtins.get? n <;> rfl

/-- **C07_scope_order (= Python's scoping, closures and class bodies; partial: the proviso).** A callable decorated at its def point
    (`lex` = the running activations) directly inside a function or class body: the forward scope binds what
    Python sees — locals of the directly enclosing scope over globals over builtins — PROVIDED the name is not
    bound in a farther enclosing FUNCTION (only the directly enclosing scope's locals are consulted). -/
theorem C07_scope_python_nested_partial (s : St) (fr : FuncRec) (a : Nat) (rest : List Nat) (fa : Frame) (n : Name)
    (hlex : fr.lex = a :: rest) (hrun : s.stack = fr.lex) (ha : s.act? a = some fa)
    (houter : ∀ b ∈ rest, s.isClsAct b = false → (s.localsOf b).get? n = none) :
    (fwLayers s fr []).get? n = specLookup s fr.lex n := by
  have hpf : parentFrame s fr [] = some fa := by
    simp only [parentFrame, hlex, lexNames, List.map_cons, ha, List.length_nil, List.getElem?_cons_zero, hrun]
    exact findFrameNamed_head s a rest fa ha
  have hloc : s.localsOf a = fa.locals := by simp [St.localsOf, ha]
  simp only [fwLayers, fwLocals, hlex, List.isEmpty_nil, List.isEmpty_cons, Bool.and_false, Bool.false_eq_true,
    ↓reduceIte, clsLayer, List.head?_nil, List.nil_append, hpf, optLocals, Scope.get?_append,
    specLookup, visible, List.map_cons, hloc, List.cons_append, firstSome_cons]
  cases fa.locals.get? n with
  | some v => rfl
  | none =>
    simp only []
    rw [firstSome_append_none]
    · simp only [firstSome_cons, firstSome]
      cases s.globals.get? n <;> cases s.builtins.get? n <;> rfl
    · intro x hx
      simp only [List.mem_map, List.mem_filter, Bool.not_eq_eq_eq_not, Bool.not_true] at hx
      obtain ⟨b, ⟨hb, hcls⟩, rfl⟩ := hx
      exact houter b hb hcls

/-- the proviso is needed: a name bound in the function around the directly enclosing function (and at module
    level) is taken from the module — Python takes the enclosing function's. History: `T = <1>` at module level;
    `def outer(): T = <2>; def mid(): @beartype def f(x: 'T')`; call. (finding `bound-instead-of-bound:bare:H+V`) -/
theorem C07_scope_python_nested_counterexample :
    lastTags (run (St.init [] []) [.bindV "T" (.obj 1), .enter false 10 "outer", .bindV "T" (.obj 2),
      .enter false 11 "mid", .def_ 1 "f" (.quoted (.name "T")), .decorate 1 [], .call 1]).2
      = some ((0, 1), (0, 2)) := by decide

/-! ## 3. the proxy state machine -/

/-- **C07_unresolved_raises_then_recovers (partial: frameless proxy, or parent still running).** A proxy for the bare name `n`, not yet resolved, whose name is bound
    neither at module level nor (for a proxy of a nested callable) in the locals of its running parent:
    (1) resolving it raises the forward-reference error and leaves the cache exactly as it was — nothing about the
        failure is remembered;
    (2) once `n` is bound at module level the SAME proxy resolves to that object and the success is remembered;
    (3) from then on the remembered referent is returned whatever the state. -/
theorem C07_unresolved_raises_then_recovers_partial (s : St) (p : Proxy) (n : Name) (v : H)
    (hpath : p.path = [n]) (hmiss : cacheGet? s.cache p = none)
    (hg : s.globals.get? n = none) (hb : s.builtins.get? n = none)
    (hframe : p.frame = none ∨
      ∃ c fr, p.frame = some c ∧ findFrameCode s c s.stack = some fr ∧ fr.locals.get? n = none) :
    resolveProxy s p = (.error (.fwdref [n]), s.cache) ∧
    resolveProxy { s with globals := (n, v) :: s.globals } p = (.ok (.val v), (p, .val v) :: s.cache) ∧
    ∀ s' : St, cacheGet? s'.cache p = some (.val v) → resolveProxy s' p = (.ok (.val v), s'.cache) := by
  refine ⟨?_, ?_, ?_⟩
  · unfold resolveProxy
    simp only [hmiss, hpath, modAttr, hg, hb]
    rcases hframe with hf | ⟨c, fr, hf, hfr, hl⟩
    · simp [hf]
    · simp [hf, hfr, dotted, hl]
  · unfold resolveProxy
    simp only [hmiss, hpath, modAttr, Scope.get?_cons_self]
  · intro s' hs'
    unfold resolveProxy
    simp only [hs']

/-- the same for a whole call, over histories: however often the callable is called before the definition, every
    call reports the raising leaf and leaves the state untouched; the first call after the module-level definition
    checks the defined object. -/
theorem C07_unresolved_history (s : St) (f : Nat) (fr : FuncRec) (p : Proxy) (n : Name) (v : H) (k : Nat)
    (hf : s.func? f = some fr) (hh : fr.hint = some (.fwd p)) (htop : s.stack = [])
    (hpath : p.path = [n]) (hmiss : cacheGet? s.cache p = none)
    (hg : s.globals.get? n = none) (hb : s.builtins.get? n = none) (hframe : p.frame = none) :
    run s (List.replicate k (.call f)) = (s, List.replicate k (.called (.unres [n]) (specNow s fr))) ∧
    (step (s.bind n v) (.call f)).2 = .called (viaProxy v) (specNow (s.bind n v) fr) := by
  have h3 := C07_unresolved_raises_then_recovers_partial s p n v hpath hmiss hg hb (Or.inl hframe)
  have hcall : step s (.call f) = (s, .called (.unres [n]) (specNow s fr)) := by
    simp only [step, hf, hh, force, h3.1, hpath]
  constructor
  · induction k with
    | zero => rfl
    | succ k ih => simp only [List.replicate_succ, run, hcall, ih]
  · have hb' : s.bind n v = { s with globals := (n, v) :: s.globals } := by simp [St.bind, htop]
    have hf' : (s.bind n v).func? f = some fr := by rw [hb']; exact hf
    simp only [step, hf', hh, force]
    rw [hb', h3.2.1]
    rfl

/-- **(1) does not hold for a proxy whose parent scope has RETURNED**: the unbound name is answered by a
    name-based fake proxy, which is remembered — no forward-reference error, and a later definition is never
    looked at. History: `def outer(): @beartype def f(x: 'T')`; `outer()` returns; call; `T = <7>`; call:
    both calls check the fake, the specification says raise / `<7>`. (findings `fake-instead-of-unres`,
    `fake-instead-of-bound`) -/
theorem C07_unresolved_raises_then_recovers_counterexample :
    let outs := (run (St.init [] []) [.enter false 10 "outer", .def_ 1 "f" (.quoted (.name "T")), .decorate 1 [],
      .leave 0, .call 1, .bindV "T" (.obj 7), .call 1]).2
    tagsAt outs 4 = some ((2, 0), (3, 0)) ∧ tagsAt outs 6 = some ((2, 0), (0, 7)) := by decide

/-- while the parent is still running, a nested callable's unbound name raises, and a definition in the parent's
    locals after the decoration is found at the next call (the state machine of (1)–(2) with the parent frame
    in the role of the module). -/
theorem C07_late_local (s : St) (p : Proxy) (n : Name) (v : H) (c : Nat) (fr : Frame)
    (hpath : p.path = [n]) (hmiss : cacheGet? s.cache p = none)
    (hg : s.globals.get? n = none) (hb : s.builtins.get? n = none)
    (hf : p.frame = some c) (hfr : findFrameCode s c s.stack = some fr) :
    resolveProxy s p =
      match fr.locals.get? n with
      | some w => (.ok (.val w), (p, .val w) :: s.cache)
      | none => (.error (.fwdref [n]), s.cache) := by
  unfold resolveProxy
  simp only [hmiss, hpath, modAttr, hg, hb, hf, hfr, dotted]
  cases fr.locals.get? n <;> rfl

/-! ## 4. define after the decoration = define before it -/

/-- **C07_late (partial: module level, up to the proxy marker).** A callable defined at module level whose annotation is the string `'e'` (literal or postponed),
    decorated in state `s0` where some names of `e` were not yet bound (they became proxies). In ANY later state
    `s` — after any history that rebinds nothing (`hkeep`), only adds heap entries, and in which the cache holds
    only what a fresh resolution would answer — in which every name of `e` is bound at module level: a call
    checks, up to the "reached through a proxy" marker, exactly the hint `v` that Python's evaluation of `e` NOW
    yields, i.e. the hint the callable would have been given had the definitions preceded the decoration
    (`C07_equiv`); and the cache stays sound. Structural induction over `e` (`late_core`); attribute access is
    on sub-expressions bound at decoration time (`lateSafe`; late dotted names: `C07_late_dotted`). -/
theorem C07_late_partial (s0 s : St) (fr : FuncRec) (e : HExpr) (h v : H)
    (hmod : fr.lex = []) (hplain : e.plain = true)
    (hsafe : lateSafe (fun n => (s0.modScope.get? n).isSome) e = true)
    (hdec : evalH s0.heap (fwLk s0 fr []) true e = .ok h)
    (hcl0 : ∀ n w, s0.modScope.get? n = some w → w.closed = true)
    (hkeep : ∀ n w, s0.modScope.get? n = some w → s.modScope.get? n = some w)
    (hheap : HeapMono s0.heap s.heap) (hhc : HeapClosed s.heap)
    (hcl : ∀ n w, s.modScope.get? n = some w → w.closed = true)
    (hcache : CacheOK s s.cache)
    (hnow : evalH s.heap (pyLk s []) true e = .ok v) :
    (force s h).1.erase = embed v ∧ CacheOK s (force s h).2 := by
  have hs := force_spec s h s.cache hcache
  have he : ({ s with cache := s.cache } : St) = s := rfl
  rw [he] at hs
  exact ⟨by rw [hs.1]; exact late_core s0 s fr hmod hcl0 hkeep hheap hhc hcl e h v hplain hsafe hdec hnow, hs.2⟩

/-- a late referent that is a plain class is checked by `isinstance`, exactly as the evaluated form … -/
theorem C07_late_class_exact (v : H) (h : v.isObj = true) : refRH (.val v) = embed v := viaProxy_obj v h

/-- … whereas a late referent that is itself a hint (`IntList = list[int]` after the function) is checked INSIDE
    the proxy's `__instancecheck__`, by `is_bearable(obj, referent, conf=BEARTYPE_CONF_NONRANDOM)`: the marker is
    real, so `C07_late_partial` cannot be stated without `erase` (for `[1, 'x']` and an odd draw the evaluated form
    rejects, the lazily resolved form accepts — the replay of finding `via-instead-of-bound`). History:
    `@beartype def f(x: 'IntList')`; `IntList = list[int]`; call. -/
theorem C07_late_counterexample :
    lastTags (run (St.init [("list", .obj 6), ("int", .obj 1)] []) [.def_ 1 "f" (.quoted (.name "IntList")),
      .decorate 1 [], .bindE "IntList" (.sub (.name "list") [.name "int"]), .call 1]).2
      = some ((1, 0), (5, 0)) := by decide

/-- **late dotted names** (`'Out.In'` with `Out` defined after the function): the proxy of the dotted name
    resolves through the module attribute and then attribute by attribute, as the evaluated `Out.In` would. -/
theorem C07_late_dotted (s : St) (p : Proxy) (n : Name) (rest : List Name) (v w : H)
    (hpath : p.path = n :: rest) (hrest : rest ≠ []) (hmiss : cacheGet? s.cache p = none)
    (hg : s.globals.get? n = some v) (hchain : attrChain s.heap v rest = some w) :
    resolveProxy s p = (.ok (.val w), (p, .val w) :: s.cache) := by
  unfold resolveProxy
  cases rest with
  | nil => exact absurd rfl hrest
  | cons a r => simp only [hmiss, hpath, modAttr, hg, hchain]

/-- **late SUBSCRIPTED names** (`'Box[int]'`, `'list[Box[int]]'`, postponed `Box[int]` with `Box` defined after the
    function): subscripting the proxy of an unbound name yields a proxy that is resolved exactly like the
    unsubscripted one — same owner, same dotted name, same parent code object — in every state: through the module
    attribute, else the locals of the running parent (closures!), else the name-based fake. -/
theorem C07_late_subscripted (p : Proxy) (args : List H) (hsub : p.subbed = false) :
    ∃ q, subH (.fwd p) args = .ok (.fwd q) ∧ q.owner = p.owner ∧ q.path = p.path ∧ q.frame = p.frame ∧
      ∀ s : St, resolveFresh s q = resolveFresh s p :=
  ⟨{ p with subbed := true }, by simp [subH, hsub], rfl, rfl, rfl, fun s => resolveFresh_subbed s p true⟩

/-- … in particular in a closure: `def outer(): @beartype def f(x: 'Box[int]'); class Box(Generic[T]): …; f(Box())` —
    while `outer` runs, the first call after the definition finds the local `Box` (`C07_late_local` for the
    subscripted proxy) and remembers it. -/
theorem C07_late_subscripted_local (s : St) (p : Proxy) (args : List H) (n : Name) (v : H) (c : Nat) (fr : Frame)
    (hsub : p.subbed = false) (hpath : p.path = [n])
    (hg : s.globals.get? n = none) (hb : s.builtins.get? n = none)
    (hf : p.frame = some c) (hfr : findFrameCode s c s.stack = some fr) (hl : fr.locals.get? n = some v) :
    ∃ q, subH (.fwd p) args = .ok (.fwd q) ∧
      (cacheGet? s.cache q = none → resolveProxy s q = (.ok (.val v), (q, .val v) :: s.cache)) := by
  refine ⟨{ p with subbed := true }, by simp [subH, hsub], ?_⟩
  intro hmiss
  have := C07_late_local s { p with subbed := true } n v c fr hpath hmiss hg hb hf hfr
  rw [this, hl]

/-- the ARGUMENTS of a late subscripted name are dropped (`BeartypeForwardRefSubbedABC` "currently ignores
    subscription"): `@beartype def f(x: 'K[int]')`; `K = list`; call — the call checks `list`, the evaluated
    annotation is `list[int]` (`f(['a'])` is accepted; finding `unsubscripted-instead-of-bound`). For a user generic
    `class K(Generic[T])` the two hints give the same verdicts (beartype checks `K[int]` by `isinstance(obj, K)`). -/
theorem C07_late_subscripted_counterexample :
    lastTags (run (St.init [("list", .obj 6), ("int", .obj 1)] []) [.def_ 1 "f" (.quoted (.sub (.name "K") [.name "int"])),
      .decorate 1 [], .bindE "K" (.name "list"), .call 1]).2
      = some ((0, 6), (5, 0)) := by decide

/-! ## 4b. … for every module-level history -/

/-- **C07_history_cache_sound.** Along EVERY module-level history that rebinds nothing (`ModHistory`: any
    interleaving of bindings of hint objects, definitions, decorations and calls), the invariant `ModInv` holds:
    in particular the proxy cache only ever holds what a fresh resolution would answer (`CacheOK`) — a failure is
    never remembered, a remembered referent is never stale. Induction over the history. -/
theorem C07_history_cache_sound (s : St) (evs : List Ev) (inv : ModInv s) (hist : ModHistory s evs) :
    ModInv (run s evs).1 ∧ CacheOK (run s evs).1 (run s evs).1.cache :=
  ⟨modInv_run evs s inv hist, (modInv_run evs s inv hist).cacheOK⟩

/-- **C07_history (define-after = define-before, every history).** `@beartype def f(x: 'e')` at module level in
    state `s` (some names of `e` possibly unbound: they become proxies), followed by ANY module-level history
    `evs` that rebinds nothing and does not redefine `f` — definitions of the missing names, other callables, any
    number of calls of `f` and of others, before or after the definitions. Whenever, after it, Python's evaluation
    of `e` yields `v` (every name is now bound), a call of `f` checks — up to the "through a proxy" marker —
    exactly `v`: the hint `f` would carry had all definitions preceded the decoration. -/
theorem C07_history (s : St) (f : Nat) (name : Name) (e : HExpr) (evs : List Ev) (h : H)
    (inv : ModInv s) (hplain : e.plain = true)
    (hsafe : lateSafe (fun n => (s.modScope.get? n).isSome) e = true)
    (hdec : evalH s.heap (proxyLk s.modScope f none) true e = .ok h)       -- what the decoration stores
    (hist : ModHistory s (.def_ f name (.quoted e) :: .decorate f [] :: evs))
    (hnot : ∀ ev ∈ evs, ev.touches f = false) :
    let s2 := (run s (.def_ f name (.quoted e) :: .decorate f [] :: evs)).1
    ∀ v, evalH s2.heap (pyLk s2 []) true e = .ok v →
      ∃ r sp, (step s2 (.call f)).2 = .called r sp ∧ r.erase = embed v := by
  intro s2 v hnow
  obtain ⟨hm1, hf1, hm2, hf2, hrest⟩ := hist
  -- the def statement
  let fr0 : FuncRec := { fid := f, name, lex := s.stack, expr := .quoted e, hint0 := .str e, hint := none }
  have hlex : fr0.lex = [] := inv.top
  have hs1 : step s (.def_ f name (.quoted e)) = ({ s with funcs := fr0 :: s.funcs }, .silent) := by
    simp [step, evalH, fr0]
  let s1 : St := { s with funcs := fr0 :: s.funcs }
  have inv1 : ModInv s1 := by have := modInv_step s _ inv hm1 hf1; rwa [hs1] at this
  have hf0 : s1.func? f = some fr0 := by simp [St.func?, s1, fr0, List.find?_cons]
  -- the decoration
  have hlk : ∀ (t : St) (fr : FuncRec), t.modScope = s.modScope → fr.fid = f → fr.lex = [] →
      evalH s.heap (fwLk t fr []) true e = .ok h := by
    intro t fr ht hfid hl
    rw [← hdec]
    apply evalH_congr
    intro n _
    rw [fwLk_module t fr n hl, ht, hfid]
  have hsc : shortcut s1 fr0 [] e = none := by
    unfold shortcut
    split
    · simp [hlex]
    · rfl
  have hdv : decorVal s1 fr0 [] = .ok h := by
    show resolveH (resolveStr s1 fr0 []) (.str e) = .ok h
    simp only [resolveH, resolveStr, hsc]
    exact hlk s1 fr0 rfl rfl hlex
  let frD : FuncRec := { fr0 with hint := some h }
  have hs2 : step s1 (.decorate f []) = ({ s1 with funcs := setHint s1.funcs f h }, .silent) := by
    simp only [step, hf0, hdv]
  let s2' : St := { s1 with funcs := setHint s1.funcs f h }
  have hrest' : ModHistory s2' evs := by
    have : (step (step s (.def_ f name (.quoted e))).1 (.decorate f [])).1 = s2' := by rw [hs1]; simp only [hs2, s2', s1]
    rw [← this]; exact hrest
  have inv2 : ModInv s2' := by
    have := modInv_step s1 _ inv1 hm2 (by rw [hs1] at hf2; exact hf2)
    rwa [hs2] at this
  have hfD : s2'.func? f = some frD := by
    simp [St.func?, s2', s1, setHint, fr0, frD, List.find?_cons]
  have hrun : s2 = (run s2' evs).1 := by
    simp only [s2, run, hs1]
    simp only [hs2, s2', s1]
  have facts := run_untouched evs s2' f frD inv2 hrest' hnot hfD
  rw [← hrun] at facts
  have inv3 : ModInv s2 := by rw [hrun]; exact modInv_run evs s2' inv2 hrest'
  -- the call
  have hcall : (step s2 (.call f)).2 = .called (force s2 h).1 (specNow s2 frD) := by
    simp only [step, facts.1, frD]
  refine ⟨_, _, hcall, ?_⟩
  have hheap : s2.heap = s.heap := facts.2.1
  have := C07_late_partial s s2 frD e h v hlex hplain hsafe (hlk s frD rfl rfl hlex) inv.scopeClosed
    (fun n w hw => facts.2.2 n w hw) (by rw [hheap]; exact fun _ _ _ h => h) inv3.heapClosed inv3.scopeClosed
    inv3.cacheOK hnow
  exact this.1

/-! ## 4c. a string annotation is the expression it prints as -/

/-- **C07_show_parse.** The text of an annotation denotes the annotation: parsing the printed form of any
    expression (every subscription having an argument) gives the expression back, with any sufficiently large
    recursion budget. Hence "the string `show e` resolved by the decorator" in `C07_equiv` is `H.str e`. -/
theorem C07_show_parse (e : HExpr) (hw : e.wf = true) : ∃ f0, ∀ f, f0 ≤ f → pExpr f (showE e) = some (e, []) := by
  obtain ⟨f0, h0⟩ := exprOK e hw [] (e, []) 1 rfl (pOrs_stop e [] rfl)
  simp only [List.append_nil] at h0
  exact ⟨f0, fun f hf => monoE hf h0⟩


/-! ## 5. non-vacuity: the hypotheses are satisfiable by concrete, non-trivial states -/

/-! ## 6. rebinding: an annotation denotes what its names denote when the `def` executes -/

/-- **C07_spec_def_evaluated (the evaluated form is fixed at the def point).** When every name of the string-free
    annotation `e` is bound at the def point (state `s0`) and Python evaluates it there to `v`, the specified hint
    (`specDef`) of the callable — annotated with the evaluated `e` or with the string `'e'` — is `v` in EVERY later
    state `s`, whatever has been rebound since (the heap only gains entries). -/
theorem C07_spec_def_evaluated (s0 s : St) (fr : FuncRec) (e : HExpr) (v : H)
    (hplain : e.plain = true)
    (hbound : ∀ n ∈ e.names, (specLookup s0 fr.lex n).isSome = true)
    (hpy : evalH s0.heap (pyLk s0 fr.lex) false e = .ok v)
    (hm : HeapMono s0.heap s.heap) :
    specDef s0 s { fr with expr := e } = embed v ∧ specDef s0 s { fr with expr := .quoted e } = embed v := by
  have hlk : ∀ n ∈ e.names, specDefLk s0 s fr.fid fr.lex n = pyLk s0 fr.lex n := by
    intro n hn
    have hb := hbound n hn
    simp only [specDefLk, pyLk]
    cases h : specLookup s0 fr.lex n with
    | some w => rfl
    | none => simp [h] at hb
  have hev : evalH s.heap (specDefLk s0 s fr.fid fr.lex) true e = .ok v := by
    rw [evalH_congr s.heap _ _ true e hlk, evalH_plain s.heap _ e hplain]
    exact evalH_mono s0.heap s.heap hm _ false e v hpy
  constructor
  · simp only [specDef, hev]
  · simp only [specDef, evalH, hev, if_true]

/-- **C07_spec_def_now (without rebinding the def-point reading is the current reading).** If every name of the
    annotation that was bound at the def point still denotes the same object, `specDef` is `specNow`: the theorems
    stated with `specNow` (sections 1-5: histories that rebind nothing) are statements about `specDef`. -/
theorem C07_spec_def_now (s0 s : St) (fr : FuncRec)
    (hsame : ∀ n ∈ fr.expr.names, specLookup s0 fr.lex n = none ∨ specLookup s0 fr.lex n = specLookup s fr.lex n) :
    specDef s0 s fr = specNow s fr := by
  have hlk : ∀ n ∈ fr.expr.names, specDefLk s0 s fr.fid fr.lex n = specLk s fr.fid fr.lex n := by
    intro n hn
    rcases hsame n hn with h | h
    · simp only [specDefLk, h]
    · simp only [specDefLk]
      cases h0 : specLookup s0 fr.lex n with
      | none => rfl
      | some w =>
        rw [h0] at h
        simp only [specLk, ← h]
  simp only [specDef, specNow, evalH_congr s.heap _ _ true fr.expr hlk]

/-- **C07_rebound_checked_alike (a name rebound after the decoration changes nothing).** A callable whose annotation
    — evaluated `e` or string `'e'` — has all its names bound at the def point and was stored by the decorator as the
    proxy-free `v` Python evaluates `e` to there (`C07_equiv`, `C07_equiv_evaluated`) is checked against `v` in every
    later state, and `v` is the specified hint there: rebinding a name of the annotation afterwards (a class
    redefined, an alias reassigned) affects neither side, and a SECOND callable defined after the rebinding with the
    same string has its own def point, hence its own `v`. -/
theorem C07_rebound_checked_alike (s0 s : St) (f : Nat) (fr : FuncRec) (e : HExpr) (v : H)
    (hplain : e.plain = true)
    (hbound : ∀ n ∈ e.names, (specLookup s0 fr.lex n).isSome = true)
    (hpy : evalH s0.heap (pyLk s0 fr.lex) false e = .ok v)
    (hm : HeapMono s0.heap s.heap) (hv : v.closed = true)
    (hf : s.func? f = some fr) (hh : fr.hint = some v) (hex : fr.expr = e ∨ fr.expr = .quoted e) :
    (∃ sp, step s (.call f) = (s, .called (embed v) sp)) ∧ specDef s0 s fr = embed v := by
  constructor
  · exact ⟨_, (C07_checked_alike.{0} s f fr v hv hf hh).1⟩
  · have h := C07_spec_def_evaluated s0 s fr e v hplain hbound hpy hm
    rcases hex with hx | hx
    · have : fr = { fr with expr := e } := by cases fr; simp only at hx; subst hx; rfl
      rw [this]; exact h.1
    · have : fr = { fr with expr := .quoted e } := by cases fr; simp only at hx; subst hx; rfl
      rw [this]; exact h.2

/-- **Witness: a class decorated as a whole reads a rebound class attribute at the END of the class body.**
    `@beartype class C: K = int; def m(self, x: 'K'): …; K = str` — the decorator runs after the body, its forward
    scope holds the FINAL class dictionary, the string `'K'` is stored as `str` (2); the evaluated annotation `K` of
    the same method was fixed when the `def` executed: `int` (1). (`C07_rebound_checked_alike` needs the stored hint
    to be the def-point value, which holds when the callable itself is decorated.) -/
theorem C07_rebound_class_decorated_counterexample :
    let evs : List Ev := [.enter true 901 "C", .bindV "K" (.obj 1), .def_ 1 "m" (.quoted (.name "K")),
      .bindV "K" (.obj 2), .leave 103, .decorate 1 [("C", 103)], .bindV "C" (.obj 103), .call 1]
    let s0 := St.init [("int", .obj 1), ("str", .obj 2)] []
    let d := runDP [] s0 evs
    ((tagsAt (run s0 evs).2 7).map (·.1), (specCall d.1 d.2 1).map RH.tag) = (some (0, 2), some (0, 1)) := by decide

section examples

/-- module with `class A`, builtins `list`, `int` -/
def exS : St := { St.init [("list", .obj 6), ("int", .obj 1)] [] with globals := [("A", .obj 50)] }
def exF : FuncRec := { fid := 1, name := "f", lex := [], expr := .name "A", hint0 := .lit .none, hint := none }
def exE : HExpr := .bor (.sub (.name "list") [.name "A"]) (.name "int")       -- list[A] | int

/-- `C07_equiv` applies to `def f(x: 'list[A] | int')` at module level with `A` defined before. -/
example : decorVal exS { exF with hint0 := .str exE } [] =
    .ok (.bor (.sub (.obj 6) [.obj 50]) (.obj 1)) := by
  apply C07_equiv exS exF [] exE _ (by decide) (by rfl)
  · intro n hn
    simp only [exE, HExpr.names, HExpr.names.namesL, List.mem_append, List.mem_cons, List.not_mem_nil, or_false] at hn
    rcases hn with (rfl | rfl) | rfl <;> rfl
  · rfl

/-- `C07_unresolved_raises_then_recovers_partial` applies: `@beartype def f(x: 'Later')` at module level before `Later`. -/
example :
    let p : Proxy := { owner := 1, path := ["Later"], frame := none }
    resolveProxy exS p = (.error (.fwdref ["Later"]), []) ∧
    resolveProxy { exS with globals := ("Later", .obj 7) :: exS.globals } p = (.ok (.val (.obj 7)), [(p, .val (.obj 7))]) := by
  intro p
  have h := C07_unresolved_raises_then_recovers_partial exS p "Later" (.obj 7) rfl rfl (by decide) (by decide) (Or.inl rfl)
  exact ⟨h.1, h.2.1⟩

/-- `C07_late_partial` applies: `@beartype def f(x: 'list[Later] | int')`, then `class Later`, then a call. -/
example :
    let e : HExpr := .bor (.sub (.name "list") [.name "Later"]) (.name "int")
    let s : St := { exS with globals := ("Later", .obj 7) :: exS.globals }
    ∀ h, evalH exS.heap (fwLk exS exF []) true e = .ok h →
      (force s h).1.erase = .bor (.sub (.obj 6) [.obj 7]) (.obj 1) := by
  intro e s h hdec
  have hcl : ∀ (sc : Scope), sc = s.modScope ∨ sc = exS.modScope → ∀ n w, sc.get? n = some w → w.closed = true := by
    intro sc hsc n w hw
    rcases hsc with rfl | rfl <;>
      simp only [s, exS, St.modScope, St.init, List.cons_append, List.nil_append, Scope.get?] at hw <;>
      (repeat (split at hw; (· cases hw; rfl))) <;> cases hw
  have := C07_late_partial exS s exF e h (.bor (.sub (.obj 6) [.obj 7]) (.obj 1)) rfl (by decide) (by decide) hdec
    (hcl _ (Or.inr rfl))
    (by
      intro n w hw
      simp only [s, exS, St.modScope, St.init, List.cons_append, List.nil_append, Scope.get?] at hw ⊢
      split
      · next heq => subst heq; simp at hw
      · exact hw)
    (fun _ _ _ h => h) (by intro id n v hv; simp [s, exS, St.init, Heap.attrs, Scope.get?] at hv)
    (hcl _ (Or.inl rfl)) (cacheOK_nil s) (by rfl)
  exact this.1

/-- a closure whose parent is running: `def outer(): K = <9>; @beartype def f(x: 'K')` — the forward scope and
    Python agree on `K` (`C07_scope_python_nested_partial` applies, the proviso is vacuous) -/
example :
    let s : St := { St.init [] [] with acts := [{ aid := 0, isCls := false, code := 10, name := "outer", locals := [("K", .obj 9)] }], stack := [0] }
    let fr : FuncRec := { exF with lex := [0] }
    (fwLayers s fr []).get? "K" = specLookup s fr.lex "K" := by
  intro s fr
  exact C07_scope_python_nested_partial s fr 0 [] _ "K" rfl rfl rfl (by intro b hb; cases hb)

/-- `C07_history` applies to the program `@beartype def f(x: 'list[Later] | int')`; `f(..)` (raises); `class Later`;
    `@beartype def g(x: 'Later')`; `g(..)`; `f(..)`: after this history a call of `f` checks `list[<Later>] | int`. -/
example :
    let s0 : St := St.init [("list", .obj 6), ("int", .obj 1)] []
    let e : HExpr := .bor (.sub (.name "list") [.name "Later"]) (.name "int")
    let evs : List Ev := [.call 1, .bindV "Later" (.obj 7), .def_ 2 "g" (.quoted (.name "Later")), .decorate 2 [], .call 2, .call 1]
    let s2 := (run s0 (.def_ 1 "f" (.quoted e) :: .decorate 1 [] :: evs)).1
    ∃ r sp, (step s2 (.call 1)).2 = .called r sp ∧ r.erase = .bor (.sub (.obj 6) [.obj 7]) (.obj 1) := by
  intro s0 e evs s2
  have inv : ModInv s0 := modInv_init _ _
    (by
      intro n w hw
      simp only [Scope.get?] at hw
      repeat (split at hw; (· cases hw; rfl))
      cases hw)
    (by intro id n v hv; simp [Heap.attrs, Scope.get?] at hv)
  have hist : ModHistory s0 (.def_ 1 "f" (.quoted e) :: .decorate 1 [] :: evs) := by
    refine ⟨rfl, rfl, rfl, rfl, rfl, rfl, rfl, by decide, rfl, rfl, rfl, rfl, rfl, rfl, rfl, rfl, trivial⟩
  exact C07_history s0 1 "f" e evs _ inv (by decide) (by decide) (by rfl) hist (by decide) _ (by rfl)

/-- `C07_late_subscripted_local` applies: `def outer(): @beartype def f(x: 'Box[int]'); class Box …; f(…)` — the call
    inside `outer` checks the local class `<7>` (the evaluated annotation is `<7>[int]`). -/
example :
    lastTags (run (St.init [("int", .obj 1)] []) [.enter false 10 "outer",
      .def_ 1 "f" (.quoted (.sub (.name "Box") [.name "int"])), .decorate 1 [], .bindV "Box" (.obj 7), .call 1]).2
      = some ((0, 7), (5, 0)) := by decide

/-- rebinding between two decorations: `class K` (101); `@beartype def f(x: 'K')`; `class K` (102);
    `@beartype def g(x: 'K')`; `g(…)`; `f(…)`. The implementation checks `g` against 102 and `f` against 101, and these
    are the specified hints read at the def points (`specCall`); reading `f`'s annotation NOW (`specNow`) gives 102. -/
example :
    let evs : List Ev := [.bindV "K" (.obj 101), .def_ 1 "f" (.quoted (.name "K")), .decorate 1 [],
      .bindV "K" (.obj 102), .def_ 2 "g" (.quoted (.name "K")), .decorate 2 [], .call 2, .call 1]
    let s0 := St.init [("list", .obj 6)] []
    let r := run s0 evs
    let d := runDP [] s0 evs
    (tagsAt r.2 6, tagsAt r.2 7) = (some ((0, 102), (0, 102)), some ((0, 101), (0, 102))) ∧
    ((specCall d.1 d.2 2).map RH.tag, (specCall d.1 d.2 1).map RH.tag) = (some (0, 102), some (0, 101)) := by decide

/-- `C07_rebound_checked_alike` applies to `f` of that program (def point: only the first `K` exists). -/
example :
    let s1 : St := { St.init [("list", .obj 6)] [] with globals := [("K", .obj 101)] }
    let fr : FuncRec := { fid := 1, name := "f", lex := [], expr := .quoted (.name "K"), hint0 := .str (.name "K"), hint := some (.obj 101) }
    let s : St := { s1 with globals := [("K", .obj 102), ("K", .obj 101)], funcs := [fr] }
    specDef s1 s fr = .obj 101 := by
  intro s1 fr s
  exact (C07_rebound_checked_alike s1 s 1 fr (.name "K") (.obj 101) rfl
    (by intro n hn; simp only [HExpr.names, List.mem_cons, List.not_mem_nil, or_false] at hn; subst hn; rfl)
    rfl (fun _ _ _ h => h) rfl rfl rfl (Or.inr rfl)).2

end examples

end BearVerif.Fwd
