import BearVerif.Lemmas.Claw
/-!
  C06 — property theorems (statements only use definitions of `Core/Claw.lean`).

  `State`/`step`/`getConf` mirror the registry code; `Spec`/`Spec.step`/`Spec.lookup`
  restate the property ("nearest registered ancestor, else beartype_all's; not
  inside a skipped or built-in-excluded package; conflicts leave the registry as it
  was; leaving a block restores what preceded it").
-/
namespace BearVerif.Claw

/-- **Refinement, every finite history.** After any sequence of registrations and
    block entries/exits the registry answers every query exactly as the declarative
    specification does, and every operation raised or succeeded as specified. -/
theorem C06_refines (builtin : List String) (ops : List Op) :
    (∀ q, getConf (run (State.init builtin) ops) q = (Spec.run (Spec.init builtin) ops).lookup q) ∧
    outs (State.init builtin) ops = Spec.outs (Spec.init builtin) ops := by
  obtain ⟨h, ho⟩ := run_refines (init_refines builtin) ops
  exact ⟨fun q => getConf_eq_lookup h q, ho⟩

/-- What the specification's "nearest registered ancestor" means, without recursion:
    the configuration registered at the longest registered nonempty prefix. -/
theorem C06_nearest_spec (reg : Path → Option Conf) (q : Path) (c : Conf) :
    nearestFrom reg [] q = some c ↔
      ∃ k, 0 < k ∧ k ≤ q.length ∧ reg (q.take k) = some c ∧
        ∀ j, k < j → j ≤ q.length → reg (q.take j) = none := by
  simpa using nearestFrom_eq_some_iff reg [] q c

/-- … and "inside a skipped or built-in-excluded package": some nonempty prefix is. -/
theorem C06_excluded_spec (sp : Spec) (q : Path) :
    sp.excluded q = true ↔ ∃ k, 0 < k ∧ k ≤ q.length ∧ sp.skipped (q.take k) = true :=
  excludedBy_iff sp.skipped q

/-- a module is checked iff not excluded and (`beartype_all` active or an ancestor registered) -/
theorem C06_checked_iff (sp : Spec) (q : Path) :
    (sp.lookup q).isSome = true ↔
      sp.excluded q = false ∧ (sp.allConf.isSome = true ∨ ∃ k, 0 < k ∧ k ≤ q.length ∧ (sp.reg (q.take k)).isSome = true) := by
  simp only [Spec.lookup]
  cases he : sp.excluded q with
  | true => simp
  | false =>
    simp only [Bool.false_eq_true, ↓reduceIte, true_and]
    cases hn : nearestFrom sp.reg [] q with
    | some c =>
      obtain ⟨k, hk0, hk1, hk2, _⟩ := (C06_nearest_spec sp.reg q c).mp hn
      simp only [firstSome, Option.isSome_some, true_iff]
      exact Or.inr ⟨k, hk0, hk1, by simp [hk2]⟩
    | none =>
      have hall := (nearestFrom_eq_none_iff sp.reg [] q).mp hn
      simp only [firstSome]
      constructor
      · intro h; exact Or.inl h
      · rintro (h | ⟨k, hk0, hk1, hk2⟩)
        · exact h
        · have := hall k hk0 hk1
          simp only [List.nil_append] at this
          simp [this] at hk2

/-- **A conflicting (or malformed) registration leaves the registry as it was.** -/
theorem C06_conflict_atomic (s : State) (op : Op) (h : (step s op).2 = .raised) : (step s op).1 = s := by
  cases op with
  | all c =>
    simp only [step, hookPackages] at h ⊢
    split at h <;> simp_all
  | pkgs ns c =>
    simp only [step, hookPackages] at h ⊢
    split at h
    · simp_all
    · split at h <;> simp_all
  | enter c =>
    simp [step, hookPackages, conflictAt, confConflict] at h
  | exit =>
    simp only [step] at h
    split at h
    · simp at h
    · split at h <;> simp at h

/-- **Re-registering with an equal configuration changes nothing** (every query
    answers as before, the call succeeds, the specification state is the same). -/
theorem C06_idempotent (sp : Spec) (op : Op) (hop : ∀ c, op ≠ .enter c) (hex : op ≠ .exit)
    (hok : (sp.step op).2 = .ok) :
    ((sp.step op).1.step op).2 = .ok ∧ ∀ q, ((sp.step op).1.step op).1.lookup q = (sp.step op).1.lookup q := by
  have hskip : ∀ (sk : Path → Bool) ps, addSkips (addSkips sk ps) ps = addSkips sk ps := by
    intro sk ps; funext p; simp only [addSkips]
    cases sk p <;> cases p.isEmpty <;> cases ps.contains p <;> rfl
  cases op with
  | enter c => exact absurd rfl (hop c)
  | exit => exact absurd rfl hex
  | all c0 =>
    simp only [Spec.step] at hok ⊢
    cases ha : sp.allConf with
    | none => simp [hskip]
    | some c' =>
      simp only [ha] at hok
      by_cases heq : c' = c0.hookify
      · simp [heq, hskip]
      · simp [heq] at hok
  | pkgs ns c0 =>
    simp only [Spec.step] at hok ⊢
    by_cases hbad : (ns.isEmpty || !ns.all validName) = true
    · simp [hbad] at hok
    · simp only [hbad, Bool.false_eq_true, ↓reduceIte] at hok ⊢
      by_cases hcf : (ns.any (fun p => confConflict (sp.reg p) c0.hookify)) = true
      · simp [hcf] at hok
      · simp only [hcf, Bool.false_eq_true, ↓reduceIte]
        have hno : (ns.any (fun p => confConflict (if ns.contains p = true then some c0.hookify else sp.reg p) c0.hookify)) = false := by
          apply List.any_eq_false.mpr
          intro p hp
          simp [hp, confConflict]
        simp only [hno, Bool.false_eq_true, ↓reduceIte, true_and]
        intro q
        have hreg : (fun p => if ns.contains p = true then some c0.hookify
              else if ns.contains p = true then some c0.hookify else sp.reg p)
            = fun p => if ns.contains p = true then some c0.hookify else sp.reg p := by
          funext p; split <;> rfl
        simp only [Spec.lookup, Spec.excluded, hskip, hreg]
        rfl

/-- operation sequences in which `beartyping()` blocks are properly nested -/
inductive Balanced : List Op → Prop
  | nil : Balanced []
  | all (c) {r} : Balanced r → Balanced (.all c :: r)
  | pkgs (ns c) {r} : Balanced r → Balanced (.pkgs ns c :: r)
  | block (c) {b r} : Balanced b → Balanced r → Balanced (.enter c :: (b ++ .exit :: r))

theorem Spec.run_append (sp : Spec) (a b : List Op) : sp.run (a ++ b) = (sp.run a).run b := by
  simp [Spec.run, List.foldl_append]

theorem balanced_keeps_root {ops : List Op} (hb : Balanced ops) :
    ∀ sp : Spec, sp.allConf.isSome = true → (sp.run ops).allConf = sp.allConf ∧ (sp.run ops).stack = sp.stack := by
  induction hb with
  | nil => intro sp _; exact ⟨rfl, rfl⟩
  | all c _ ih =>
    intro sp hs
    have hstep : (sp.step (.all c)).1.allConf = sp.allConf ∧ (sp.step (.all c)).1.stack = sp.stack := by
      simp only [Spec.step]
      cases ha : sp.allConf with
      | none => simp [ha] at hs
      | some c' => simp only []; split <;> simp [ha]
    have := ih (sp.step (.all c)).1 (by rw [hstep.1]; exact hs)
    simp only [Spec.run, List.foldl_cons] at this ⊢
    exact ⟨this.1.trans hstep.1, this.2.trans hstep.2⟩
  | pkgs ns c _ ih =>
    intro sp hs
    have hstep : (sp.step (.pkgs ns c)).1.allConf = sp.allConf ∧ (sp.step (.pkgs ns c)).1.stack = sp.stack := by
      simp only [Spec.step]
      split
      · exact ⟨rfl, rfl⟩
      · split <;> exact ⟨rfl, rfl⟩
    have := ih (sp.step (.pkgs ns c)).1 (by rw [hstep.1]; exact hs)
    simp only [Spec.run, List.foldl_cons] at this ⊢
    exact ⟨this.1.trans hstep.1, this.2.trans hstep.2⟩
  | @block c b r _ _ ihb ihr =>
    intro sp hs
    have h1 := ihb (sp.step (.enter c)).1 (by simp [Spec.step])
    have hrun : sp.run (.enter c :: (b ++ .exit :: r)) = ((((sp.step (.enter c)).1.run b).step .exit).1).run r := by
      simp [Spec.run, List.foldl_append]
    rw [hrun]
    have hexit : ((((sp.step (.enter c)).1.run b).step .exit).1).allConf = sp.allConf ∧
        ((((sp.step (.enter c)).1.run b).step .exit).1).stack = sp.stack := by
      generalize (sp.step (.enter c)).1.run b = X at *
      have hst : X.stack = sp.allConf :: sp.stack := by rw [h1.2]; simp [Spec.step]
      simp only [Spec.step, hst]; exact ⟨by first | rfl | trivial, by first | rfl | trivial⟩
    have := ihr _ (by rw [hexit.1]; exact hs)
    exact ⟨this.1.trans hexit.1, this.2.trans hexit.2⟩

/-- **Leaving a `beartyping()` block restores what preceded it**: whatever well-nested
    operations run inside the block, on exit `beartype_all`'s configuration (or its
    absence) and the stack of enclosing blocks are exactly those before entry, and
    registrations are exactly those of the body run on its own inside the block.
    (The block's `claw_skip_package_names` stay skipped — see DESIGN, finding F-C06d.) -/
theorem C06_context_restore (sp : Spec) (c : Conf) (body : List Op) (hb : Balanced body) :
    (sp.run (.enter c :: (body ++ [.exit]))).allConf = sp.allConf ∧
    (sp.run (.enter c :: (body ++ [.exit]))).stack = sp.stack := by
  have h1 := balanced_keeps_root hb (sp.step (.enter c)).1 (by simp [Spec.step])
  have hrun : sp.run (.enter c :: (body ++ [.exit])) = (((sp.step (.enter c)).1.run body).step .exit).1 := by
    simp [Spec.run, List.foldl_append]
  rw [hrun]
  generalize (sp.step (.enter c)).1.run body = X at *
  have hst : X.stack = sp.allConf :: sp.stack := by rw [h1.2]; simp [Spec.step]
  simp only [Spec.step, hst]; exact ⟨by first | rfl | trivial, by first | rfl | trivial⟩

/-- **The path hook is installed exactly while something is registered**, after
    every history (in particular it is removed when leaving a block leaves nothing). -/
theorem C06_pathhook (builtin : List String) (ops : List Op) :
    (run (State.init builtin) ops).hook = isPackagesTrie (run (State.init builtin) ops).w :=
  (run_refines (init_refines builtin) ops).1.hook

/-- nothing registered at all ⇒ no module is checked -/
theorem C06_nohook_nothing_checked (s : State) (h : isPackagesTrie s.w = false) (q : Path) :
    getConf s q = none := by
  simp only [isPackagesTrie, Bool.or_eq_false_iff, Bool.not_eq_false', List.isEmpty_iff] at h
  have hc : s.w.conf = none := by
    cases hh : s.w.conf <;> simp_all
  simp only [getConf]
  split
  · rfl
  · cases q with
    | nil => simp [WTrie.walk, hc]
    | cons n q => simp [WTrie.walk, h.2, alGet, hc]

/-! ### non-vacuity: a concrete history exercising every clause -/

private def cA : Conf := { base := 0, warn := none, skip := [] }
private def cB : Conf := { base := 1, warn := none, skip := [["a", "x"]] }

example :
    let ops := [Op.pkgs [["a"]] cA, .pkgs [["a", "b"]] cB, .pkgs [["c"], ["a"]] cB, .enter cA, .pkgs [["d"]] cA, .exit]
    let s := run (State.init ["beartype"]) ops
    outs (State.init ["beartype"]) ops = [.ok, .ok, .raised, .ok, .ok, .ok] ∧
    getConf s ["a", "b", "z"] = some cB.hookify ∧ getConf s ["a", "q"] = some cA.hookify ∧
    getConf s ["a", "x", "y"] = none ∧ getConf s ["c"] = none ∧ getConf s ["d"] = some cA.hookify ∧
    getConf s ["e"] = none ∧ getConf s ["beartype", "door"] = none ∧ s.hook = true := by
  decide

example : Balanced [Op.pkgs [["d"]] cA, .enter cB, .all cB, .exit] :=
  .pkgs _ _ (.block cB (b := [.all cB]) (r := []) (.all _ .nil) .nil)

end BearVerif.Claw
