import BearVerif.Core.Sexp
import BearVerif.Core.ClawAst
/-!
  Line-protocol driver for C05: `(c05 CONF MODULE)` →
  `((raises B) (xform MODULE) (byhand MODULE) (obs clean nosub pure decoOK linesOK imports))`.

  CONF   = `(pep526 placeFunc placeType isDefault SCHEMA)`; SCHEMA = `((name TRIE) …)`; TRIE = `leaf | (kind ((name TRIE) …))`
  MODULE = `(STMT …)`; see `stmtOf` / `stmtStr` for the statement forms.
-/
namespace BearVerif.ClawAst
open BearVerif

def boolOf : Sexp → Option Bool
  | .atom "1" => some true
  | .atom "true" => some true
  | .atom "0" => some false
  | .atom "false" => some false
  | _ => none

def boolStr (b : Bool) : Sexp := .atom (if b then "1" else "0")
def natStr (n : Nat) : Sexp := .atom (toString n)

def eOf : Sexp → Option E
  | .list [.atom "e", i, p, l] => do pure { id := ← i.nat?, pure := ← boolOf p, line := ← l.nat? }
  | _ => none
def eStr (e : E) : Sexp := .list [.atom "e", natStr e.id, boolStr e.pure, natStr e.line]

def strsOf (s : Sexp) : Option (List String) := do (← s.items?).mapM Sexp.str?
def strsStr (l : List String) : Sexp := .list (l.map .atom)

partial def trieOf : Sexp → Option Trie
  | .atom "leaf" => some .leaf
  | .list [k, .list kids] => do
    let ks ← kids.mapM (fun
      | .list [.atom n, t] => do pure (n, ← trieOf t)
      | _ => none)
    pure (.node (← k.nat?) ks)
  | _ => none

def placeOfS : Sexp → Option Place
  | .atom "first" => some .first
  | .atom "last" => some .last
  | .atom "lbh" => some .lastBeforeHostile
  | _ => none

def confOf : Sexp → Option ClawConf
  | .list [p, pf, pt, d, .list schema] => do
    let ks ← schema.mapM (fun
      | .list [.atom n, t] => do pure (n, ← trieOf t)
      | _ => none)
    pure { pep526 := ← boolOf p, placeFunc := ← placeOfS pf, placeType := ← placeOfS pt, isDefault := ← boolOf d,
           schema := ks }
  | _ => none

def decoOf : Sexp → Option Deco
  | .list [.atom "d", e, ns] => do pure (.orig (← eOf e) (← strsOf ns))
  | .list [.atom "bt", l, c] => do pure (.bt (← l.nat?) (← boolOf c))
  | _ => none
def decoStr : Deco → Sexp
  | .orig e ns => .list [.atom "d", eStr e, strsStr ns]
  | .bt l c => .list [.atom "bt", natStr l, boolStr c]

def targetOf : Sexp → Option Target
  | .list [.atom "n", .atom n] => some (.name n)
  | .list [.atom "a", e, .atom a] => do pure (.attr (← eOf e) a)
  | .list [.atom "s", o, i] => do pure (.sub (← eOf o) (← eOf i))
  | _ => none
def targetStr : Target → Sexp
  | .name n => .list [.atom "n", .atom n]
  | .attr e a => .list [.atom "a", eStr e, .atom a]
  | .sub o i => .list [.atom "s", eStr o, eStr i]

def esOf (s : Sexp) : Option (List E) := do (← s.items?).mapM eOf
def esStr (l : List E) : Sexp := .list (l.map eStr)

def optNameOf : Sexp → Option (Option String)
  | .atom "-" => some none
  | .atom n => some (some n)
  | _ => none

partial def stmtOf : Sexp → Option Stmt
  | .list [.atom "fn", l, a, .atom nm, ds, ty, hs, .list body] => do
    pure (.funcDef (← l.nat?) (← boolOf a) nm (← (← ds.items?).mapM decoOf) (← boolOf ty) (← esOf hs) (← body.mapM stmtOf))
  | .list [.atom "cl", l, .atom nm, ds, hs, .list body] => do
    pure (.classDef (← l.nat?) nm (← (← ds.items?).mapM decoOf) (← esOf hs) (← body.mapM stmtOf))
  | .list [.atom "aa", l, t, ann, ans, v] => do
    let v' ← (match v with
      | .atom "none" => some none
      | x => (eOf x).map some)
    pure (.annAssign (← l.nat?) (← targetOf t) (← eOf ann) (← strsOf ans) v')
  | .list [.atom "as", l, tg, v, cl] => do
    let cl' ← (match cl with
      | .atom "none" => some none
      | x => (strsOf x).map some)
    pure (.assign (← l.nat?) (← (← tg.items?).mapM optNameOf) (← eOf v) cl')
  | .list [.atom "im", l, ms] => do pure (.importMod (← l.nat?) (← (← ms.items?).mapM strsOf))
  | .list [.atom "fr", l, lv, m, ns] => do
    let ns' ← (← ns.items?).mapM (fun
      | .list [.atom a, .atom b] => some (a, b)
      | _ => none)
    pure (.importFrom (← l.nat?) (← lv.nat?) (← strsOf m) ns')
  | .list [.atom "fu", l] => do pure (.futureImport (← l.nat?))
  | .list [.atom "doc", l] => do pure (.docExpr (← l.nat?))
  | .list [.atom "cp", l, .atom k, hs, .list bodies] => do
    let bs ← bodies.mapM (fun b => do (← b.items?).mapM stmtOf)
    pure (.compound (← l.nat?) k (← esOf hs) bs)
  | .list [.atom "si", l, es] => do pure (.simple (← l.nat?) (← esOf es))
  | .list [.atom "bi", l] => do pure (.btImport (← l.nat?))
  | .list [.atom "die", l, t, a, c] => do pure (.dieIf (← l.nat?) (← targetOf t) (← eOf a) (← boolOf c))
  | _ => none

partial def stmtStr : Stmt → Sexp
  | .funcDef l a nm ds ty hs body =>
    .list [.atom "fn", natStr l, boolStr a, .atom nm, .list (ds.map decoStr), boolStr ty, esStr hs, .list (body.map stmtStr)]
  | .classDef l nm ds hs body =>
    .list [.atom "cl", natStr l, .atom nm, .list (ds.map decoStr), esStr hs, .list (body.map stmtStr)]
  | .annAssign l t ann ans v =>
    .list [.atom "aa", natStr l, targetStr t, eStr ann, strsStr ans, (match v with
      | none => .atom "none"
      | some e => eStr e)]
  | .assign l tg v cl =>
    .list [.atom "as", natStr l, .list (tg.map (fun
      | none => .atom "-"
      | some n => .atom n)), eStr v, (match cl with
      | none => .atom "none"
      | some ns => strsStr ns)]
  | .importMod l ms => .list [.atom "im", natStr l, .list (ms.map strsStr)]
  | .importFrom l lv m ns => .list [.atom "fr", natStr l, natStr lv, strsStr m, .list (ns.map (fun p => .list [.atom p.1, .atom p.2]))]
  | .futureImport l => .list [.atom "fu", natStr l]
  | .docExpr l => .list [.atom "doc", natStr l]
  | .compound l k hs bodies => .list [.atom "cp", natStr l, .atom k, esStr hs, .list (bodies.map (fun b => .list (b.map stmtStr)))]
  | .simple l es => .list [.atom "si", natStr l, esStr es]
  | .btImport l => .list [.atom "bi", natStr l]
  | .dieIf l t a c => .list [.atom "die", natStr l, targetStr t, eStr a, boolStr c]

def handle (args : List Sexp) : Option Sexp := do
  match args with
  | [cf, .list body] =>
    let c ← confOf cf
    let m ← body.mapM stmtOf
    let x := xform c m
    pure (.list [
      .list [.atom "raises", boolStr (raises c m)],
      .list [.atom "xform", .list (x.map stmtStr)],
      .list [.atom "byhand", .list ((byHand c m).map stmtStr)],
      .list [.atom "obs", boolStr (cleanBody m), boolStr (noSubBody m), boolStr (pureBody m),
             boolStr (decoBody false x), boolStr (linesFrom none x), natStr (importsBody x)]])
  | _ => none

end BearVerif.ClawAst
