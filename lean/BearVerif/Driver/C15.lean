import BearVerif.Core.Sexp
import BearVerif.Core.Conc
import BearVerif.Extracted.Conc
import Std.Data.HashSet
/-!
  Line-protocol driver for C15.
    (c15 skeleton)                         the disciplines evaluated on the extracted skeletons
    (c15 lockorder ((OUTER INNER) …))      is each observed lock nesting allowed by the extracted lock table/order?
    (c15 goc locked|unlocked (K0 K1 …))    every terminal outcome of get-or-create by threads asking keys K0, K1, …
    (c15 memo (K0 K1 …))                   every terminal outcome of the lock-free memo of f k = 100 + k
  Outcomes are explored exhaustively (all interleavings of the atomic steps of `Core/Conc.lean`).
-/
namespace BearVerif.Conc
open BearVerif BearVerif.Extracted

def bstr (b : Bool) : Sexp := .atom (if b then "true" else "false")

def skeletonReport : Sexp :=
  let g := inferGuards concProgs
  let order := concLocks.map (·.1)
  let disc := fun (p : Prog) => lockDisc (reentOf concLocks) (rankIn order) [] p.acts
  .list [
    .list (concProgs.map fun p => .list [.atom p.name, bstr (wellLocked g [] p.acts), bstr (atomicOp p),
      bstr (flatWL g none (flattenRe [] p.acts)), bstr (disc p)]),
    .list (concMemoProgs.map fun p => .list [.atom p.name, bstr (memoShape false p.acts), bstr (disc p)])]

def instOf (label : String) : Option (LockId × Bool) :=
  (concLockInstances.find? (fun e => e.1 == label)).map (·.2)

def edgeOk (outer inner : String) : String :=
  match instOf outer, instOf inner with
  | some (lo, ro), some (li, _) =>
    let order := concLocks.map (·.1)
    if outer == inner then (if ro then "ok" else "self-deadlock")
    else if rankIn order lo < rankIn order li then "ok" else "against-order"
  | _, _ => "unknown-lock"

/-- identity classes by first occurrence -/
def canonIds (xs : List Nat) : List Nat :=
  let rec go (seen : List Nat) : List Nat → List Nat
    | [] => []
    | x :: r => match seen.idxOf? x with
      | some i => i :: go seen r
      | none => seen.length :: go (seen ++ [x]) r
  go [] xs

def gocKey (n : Nat) (keys : List Nat) (s : GoC.State) : String :=
  toString (repr ((List.range n).map s.pc)) ++ toString (repr (keys.map s.tbl)) ++ toString (repr s.owner) ++ toString s.next

partial def exploreGoC (locked : Bool) (n : Nat) (keys : List Nat) (todo : List GoC.State) (seen : Std.HashSet String)
    (outs : List (List Sexp)) : List (List Sexp) :=
  match todo with
  | [] => outs
  | s :: rest =>
    let k := gocKey n keys s
    if seen.contains k then exploreGoC locked n keys rest seen outs else
    let succs := (List.range n).filterMap fun t => GoC.step t (if locked then s else { s with owner := none })
    if succs.isEmpty then
      let res := (List.range n).map fun t => match s.pc t with
        | .done _ v => some v
        | _ => none
      let o : List Sexp :=
        if res.all Option.isSome then (canonIds (res.map (·.getD 0))).map (fun i => Sexp.atom (toString i))
        else [.atom "deadlock"]
      exploreGoC locked n keys rest (seen.insert k) (if outs.contains o then outs else outs ++ [o])
    else exploreGoC locked n keys (succs ++ rest) (seen.insert k) outs

def memoKey (n : Nat) (keys : List Nat) (s : Memo.State Nat) : String :=
  toString (repr ((List.range n).map fun t => match s.pc t with
    | .idle k => (0, k, 0) | .missed k => (1, k, 0) | .computed k v => (2, k, v) | .done k v => (3, k, v))) ++
  toString (repr (keys.map s.tbl))

partial def exploreMemo (n : Nat) (keys : List Nat) (todo : List (Memo.State Nat)) (seen : Std.HashSet String)
    (outs : List (List Sexp)) : List (List Sexp) :=
  match todo with
  | [] => outs
  | s :: rest =>
    let k := memoKey n keys s
    if seen.contains k then exploreMemo n keys rest seen outs else
    let succs := (List.range n).filterMap fun t => Memo.step (fun k => 100 + k) t s
    if succs.isEmpty then
      let o : List Sexp := (List.range n).map fun t => match s.pc t with
        | .done _ v => Sexp.atom (toString v)
        | _ => .atom "unfinished"
      exploreMemo n keys rest (seen.insert k) (if outs.contains o then outs else outs ++ [o])
    else exploreMemo n keys (succs ++ rest) (seen.insert k) outs

def handle (args : List Sexp) : Option Sexp := do
  match args with
  | [.atom "skeleton"] => pure skeletonReport
  | [.atom "lockorder", es] =>
    let es ← es.items?
    let rs ← es.mapM fun e => do
      match e with
      | .list [.atom o, .atom i] => pure (Sexp.atom (edgeOk o i))
      | _ => none
    pure (.list rs)
  | [.atom "goc", .atom variant, ks] =>
    let keys ← (← ks.items?).mapM Sexp.nat?
    let n := keys.length
    let s0 := GoC.init (fun t => keys.getD t 0)
    pure (.list ((exploreGoC (variant == "locked") n keys.eraseDups [s0] {} []).map .list))
  | [.atom "memo", ks] =>
    let keys ← (← ks.items?).mapM Sexp.nat?
    let n := keys.length
    let s0 : Memo.State Nat := Memo.init (fun t => keys.getD t 0)
    pure (.list ((exploreMemo n keys.eraseDups [s0] {} []).map .list))
  | _ => none

end BearVerif.Conc
