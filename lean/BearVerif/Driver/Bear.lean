import BearVerif.Core.Sexp
import BearVerif.Core.BearExpr
import BearVerif.Lemmas.BearTable
import BearVerif.Driver.Bfs
/-!
  Line-protocol driver of the Bear core (C01 C02 C03 C09 C10 C12 C18):
    (gen ISRANDOM HINT)                 -> the generated expression
    (run WORLD ISRANDOM (R…) HINT OBJ)  -> (sat hyps (chk evalresult)…)   one pair per draw; hyps = the theorems' side conditions hold
  WORLD = (N (sub rows as 0/1 strings) sized indexable reiter mapping) sent by the harness
  from the running interpreter (`issubclass` on the real classes).
-/
namespace BearVerif.Bear
open BearVerif

def atomOf : Sexp → Option Atom
  | .atom "none" => some .none
  | .list [.atom "b", .atom "true"] => some (.bool true)
  | .list [.atom "b", .atom "false"] => some (.bool false)
  | .list [.atom "i", n] => n.int?.map .int
  | .list [.atom "s", .atom s] => some (.str s)
  | .list [.atom "k", n] => n.nat?.map .klass
  | .list [.atom "o", n] => n.nat?.map .other
  | _ => none

def atomStr : Atom → Sexp
  | .none => .atom "none"
  | .bool b => .list [.atom "b", .atom (if b then "true" else "false")]
  | .int i => .list [.atom "i", .atom (toString i)]
  | .str s => .list [.atom "s", .atom ("\"" ++ s ++ "\"")]
  | .klass c => .list [.atom "k", .atom (toString c)]
  | .other n => .list [.atom "o", .atom (toString n)]

def natsOf (s : Sexp) : Option (List Nat) := do (← s.items?).mapM Sexp.nat?

partial def valeOf : Sexp → Option Vale
  | .list [.atom "fn", f] => f.nat?.map .isFn
  | .list [.atom "attr", .atom n, v] => (valeOf v).map (.isAttr n)
  | .list [.atom "eq", a] => (atomOf a).map .isEqual
  | .list (.atom "inst" :: cs) => (cs.mapM Sexp.nat?).map .isInstance
  | .list (.atom "subc" :: cs) => (cs.mapM Sexp.nat?).map .isSubclass
  | .list [.atom "and", v, w] => do pure (.and (← valeOf v) (← valeOf w))
  | .list [.atom "or", v, w] => do pure (.or (← valeOf v) (← valeOf w))
  | .list [.atom "not", v] => (valeOf v).map .not
  | _ => none

partial def hintOf : Sexp → Option Hint
  | .list [.atom "any"] => some .any
  | .list [.atom "cls", c] => c.nat?.map .cls
  | .list [.atom "shallow", c] => c.nat?.map .shallow
  | .list (.atom "union" :: hs) => (hs.mapM hintOf).map .union
  | .list (.atom "literal" :: ls) => (ls.mapM fun (l : Sexp) => match l with
      | Sexp.list [c, a] => do pure ((← c.nat?), (← atomOf a))
      | _ => none).map .literal
  | .list (.atom "tuple" :: hs) => (hs.mapM hintOf).map .tupleFixed
  | .list [.atom "seq", o, h] => do pure (.seq (← o.nat?) (← hintOf h))
  | .list [.atom "reit", o, h] => do pure (.reit (← o.nat?) (← hintOf h))
  | .list [.atom "quasi", o, h] => do pure (.quasi (← o.nat?) (← hintOf h))
  | .list [.atom "map", o, k, v] => do pure (.mapping (← o.nat?) (← hintOf k) (← hintOf v))
  | .list (.atom "type" :: cs) => (cs.mapM Sexp.nat?).map .typeOf
  | .list (.atom "ann" :: h :: vs) => do pure (.annotated (← hintOf h) (← vs.mapM valeOf))
  | .list (.atom "generic" :: c :: bs) => do pure (.generic (← c.nat?) (← bs.mapM hintOf))
  | _ => none

partial def objOf : Sexp → Option Obj
  | .list [.atom "obj", c, a, .list items, .list vals, .list attrs] => do
    let its ← items.mapM objOf
    let vs ← vals.mapM objOf
    let ats ← attrs.mapM fun (l : Sexp) => match l with
      | Sexp.list [Sexp.atom n, o] => do pure (n, (← objOf o))
      | _ => none
    pure (.mk (← c.nat?) (← atomOf a) its vs ats)
  | _ => none

def varStr (v : Var) : Sexp := .list (.atom "var" :: .atom (toString v.1) :: v.2.map .atom)
def natsStr (cs : List Nat) : Sexp := .list (cs.map fun c => .atom (toString c))

partial def exprStr : Expr → Sexp
  | .var v => varStr v
  | .walrus v e => .list [.atom "walrus", varStr v, exprStr e]
  | .bind v e => .list [.atom "bind", varStr v, exprStr e]
  | .isinst e cs => .list [.atom "isinst", exprStr e, natsStr cs]
  | .issub e cs => .list [.atom "issub", exprStr e, natsStr cs]
  | .len e => .list [.atom "len", exprStr e]
  | .lenEq e n => .list [.atom "leneq", exprStr e, .atom (toString n)]
  | .not e => .list [.atom "not", exprStr e]
  | .and a b => .list [.atom "and", exprStr a, exprStr b]
  | .or a b => .list [.atom "or", exprStr a, exprStr b]
  | .eqAtom e a => .list [.atom "eq", exprStr e, atomStr a]
  | .idxRand v => .list [.atom "idxrand", varStr v]
  | .idxConst e i => .list [.atom "idx", exprStr e, .atom (toString i)]
  | .idxKey e k => .list [.atom "idxkey", exprStr e, varStr k]
  | .nextIter e => .list [.atom "next", exprStr e]
  | .nextIterValues e => .list [.atom "nextvalues", exprStr e]
  | .getattrBind v e n => .list [.atom "getattr", varStr v, exprStr e, .atom n]
  | .call f e => .list [.atom "call", .atom (toString f), exprStr e]

/-- bit string "0101…" -/
def bitsOf (s : Sexp) : Option (Array Bool) := do
  let t ← s.str?
  pure (t.toList.map (· == '1')).toArray

/-- the user predicates placed in `Is[...]` by the harness (same table in Python) -/
def predTable (f : Nat) (x : Obj) : Bool :=
  match f with
  | 0 => true
  | 1 => false
  | 2 => (match x.atom with | .int i => i > 0 | .bool b => b | _ => false)   -- isinstance(x, int) and x > 0
  | 3 => !x.items.isEmpty                                                    -- isinstance(x, Collection) and len(x) > 0
  | 4 => (match x.atom with | .str s => s.length ≥ 2 | _ => false)           -- isinstance(x, str) and len(x) >= 2
  | _ => false

def tableOf : Sexp → Option Table
  | .list [.list rows, sized, indexable, reiter, mapping] => do
    let m ← (rows.mapM bitsOf)
    let sz ← bitsOf sized; let ix ← bitsOf indexable; let ri ← bitsOf reiter; let mp ← bitsOf mapping
    pure { rows := m.map Array.toList, sized := sz.toList, indexable := ix.toList, reiter := ri.toList, mapping := mp.toList }
  | _ => none

def worldOf (s : Sexp) : Option World := do pure ((← tableOf s).world predTable)

def boolStr (b : Bool) : Sexp := .atom (if b then "true" else "false")

def handle : Sexp → Option Sexp
  | .list [.atom "gen", .atom rnd, h] => do
    let h ← hintOf h
    pure (exprStr (genRoot { isRandom := rnd == "true" } h))
  | .list [.atom "run", w, .atom rnd, rs, h, x] => do
    let t ← tableOf w
    let W := t.world predTable          -- the very world the table theorems speak about
    let h ← hintOf h
    let x ← objOf x
    let rs ← natsOf rs
    -- the decidable side conditions of C01_compile / C01_no_false_alarm for THIS case
    let hyps := decide (4 ≤ t.rows.length) && t.checkWf && h.capsOk t && x.wf W
    let conf : Conf := { isRandom := rnd == "true" }
    let one (r : Nat) : Sexp :=
      let ev := eval W r (fun v => if v = pv 0 then some x else none) (genRoot conf h)
      let evs : Sexp := match ev with
        | some (.bool b, _, n) => .list [boolStr b, .atom (toString n)]
        | some _ => .atom "nonbool"
        | none => .atom "raises"
      .list [boolStr (chk W conf r h x), evs]
    pure (.list (boolStr (sat W h x) :: boolStr hyps :: rs.map one))
  | req => Bfs.handle req          -- `(bfs …)`: the placeholder mechanism (Driver/Bfs.lean)

end BearVerif.Bear
