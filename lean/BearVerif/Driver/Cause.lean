import BearVerif.Driver.Bear
import BearVerif.Lemmas.BearErrCost
/-!
  `(cause WORLD RND (draws) HINT OBJ)` → per draw `(FOUND READS)`: the instrumented violation finder of C09
  (`causeRC`: verdict of the explanation path under O1 and the number of container items it looks at).
-/
namespace BearVerif.Bear
open BearVerif

def causeHandle : Sexp → Option Sexp
  | .list [.atom "cause", w, .atom rnd, rs, h, x] => do
    let t ← tableOf w
    let W := t.world predTable
    let h ← hintOf h
    let x ← objOf x
    let rs ← natsOf rs
    let conf : Conf := { isRandom := rnd == "true" }
    pure (.list (rs.map fun r =>
      let c := causeRC W conf r h x
      .list [boolStr c.1, .atom (toString c.2), .atom (toString (causeBound h))]))
  | _ => none

end BearVerif.Bear
