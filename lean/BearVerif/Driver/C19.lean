import BearVerif.Core.Sexp
import BearVerif.Core.Door
import BearVerif.Driver.Bear
/-!
  Line-protocol driver for C19 (`lean/MainC19.lean`):
    (c19 matrix WORLD NT (HINT…))        -> ((row…) (row…))  is_subhint and == for every ordered pair,
                                             one string per row: t / f / a (undecidable) / u (out of fuel)
    (c19 sats WORLD NT (HINT…) (OBJ…))   -> (row…)            published meaning `dsat` of every hint on every object
    (c19 kids WORLD NT (HINT…))          -> ((len (child…) (arg…) ignorable argsIgnorable)…)
  WORLD as in Driver/Bear.lean; NT = ((fabricated-class parent-class)…).
-/
namespace BearVerif.Door
open BearVerif BearVerif.Bear

def kindOf : Sexp → Option CKind
  | .atom "seq" => some .seq
  | .atom "reit" => some .reit
  | .atom "quasi" => some .quasi
  | _ => none

partial def dhintOf : Sexp → Option DHint
  | .list [.atom "any"] => some .any
  | .list [.atom "cls", c] => c.nat?.map .cls
  | .list (.atom "union" :: hs) => (hs.mapM dhintOf).map .union
  | .list (.atom "tv" :: hs) => (hs.mapM dhintOf).map .typevar
  | .list (.atom "lit" :: ls) => (ls.mapM fun (l : Sexp) => match l with
      | Sexp.list [c, a] => do pure ((← c.nat?), (← atomOf a))
      | _ => none).map .literal
  | .list [.atom "ann", h, .list md] => do pure (.annotated (← dhintOf h) (← md.mapM Sexp.nat?))
  | .list (.atom "tup" :: hs) => (hs.mapM dhintOf).map .tupleFixed
  | .list [.atom "tupv", h] => (dhintOf h).map .tupleVar
  | .list [.atom "cont", k, o, h] => do pure (.cont (← kindOf k) (← o.nat?) (← dhintOf h))
  | .list [.atom "map", o, k, v] => do pure (.mapping (← o.nat?) (← dhintOf k) (← dhintOf v))
  | .list [.atom "call", o, .atom ell, .list ps, r] => do
      pure (.callable (← o.nat?) (ell == "true") (← ps.mapM dhintOf) (← dhintOf r))
  | _ => none

def nat (n : Nat) : Sexp := .atom (toString n)

partial def dhintStr : DHint → Sexp
  | .any => .list [.atom "any"]
  | .cls c => .list [.atom "cls", nat c]
  | .union hs => .list (.atom "union" :: hs.map dhintStr)
  | .typevar hs => .list (.atom "tv" :: hs.map dhintStr)
  | .literal ms => .list (.atom "lit" :: ms.map fun m => .list [nat m.1, atomStr m.2])
  | .annotated h md => .list [.atom "ann", dhintStr h, .list (md.map nat)]
  | .tupleFixed hs => .list (.atom "tup" :: hs.map dhintStr)
  | .tupleVar h => .list [.atom "tupv", dhintStr h]
  | .cont k o h => .list [.atom "cont", .atom (match k with | .seq => "seq" | .reit => "reit" | .quasi => "quasi"), nat o, dhintStr h]
  | .mapping o k v => .list [.atom "map", nat o, dhintStr k, dhintStr v]
  | .callable o ell ps r => .list [.atom "call", nat o, boolStr ell, .list (ps.map dhintStr), dhintStr r]

def argStr : Arg → Sexp
  | .hint h => dhintStr h
  | .value m => .list [.atom "value", nat m.1, atomStr m.2]
  | .ellipsis => .atom "ellipsis"

def ntOf (s : Sexp) : Option (Nat → Option Nat) := do
  let ps ← (← s.items?).mapM fun (p : Sexp) => match p with
    | Sexp.list [c, d] => do pure ((← c.nat?), (← d.nat?))
    | _ => none
  pure fun c => ps.lookup c

def rChar : R → Char
  | .ok true => 't'
  | .ok false => 'f'
  | .error .arity => 'a'
  | .error .fuel => 'u'

def handle (req : List Sexp) : Option Sexp := do
  match req with
  | [.atom "matrix", w, nt, .list hs] =>
    let D : DWorld := { W := (← worldOf w), ntParent := (← ntOf nt) }
    let hs ← hs.mapM dhintOf
    let le := hs.map fun a => Sexp.atom (String.ofList (hs.map fun b => rChar (subhint D a b)))
    let eq := hs.map fun a => Sexp.atom (String.ofList (hs.map fun b => rChar (eqW D a b)))
    pure (.list [.list le, .list eq])
  | [.atom "sats", w, nt, .list hs, .list xs] =>
    let D : DWorld := { W := (← worldOf w), ntParent := (← ntOf nt) }
    let hs ← hs.mapM dhintOf
    let xs ← xs.mapM objOf
    pure (.list (hs.map fun h => Sexp.atom (String.ofList (xs.map fun x => if dsat D h x then 't' else 'f'))))
  | [.atom "kids", w, nt, .list hs] =>
    let D : DWorld := { W := (← worldOf w), ntParent := (← ntOf nt) }
    let hs ← hs.mapM dhintOf
    pure (.list (hs.map fun h => Sexp.list [nat (wlen h), .list ((witer h).map dhintStr), .list ((args h).map argStr),
                                            boolStr (ign D h), boolStr (argsIgn D h)]))
  | _ => none

end BearVerif.Door
