import BearVerif.Core.Sexp
import BearVerif.Core.Gen
import BearVerif.Extracted.Gen
/-!
  Line-protocol driver for C08.

  `(c08 aut KIND OBJOK CHK TABLE OPS)`  KIND = gen|coro|agen, OBJOK = true|false, CHK = any|int|never
      -> `((plain AUT) (spec AUT) (wrapped AUT))`: the reachable automaton (over the operation alphabet OPS) of
         the undecorated object, of the specification object (`checkRet` / `violBody`) and of the decorated object.
         AUT = one entry per state (state 0 initial), each a list per operation of `(LOG RES NEXT)`.
  `(c08 kind CORO GEN AGEN)` -> decisions of the hand model / of the extracted `reinit`, wrapper kinds.
-/
namespace BearVerif.Gen
open BearVerif

def valOf : Sexp → Option Val
  | .atom "none" => some none
  | .atom a => a.toInt?.map some
  | _ => none

def excOf : Sexp → Option Exc
  | .atom "GE" => some .genExit
  | .atom "SAI" => some .stopAsync
  | .list [.atom "SI", v] => (valOf v).map .stopIter
  | .list [.atom "U", c, v] => do pure (.user (← c.nat?) (← valOf v))
  | _ => none

def opOf : Sexp → Option Op
  | .atom "close" => some .close
  | .list [.atom "send", v] => (valOf v).map .send
  | .list [.atom "throw", e] => (excOf e).map .throw
  | _ => none

def Op.toA : Op → AOp
  | .send v => .asend v
  | .throw e => .athrow e
  | .close => .aclose

def vexprOf : Sexp → Option VExpr
  | .atom "echo" => some .echo
  | s => (valOf s).map .lit

def eexprOf : Sexp → Option EExpr
  | .atom "same" => some .same
  | s => (excOf s).map .mk

def reactOf : Sexp → Option React
  | .list [.atom "y", v, n] => do pure (.yld (← vexprOf v) (← n.nat?))
  | .list [.atom "r", v] => (vexprOf v).map .ret
  | .list [.atom "x", e] => (eexprOf e).map .rse
  | _ => none

def slotOf : Sexp → Option (Log × React)
  | .list [.list l, r] => do pure (← l.mapM Sexp.nat?, ← reactOf r)
  | _ => none

def rowOf : Sexp → Option Row
  | .list [a, b, c, d] => do pure ⟨← slotOf a, ← slotOf b, ← slotOf c, ← slotOf d⟩
  | _ => none

def valStr : Val → Sexp
  | none => .atom "none"
  | some n => .atom (toString n)

def q (s : String) : Sexp := .atom ("\"" ++ s ++ "\"")

def userName : Nat → String
  | 0 => "ValueError" | 1 => "KeyError" | 2 => "ZeroDivisionError" | 3 => "UserBase" | n => "User" ++ toString n

def excStr : Exc → Sexp
  | .genExit => .list [.atom "exc", .atom "GeneratorExit"]
  | .stopIter none => .list [.atom "exc", .atom "StopIteration"]
  | .stopIter v => .list [.atom "exc", .atom "StopIteration", valStr v]
  | .stopAsync => .list [.atom "exc", .atom "StopAsyncIteration"]
  | .runtime m => .list [.atom "exc", .atom "RuntimeError", q m.text]
  | .typeErr m => .list [.atom "exc", .atom "TypeError", q m.text]
  | .user c none => .list [.atom "exc", .atom (userName c)]
  | .user c v => .list [.atom "exc", .atom (userName c), valStr v]
  | .violation => .list [.atom "exc", .atom "BeartypeCallHintReturnViolation"]

def resStr : Res → Sexp
  | .val v => .list [.atom "val", valStr v]
  | .exc e => excStr e

/-- reachable automaton of a deterministic object over a finite operation alphabet -/
partial def automaton {α : Type} [BEq α] (step : α → Nat → Log × α × Res) (nOps : Nat) (init : α) : Sexp :=
  let rec go (states : Array α) (i : Nat) (acc : Array Sexp) : Array Sexp :=
    if h : i < states.size then
      let s := states[i]
      let (states, row) := (List.range nOps).foldl (fun (p : Array α × Array Sexp) j =>
        let (l, s', r) := step s j
        let (sts, idx) := match p.1.findIdx? (· == s') with
          | some k => (p.1, k)
          | none => (p.1.push s', p.1.size)
        (sts, p.2.push (.list [.list (l.map (fun n => .atom (toString n))), resStr r, .atom (toString idx)])))
        (states, #[])
      go states (i + 1) (acc.push (.list row.toList))
    else acc
  .list (go #[init] 0 #[]).toList

def autG {σ : Type} [DecidableEq σ] (k : Kind) (b : Body σ) (ops : Array Op) : Sexp :=
  automaton (fun (st : St σ) j => G.step k b st (ops[j]?.getD .close)) ops.size .created

def autA {σ : Type} [DecidableEq σ] (b : Body σ) (ops : Array Op) : Sexp :=
  automaton (fun (a : AState σ) j => A.step b a (ops[j]?.getD .close).toA) ops.size A.init


def handleAut (args : List Sexp) : Option Sexp := do
  match args with
  | [.atom kind, .atom objOk, .atom chk, tbl, ops] =>
    let objOk ← (match objOk with | "true" => some true | "false" => some false | _ => none)
    let chk : Val → Bool ← (match chk with
      | "any" => some (fun _ => true) | "int" => some (fun (v : Val) => v.isSome)
      | "never" => some (fun _ => false) | _ => none)
    let t : Table ← (← tbl.items?).mapM rowOf
    let ops := (← (← ops.items?).mapM opOf).toArray
    match kind with
    | "gen" =>
      let b := t.toBody
      let spec := if objOk then autG .gen b ops else autG .gen violBody ops
      pure (.list [.list [.atom "plain", autG .gen b ops], .list [.atom "spec", spec],
                   .list [.atom "wrapped", autG .gen (wrap342 objOk b) ops]])
    | "coro" =>
      let b := t.toBody (viaGenerator := true)
      pure (.list [.list [.atom "plain", autG .coro b ops], .list [.atom "spec", autG .coro (checkRet chk b) ops],
                   .list [.atom "wrapped", autG .coro (wrapCoro chk b) ops]])
    | "agen" =>
      let b := t.toBody
      let spec := if objOk then autA b ops else autA violBody ops
      pure (.list [.list [.atom "plain", autA b ops], .list [.atom "spec", spec],
                   .list [.atom "wrapped", autA (wrap525 objOk b) ops]])
    | _ => none
  | _ => none

def fkindStr : Option FKind → Sexp
  | none => .atom "syntax-error"
  | some .plain => .atom "plain"
  | some .coroutine => .atom "coroutine"
  | some .generator => .atom "generator"
  | some .asyncgen => .atom "asyncgen"

def decisionStr (d : Decision) : Sexp :=
  .list [q d.sigPrefix, q d.callPrefix, .atom d.retChecked, .atom d.retUnchecked]

def boolOf : Sexp → Option Bool
  | .atom "true" => some true
  | .atom "false" => some false
  | _ => none

def handleKind (args : List Sexp) : Option Sexp := do
  match args with
  | [c, g, a] =>
    let f : Flags := ⟨← boolOf c, ← boolOf g, ← boolOf a⟩
    let dh := reinitDecision f
    let dx := runReinit BearVerif.Extracted.genReinitDefaults BearVerif.Extracted.genReinitProg f
    pure (.list [.list [.atom "hand", decisionStr dh], .list [.atom "extracted", decisionStr dx],
                 .list [.atom "kind", fkindStr (some f.kind)],
                 .list [.atom "wrapper-checked", fkindStr (wrapperKind BearVerif.Extracted.genSnippetFeats dx true)],
                 .list [.atom "wrapper-unchecked", fkindStr (wrapperKind BearVerif.Extracted.genSnippetFeats dx false)]])
  | _ => none

def handle (args : List Sexp) : Option Sexp :=
  match args with
  | .atom "aut" :: rest => handleAut rest
  | .atom "kind" :: rest => handleKind rest
  | _ => none

end BearVerif.Gen
