import BearVerif.Core.Sexp
import BearVerif.Core.Bfs
/-!
  Driver of the placeholder mechanism: `(bfs ROOT (ID ITEM…)…)` where ITEM is `(t K)` (text chunk number K, interned
  by the harness) or `(h ID)` (the placeholder of child ID). The snippets are the REAL `func_curr_code` strings of one
  `make_check_expr` run, split at the placeholders. Replies `(BFS FLAT HOLEFREE)`: the chunk numbers of the code
  computed by the breadth-first mechanism (`run`) and by the recursive composition (`Node.flat`).
-/
namespace BearVerif.Bfs
open BearVerif

/-- rebuild the snippet tree from the table of visits (fuel = number of visits: a child refers to a later visit) -/
def build (tbl : List (Nat × List Sexp)) : Nat → Nat → Option Node
  | 0, _ => none
  | fuel + 1, id => do
    let items ← (tbl.find? (·.1 == id)).map (·.2)
    let its ← items.mapM (fun it => match it with
      | .list [.atom "t", k] => some (Item.txt (k.toStr))
      | .list [.atom "h", c] => do pure (Item.child (← build tbl fuel (← c.nat?)))
      | _ => none)
    pure (.mk its)

def handle : Sexp → Option Sexp
  | .list (.atom "bfs" :: root :: visits) => do
    let tbl ← visits.mapM (fun v => match v with
      | .list (id :: items) => do pure ((← id.nat?), items)
      | _ => none)
    let node ← build tbl (tbl.length + 1) (← root.nat?)
    let s := run node.size (init node)
    pure (.list [.list ((Code.text s.code).map .atom), .list (node.flat.map .atom),
                 .atom (if Code.holeFree s.code && s.queue.isEmpty then "true" else "false")])
  | _ => none

end BearVerif.Bfs
