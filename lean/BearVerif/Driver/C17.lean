import BearVerif.Core.Sexp
import BearVerif.Core.Conf
import BearVerif.Extracted.Conf
/-!
  Line-protocol driver for C17: `(c17 (OP …))`,
    OP  = `(new ENV ((name VAL) …))` | `(again ENV k)`   (k = index of an earlier op of this history)
    ENV = `(unset)` | `(set "string")`
  runs the history on the model instantiated with the EXTRACTED table and reports per op
    `(conf ID SIZE WARNSET (VAL…kwargs) (VAL…props) (NAME…repr))` | `(exc ParamException|ShellVarException|raw)` | `(skip)`.
-/
namespace BearVerif.Conf
open BearVerif BearVerif.Extracted

def boolOf : Sexp → Option Bool
  | .atom "true" => some true
  | .atom "false" => some false
  | _ => none

def numTyOf : String → Option NumTy
  | "int" => some .int | "float" => some .float | "complex" => some .complex
  | "decimal" => some .decimal | "fraction" => some .fraction | _ => none

def collKindOf : String → Option CollKind
  | "tuple" => some .tuple | "list" => some .list | "fset" => some .fset | "set" => some .set
  | "str" => some .str | _ => none

def itemOf : Sexp → Option Item
  | .list [.atom "s", .atom s, b] => do pure (.str s (← boolOf b))
  | .list [.atom "o", n] => do pure (.other (← n.nat?))
  | _ => none

def ovOf : Sexp → Option Ov
  | .atom "absent" => some .absent
  | .atom "falsy" => some .falsy
  | .atom "tower" => some .tower
  | .list [.atom "other", k] => do pure (.other (← k.nat?))
  | _ => none

def valOf : Sexp → Option Val
  | .atom "none" => some .none
  | .list [.atom "b", b] => do pure (.bool (← boolOf b))
  | .list [.atom "n", .atom ty, n] => do pure (.num (← numTyOf ty) (← n.int?))
  | .list [.atom "e", c, i] => do pure (.enum (← c.nat?) (← i.nat?))
  | .list [.atom "ie", c, v] => do pure (.intEnum (← c.nat?) (← v.int?))
  | .list [.atom "c", i, e, w] => do pure (.cls (← i.nat?) (← boolOf e) (← boolOf w))
  | .list [.atom "k", .atom k, .list items] => do pure (.coll (← collKindOf k) (← items.mapM itemOf))
  | .list [.atom "fd", f, c, r, h, ki] => do pure (.fdict (← ovOf f) (← ovOf c) (← r.nat?) (← boolOf h) (← boolOf ki))
  | .list [.atom "d", n, ki] => do pure (.dict (← n.nat?) (← boolOf ki))
  | .list [.atom "o", n] => do pure (.obj (← n.nat?))
  | _ => none

def bS (b : Bool) : Sexp := .atom (if b then "true" else "false")
def nS (n : Nat) : Sexp := .atom (toString n)
def iS (n : Int) : Sexp := .atom (toString n)
def qS (s : String) : Sexp := .atom ("\"" ++ s ++ "\"")

def numTyS : NumTy → String
  | .int => "int" | .float => "float" | .complex => "complex" | .decimal => "decimal" | .fraction => "fraction"

def collKindS : CollKind → String
  | .tuple => "tuple" | .list => "list" | .fset => "fset" | .set => "set" | .str => "str"

def itemS : Item → Sexp
  | .str s b => .list [.atom "s", qS s, bS b]
  | .other n => .list [.atom "o", nS n]

def ovS : Ov → Sexp
  | .absent => .atom "absent" | .falsy => .atom "falsy" | .tower => .atom "tower"
  | .other k => .list [.atom "other", nS k]

def valS : Val → Sexp
  | .none => .atom "none"
  | .bool b => .list [.atom "b", bS b]
  | .num ty n => .list [.atom "n", .atom (numTyS ty), iS n]
  | .enum c i => .list [.atom "e", nS c, nS i]
  | .intEnum c v => .list [.atom "ie", nS c, iS v]
  | .cls i e w => .list [.atom "c", nS i, bS e, bS w]
  | .coll k items => .list [.atom "k", .atom (collKindS k), .list (items.map itemS)]
  | .fdict f c r h ki => .list [.atom "fd", ovS f, ovS c, nS r, bS h, bS ki]
  | .dict n ki => .list [.atom "d", nS n, bS ki]
  | .obj n => .list [.atom "o", nS n]

def envOf : Sexp → Option (Option String)
  | .list [.atom "unset"] => some none
  | .list [.atom "set", .atom s] => some (some s)
  | _ => none

def kwOf (s : Sexp) : Option RawKwargs := do
  (← s.items?).mapM fun p => match p with
    | .list [.atom n, v] => do pure (n, ← valOf v)
    | _ => none

/-- harness-level operation: `again` refers to an earlier OP of the history, not to an object id -/
inductive HOp
  | new (env : Option String) (kw : RawKwargs)
  | again (env : Option String) (k : Nat)

def hopOf : Sexp → Option HOp
  | .list [.atom "new", e, kw] => do pure (.new (← envOf e) (← kwOf kw))
  | .list [.atom "again", e, k] => do pure (.again (← envOf e) (← k.nat?))
  | _ => none

/-- read-back of every option at once (`readback` for each name of the table) -/
def propsOf (t : Table) (c : Conf) : List Val :=
  (kwargsOf t c).map (fun p =>
    if p.1 = "warning_cls_on_decorator_exception" ∧ p.2 = t.warnDefault then .none else p.2)

def resS (t : Table) (dflt : List Val) (cache : Cache) : Result → Sexp
  | .conf i =>
    match cache[i]? with
    | some c => .list [.atom "conf", nS i, nS cache.length, bS (warnSet t c),
        .list (c.key.map valS),
        .list ((propsOf t c).map valS),
        .list ((reprNamesOf t dflt c).map .atom)]
    | none => .list [.atom "exc", .atom "model-bug"]
  | .paramExc => .list [.atom "exc", .atom "ParamException"]
  | .shellVarExc => .list [.atom "exc", .atom "ShellVarException"]
  | .rawError => .list [.atom "exc", .atom "raw"]

def handle (args : List Sexp) : Option Sexp := do
  match args with
  | [ops] =>
    let hops ← (← ops.items?).mapM hopOf
    let t := confTable
    let dflt := match normalize t none [] with | .ok d => d | .error _ => []
    let (_, _, out) := hops.foldl (fun (acc : Cache × List (Option Nat) × List Sexp) h =>
      let (cache, ids, out) := acc
      let op? : Option Op := match h with
        | .new e kw => some (.new e kw)
        | .again e k => match ids[k]? with
          | some (some i) => some (.again e i)
          | _ => none
      match op? with
      | none => (cache, ids ++ [none], out ++ [Sexp.list [.atom "skip"]])
      | some op =>
        let (cache', r) := step t cache op
        let id := match r with | .conf i => some i | _ => none
        (cache', ids ++ [id], out ++ [resS t dflt cache' r])) ([], [], [])
    pure (.list out)
  | _ => none

end BearVerif.Conf
