import BearVerif.Core.Sexp
import BearVerif.Core.Pyc
/-! Line-protocol driver for C16.
    `(c16 RECIPE (RUN…))`  RECIPE = extracted | legacy | fixed
       RUN = (seq HOOKS EDITS (MOD…)) | (conc HOOKS EDITS (MOD…) (THREAD-INDEX…))
       HOOKS = ((MOD (pep526 placeFunc placeType rt))…)   EDITS = ((MOD VERSION)…)
     → per run `((OBS…) (FILE…))`, OBS = (mod tag reused src SHAPE rt broken done), FILE = (mod tag stamp src SHAPE)
    `(c16info)` → facts about the extracted recipe. The empty tag is printed `-`. -/
namespace BearVerif.Pyc
open BearVerif

def placeOf : Nat → Option Place
  | 1 => some .first
  | 2 => some .last
  | 3 => some .lastBeforeHostile
  | _ => none

def confOf (s : Sexp) : Option Conf := do
  match s with
  | .list [p, f, t, r] =>
    pure ⟨(← p.nat?) != 0, ← placeOf (← f.nat?), ← placeOf (← t.nat?), ← r.nat?⟩
  | _ => none

def hooksOf (s : Sexp) : Option (List (Mod × Conf)) := do
  (← s.items?).mapM fun
    | .list [m, c] => do pure (← m.str?, ← confOf c)
    | _ => none

def editsOf (s : Sexp) : Option (List (Mod × Nat)) := do
  (← s.items?).mapM fun
    | .list [m, v] => do pure (← m.str?, ← v.nat?)
    | _ => none

def recipeOf : Sexp → Option (Conf → Tag)
  | .atom "extracted" => some extractedTag
  | .atom "legacy" => some legacyTag
  | .atom "fixed" => some fixedTag
  | _ => none

def tagStr (t : Tag) : Sexp := .atom (if t = "" then "-" else t)
def boolStr (b : Bool) : Sexp := .atom (if b then "1" else "0")

def shapeStr : Option Shape → Sexp
  | none => .atom "none"
  | some s => .list [boolStr s.pep526, .atom (toString s.placeFunc.code), .atom (toString s.placeType.code), boolStr s.confKw]

def obsStr (m : Mod) (t : Tag) (reused : Bool) (b : Beh) (done : Bool) : Sexp :=
  .list [.atom m, tagStr t, boolStr reused, .atom (toString b.src), shapeStr b.shape, .atom (toString b.rt),
         boolStr b.broken, boolStr done]

def diskStr (d : Disk) : Sexp :=
  .list (d.map fun (k, e) => .list [.atom k.1, tagStr k.2, .atom (toString e.stamp), .atom (toString e.code.src), shapeStr e.code.shape])

def hookFn (hs : List (Mod × Conf)) : Mod → Option Conf := fun m => hs.lookup m

def runOne (tg : Conf → Tag) (w : World) (s : Sexp) : Option (World × Sexp) := do
  match s with
  | .list [.atom "seq", hs, es, ms] =>
    let hook := hookFn (← hooksOf hs)
    let src := applyEdits w.src (← editsOf es)
    let ms ← (← ms.items?).mapM Sexp.str?
    let res := runImports tg hook src w.disk ms
    pure (⟨res.1, src⟩, .list [.list (res.2.map fun o => obsStr o.mod o.tag o.reused o.beh true), diskStr res.1])
  | .list [.atom "conc", hs, es, ms, sch] =>
    let hook := hookFn (← hooksOf hs)
    let src := applyEdits w.src (← editsOf es)
    let ms ← (← ms.items?).mapM Sexp.str?
    let sched ← (← sch.items?).mapM Sexp.nat?
    let mods : Nat → Mod := fun i => ms.getD i ""
    let st := crun tg hook src (CState.init hook w.disk mods) sched
    let obs := (List.range ms.length).map fun i =>
      let t := st.threads i
      let c := t.code.getD ⟨0, none⟩
      obsStr t.mod t.path t.reused (behave (hook t.mod) c) (t.pc == 5)
    pure (⟨st.disk, src⟩, .list [.list obs, diskStr st.disk, .atom (if st.patch.isSome then "patched" else "restored")])
  | _ => none

def runAll (tg : Conf → Tag) : World → List Sexp → Option (List Sexp)
  | _, [] => some []
  | w, r :: rs => do
    let (w', out) ← runOne tg w r
    pure (out :: (← runAll tg w' rs))

def handle (args : List Sexp) : Option Sexp := do
  match args with
  | [rc, runs] => pure (.list (← runAll (← recipeOf rc) World.init (← runs.items?)))
  | _ => none

/-- status of the recipe observed on /repo -/
def info : Sexp :=
  let observed (s : Shape) : Bool := (Extracted.pycHookedTags.lookup s.key).isSome
  .list [.atom "nonempty", boolStr (shapeTagNonemptyB extractedShapeTag),
         .atom "injective", boolStr (shapeTagInjectiveB extractedShapeTag),
         .atom "legacy", boolStr (Shape.all.all fun s => !observed s || extractedShapeTag s == Extracted.pycMarkerPrefix),
         .atom "fixed", boolStr (Shape.all.all fun s => !observed s || extractedShapeTag s == Extracted.pycMarkerPrefix ++ s.encode),
         .atom "observed", .atom (toString (Shape.all.filter observed).length),
         .atom "unhooked", tagStr Extracted.pycUnhookedTag]

end BearVerif.Pyc
