import BearVerif.Core.Sexp
import BearVerif.Core.Roar
import BearVerif.Extracted.Roar
/-! Line-protocol driver for C11:
    `(c11 families)` · `(c11 under TABLE ROOT)` · `(c11 reraise CLS ARG0 TARGET)` · `(c11 cached F HISTORY)` ·
    `(c11 classify SV DESCR)` · `(c11 wrapper STEPS BODY RET)` · `(c11 tester STEP)` · `(c11 raiser STEP)`. -/
namespace BearVerif.Roar
open BearVerif BearVerif.Extracted

def entryName : Entry → String
  | .decor => "decor" | .call => "call" | .isBearable => "is_bearable" | .dieIfUnbearable => "die_if_unbearable"
  | .typeHint => "TypeHint" | .isSubhint => "is_subhint"

def namesWhere (t : Table) (p : Nat → Bool) : List Sexp :=
  (t.zipIdx.filter (fun (_, i) => p i)).map (fun (r, _) => .atom r.name)

def keyOf : Sexp → Option Key
  | .list [.atom "h", n] => n.nat?.map .hashable
  | .list [.atom "u", n] => n.nat?.map .unhashable
  | .list [.atom "r", n] => n.nat?.map .hashRaises
  | _ => none

def ownOf : Sexp → Option Own
  | .list [.atom "val", n] => n.nat?.map .val
  | .list [.atom "te", n] => n.nat?.map .typeErr
  | .list [.atom "oe", n] => n.nat?.map .otherErr
  | _ => none

def ownStr : Own → Sexp
  | .val v => .list [.atom "val", .atom (toString v)]
  | .typeErr t => .list [.atom "te", .atom (toString t)]
  | .otherErr t => .list [.atom "oe", .atom (toString t)]

def resStr : Res → Sexp
  | .own o => ownStr o
  | .userHashError t => .list [.atom "uh", .atom (toString t)]

def itemOf : Sexp → Option Item
  | .list [.atom "t", .atom i, .atom p] => some (.type (i == "true") (p == "true"))
  | .atom "s" => some .str
  | .atom "o" => some .other
  | _ => none

def descrOf : Sexp → Option HintDescr
  | .list [.atom pep, .atom nr, .atom ty, .atom inst, tup] => do
    let pep ← (match pep with | "none" => some none | "sup" => some (some true) | "unsup" => some (some false) | _ => none)
    let tup ← (match tup with
      | .atom "none" => some none
      | .list items => (items.mapM itemOf).map some
      | _ => none)
    pure { pep, isNoReturn := nr == "true", isType := ty == "true", isinstanceable := inst == "true", tuple := tup }
  | _ => none

def outcomeName : Outcome → String
  | .accepted => "accepted" | .nonpep => "nonpep" | .pepUnsupported => "pepUnsupported" | .pep484NoReturn => "pep484NoReturn"

def excOfId (n : Nat) : Exc := ⟨n, "User", none, []⟩

def stepOf : Sexp → Option Step
  | .atom "pass" => some .pass
  | .list [.atom "fail", .atom "none"] => some (.fail none)
  | .list [.atom "fail", n] => n.nat?.map (fun i => .fail (some (excOfId i)))
  | .list [.atom "raises", n] => n.nat?.map (fun i => .raises (excOfId i))
  | _ => none

def callResStr : CallRes → Sexp
  | .returned => .atom "returned"
  | .violation i => .list [.atom "violation", .atom (toString i)]
  | .raised e => .list [.atom "raised", .atom (toString e.oid)]

def handle (args : List Sexp) : Option Sexp := do
  match args with
  | [.atom "families"] =>
    let fams := Entry.all.map fun e =>
      Sexp.list [.atom (entryName e), .list (namesWhere roarExc (fun c => roarExc.allowed roarAnchors e c))]
    pure (.list (fams ++ [
      .list [.atom "public", .list (namesWhere roarExc roarExc.publicAt)],
      .list [.atom "publicwarn", .list (namesWhere roarWarn roarWarn.publicAt)],
      .list [.atom "warnings", .list (namesWhere roarWarn (fun c => roarWarn.under c roarAnchors.warning))]]))
  | [.atom "under", .atom tbl, .atom root] =>
    let t := if tbl == "warn" then roarWarn else roarExc
    let r ← t.idx root
    pure (.list (namesWhere t (fun c => t.under c r)))
  | [.atom "reraise", .atom cls, a0, .atom target] =>
    let a0 ← (match a0 with
      | .atom "none" => some none
      | .list [.atom "obj"] => some (some (Arg0.obj 0))
      | .list [.atom "str", .atom m] => some (some (Arg0.str m))
      | _ => none)
    let e := reraise ⟨7, cls, a0, [1, 2]⟩ target
    pure (.list [.atom e.cls, .atom (toString e.oid), (match e.arg0 with
      | none => .atom "none"
      | some (.obj _) => .list [.atom "obj"]
      | some (.str m) => .list [.atom "str", .atom ("\"" ++ m ++ "\"")])])
  | [.atom "cached", f, hist] =>
    let tbl ← (← f.items?).mapM (fun p => match p with
      | .list [k, o] => do pure ((← keyOf k), (← ownOf o))
      | _ => none)
    let fn : Key → Own := fun k => ((tbl.find? (fun p => p.1 == k)).map (·.2)).getD (.val 0)
    let hist ← (← hist.items?).mapM keyOf
    pure (.list ((cachedRun fn Cache.empty hist).map (fun (r, n) => .list [resStr r, .atom (toString n)])))
  | [.atom "classify", .atom sv, d] =>
    let d ← descrOf d
    let o := classify (sv == "true") d
    let cls := match o.cls roarAnchors with
      | some c => ((roarExc[c]?).map (·.name)).getD "?"
      | none => "-"
    pure (.list [.atom (outcomeName o), .atom cls, .atom (toString (isHint (sv == "true") d))])
  | [.atom "wrapper", steps, body, ret] =>
    let steps ← (← steps.items?).mapM stepOf
    let body ← (match body with
      | .atom "none" => some none
      | b => b.nat?.map (fun i => some (excOfId i)))
    let ret ← stepOf ret
    pure (callResStr (wrapperCall steps body ret))
  | [.atom "tester", s] => pure (callResStr (testerCall (← stepOf s)))
  | [.atom "raiser", s] => pure (callResStr (raiserCall (← stepOf s)))
  | _ => none

end BearVerif.Roar
