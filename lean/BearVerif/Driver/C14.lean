import BearVerif.Core.Sexp
import BearVerif.Core.Memo
import BearVerif.Extracted.Memo
/-! Line-protocol driver for C14: `(c14 (OP…))` — runs the table model (`askBear`, `coerce`, `stepI`) of
    `Core/Memo.lean`, in the repair state read from `Extracted/Memo.lean`, over an abstract trace in which the
    harness has replaced every hint by what Python's own `==`/`hash`/`repr` say about it and every TypeHint
    wrapper by the address CPython gave it. Per operation it answers what the instrumented tables must show:
      (bear TAG V CTX)    → (hit|miss cached|uncached absent|eq|neq)   checker table before / after, repr entry vs hint
                                                                        (asked from context CTX: class / caller scope)
      (tree V)            → (cacheable|uncacheable)                     is_check_expr_cacheable after visiting V's tree
      (thsub V ADDR V ADDR) → (whitA whitB idhit stale)                 wrapper-table hits, id-table hit, stale hit
      (clear)             → (cleared)
    with V = (UID EQC REPR HASHABLE WORTHY (REL…)), REL… = per hint of the tree in visiting order: context-relative? -/
namespace BearVerif.Memo
open BearVerif

structure Sys where
  bear : BearState Val Nat             -- a "checker" is represented by the uid of the hint it was built from
  wrapper : Table Val Nat              -- _HINT_TO_WRAPPER: hint ↦ address of its TypeHint
  ids : IdState Val (Nat × Nat)        -- is_subhint table; a "value" is the pair of uids it was computed for

def Sys.empty : Sys := { bear := BearState.empty, wrapper := [], ids := IdState.empty }

def boolOf : Sexp → Option Bool
  | .atom "true" => some true
  | .atom "false" => some false
  | _ => none

def valOf : Sexp → Option Val
  | .list [u, e, r, h, w, .list vs] => do
    pure { uid := ← u.nat?, eqc := ← e.nat?, rep := ← r.str?, hashable := ← boolOf h, worthy := ← boolOf w,
           visit := ← vs.mapM boolOf }
  | _ => none

/-- the accumulation `sanify_hint_child` implements, as read from the source -/
def acc : List Bool → Bool := if Extracted.memoTreeFlag == "last" then treeCacheableLast else treeCacheable

def b2s (b : Bool) : Sexp := .atom (if b then "true" else "false")

def checked : Bool := Extracted.memoReprChecked
def pinned : Bool := Extracted.memoIdPinned

def meaningUid (k : CKey Val) : Nat := k.1.uid
def pairUid (a b : Val) : Nat × Nat := (a.uid, b.uid)

/-- `TypeHint(hint)`: `_HINT_TO_WRAPPER` hit for a hashable hint, else a new wrapper at the observed address
    (whatever lived there before is dead by now) -/
def wrap (s : Sys) (v : Val) (addr : Nat) : Sys × Bool :=
  match (if v.hashable then find valLang.pyEq s.wrapper v else none) with
  | some _ => (s, true)
  | none =>
    let ids1 := (stepI pinned pairUid s.ids (.drop addr)).1
    let ids2 := (stepI pinned pairUid ids1 (.new addr v)).1
    ({ s with ids := ids2, wrapper := if v.hashable then (v, addr) :: s.wrapper else s.wrapper }, false)

def stepSys (s : Sys) : Sexp → Option (Sys × Sexp)
  | .list [.atom "bear", tag, v, ctx] => do
    let v ← valOf v
    let tag ← tag.nat?
    let ctx ← ctx.nat?
    let hit := v.hashable && (find (ckeyEq valLang) s.bear.checker (v, tag)).isSome
    let r := askBearC valLang (·.visit) acc checked (fun _ => meaningUid) s.bear ctx (v, tag)
    let cachedAfter := v.hashable && (find (ckeyEq valLang) r.2.checker (v, tag)).isSome
    let stored := match find (fun a b => a == b) r.2.reprT v.rep with
      | none => "absent"
      | some v0 => if valLang.pyEq v0 v then "eq" else "neq"
    pure ({ s with bear := r.2 },
      .list [.atom (if hit then "hit" else "miss"), .atom (if cachedAfter then "cached" else "uncached"), .atom stored])
  | .list [.atom "tree", v] => do
    let v ← valOf v
    pure (s, .list [.atom (if acc v.visit then "cacheable" else "uncacheable")])
  | .list [.atom "thsub", va, aa, vb, ab] => do
    let va ← valOf va
    let vb ← valOf vb
    let aa ← aa.nat?
    let ab ← ab.nat?
    let (s1, hitA) := wrap s va aa
    let (s2, hitB) := wrap s1 vb ab
    let cachedPair := find idKeyEq s2.ids.tbl (aa, ab)
    let ids3 := (stepI pinned pairUid s2.ids (.ask aa ab)).1
    -- the harness drops its own references after the call: wrappers of unhashable hints die unless pinned
    let ids4 := if va.hashable then ids3 else (stepI pinned pairUid ids3 (.drop aa)).1
    let ids5 := if vb.hashable then ids4 else (stepI pinned pairUid ids4 (.drop ab)).1
    let stale := match cachedPair with
      | some p => !(p.1 == va.uid && p.2 == vb.uid)
      | none => false
    pure ({ s2 with ids := ids5 }, .list [b2s hitA, b2s hitB, b2s cachedPair.isSome, b2s stale])
  | .list [.atom "clear"] =>
    -- clear_caches(): the checker, repr and wrapper tables are emptied (the id tables are not); the cached
    -- wrappers lose their last reference
    let ids' := s.wrapper.foldl (fun i e => (stepI pinned pairUid i (.drop e.2)).1) s.ids
    some ({ bear := BearState.empty, wrapper := [], ids := ids' }, .list [.atom "cleared"])
  | _ => none

def handle (args : List Sexp) : Option Sexp := do
  match args with
  | [ops] =>
    let ops ← ops.items?
    let rec go (s : Sys) (ops : List Sexp) (acc : List Sexp) : Option (List Sexp) :=
      match ops with
      | [] => some acc.reverse
      | op :: r => match stepSys s op with
        | some (s', out) => go s' r (out :: acc)
        | none => none
    pure (.list (← go Sys.empty ops []))
  | _ => none

end BearVerif.Memo
