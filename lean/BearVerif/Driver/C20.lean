import BearVerif.Core.Sexp
import BearVerif.Driver.Bear
import BearVerif.Core.Infer
import BearVerif.Extracted.Infer
/-!
  Line-protocol driver of C20 (type-hint inference):
    (c20 run WORLD TAB (CASE …)) -> (RESULT …)    one result per case
    (c20 wf WORLD TAB)         -> (builtin_sub tuple_only world_wf)   the hypotheses `I.Wf W`, `W.Wf` on the class table
    (c20 tables)               -> fingerprint of the extracted tables the compiled model was built from
  WORLD = as for the Bear driver (sub rows, sized, indexable, reiter, mapping bits).
  TAB   = (cCallable cMapping cObject cInt cMarker (LOGIC per class) ((QUAL (MRO…) (METHODS…) SUBSCRIPTABLE) per class))
  CASE  = (tree STRAT OBJ)               -> (HINT inferable sat warnings)
        | (heap STRAT ((cls ATOM (items…) (vals…)) …) ADDR K)  -> (HINT warnings sat_of_the_K-level_unfolding) | out-of-fuel
  STRAT = on | (o1 R)
  The inference tables (FSM, builtin factories, scalars, tuple bound) are the EXTRACTED ones.
-/
namespace BearVerif.Infer
open BearVerif BearVerif.Bear

def natStr (n : Nat) : Sexp := .atom (toString n)

partial def valeStr : Vale → Sexp
  | .isFn f => .list [.atom "fn", natStr f]
  | .isAttr n v => .list [.atom "attr", .atom n, valeStr v]
  | .isEqual a => .list [.atom "eq", atomStr a]
  | .isInstance cs => .list (.atom "inst" :: cs.map natStr)
  | .isSubclass cs => .list (.atom "subc" :: cs.map natStr)
  | .and v w => .list [.atom "and", valeStr v, valeStr w]
  | .or v w => .list [.atom "or", valeStr v, valeStr w]
  | .not v => .list [.atom "not", valeStr v]

partial def hintStr : Hint → Sexp
  | .any => .list [.atom "any"]
  | .cls c => .list [.atom "cls", natStr c]
  | .shallow c => .list [.atom "shallow", natStr c]
  | .union hs => .list (.atom "union" :: hs.map hintStr)
  | .literal _ => .list [.atom "literal"]
  | .tupleFixed hs => .list (.atom "tuple" :: hs.map hintStr)
  | .seq o h => .list [.atom "seq", natStr o, hintStr h]
  | .reit o h => .list [.atom "reit", natStr o, hintStr h]
  | .quasi o h => .list [.atom "quasi", natStr o, hintStr h]
  | .mapping o k v => .list [.atom "map", natStr o, hintStr k, hintStr v]
  | .typeOf cs => .list (.atom "type" :: cs.map natStr)
  | .annotated h vs => .list (.atom "ann" :: hintStr h :: vs.map valeStr)
  | .generic c bs => .list (.atom "generic" :: natStr c :: bs.map hintStr)

def logicOf : String → Logic
  | "seq" => .seq
  | "reit" => .reit
  | "quasi" => .quasi
  | "mapping" => .mapping
  | "counter" => .counter
  | "tuple" => .tupleVar
  | _ => .shallow

def rowOf : Sexp → Option ClassRow
  | .list [.atom q, mro, .list ms, .atom sub] => do
    pure { qual := q, mro := (← natsOf mro), methods := (← ms.mapM Sexp.str?), subscriptable := sub == "true" }
  | _ => none

structure Tab where
  I : InferWorld
  cMarker : Nat
  n : Nat

def tabOf : Sexp → Option Tab
  | .list [cCallable, cMapping, cObject, cInt, cMarker, .list logics, .list rows] => do
    let rs ← rows.mapM rowOf
    let rows := rs.toArray
    let n := rows.size
    let lg := (← logics.mapM Sexp.str?).map logicOf |>.toArray
    let idOf (s : String) : Option Nat := rs.findIdx? (fun r => r.qual == s)
    let scal := (List.range n).map (fun c => match rows[c]? with
      | some r => Extracted.inferScalars.contains r.qual
      | none => false) |>.toArray
    let bt := (List.range n).map (builtinFactory Extracted.inferBuiltinTable idOf rows) |>.toArray
    let ab := (List.range n).map (abcFactory Extracted.inferFsm idOf rows) |>.toArray
    pure { cMarker := (← cMarker.nat?), n := n,
           I := { cCallable := (← cCallable.nat?), cMapping := (← cMapping.nat?), cObject := (← cObject.nat?),
                  cInt := (← cInt.nat?), tupleMax := Extracted.inferRootTupleMax,
                  scalar := fun c => scal[c]?.getD false,
                  builtin := fun c => (bt[c]?).join,
                  abc := fun c => (ab[c]?).join,
                  logic := fun c => lg[c]?.getD .shallow } }
  | _ => none

def stratOf : Sexp → Option Strategy
  | .atom "on" => some .On
  | .list [.atom "o1", r] => r.nat?.map .O1
  | _ => none

def gnodeOf : Sexp → Option GNode
  | .list [c, a, items, vals] => do
    pure { cls := (← c.nat?), atom := (← atomOf a), items := (← natsOf items), vals := (← natsOf vals) }
  | _ => none

def caseOf (W : World) (T : Tab) : Sexp → Option Sexp
  | .list [.atom "tree", st, x] => do
    let strat ← stratOf st
    let x ← objOf x
    let h := infer W T.I strat 0 x
    pure (.list [hintStr h, boolStr (Inferable W T.I x), boolStr (sat W h x), natStr (warnCount W T.I strat T.cMarker 0 x)])
  | .list [.atom "heap", st, .list nodes, a, k] => do
    let strat ← stratOf st
    let H ← nodes.mapM gnodeOf
    let a ← a.nat?
    let k ← k.nat?
    match unfoldGuard H T.cMarker (H.length + 1) [] a with
    | none => pure (.atom "out-of-fuel")
    | some t =>
      let h := infer W T.I strat 0 t
      pure (.list [hintStr h, natStr (warnCount W T.I strat T.cMarker 0 t), boolStr (sat W h (unfoldN H k a)),
                   boolStr (mentions T.cMarker h)])
  | _ => none

/-- `I.Wf W` and `W.Wf` restricted to the classes of the table (all the classes there are) -/
def wfCheck (W : World) (T : Tab) : Sexp :=
  let cs := List.range T.n
  let b1 := cs.all (fun c => match T.I.builtin c with | some o => W.sub c o | none => true)
  let b2 := cs.all (fun o => T.I.logic o != .tupleVar || o == cTuple)
  let b3 := cs.all (fun c => (!W.sub c cSequence || (W.indexable c && W.sized c)) &&
                             (!W.sub c cCollection || (W.sized c && W.reiter c)) &&
                             (!W.sub c cTuple || (W.indexable c && W.sized c)) && W.sub c c)
  .list [boolStr b1, boolStr b2, boolStr b3]

def handle : List Sexp → Option Sexp
  | [.atom "run", w, t, .list cases] => do
    let W ← worldOf w
    let T ← tabOf t
    pure (.list (cases.map fun c => (caseOf W T c).getD (.atom "bad-case")))
  | [.atom "wf", w, t] => do
    let W ← worldOf w
    let T ← tabOf t
    pure (wfCheck W T)
  | [.atom "tables"] => some (.atom Extracted.inferFingerprint)
  | [.atom "fsm", .list ms] => do
    let ms ← ms.mapM Sexp.str?
    pure (match fsmWalk ms Extracted.inferFsm with | some s => .atom s | none => .atom "none")
  | _ => none

end BearVerif.Infer
