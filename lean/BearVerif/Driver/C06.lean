import BearVerif.Core.Sexp
import BearVerif.Core.Claw
/-! Line-protocol driver for C06: `(c06 (BUILTIN…) (OP…) (QUERY…))`. -/
namespace BearVerif.Claw
open BearVerif

def pathOf (s : Sexp) : Option Path := do
  let xs ← s.items?
  xs.mapM Sexp.str?

def confOf (s : Sexp) : Option Conf := do
  match s with
  | .list [b, w, sk] =>
    let base ← b.nat?
    let warn ← (match w with
      | .atom "-" => some none
      | .atom a => a.toNat?.map some
      | _ => none)
    let skip ← (← sk.items?).mapM pathOf
    pure { base, warn, skip }
  | _ => none

def opOf (s : Sexp) : Option Op := do
  match s with
  | .list [.atom "all", c] => pure (.all (← confOf c))
  | .list [.atom "pkgs", ns, c] => pure (.pkgs (← (← ns.items?).mapM pathOf) (← confOf c))
  | .list [.atom "enter", c] => pure (.enter (← confOf c))
  | .list [.atom "exit"] => pure .exit
  | _ => none

def confStr : Option Conf → Sexp
  | none => .atom "none"
  | some c => .list [.atom (toString c.base),
      .atom (match c.warn with | none => "-" | some n => toString n),
      .list (c.skip.map (fun p => .list (p.map .atom)))]

def outStr : Out → String
  | .ok => "ok"
  | .raised => "raised"

/-- run the history, reporting after every operation: outcome, hook flag, answer per query -/
def handle (args : List Sexp) : Option Sexp := do
  match args with
  | [bi, ops, qs] =>
    let builtin ← (← bi.items?).mapM Sexp.str?
    let ops ← (← ops.items?).mapM opOf
    let qs ← (← qs.items?).mapM pathOf
    let (_, res) := ops.foldl (fun (acc : State × List Sexp) op =>
      let (s', o) := step acc.1 op
      (s', acc.2 ++ [Sexp.list [.atom (outStr o), .atom (if s'.hook then "hook" else "nohook"),
                                 .list (qs.map (fun q => confStr (getConf s' q)))]]))
      (State.init builtin, [])
    pure (.list res)
  | _ => none

end BearVerif.Claw
