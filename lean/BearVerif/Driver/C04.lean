import BearVerif.Core.Sexp
import BearVerif.Core.Wrap
/-!
  Line-protocol driver for C04: `(c04 SIG (CALL…))`
    SIG   = ((PARAM…) (PARAM…) VAR (PARAM…) VAR RETANN)   posonly, flex, *varpos, kwonly, **varkw, return annotated
    PARAM = (name ann dflt)  with ann/dflt ∈ {0,1};  VAR = none | PARAM
    CALL  = ((val…) ((name val)…) (SCEN…))                args, kwargs, scenarios
    SCEN  = (((name val)…) BODY)                          failing (parameter, value) pairs, body
    BODY  = (ret val) | (exc val)
  answer: (ITER KEYWORDABLE FACTS (RES…)), RES = (BIND EXPECTED ARGCHECKS ((TRACE RESULT RAN)…)).
-/
namespace BearVerif.Wrap
open BearVerif

def boolOf : Sexp → Option Bool
  | .atom "1" => some true
  | .atom "0" => some false
  | _ => none

def paramOf : Sexp → Option Param
  | .list [.atom n, a, d] => do pure ⟨n, ← boolOf a, ← boolOf d⟩
  | _ => none

def varOf : Sexp → Option (Option Param)
  | .atom "none" => some none
  | s => (paramOf s).map some

def sigOf : Sexp → Option Sig
  | .list [po, fl, vp, ko, vk, r] => do
    pure ⟨← (← po.items?).mapM paramOf, ← (← fl.items?).mapM paramOf, ← varOf vp,
          ← (← ko.items?).mapM paramOf, ← varOf vk, ← boolOf r⟩
  | _ => none

def pairOf : Sexp → Option (Name × Val)
  | .list [.atom n, v] => do pure (n, ← v.nat?)
  | _ => none

def bodyOf : Sexp → Option BodyRes
  | .list [.atom "ret", v] => v.nat?.map .ret
  | .list [.atom "exc", v] => v.nat?.map .exc
  | _ => none

structure Scen where
  bad : List (Name × Val)
  body : BodyRes

structure Req where
  call : Call
  scens : List Scen

def scenOf : Sexp → Option Scen
  | .list [b, body] => do pure ⟨← (← b.items?).mapM pairOf, ← bodyOf body⟩
  | _ => none

def reqOf : Sexp → Option Req
  | .list [a, k, sc] => do
    pure ⟨⟨← (← a.items?).mapM Sexp.nat?, ← (← k.items?).mapM pairOf⟩, ← (← sc.items?).mapM scenOf⟩
  | _ => none

def natS (n : Nat) : Sexp := .atom (toString n)
def pairS (p : Name × Val) : Sexp := .list [.atom p.1, natS p.2]
def bS (b : Bool) : Sexp := .atom (if b then "1" else "0")

def kindS : Kind → Sexp
  | .posonly => .atom "posonly"
  | .flex => .atom "flex"
  | .varpos => .atom "varpos"
  | .kwonly => .atom "kwonly"
  | .varkw => .atom "varkw"

def errS : BindErr → Sexp
  | .tooManyPositional => .list [.atom "err", .atom "too-many-positional"]
  | .multipleValues n => .list [.atom "err", .atom "multiple-values", .atom n]
  | .unexpectedKeyword n => .list [.atom "err", .atom "unexpected-keyword", .atom n]
  | .missing => .list [.atom "err", .atom "missing"]

def slotS (sl : Slot) : Sexp :=
  .list [.atom sl.p.name, match sl.val with | some v => natS v | none => .atom "-"]

def bindS (s : Sig) : Except BindErr Binding → List Sexp
  | .error e => [errS e, .list []]
  | .ok b => [.list [.atom "ok", .list (b.slots.map slotS), .list (b.star.map natS), .list (b.dstar.map pairS)],
              .list ((b.expected s).map pairS)]

def resultS : Result → Sexp
  | .returned v => .list [.atom "returned", natS v]
  | .raised e => .list [.atom "raised", natS e]
  | .typeError => .list [.atom "typeError"]
  | .paramViolation n v => .list [.atom "paramViolation", .atom n, natS v]
  | .returnViolation v => .list [.atom "returnViolation", natS v]

def runScen (s : Sig) (c : Call) (sc : Scen) : Sexp :=
  let ok := fun n v => !(sc.bad.contains (n, v))
  let o := wrapperRun ok (fun _ => sc.body) s c
  .list [.list (o.trace.map pairS), resultS o.result, natS o.ran]

def runReq (s : Sig) (r : Req) : Sexp :=
  .list (bindS s (pyBind s r.call) ++
    [.list ((argChecks s r.call).map pairS), .list (r.scens.map (runScen s r.call))])

def factsS (f : CodeFacts) : Sexp :=
  .list [natS f.argcount, natS f.posonlyargcount, natS f.kwonlyargcount, bS f.varargs, bS f.varkeywords,
         .list (f.varnames.map .atom), natS f.ndefaults]

def handle (args : List Sexp) : Option Sexp := do
  match args with
  | [sg, calls] =>
    let s ← sigOf sg
    let reqs ← (← calls.items?).mapM reqOf
    let metas := iterArgs (factsOf s)
    pure (.list [.list (metas.map (fun m => .list [kindS m.1, .atom m.2])),
                 .list ((keywordable metas).map .atom),
                 factsS (factsOf s),
                 .list (reqs.map (runReq s))])
  | _ => none

/-! ### a faster front end than `Sexp.parse` + `runLoop`

  `Sexp.tokens` walks the line character by character in the interpreter (≈10 µs/char: 4 s for a 300 kB batch).
  The harness therefore sends every parenthesis surrounded by blanks — still the same s-expressions — and the line is
  tokenised by the natively compiled `String.splitOn`; the token array goes through the shared `Sexp.parseList`. -/

def fastParse (line : String) : Option Sexp :=
  let ts := ((((line.splitOn "\n").headD "").splitOn " ").filter (fun t => t != "")).toArray
  if h : 0 < ts.size then
    if ts[0] == "(" then
      match Sexp.parseList ts 1 #[] with
      | some (xs, j) => if j == ts.size then some (.list xs) else none
      | none => none
    else none
  else none

partial def serveLoop (inp out : IO.FS.Stream) : IO Unit := do
  let line ← inp.getLine
  if line.isEmpty then return ()
  let resp := match fastParse line with
    | some (.list (.atom "c04" :: args)) => (match handle args with
        | some r => "(ok " ++ r.toStr ++ ")"
        | none => "(bad-op)")
    | _ => "(bad-op)"
  out.putStrLn resp
  serveLoop inp out

/-- same contract as `runLoop`: one request per line, one `(ok …)` / `(bad-op)` line back -/
def serve : IO Unit := do
  let inp ← IO.getStdin
  let out ← IO.getStdout
  serveLoop inp out
  out.flush

end BearVerif.Wrap
