import BearVerif.Core.Sexp
import BearVerif.Core.Wrap
/-!
  Line-protocol driver for C04: `(c04 SIG (CALL…))`
    SIG   = ((PARAM…) (PARAM…) VAR (PARAM…) VAR RETANN)   posonly, flex, *varpos, kwonly, **varkw, return annotated
    PARAM = (name ann dflt)  with ann/dflt ∈ {0,1};  VAR = none | PARAM
    CALL  = ((val…) ((name val)…) ((name val)…) BODY)     args, kwargs, failing (parameter, value) pairs, body
    BODY  = (ret val) | (exc val)
  answer: (ITER FACTS (RES…)), RES = (BIND EXPECTED ARGCHECKS TRACE RESULT RAN).
-/
namespace BearVerif.Wrap
open BearVerif

def boolOf : Sexp → Option Bool
  | .atom "1" => some true
  | .atom "0" => some false
  | _ => none

def paramOf : Sexp → Option Param
  | .list [.atom n, a, d] => do pure ⟨n, ← boolOf a, ← boolOf d⟩
  | _ => none

def varOf : Sexp → Option (Option Param)
  | .atom "none" => some none
  | s => (paramOf s).map some

def sigOf : Sexp → Option Sig
  | .list [po, fl, vp, ko, vk, r] => do
    pure ⟨← (← po.items?).mapM paramOf, ← (← fl.items?).mapM paramOf, ← varOf vp,
          ← (← ko.items?).mapM paramOf, ← varOf vk, ← boolOf r⟩
  | _ => none

def pairOf : Sexp → Option (Name × Val)
  | .list [.atom n, v] => do pure (n, ← v.nat?)
  | _ => none

def bodyOf : Sexp → Option BodyRes
  | .list [.atom "ret", v] => v.nat?.map .ret
  | .list [.atom "exc", v] => v.nat?.map .exc
  | _ => none

structure Req where
  call : Call
  bad : List (Name × Val)
  body : BodyRes

def reqOf : Sexp → Option Req
  | .list [a, k, b, body] => do
    pure ⟨⟨← (← a.items?).mapM Sexp.nat?, ← (← k.items?).mapM pairOf⟩, ← (← b.items?).mapM pairOf, ← bodyOf body⟩
  | _ => none

def natS (n : Nat) : Sexp := .atom (toString n)
def pairS (p : Name × Val) : Sexp := .list [.atom p.1, natS p.2]
def bS (b : Bool) : Sexp := .atom (if b then "1" else "0")

def kindS : Kind → Sexp
  | .posonly => .atom "posonly"
  | .flex => .atom "flex"
  | .varpos => .atom "varpos"
  | .kwonly => .atom "kwonly"
  | .varkw => .atom "varkw"

def errS : BindErr → Sexp
  | .tooManyPositional => .list [.atom "err", .atom "too-many-positional"]
  | .multipleValues n => .list [.atom "err", .atom "multiple-values", .atom n]
  | .unexpectedKeyword n => .list [.atom "err", .atom "unexpected-keyword", .atom n]
  | .missing => .list [.atom "err", .atom "missing"]

def slotS (sl : Slot) : Sexp :=
  .list [.atom sl.p.name, match sl.val with | some v => natS v | none => .atom "-"]

def bindS (s : Sig) : Except BindErr Binding → List Sexp
  | .error e => [errS e, .list []]
  | .ok b => [.list [.atom "ok", .list (b.slots.map slotS), .list (b.star.map natS), .list (b.dstar.map pairS)],
              .list ((b.expected s).map pairS)]

def resultS : Result → Sexp
  | .returned v => .list [.atom "returned", natS v]
  | .raised e => .list [.atom "raised", natS e]
  | .typeError => .list [.atom "typeError"]
  | .paramViolation n v => .list [.atom "paramViolation", .atom n, natS v]
  | .returnViolation v => .list [.atom "returnViolation", natS v]

def runReq (s : Sig) (r : Req) : Sexp :=
  let ok := fun n v => !(r.bad.contains (n, v))
  let o := wrapperRun ok (fun _ => r.body) s r.call
  .list (bindS s (pyBind s r.call) ++
    [.list ((argChecks s r.call).map pairS), .list (o.trace.map pairS), resultS o.result, natS o.ran])

def factsS (f : CodeFacts) : Sexp :=
  .list [natS f.argcount, natS f.posonlyargcount, natS f.kwonlyargcount, bS f.varargs, bS f.varkeywords,
         .list (f.varnames.map .atom), natS f.ndefaults]

def handle (args : List Sexp) : Option Sexp := do
  match args with
  | [sg, calls] =>
    let s ← sigOf sg
    let reqs ← (← calls.items?).mapM reqOf
    let metas := iterArgs (factsOf s)
    pure (.list [.list (metas.map (fun m => .list [kindS m.1, .atom m.2])),
                 .list ((keywordable metas).map .atom),
                 factsS (factsOf s),
                 .list (reqs.map (runReq s))])
  | _ => none

end BearVerif.Wrap
