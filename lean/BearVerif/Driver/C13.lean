import BearVerif.Core.Sexp
import BearVerif.Core.Decor
/-!
  Line-protocol driver for C13: `(c13 ENV CONF OBJECT N)`.

  ENV    = `opt` | `noopt`                 (python -O or not)
  CONF   = `o0` | `def` | `warn`           (strategy O0; any other; `warning_cls_on_decorator_exception` set)
  OBJECT = `(f FUNC)` | `(c OID FUNC)` | `(s OID FUNC)` | `(p OID DOC FUNC FUNC? FUNC?)`
         | `(k OID (QUAL…) BT ((NAME OBJECT)…) ((NAME OBJECT)…))` | `(o OID)`
  FUNC   = `(OID NAME DOC SIG ANN NTC MARKER WRAPPED)`, ANN = `none|ign|chk|bad` (`bad`: a hint rejected at decoration time), WRAPPED = `none` | FUNC, `FUNC?` = `none` | FUNC
  N      = first free object id

  Response `(R1 N1 R2 N2 X1 W1 X2 W2)`: the object after `beartype(conf=CONF)(OBJECT)` (as the call left
  it, also when it raised), the counter, and the same for a second application to the result
  (idempotence), in the request's syntax; `Xi` = `true` when application i raised, `Wi` = number of
  warnings application i issued.
-/
namespace BearVerif.Decor
open BearVerif

def boolOf : Sexp → Option Bool
  | .atom "true" => some true
  | .atom "false" => some false
  | _ => none

def annOf : Sexp → Option Ann
  | .atom "none" => some .none
  | .atom "ign" => some .ignorable
  | .atom "chk" => some .checked
  | .atom "bad" => some .failing
  | _ => none

partial def funcOf : Sexp → Option Func
  | .list [o, nm, doc, sg, an, nt, mk, w] => do
    let w' ← (match w with
      | .atom "none" => some none
      | x => (funcOf x).map some)
    pure (.mk (← o.nat?) (← nm.str?) (← doc.str?) [← sg.str?] (← annOf an) (← boolOf nt) (← boolOf mk) w')
  | _ => none

def funcOptOf : Sexp → Option (Option Func)
  | .atom "none" => some none
  | x => (funcOf x).map some

mutual
partial def memberOf : Sexp → Option Member
  | .list [.atom "f", f] => do pure (.func (← funcOf f))
  | .list [.atom "c", o, f] => do pure (.cmeth (← o.nat?) (← funcOf f))
  | .list [.atom "s", o, f] => do pure (.smeth (← o.nat?) (← funcOf f))
  | .list [.atom "p", o, doc, g, s, d] => do
    pure (.prop (← o.nat?) (← doc.str?) (← funcOf g) (← funcOptOf s) (← funcOptOf d))
  | .list [.atom "o", o] => do pure (.other (← o.nat?))
  | .list (.atom "k" :: r) => do pure (.klass (← klassOf (.list (.atom "k" :: r))))
  | _ => none
partial def klassOf : Sexp → Option Klass
  | .list [.atom "k", o, q, bt, d, i] => do
    pure (.mk (← o.nat?) (← (← q.items?).mapM Sexp.str?) (← boolOf bt) (← membersOf (← d.items?)) (← membersOf (← i.items?)))
  | _ => none
partial def membersOf : List Sexp → Option Members
  | [] => some .nil
  | .list [nm, m] :: r => do pure (.cons (← nm.str?) (← memberOf m) (← membersOf r))
  | _ => none
end

def bstr (b : Bool) : Sexp := .atom (if b then "true" else "false")

partial def funcStr : Func → Sexp
  | .mk o nm doc sg an nt mk w =>
    .list [.atom (toString o), .atom nm, .atom doc, .atom (sg.headD ""),
      .atom (match an with | .none => "none" | .ignorable => "ign" | .checked => "chk" | .failing => "bad"),
      bstr nt, bstr mk, (match w with | none => .atom "none" | some f => funcStr f)]

def funcOptStr : Option Func → Sexp
  | none => .atom "none"
  | some f => funcStr f

mutual
partial def memberStr : Member → Sexp
  | .func f => .list [.atom "f", funcStr f]
  | .cmeth o f => .list [.atom "c", .atom (toString o), funcStr f]
  | .smeth o f => .list [.atom "s", .atom (toString o), funcStr f]
  | .prop o doc g s d => .list [.atom "p", .atom (toString o), .atom doc, funcStr g, funcOptStr s, funcOptStr d]
  | .klass k => klassStr k
  | .other o => .list [.atom "o", .atom (toString o)]
partial def klassStr : Klass → Sexp
  | .mk o q bt d i => .list [.atom "k", .atom (toString o), .list (q.map .atom), bstr bt, .list (membersStr d), .list (membersStr i)]
partial def membersStr : Members → List Sexp
  | .nil => []
  | .cons nm m r => .list [.atom nm, memberStr m] :: membersStr r
end

/-- quote atoms that the harness' tokenizer would split -/
partial def quoted : Sexp → Sexp
  | .atom s => if s.isEmpty || s.any (fun c => c.isWhitespace || c == '(' || c == ')') then .atom ("\"" ++ s ++ "\"") else .atom s
  | .list xs => .list (xs.map quoted)

def handle (args : List Sexp) : Option Sexp := do
  match args with
  | [e, c, obj, n] =>
    let env : Env ← (match e with | .atom "opt" => some ⟨true⟩ | .atom "noopt" => some ⟨false⟩ | _ => none)
    let conf : Conf ← (match c with
      | .atom "o0" => some ⟨true, false⟩ | .atom "def" => some ⟨false, false⟩ | .atom "warn" => some ⟨false, true⟩
      | _ => none)
    let m ← memberOf obj
    let n ← n.nat?
    let r1 := beartype env conf m ⟨n, 0⟩
    let r2 := beartype env conf r1.val ⟨r1.st.next, 0⟩
    pure (quoted (.list [memberStr r1.val, .atom (toString r1.st.next), memberStr r2.val, .atom (toString r2.st.next),
      bstr r1.raised, .atom (toString r1.st.warns), bstr r2.raised, .atom (toString r2.st.warns)]))
  | _ => none

end BearVerif.Decor
