import BearVerif.Core.Sexp
import BearVerif.Core.Fwd
/-! Line-protocol driver for C07.

    `(c07 run (BUILTIN…) (HEAPENTRY…) (EVENT…))` → one output per event:
       `silent` | `(crash KIND ARG)` | `(called IMPL SPEC (CACHEENTRY…) (FRESHENTRY…))`
       SPEC = the annotation read at the DEF POINT of the callable (`specCall`): a name bound when the `def` executed
       denotes what it denoted then, whatever it was rebound to since; a name unbound then is read now.
       CACHEENTRY = `((NAME…) val|fake)`: the resolved-proxy cache after the call. FRESHENTRY, same form: for every
       SUBSCRIPTED proxy of the stored hint, what a proxy of that name made NOW resolves to — the violation raiser
       re-evaluates a string that is still inside the hint (`Optional['K[int]']`, a postponed string literal), `K[int]`
       then makes a new, unmemoized subscripted proxy, which is resolved afresh and cached beside the first one.
    `(c07 show E)` → `((TOK…) roundtrip|NO-ROUNDTRIP)` — printer (and parser round trip) of the source language.

    BUILTIN = `(NAME ID)`; HEAPENTRY = `(ID (NAME H)…)`;
    E = `(n NAME)` `(a E NAME)` `(s E (E…))` `(o A B)` `(l LIT)` `(q E)`;
    LIT = `none` `ellipsis` `(b true|false)` `(i INT)` `(str S)`;
    H / RH = `(obj ID)` `(via R)` `(fake NAME)` `(unres (NAME…))` `(fwd OWNER (NAME…) FRAME|-)` `(str E)`
             `(sub R (R…))` `(bor A B)` `(lit LIT)`;
    EVENT = `(bindV N H)` `(bindE N E)` `(enter cls|fn CODE NAME)` `(leave ID)` `(def F NAME E)`
            `(decorate F ((NAME ID)…))` `(call F)`. -/
namespace BearVerif.Fwd
open BearVerif

def litOf : Sexp → Option Lit
  | .atom "none" => some .none
  | .atom "ellipsis" => some .ellipsis
  | .list [.atom "b", .atom "true"] => some (.bool true)
  | .list [.atom "b", .atom "false"] => some (.bool false)
  | .list [.atom "i", n] => n.int?.map .int
  | .list [.atom "str", .atom s] => some (.str s)
  | _ => none

def litStr : Lit → Sexp
  | .none => .atom "none"
  | .ellipsis => .atom "ellipsis"
  | .bool b => .list [.atom "b", .atom (if b then "true" else "false")]
  | .int i => .list [.atom "i", .atom (toString i)]
  | .str s => .list [.atom "str", .atom ("\"" ++ s ++ "\"")]

partial def exprOf : Sexp → Option HExpr
  | .list [.atom "n", .atom n] => some (.name n)
  | .list [.atom "a", e, .atom n] => (exprOf e).map (.attr · n)
  | .list [.atom "s", e, .list es] => do pure (.sub (← exprOf e) (← es.mapM exprOf))
  | .list [.atom "o", a, b] => do pure (.bor (← exprOf a) (← exprOf b))
  | .list [.atom "l", l] => (litOf l).map .lit
  | .list [.atom "q", e] => (exprOf e).map .quoted
  | _ => none

partial def exprStr : HExpr → Sexp
  | .name n => .list [.atom "n", .atom n]
  | .attr e n => .list [.atom "a", exprStr e, .atom n]
  | .sub e es => .list [.atom "s", exprStr e, .list (es.map exprStr)]
  | .bor a b => .list [.atom "o", exprStr a, exprStr b]
  | .lit l => .list [.atom "l", litStr l]
  | .quoted e => .list [.atom "q", exprStr e]

partial def hOf : Sexp → Option H
  | .list [.atom "obj", n] => n.nat?.map .obj
  | .list [.atom "str", e] => (exprOf e).map .str
  | .list [.atom "sub", h, .list args] => do pure (.sub (← hOf h) (← args.mapM hOf))
  | .list [.atom "bor", a, b] => do pure (.bor (← hOf a) (← hOf b))
  | .list [.atom "lit", l] => (litOf l).map .lit
  | _ => none

def pathStr (p : List Name) : Sexp := .list (p.map .atom)

partial def rhStr : RH → Sexp
  | .obj id => .list [.atom "obj", .atom (toString id)]
  | .via h => .list [.atom "via", rhStr h]
  | .fake n => .list [.atom "fake", .atom n]
  | .unres p => .list [.atom "unres", pathStr p]
  | .str e => .list [.atom "str", exprStr e]
  | .sub h args => .list [.atom "sub", rhStr h, .list (args.map rhStr)]
  | .bor a b => .list [.atom "bor", rhStr a, rhStr b]
  | .lit l => .list [.atom "lit", litStr l]

def scopeOf (xs : List Sexp) : Option Scope :=
  xs.mapM fun
    | .list [.atom n, h] => (hOf h).map (fun v => (n, v))
    | _ => none

def evOf : Sexp → Option Ev
  | .list [.atom "bindV", .atom n, h] => (hOf h).map (.bindV n)
  | .list [.atom "bindE", .atom n, e] => (exprOf e).map (.bindE n)
  | .list [.atom "enter", .atom k, c, .atom n] => c.nat?.map (fun c => .enter (k == "cls") c n)
  | .list [.atom "leave", i] => i.nat?.map .leave
  | .list [.atom "def", f, .atom n, e] => do pure (.def_ (← f.nat?) n (← exprOf e))
  | .list [.atom "decorate", f, .list cs] => do
      let cs ← cs.mapM fun
        | .list [.atom n, i] => i.nat?.map (fun i => (n, i))
        | _ => none
      pure (.decorate (← f.nat?) cs)
  | .list [.atom "call", f] => f.nat?.map .call
  | _ => none

def errStr : Err → List Sexp
  | .name n => [.atom "NameError", .atom n]
  | .attr n => [.atom "AttributeError", .atom n]
  | .type => [.atom "TypeError", .atom "-"]
  | .fwdref p => [.atom "ForwardRef", pathStr p]

def cacheStr (c : List (Proxy × Ref)) : Sexp :=
  .list (c.map fun e =>
    .list [pathStr e.1.path, .atom (match e.2 with | .val _ => "val" | .fake _ => "fake")])

/-- the subscripted proxies of a stored hint -/
partial def subbedOf : H → List Proxy
  | .fwd p => if p.subbed then [p] else []
  | .sub h args => subbedOf h ++ (args.map subbedOf).flatten
  | .bor a b => subbedOf a ++ subbedOf b
  | _ => []

def freshStr (s : St) (ps : List Proxy) : Sexp :=
  .list (ps.filterMap fun p => match resolveFresh s p with
    | .ok (.val _) => some (.list [pathStr p.path, .atom "val"])
    | .ok (.fake _) => some (.list [pathStr p.path, .atom "fake"])
    | .error _ => none)

def outStr (s : St) (fresh : Sexp) : Out → Sexp
  | .silent => .atom "silent"
  | .crash e => .list (.atom "crash" :: errStr e)
  | .called i sp => .list [.atom "called", rhStr i, rhStr sp, cacheStr s.cache, fresh]

/-- the SPEC field of a call is `specCall`: the annotation read at the def point of the callable (`specDef`; it is
    `specNow`, the field of `Out.called`, whenever no name of the annotation was rebound since: `C07_spec_def_now`) -/
def specOf (dp : DefPoints) (s : St) (ev : Ev) : Out → Out
  | .called i sp => match ev with
    | .call f => .called i ((specCall dp s f).getD sp)
    | _ => .called i sp
  | o => o

def runOut (dp : DefPoints) (s : St) : List Ev → List Sexp
  | [] => []
  | ev :: evs =>
    let (s', o) := step s ev
    let dp' := recordDef dp s ev
    let fresh := match ev with
      | .call f => match (s'.func? f).bind (·.hint) with
        | some h => freshStr s' (subbedOf h)
        | none => .list []
      | _ => .list []
    outStr s' fresh (specOf dp' s' ev o) :: runOut dp' s' evs

partial def tokStr : Tok → Sexp
  | .id n => .list [.atom "id", .atom n]
  | .lit l => .list [.atom "lit", litStr l]
  | .dot => .atom "dot"
  | .lbr => .atom "lbr"
  | .rbr => .atom "rbr"
  | .comma => .atom "comma"
  | .bar => .atom "bar"
  | .lpar => .atom "lpar"
  | .rpar => .atom "rpar"
  | .str ts => .list [.atom "str", .list (ts.map tokStr)]

partial def tokCount : List Tok → Nat
  | [] => 0
  | .str ts :: r => 1 + tokCount ts + tokCount r
  | _ :: r => 1 + tokCount r

def handle (args : List Sexp) : Option Sexp := do
  match args with
  | [.atom "show", e] =>
    -- the printed tokens, and whether the model's own parser reads them back as `e` (by C07_show_parse it does)
    let e ← exprOf e
    let ts := showE e
    let back := match pExpr (6 * tokCount ts + 6) ts with
      | some (e', []) => (exprStr e').toStr == (exprStr e).toStr
      | _ => false
    pure (.list [.list (ts.map tokStr), .atom (if back then "roundtrip" else "NO-ROUNDTRIP")])
  | [.atom "run", .list bi, .list hp, .list evs] =>
    let builtins ← scopeOf bi
    let heap ← hp.mapM fun
      | .list (i :: attrs) => do pure ((← i.nat?), (← scopeOf attrs))
      | _ => none
    let evs ← evs.mapM evOf
    pure (.list (runOut [] (St.init builtins heap) evs))
  | _ => none

end BearVerif.Fwd
