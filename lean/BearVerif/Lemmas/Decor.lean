import BearVerif.Core.Decor
/-!
  C13 — helper lemmas: class dictionaries (append / setAttr), the per-function decision,
  and the refinement "loop with setattr-by-name = member-wise map" by mutual structural
  induction over nested class bodies.
-/
namespace BearVerif.Decor

/-! ### class dictionaries -/
namespace Members

@[simp] theorem nil_append (ys : Members) : Members.nil.append ys = ys := rfl
@[simp] theorem cons_append (nm m r ys) : (Members.cons nm m r).append ys = .cons nm m (r.append ys) := rfl

theorem append_nil : (xs : Members) → xs.append .nil = xs
  | .nil => rfl
  | .cons nm m r => by simp [append_nil r]

theorem snoc_append : (pre : Members) → (nm : String) → (m : Member) → (rest : Members) →
    (pre.snoc nm m).append rest = pre.append (.cons nm m rest)
  | .nil, _, _, _ => rfl
  | .cons a b r, nm, m, rest => by
    have ih := snoc_append r nm m rest
    simp only [snoc, cons_append] at ih ⊢; rw [ih]

@[simp] theorem names_nil : Members.nil.names = [] := rfl
@[simp] theorem names_cons (nm m r) : (Members.cons nm m r).names = nm :: r.names := rfl

theorem names_append : (xs ys : Members) → (xs.append ys).names = xs.names ++ ys.names
  | .nil, _ => rfl
  | .cons nm m r, ys => by simp [names_append r ys]

/-- `setattr` on an attribute whose name does not occur earlier replaces exactly that entry -/
theorem setAttr_append_cons : (pre : Members) → (nm : String) → (m v : Member) → (rest : Members) →
    (h : nm ∉ pre.names) →
    (pre.append (.cons nm m rest)).setAttr nm v = pre.append (.cons nm v rest)
  | .nil, nm, m, v, rest, _ => by simp [setAttr]
  | .cons a b r, nm, m, v, rest, h => by
    simp only [names_cons, List.mem_cons, not_or] at h
    have hne : ¬ a = nm := fun e => h.1 e.symm
    simp only [cons_append, setAttr, hne, ↓reduceIte, setAttr_append_cons r nm m v rest h.2]

end Members

/-! ### the per-function decision -/

/-- case analysis over every flag a function decision depends on -/
macro "func_bash" f:ident env:ident conf:ident : tactic => `(tactic|
  (rcases $f:ident with ⟨o, nm, dc, sg, an, nt, mk, w⟩
   rcases $env:ident with ⟨op⟩
   rcases $conf:ident with ⟨z⟩
   cases op <;> cases z <;> cases an <;> cases nt <;> cases mk <;>
     simp [decorFunc, Func.unbeartypeable, Func.setNtc, Func.clearNtc, Func.mkWrapper, Func.ann, Func.ntc,
           Func.marker, Func.oid, Func.facts, Func.name, Func.doc, Func.sig, Func.erase, Func.noop,
           Func.wrapped]))

theorem decorFunc_cases (env : Env) (conf : Conf) (f : Func) (n : Nat) :
    let f1 := if conf.o0 then f.setNtc else f
    (decorFunc env conf f n = (f1, n) ∧ (f1.unbeartypeable env = true ∨ f1.ann = .ignorable)) ∨
    (decorFunc env conf f n = (f1.mkWrapper n, n + 1) ∧ f1.unbeartypeable env = false ∧ f1.ann = .checked ∧
      conf.o0 = false) := by
  func_bash f env conf

/-- the result of a decoration is unbeartypeable: decorating it again changes nothing -/
theorem decorFunc_idem (env : Env) (conf : Conf) (f : Func) (n n' : Nat) :
    decorFunc env conf (decorFunc env conf f n).1 n' = ((decorFunc env conf f n).1, n') := by
  func_bash f env conf

theorem decorFuncOpt_idem (env : Env) (conf : Conf) (f : Option Func) (n n' : Nat) :
    decorFuncOpt env conf (decorFuncOpt env conf f n).1 n' = ((decorFuncOpt env conf f n).1, n') := by
  cases f with
  | none => rfl
  | some f => simp [decorFuncOpt, decorFunc_idem]

theorem decorFunc_facts (env : Env) (conf : Conf) (f : Func) (n : Nat) :
    (decorFunc env conf f n).1.facts = f.facts := by
  func_bash f env conf

theorem decorFuncOpt_facts (env : Env) (conf : Conf) (f : Option Func) (n : Nat) :
    (decorFuncOpt env conf f n).1.map Func.facts = f.map Func.facts := by
  cases f with
  | none => rfl
  | some f => simp [decorFuncOpt, decorFunc_facts]

theorem decorFunc_mono (env : Env) (conf : Conf) (f : Func) (n : Nat) : n ≤ (decorFunc env conf f n).2 := by
  func_bash f env conf

/-- the result is the object passed in, or an object allocated now -/
theorem decorFunc_oid (env : Env) (conf : Conf) (f : Func) (n : Nat) :
    ((decorFunc env conf f n).1.oid = f.oid ∧ (decorFunc env conf f n).2 = n) ∨
    ((decorFunc env conf f n).1.oid = n ∧ (decorFunc env conf f n).2 = n + 1) := by
  func_bash f env conf

/-- a no-op case: same function object (modulo the O0 flag), nothing allocated -/
theorem decorFunc_noop (env : Env) (conf : Conf) (f : Func) (n : Nat) (h : f.noop env conf = true) :
    (decorFunc env conf f n).1.erase = f.erase ∧ (decorFunc env conf f n).2 = n := by
  revert h
  func_bash f env conf

theorem decorFuncOpt_noop (env : Env) (conf : Conf) (f : Option Func) (n : Nat)
    (h : Func.noopOpt env conf f = true) :
    (decorFuncOpt env conf f n).1.map Func.erase = f.map Func.erase ∧ (decorFuncOpt env conf f n).2 = n := by
  cases f with
  | none => exact ⟨rfl, rfl⟩
  | some f =>
    have := decorFunc_noop env conf f n h
    simp [decorFuncOpt, this]

/-! ### decorObject on the non-class kinds -/

theorem decorObject_leaf (env : Env) (conf : Conf) (m : Member) (n : Nat) (h : ∀ k, m ≠ .klass k) :
    decorObject env conf m n = decorLeaf env conf m n := by
  cases m with
  | klass k => exact absurd rfl (h k)
  | other o => simp [decorObject, decorLeaf]
  | _ => simp [decorObject]

theorem specMember_leaf (env : Env) (conf : Conf) (qual) (m : Member) (n : Nat) (h : ∀ k, m ≠ .klass k) :
    specMember env conf qual m n = decorLeaf env conf m n := by
  cases m with
  | klass k => exact absurd rfl (h k)
  | other o => simp [specMember, decorLeaf]
  | _ => simp [specMember]

/-! ### refinement: the loop of `beartype_type` is the member-wise map -/

mutual
theorem decorClass_eq_spec (env : Env) (conf : Conf) (k : Klass) (n : Nat) (hwf : k.wf) :
    decorClass env conf k n = specClass env conf k n := by
  match k, hwf with
  | .mk oid qual bt dict inh, hwf =>
    simp only [Klass.wf] at hwf
    simp only [decorClass, specClass]
    split
    · rfl
    · have := loop_eq_spec env conf qual dict .nil n hwf.2 (by simpa using hwf.1)
      simp only [Members.nil_append] at this
      rw [this]
termination_by structural k

theorem loop_eq_spec (env : Env) (conf : Conf) (qual : List String) (items pre : Members) (n : Nat)
    (hwf : items.wf) (hnd : (pre.append items).names.Nodup) :
    loop env conf qual items (pre.append items) n =
      (pre.append (specMembers env conf qual items n).1, (specMembers env conf qual items n).2) := by
  match items, hwf with
  | .nil, _ => simp [loop, specMembers]
  | .cons nm m rest, hwf =>
    simp only [Members.wf] at hwf
    have hnm : nm ∉ pre.names := by
      rw [Members.names_append, Members.names_cons] at hnd
      have := (List.nodup_append.mp hnd).2.2
      intro hin
      exact this nm hin nm (by simp) rfl
    have hm := decorObject_eq_spec env conf qual m n hwf.1
    simp only [loop, specMembers]
    by_cases hb : beartypeable qual m = true
    · simp only [hb, ↓reduceIte]
      rw [hm.1 hb, Members.setAttr_append_cons _ _ _ _ _ hnm, ← Members.snoc_append]
      have hnd' : ((pre.snoc nm (specMember env conf qual m n).1).append rest).names.Nodup := by
        rw [Members.snoc_append, Members.names_append, Members.names_cons]
        rw [Members.names_append, Members.names_cons] at hnd
        exact hnd
      rw [loop_eq_spec env conf qual rest _ _ hwf.2 hnd', Members.snoc_append]
    · simp only [hb, Bool.false_eq_true, ↓reduceIte]
      have hb' : beartypeable qual m = false := by simpa using hb
      rw [hm.2 hb']
      have hnd' : ((pre.snoc nm m).append rest).names.Nodup := by
        rw [Members.snoc_append]; exact hnd
      have := loop_eq_spec env conf qual rest (pre.snoc nm m) n hwf.2 hnd'
      rw [Members.snoc_append] at this
      rw [this, Members.snoc_append]
termination_by structural items

theorem decorObject_eq_spec (env : Env) (conf : Conf) (qual : List String) (m : Member) (n : Nat) (hwf : m.wf) :
    (beartypeable qual m = true → decorObject env conf m n = specMember env conf qual m n) ∧
    (beartypeable qual m = false → specMember env conf qual m n = (m, n)) := by
  match m, hwf with
  | .klass k, hwf =>
    simp only [Member.wf] at hwf
    simp only [beartypeable, decorObject, specMember]
    constructor
    · intro hb; simp only [hb, ↓reduceIte]; rw [decorClass_eq_spec env conf k n hwf]
    · intro hb; simp [hb]
  | .func f, _ => simp [beartypeable, decorObject, specMember]
  | .cmeth o f, _ => simp [beartypeable, decorObject, specMember]
  | .smeth o f, _ => simp [beartypeable, decorObject, specMember]
  | .prop o doc g s d, _ => simp [beartypeable, decorObject, specMember]
  | .other o, _ => simp [beartypeable, decorObject, specMember]
termination_by structural m
end

/-! ### descriptor kind, names, docstrings, signatures -/

theorem decorLeaf_shape (env : Env) (conf : Conf) (m : Member) (n : Nat) :
    (decorLeaf env conf m n).1.shape = m.shape := by
  cases m with
  | func f => simp [decorLeaf, Member.shape, decorFunc_facts]
  | cmeth o f => simp [decorLeaf, Member.shape, decorFunc_facts]
  | smeth o f => simp [decorLeaf, Member.shape, decorFunc_facts]
  | prop o doc g s d => simp [decorLeaf, Member.shape, decorFunc_facts, decorFuncOpt_facts]
  | klass k => simp [decorLeaf]
  | other o => simp [decorLeaf]

mutual
theorem specClass_shape (env : Env) (conf : Conf) (k : Klass) (n : Nat) :
    (specClass env conf k n).1.shape = k.shape := by
  match k with
  | .mk oid qual bt dict inh =>
    simp only [specClass]
    split
    · rfl
    · simp only [Klass.shape, specMembers_shapes env conf qual dict n]
termination_by structural k

theorem specMembers_shapes (env : Env) (conf : Conf) (qual : List String) (ms : Members) (n : Nat) :
    (specMembers env conf qual ms n).1.shapes = ms.shapes := by
  match ms with
  | .nil => rfl
  | .cons nm m rest =>
    simp only [specMembers, Members.shapes, specMember_shape env conf qual m n,
      specMembers_shapes env conf qual rest]
termination_by structural ms

theorem specMember_shape (env : Env) (conf : Conf) (qual : List String) (m : Member) (n : Nat) :
    (specMember env conf qual m n).1.shape = m.shape := by
  match m with
  | .klass k =>
    simp only [specMember]
    split
    · simp only [Member.shape]; exact specClass_shape env conf k n
    · rfl
  | .func f => simp only [specMember]; exact decorLeaf_shape ..
  | .cmeth o f => simp only [specMember]; exact decorLeaf_shape ..
  | .smeth o f => simp only [specMember]; exact decorLeaf_shape ..
  | .prop o doc g s d => simp only [specMember]; exact decorLeaf_shape ..
  | .other o => rfl
termination_by structural m
end

/-! ### no-op cases -/

theorem decorLeaf_noop (env : Env) (conf : Conf) (m : Member) (n : Nat) (h : m.allNoop env conf = true)
    (hk : ∀ k, m ≠ .klass k) :
    (decorLeaf env conf m n).1.erase = m.erase := by
  cases m with
  | func f =>
    simp only [Member.allNoop] at h
    simp [decorLeaf, Member.erase, decorFunc_noop env conf f n h]
  | cmeth o f =>
    simp only [Member.allNoop] at h
    simp [decorLeaf, Member.erase, decorFunc_noop env conf f n h]
  | smeth o f =>
    simp only [Member.allNoop] at h
    simp [decorLeaf, Member.erase, decorFunc_noop env conf f n h]
  | prop o doc g s d =>
    simp only [Member.allNoop, Bool.and_eq_true] at h
    have hg := decorFunc_noop env conf g n h.1.1
    have hs := decorFuncOpt_noop env conf s n h.1.2
    have hd := decorFuncOpt_noop env conf d n h.2
    simp [decorLeaf, Member.erase, hg.1, hg.2, hs.1, hs.2, hd.1]
  | klass k => exact absurd rfl (hk k)
  | other o => simp [decorLeaf]

mutual
theorem specClass_noop (env : Env) (conf : Conf) (k : Klass) (n : Nat) (h : k.allNoop env conf = true) :
    (specClass env conf k n).1.erase = k.erase := by
  match k, h with
  | .mk oid qual bt dict inh, h =>
    simp only [Klass.allNoop] at h
    simp only [specClass]
    split
    · rfl
    · simp only [Klass.erase, specMembers_noop env conf qual dict n h]
termination_by structural k

theorem specMembers_noop (env : Env) (conf : Conf) (qual : List String) (ms : Members) (n : Nat)
    (h : ms.allNoop env conf = true) :
    (specMembers env conf qual ms n).1.erase = ms.erase := by
  match ms, h with
  | .nil, _ => rfl
  | .cons nm m rest, h =>
    simp only [Members.allNoop, Bool.and_eq_true] at h
    simp only [specMembers, Members.erase, specMember_noop env conf qual m n h.1,
      specMembers_noop env conf qual rest _ h.2]
termination_by structural ms

theorem specMember_noop (env : Env) (conf : Conf) (qual : List String) (m : Member) (n : Nat)
    (h : m.allNoop env conf = true) :
    (specMember env conf qual m n).1.erase = m.erase := by
  match m, h with
  | .klass k, h =>
    simp only [Member.allNoop] at h
    simp only [specMember]
    split
    · simp only [Member.erase]; rw [specClass_noop env conf k n h]
    · rfl
  | .func f, h => simp only [specMember]; exact decorLeaf_noop _ _ _ _ h (by simp)
  | .cmeth o f, h => simp only [specMember]; exact decorLeaf_noop _ _ _ _ h (by simp)
  | .smeth o f, h => simp only [specMember]; exact decorLeaf_noop _ _ _ _ h (by simp)
  | .prop o doc g s d, h => simp only [specMember]; exact decorLeaf_noop _ _ _ _ h (by simp)
  | .other o, _ => rfl
termination_by structural m
end

/-! ### the class marker, identity of the class object -/

theorem decorClass_fields (env : Env) (conf : Conf) (k : Klass) (n : Nat) :
    (decorClass env conf k n).1.oid = k.oid ∧ (decorClass env conf k n).1.qual = k.qual ∧
    (decorClass env conf k n).1.inherited = k.inherited ∧
    (decorClass env conf k n).1.beartyped = true := by
  cases k with
  | mk oid qual bt dict inh =>
    simp only [decorClass]
    split <;> simp_all [Klass.oid, Klass.qual, Klass.inherited, Klass.beartyped]

theorem decorClass_of_beartyped (env : Env) (conf : Conf) (k : Klass) (n : Nat) (h : k.beartyped = true) :
    decorClass env conf k n = (k, n) := by
  cases k with
  | mk oid qual bt dict inh =>
    simp only [Klass.beartyped] at h
    simp [decorClass, h]

/-! ### idempotence on the non-class kinds -/

theorem decorLeaf_idem (env : Env) (conf : Conf) (m : Member) (n n' : Nat) :
    (decorLeaf env conf (decorLeaf env conf m n).1 n').1.core = (decorLeaf env conf m n).1.core := by
  cases m with
  | func f => simp [decorLeaf, Member.core, decorFunc_idem]
  | cmeth o f => simp [decorLeaf, Member.core, decorFunc_idem]
  | smeth o f => simp [decorLeaf, Member.core, decorFunc_idem]
  | prop o doc g s d => simp [decorLeaf, Member.core, decorFunc_idem, decorFuncOpt_idem]
  | klass k => simp [decorLeaf]
  | other o => simp [decorLeaf]

end BearVerif.Decor
