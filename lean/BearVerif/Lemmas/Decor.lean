import BearVerif.Core.Decor
/-!
  C13 — helper lemmas: class dictionaries (append / setAttr), the per-function decision,
  and the refinement "loop with setattr-by-name = member-wise map" by mutual structural
  induction over nested class bodies.
-/
namespace BearVerif.Decor

/-! ### class dictionaries -/
namespace Members

@[simp] theorem nil_append (ys : Members) : Members.nil.append ys = ys := rfl
@[simp] theorem cons_append (nm m r ys) : (Members.cons nm m r).append ys = .cons nm m (r.append ys) := rfl

theorem append_nil : (xs : Members) → xs.append .nil = xs
  | .nil => rfl
  | .cons nm m r => by simp [append_nil r]

theorem snoc_append : (pre : Members) → (nm : String) → (m : Member) → (rest : Members) →
    (pre.snoc nm m).append rest = pre.append (.cons nm m rest)
  | .nil, _, _, _ => rfl
  | .cons a b r, nm, m, rest => by
    have ih := snoc_append r nm m rest
    simp only [snoc, cons_append] at ih ⊢; rw [ih]

@[simp] theorem names_nil : Members.nil.names = [] := rfl
@[simp] theorem names_cons (nm m r) : (Members.cons nm m r).names = nm :: r.names := rfl

theorem names_append : (xs ys : Members) → (xs.append ys).names = xs.names ++ ys.names
  | .nil, _ => rfl
  | .cons nm m r, ys => by simp [names_append r ys]

/-- `setattr` on an attribute whose name does not occur earlier replaces exactly that entry -/
theorem setAttr_append_cons : (pre : Members) → (nm : String) → (m v : Member) → (rest : Members) →
    (h : nm ∉ pre.names) →
    (pre.append (.cons nm m rest)).setAttr nm v = pre.append (.cons nm v rest)
  | .nil, nm, m, v, rest, _ => by simp [setAttr]
  | .cons a b r, nm, m, v, rest, h => by
    simp only [names_cons, List.mem_cons, not_or] at h
    have hne : ¬ a = nm := fun e => h.1 e.symm
    simp only [cons_append, setAttr, hne, ↓reduceIte, setAttr_append_cons r nm m v rest h.2]

end Members

/-! ### the per-function decision -/

/-- case analysis over every flag a function decision depends on -/
macro "func_bash" f:ident env:ident conf:ident : tactic => `(tactic|
  (rcases $f:ident with ⟨o, nm, dc, sg, an, nt, mk, w⟩
   rcases $env:ident with ⟨op⟩
   rcases $conf:ident with ⟨z, wn⟩
   cases op <;> cases z <;> cases wn <;> cases an <;> cases nt <;> cases mk <;>
     simp [decorFunc, decorFuncObj, guard, Func.unbeartypeable, Func.setNtc, Func.clearNtc, Func.mkWrapper,
           Func.ann, Func.ntc, Func.marker, Func.oid, Func.facts, Func.name, Func.doc, Func.sig, Func.erase,
           Func.noop, Func.fails, Func.wrapped]))

theorem decorFunc_cases (env : Env) (conf : Conf) (f : Func) (st : St) :
    let f1 := if conf.o0 then f.setNtc else f
    (decorFunc env conf f st = ⟨f1, st, false⟩ ∧ (f1.unbeartypeable env = true ∨ f1.ann = .ignorable)) ∨
    (decorFunc env conf f st = ⟨f, st, true⟩ ∧ f.fails env conf = true) ∨
    (decorFunc env conf f st = ⟨f1.mkWrapper st.next, ⟨st.next + 1, st.warns⟩, false⟩ ∧
      f1.unbeartypeable env = false ∧ f1.ann = .checked ∧ conf.o0 = false) := by
  func_bash f env conf

/-- the decoration of a function raises exactly when the function `fails` -/
theorem decorFunc_raised (env : Env) (conf : Conf) (f : Func) (st : St) :
    (decorFunc env conf f st).raised = f.fails env conf := by
  func_bash f env conf

/-- a decoration that raises has changed nothing -/
theorem decorFunc_of_fails (env : Env) (conf : Conf) (f : Func) (st : St) (h : f.fails env conf = true) :
    decorFunc env conf f st = ⟨f, st, true⟩ := by
  revert h
  func_bash f env conf

/-- the result of a decoration is unbeartypeable: decorating it again changes nothing (and a
    function whose decoration raised makes it raise again) -/
theorem decorFunc_idem (env : Env) (conf : Conf) (f : Func) (st st' : St) :
    decorFunc env conf (decorFunc env conf f st).val st' =
      ⟨(decorFunc env conf f st).val, st', (decorFunc env conf f st).raised⟩ := by
  func_bash f env conf

theorem decorFunc_fails_val (env : Env) (conf : Conf) (f : Func) (st : St) :
    (decorFunc env conf f st).val.fails env conf = f.fails env conf := by
  func_bash f env conf

theorem decorFunc_facts (env : Env) (conf : Conf) (f : Func) (st : St) :
    (decorFunc env conf f st).val.facts = f.facts := by
  func_bash f env conf

theorem decorFunc_mono (env : Env) (conf : Conf) (f : Func) (st : St) :
    st.next ≤ (decorFunc env conf f st).st.next ∧ (decorFunc env conf f st).st.warns = st.warns := by
  func_bash f env conf

/-- the result is the object passed in, or an object allocated now -/
theorem decorFunc_oid (env : Env) (conf : Conf) (f : Func) (st : St) :
    ((decorFunc env conf f st).val.oid = f.oid ∧ (decorFunc env conf f st).st = st) ∨
    ((decorFunc env conf f st).val.oid = st.next ∧ (decorFunc env conf f st).st = ⟨st.next + 1, st.warns⟩ ∧
      (decorFunc env conf f st).raised = false) := by
  func_bash f env conf

/-- a no-op case: same function object (modulo the O0 flag), nothing allocated, nothing raised -/
theorem decorFunc_noop (env : Env) (conf : Conf) (f : Func) (st : St) (h : f.noop env conf = true) :
    (decorFunc env conf f st).val.erase = f.erase ∧ (decorFunc env conf f st).st = st ∧
    (decorFunc env conf f st).raised = false := by
  revert h
  func_bash f env conf

/-- the warning count of the input state does not influence a function decision -/
theorem decorFunc_warns (env : Env) (conf : Conf) (f : Func) (n w w' : Nat) :
    (decorFunc env conf f ⟨n, w⟩).val = (decorFunc env conf f ⟨n, w'⟩).val ∧
    (decorFunc env conf f ⟨n, w⟩).st.next = (decorFunc env conf f ⟨n, w'⟩).st.next ∧
    (decorFunc env conf f ⟨n, w⟩).raised = (decorFunc env conf f ⟨n, w'⟩).raised := by
  func_bash f env conf

/-! ### the guarded function decision (wrappee of a classmethod / staticmethod) -/

theorem decorFuncObj_raised (env : Env) (conf : Conf) (f : Func) (st : St) :
    (decorFuncObj env conf f st).raised = (f.fails env conf && !conf.warn) := by
  func_bash f env conf

theorem decorFuncObj_facts (env : Env) (conf : Conf) (f : Func) (st : St) :
    (decorFuncObj env conf f st).val.facts = f.facts := by
  func_bash f env conf

theorem decorFuncObj_idem (env : Env) (conf : Conf) (f : Func) (st st' : St) :
    (decorFuncObj env conf (decorFuncObj env conf f st).val st').val = (decorFuncObj env conf f st).val ∧
    (decorFuncObj env conf (decorFuncObj env conf f st).val st').raised = (decorFuncObj env conf f st).raised := by
  func_bash f env conf

theorem decorFuncObj_of_raised (env : Env) (conf : Conf) (f : Func) (st : St)
    (h : (decorFuncObj env conf f st).raised = true) : (decorFuncObj env conf f st).val = f := by
  revert h
  func_bash f env conf

theorem decorFuncObj_noop (env : Env) (conf : Conf) (f : Func) (st : St) (h : f.noop env conf = true) :
    (decorFuncObj env conf f st).val.erase = f.erase ∧ (decorFuncObj env conf f st).st = st ∧
    (decorFuncObj env conf f st).raised = false := by
  revert h
  func_bash f env conf

theorem decorFuncObj_warns (env : Env) (conf : Conf) (f : Func) (n w w' : Nat) :
    (decorFuncObj env conf f ⟨n, w⟩).val = (decorFuncObj env conf f ⟨n, w'⟩).val ∧
    (decorFuncObj env conf f ⟨n, w⟩).st.next = (decorFuncObj env conf f ⟨n, w'⟩).st.next ∧
    (decorFuncObj env conf f ⟨n, w⟩).raised = (decorFuncObj env conf f ⟨n, w'⟩).raised := by
  func_bash f env conf

theorem decorFuncObj_st_fails (env : Env) (conf : Conf) (f : Func) (st : St) (hw : conf.warn = true)
    (h : f.fails env conf = true) : decorFuncObj env conf f st = ⟨f, ⟨st.next, st.warns + 1⟩, false⟩ := by
  simp [decorFuncObj, decorFunc_of_fails env conf f st h, guard, hw]

theorem decorFuncObj_not_fails (env : Env) (conf : Conf) (f : Func) (st : St) (h : f.fails env conf = false) :
    decorFuncObj env conf f st = decorFunc env conf f st := by
  unfold decorFuncObj guard
  rw [decorFunc_raised, h]; simp

/-! ### optional accessors of a property (each under the guard) -/

theorem decorFuncObjOpt_raised (env : Env) (conf : Conf) (f : Option Func) (st : St) :
    (decorFuncObjOpt env conf f st).raised = (Func.failsOpt env conf f && !conf.warn) := by
  cases f with
  | none => rfl
  | some f => simp [decorFuncObjOpt, Func.failsOpt, decorFuncObj_raised]

theorem decorFuncObjOpt_idem (env : Env) (conf : Conf) (f : Option Func) (st st' : St) :
    (decorFuncObjOpt env conf (decorFuncObjOpt env conf f st).val st').val = (decorFuncObjOpt env conf f st).val ∧
    (decorFuncObjOpt env conf (decorFuncObjOpt env conf f st).val st').raised = (decorFuncObjOpt env conf f st).raised := by
  cases f with
  | none => exact ⟨rfl, rfl⟩
  | some f =>
    have := decorFuncObj_idem env conf f st st'
    simp [decorFuncObjOpt, this.1, this.2]

theorem decorFuncObjOpt_facts (env : Env) (conf : Conf) (f : Option Func) (st : St) :
    (decorFuncObjOpt env conf f st).val.map Func.facts = f.map Func.facts := by
  cases f with
  | none => rfl
  | some f => simp [decorFuncObjOpt, decorFuncObj_facts]

theorem decorFuncObjOpt_noop (env : Env) (conf : Conf) (f : Option Func) (st : St)
    (h : Func.noopOpt env conf f = true) :
    (decorFuncObjOpt env conf f st).val.map Func.erase = f.map Func.erase ∧ (decorFuncObjOpt env conf f st).st = st ∧
    (decorFuncObjOpt env conf f st).raised = false := by
  cases f with
  | none => exact ⟨rfl, rfl, rfl⟩
  | some f =>
    have := decorFuncObj_noop env conf f st h
    simp [decorFuncObjOpt, this]

/-! ### the guard -/

theorem guard_of_not_raised {α : Type} (conf : Conf) (orig : α) (r : Res α) (h : r.raised = false) :
    guard conf orig r = r := by
  simp [guard, h]

theorem guard_raised {α : Type} (conf : Conf) (orig : α) (r : Res α) :
    (guard conf orig r).raised = (r.raised && !conf.warn) := by
  unfold guard
  rcases r with ⟨v, s, rz⟩
  rcases conf with ⟨z, wn⟩
  cases rz <;> cases wn <;> simp

theorem guard_warn {α : Type} (conf : Conf) (orig : α) (r : Res α) (h : conf.warn = true) :
    (guard conf orig r).raised = false := by
  rw [guard_raised]; simp [h]

/-! ### `beartype_nontype` on the non-class kinds -/

theorem decorLeaf_raised (env : Env) (conf : Conf) (m : Member) (st : St) :
    (decorLeaf env conf m st).raised = m.failsLeaf env conf := by
  cases m with
  | func f =>
    simp only [decorLeaf, Member.failsLeaf, decorFunc_raised]
    by_cases h : f.fails env conf = true <;> simp [h]
  | cmeth o f =>
    simp only [decorLeaf, Member.failsLeaf, decorFuncObj_raised]
    by_cases h : f.fails env conf = true <;> cases conf.warn <;> simp [h]
  | smeth o f =>
    simp only [decorLeaf, Member.failsLeaf, decorFuncObj_raised]
    by_cases h : f.fails env conf = true <;> cases conf.warn <;> simp [h]
  | prop o doc g s d =>
    simp only [decorLeaf, Member.failsLeaf, decorFuncObj_raised, decorFuncObjOpt_raised]
    by_cases hg : g.fails env conf = true <;> by_cases hs : Func.failsOpt env conf s = true <;>
      by_cases hd : Func.failsOpt env conf d = true <;> cases conf.warn <;> simp [hg, hs, hd]
  | klass k => simp [decorLeaf, Member.failsLeaf]
  | other o => simp [decorLeaf, Member.failsLeaf]

/-- an exception out of `beartype_nontype` leaves the object as it was, nothing allocated, no warning -/
theorem decorLeaf_of_fails (env : Env) (conf : Conf) (m : Member) (st : St) (h : m.failsLeaf env conf = true) :
    decorLeaf env conf m st = ⟨m, st, true⟩ := by
  have hr := decorLeaf_raised env conf m st
  rw [h] at hr
  revert hr
  cases m with
  | func f => simp only [decorLeaf]; split <;> simp
  | cmeth o f => simp only [decorLeaf]; split <;> simp
  | smeth o f => simp only [decorLeaf]; split <;> simp
  | prop o doc g s d =>
    simp only [decorLeaf]
    split
    · simp
    · split
      · simp
      · split <;> simp
  | klass k => simp [decorLeaf]
  | other o => simp [decorLeaf]

theorem decorLeaf_of_not_fails_prop (env : Env) (conf : Conf) (o doc g s d) (st : St)
    (h : (Member.prop o doc g s d).failsLeaf env conf = false) :
    decorLeaf env conf (.prop o doc g s d) st =
      ⟨.prop (decorFuncObjOpt env conf d (decorFuncObjOpt env conf s (decorFuncObj env conf g st).st).st).st.next doc
          (decorFuncObj env conf g st).val (decorFuncObjOpt env conf s (decorFuncObj env conf g st).st).val
          (decorFuncObjOpt env conf d (decorFuncObjOpt env conf s (decorFuncObj env conf g st).st).st).val,
        ⟨(decorFuncObjOpt env conf d (decorFuncObjOpt env conf s (decorFuncObj env conf g st).st).st).st.next + 1,
         (decorFuncObjOpt env conf d (decorFuncObjOpt env conf s (decorFuncObj env conf g st).st).st).st.warns⟩, false⟩ := by
  have hr := decorLeaf_raised env conf (.prop o doc g s d) st
  rw [h] at hr
  revert hr
  simp only [decorLeaf]
  split
  · simp
  · split
    · simp
    · split
      · simp
      · intro _; rfl

theorem decorLeaf_shape (env : Env) (conf : Conf) (m : Member) (st : St) :
    (decorLeaf env conf m st).val.shape = m.shape := by
  by_cases hf : m.failsLeaf env conf = true
  · rw [decorLeaf_of_fails env conf m st hf]
  · have hf' : m.failsLeaf env conf = false := by simpa using hf
    cases m with
    | func f =>
      simp only [Member.failsLeaf] at hf'
      simp [decorLeaf, decorFunc_raised, hf', Member.shape, decorFunc_facts]
    | cmeth o f =>
      have hr := decorLeaf_raised env conf (.cmeth o f) st
      rw [hf'] at hr
      simp only [decorLeaf] at hr ⊢
      split
      · rfl
      · simp [Member.shape, decorFuncObj_facts]
    | smeth o f =>
      simp only [decorLeaf]
      split
      · rfl
      · simp [Member.shape, decorFuncObj_facts]
    | prop o doc g s d =>
      rw [decorLeaf_of_not_fails_prop env conf o doc g s d st hf']
      simp [Member.shape, decorFuncObj_facts, decorFuncObjOpt_facts]
    | klass k => simp [decorLeaf]
    | other o => simp [decorLeaf]

theorem decorLeafObj_shape (env : Env) (conf : Conf) (m : Member) (st : St) :
    (decorLeafObj env conf m st).val.shape = m.shape := by
  unfold decorLeafObj guard
  split
  · rfl
  · exact decorLeaf_shape env conf m st

theorem decorLeafObj_raised (env : Env) (conf : Conf) (m : Member) (st : St) :
    (decorLeafObj env conf m st).raised = (m.failsLeaf env conf && !conf.warn) := by
  simp [decorLeafObj, guard_raised, decorLeaf_raised]

/-- under a configuration with the warning option, a member whose decoration raises comes back as
    the very same object, with exactly one warning and nothing allocated -/
theorem decorLeafObj_of_fails_warn (env : Env) (conf : Conf) (m : Member) (st : St)
    (hw : conf.warn = true) (h : m.failsLeaf env conf = true) :
    decorLeafObj env conf m st = ⟨m, ⟨st.next, st.warns + 1⟩, false⟩ := by
  simp [decorLeafObj, decorLeaf_of_fails env conf m st h, guard, hw]

theorem decorLeafObj_of_not_fails (env : Env) (conf : Conf) (m : Member) (st : St)
    (h : m.failsLeaf env conf = false) :
    decorLeafObj env conf m st = decorLeaf env conf m st := by
  unfold decorLeafObj
  exact guard_of_not_raised _ _ _ (by rw [decorLeaf_raised, h])

/-! ### decorObject on the non-class kinds -/

theorem decorObject_leaf (env : Env) (conf : Conf) (m : Member) (st : St) (h : ∀ k, m ≠ .klass k) :
    decorObject env conf m st = decorLeafObj env conf m st := by
  cases m with
  | klass k => exact absurd rfl (h k)
  | other o => simp [decorObject, decorLeafObj, decorLeaf, guard]
  | _ => simp [decorObject]

theorem specMember_leaf (env : Env) (conf : Conf) (qual) (m : Member) (st : St) (h : ∀ k, m ≠ .klass k) :
    specMember env conf qual m st = decorLeafObj env conf m st := by
  cases m with
  | klass k => exact absurd rfl (h k)
  | other o => simp [specMember, decorLeafObj, decorLeaf, guard]
  | _ => simp [specMember]

/-! ### refinement: the loop of `beartype_type` is the member-wise map (with the same exception at
    the same member, leaving the same dictionary) -/

mutual
theorem decorClass_eq_spec (env : Env) (conf : Conf) (k : Klass) (st : St) (hwf : k.wf) :
    decorClass env conf k st = specClass env conf k st := by
  match k, hwf with
  | .mk oid qual bt dict inh, hwf =>
    simp only [Klass.wf] at hwf
    simp only [decorClass, specClass]
    split
    · rfl
    · have := loop_eq_spec env conf qual dict .nil st hwf.2 (by simpa using hwf.1)
      simp only [Members.nil_append] at this
      rw [this]
termination_by structural k

theorem loop_eq_spec (env : Env) (conf : Conf) (qual : List String) (items pre : Members) (st : St)
    (hwf : items.wf) (hnd : (pre.append items).names.Nodup) :
    loop env conf qual items (pre.append items) st =
      ⟨pre.append (specMembers env conf qual items st).val, (specMembers env conf qual items st).st,
       (specMembers env conf qual items st).raised⟩ := by
  match items, hwf with
  | .nil, _ => simp [loop, specMembers]
  | .cons nm m rest, hwf =>
    simp only [Members.wf] at hwf
    have hnm : nm ∉ pre.names := by
      rw [Members.names_append, Members.names_cons] at hnd
      have := (List.nodup_append.mp hnd).2.2
      intro hin
      exact this nm hin nm (by simp) rfl
    have hm := decorObject_eq_spec env conf qual m st hwf.1
    simp only [loop, specMembers]
    by_cases hb : beartypeable qual m = true
    · simp only [hb, ↓reduceIte]
      rw [hm.1 hb, Members.setAttr_append_cons _ _ _ _ _ hnm]
      by_cases hr : (specMember env conf qual m st).raised = true
      · simp only [hr, ↓reduceIte]
      · simp only [hr, Bool.false_eq_true, ↓reduceIte]
        rw [← Members.snoc_append]
        have hnd' : ((pre.snoc nm (specMember env conf qual m st).val).append rest).names.Nodup := by
          rw [Members.snoc_append, Members.names_append, Members.names_cons]
          rw [Members.names_append, Members.names_cons] at hnd
          exact hnd
        rw [loop_eq_spec env conf qual rest _ _ hwf.2 hnd', Members.snoc_append]
    · simp only [hb, Bool.false_eq_true, ↓reduceIte]
      have hb' : beartypeable qual m = false := by simpa using hb
      rw [hm.2 hb']
      have hnd' : ((pre.snoc nm m).append rest).names.Nodup := by
        rw [Members.snoc_append]; exact hnd
      have := loop_eq_spec env conf qual rest (pre.snoc nm m) st hwf.2 hnd'
      rw [Members.snoc_append] at this
      simp only [Bool.false_eq_true, ↓reduceIte]
      rw [this, Members.snoc_append]
termination_by structural items

theorem decorObject_eq_spec (env : Env) (conf : Conf) (qual : List String) (m : Member) (st : St) (hwf : m.wf) :
    (beartypeable qual m = true → decorObject env conf m st = specMember env conf qual m st) ∧
    (beartypeable qual m = false → specMember env conf qual m st = ⟨m, st, false⟩) := by
  match m, hwf with
  | .klass k, hwf =>
    simp only [Member.wf] at hwf
    simp only [beartypeable, decorObject, specMember]
    constructor
    · intro hb; simp only [hb, ↓reduceIte]; rw [decorClass_eq_spec env conf k st hwf]
    · intro hb; simp [hb]
  | .func f, _ => simp [beartypeable, decorObject, specMember]
  | .cmeth o f, _ => simp [beartypeable, decorObject, specMember]
  | .smeth o f, _ => simp [beartypeable, decorObject, specMember]
  | .prop o doc g s d, _ => simp [beartypeable, decorObject, specMember]
  | .other o, _ => simp [beartypeable, decorObject, specMember]
termination_by structural m
end

/-! ### descriptor kind, names, docstrings, signatures -/

theorem guard_klass_shape (conf : Conf) (r : Res Klass) :
    (guard conf (Member.klass r.val) ⟨.klass r.val, r.st, r.raised⟩).val = .klass r.val := by
  unfold guard
  split <;> rfl

mutual
theorem specClass_shape (env : Env) (conf : Conf) (k : Klass) (st : St) :
    (specClass env conf k st).val.shape = k.shape := by
  match k with
  | .mk oid qual bt dict inh =>
    simp only [specClass]
    split
    · rfl
    · simp only [Klass.shape, specMembers_shapes env conf qual dict st]
termination_by structural k

theorem specMembers_shapes (env : Env) (conf : Conf) (qual : List String) (ms : Members) (st : St) :
    (specMembers env conf qual ms st).val.shapes = ms.shapes := by
  match ms with
  | .nil => rfl
  | .cons nm m rest =>
    simp only [specMembers]
    split
    · simp only [Members.shapes, specMember_shape env conf qual m st]
    · simp only [Members.shapes, specMember_shape env conf qual m st,
        specMembers_shapes env conf qual rest]
termination_by structural ms

theorem specMember_shape (env : Env) (conf : Conf) (qual : List String) (m : Member) (st : St) :
    (specMember env conf qual m st).val.shape = m.shape := by
  match m with
  | .klass k =>
    simp only [specMember]
    split
    · rw [guard_klass_shape]; simp only [Member.shape]; exact specClass_shape env conf k st
    · rfl
  | .func f => simp only [specMember]; exact decorLeafObj_shape ..
  | .cmeth o f => simp only [specMember]; exact decorLeafObj_shape ..
  | .smeth o f => simp only [specMember]; exact decorLeafObj_shape ..
  | .prop o doc g s d => simp only [specMember]; exact decorLeafObj_shape ..
  | .other o => rfl
termination_by structural m
end

/-! ### no-op cases -/

theorem Func.noop_not_fails (env : Env) (conf : Conf) (f : Func) (h : f.noop env conf = true) :
    f.fails env conf = false := by
  revert h
  func_bash f env conf

theorem Func.noopOpt_not_fails (env : Env) (conf : Conf) (f : Option Func) (h : Func.noopOpt env conf f = true) :
    Func.failsOpt env conf f = false := by
  cases f with
  | none => rfl
  | some f => exact Func.noop_not_fails env conf f h

theorem decorLeaf_noop (env : Env) (conf : Conf) (m : Member) (st : St) (h : m.allNoop env conf = true)
    (hk : ∀ k, m ≠ .klass k) :
    (decorLeaf env conf m st).val.erase = m.erase ∧ (decorLeaf env conf m st).raised = false := by
  cases m with
  | func f =>
    simp only [Member.allNoop] at h
    have := decorFunc_noop env conf f st h
    simp [decorLeaf, Member.erase, this]
  | cmeth o f =>
    simp only [Member.allNoop] at h
    have := decorFuncObj_noop env conf f st h
    simp [decorLeaf, Member.erase, this]
  | smeth o f =>
    simp only [Member.allNoop] at h
    have := decorFuncObj_noop env conf f st h
    simp [decorLeaf, Member.erase, this]
  | prop o doc g s d =>
    simp only [Member.allNoop, Bool.and_eq_true] at h
    have hf : (Member.prop o doc g s d).failsLeaf env conf = false := by
      simp [Member.failsLeaf, Func.noop_not_fails env conf g h.1.1, Func.noopOpt_not_fails env conf s h.1.2,
        Func.noopOpt_not_fails env conf d h.2]
    rw [decorLeaf_of_not_fails_prop env conf o doc g s d st hf]
    have hg := decorFuncObj_noop env conf g st h.1.1
    have hs := decorFuncObjOpt_noop env conf s st h.1.2
    have hd := decorFuncObjOpt_noop env conf d st h.2
    simp [Member.erase, hg.1, hg.2.1, hs.1, hs.2.1, hd.1]
  | klass k => exact absurd rfl (hk k)
  | other o => simp [decorLeaf]

theorem decorLeafObj_noop (env : Env) (conf : Conf) (m : Member) (st : St) (h : m.allNoop env conf = true)
    (hk : ∀ k, m ≠ .klass k) :
    (decorLeafObj env conf m st).val.erase = m.erase ∧ (decorLeafObj env conf m st).raised = false := by
  have := decorLeaf_noop env conf m st h hk
  unfold decorLeafObj
  rw [guard_of_not_raised _ _ _ this.2]
  exact this

mutual
theorem specClass_noop (env : Env) (conf : Conf) (k : Klass) (st : St) (h : k.allNoop env conf = true) :
    (specClass env conf k st).val.erase = k.erase ∧ (specClass env conf k st).raised = false := by
  match k, h with
  | .mk oid qual bt dict inh, h =>
    simp only [Klass.allNoop] at h
    simp only [specClass]
    split
    · exact ⟨rfl, rfl⟩
    · have := specMembers_noop env conf qual dict st h
      simp only [Klass.erase, this.1, this.2, and_self]
termination_by structural k

theorem specMembers_noop (env : Env) (conf : Conf) (qual : List String) (ms : Members) (st : St)
    (h : ms.allNoop env conf = true) :
    (specMembers env conf qual ms st).val.erase = ms.erase ∧ (specMembers env conf qual ms st).raised = false := by
  match ms, h with
  | .nil, _ => exact ⟨rfl, rfl⟩
  | .cons nm m rest, h =>
    simp only [Members.allNoop, Bool.and_eq_true] at h
    have hm := specMember_noop env conf qual m st h.1
    have hr := specMembers_noop env conf qual rest (specMember env conf qual m st).st h.2
    simp only [specMembers, hm.2, Bool.false_eq_true, ↓reduceIte, Members.erase, hm.1, hr.1, hr.2, and_self]
termination_by structural ms

theorem specMember_noop (env : Env) (conf : Conf) (qual : List String) (m : Member) (st : St)
    (h : m.allNoop env conf = true) :
    (specMember env conf qual m st).val.erase = m.erase ∧ (specMember env conf qual m st).raised = false := by
  match m, h with
  | .klass k, h =>
    simp only [Member.allNoop] at h
    simp only [specMember]
    split
    · have := specClass_noop env conf k st h
      rw [guard_of_not_raised _ _ _ (by exact this.2)]
      simp only [Member.erase, this.1, this.2, and_self]
    · exact ⟨rfl, rfl⟩
  | .func f, h => simp only [specMember]; exact decorLeafObj_noop _ _ _ _ h (by simp)
  | .cmeth o f, h => simp only [specMember]; exact decorLeafObj_noop _ _ _ _ h (by simp)
  | .smeth o f, h => simp only [specMember]; exact decorLeafObj_noop _ _ _ _ h (by simp)
  | .prop o doc g s d, h => simp only [specMember]; exact decorLeafObj_noop _ _ _ _ h (by simp)
  | .other o, _ => exact ⟨rfl, rfl⟩
termination_by structural m
end

/-! ### the class marker, identity of the class object -/

theorem decorClass_fields (env : Env) (conf : Conf) (k : Klass) (st : St) :
    (decorClass env conf k st).val.oid = k.oid ∧ (decorClass env conf k st).val.qual = k.qual ∧
    (decorClass env conf k st).val.inherited = k.inherited ∧
    ((decorClass env conf k st).raised = false → (decorClass env conf k st).val.beartyped = true) ∧
    ((decorClass env conf k st).raised = true → (decorClass env conf k st).val.beartyped = false) := by
  cases k with
  | mk oid qual bt dict inh =>
    simp only [decorClass]
    split <;> simp_all [Klass.oid, Klass.qual, Klass.inherited, Klass.beartyped]

theorem decorClass_of_beartyped (env : Env) (conf : Conf) (k : Klass) (st : St) (h : k.beartyped = true) :
    decorClass env conf k st = ⟨k, st, false⟩ := by
  cases k with
  | mk oid qual bt dict inh =>
    simp only [Klass.beartyped] at h
    simp [decorClass, h]

/-! ### a configuration with the warning option: nothing propagates -/

theorem decorObject_warn (env : Env) (conf : Conf) (m : Member) (st : St) (hw : conf.warn = true) :
    (decorObject env conf m st).raised = false := by
  cases m with
  | klass k => simp only [decorObject]; exact guard_warn _ _ _ hw
  | other o => rfl
  | func f => simp only [decorObject, decorLeafObj]; exact guard_warn _ _ _ hw
  | cmeth o f => simp only [decorObject, decorLeafObj]; exact guard_warn _ _ _ hw
  | smeth o f => simp only [decorObject, decorLeafObj]; exact guard_warn _ _ _ hw
  | prop o doc g s d => simp only [decorObject, decorLeafObj]; exact guard_warn _ _ _ hw

theorem loop_warn (env : Env) (conf : Conf) (qual : List String) (hw : conf.warn = true) :
    (items dict : Members) → (st : St) → (loop env conf qual items dict st).raised = false
  | .nil, _, _ => rfl
  | .cons nm m rest, dict, st => by
    simp only [loop]
    split
    · simp only [decorObject_warn env conf m st hw, Bool.false_eq_true, ↓reduceIte]
      exact loop_warn env conf qual hw rest _ _
    · exact loop_warn env conf qual hw rest _ _

theorem decorClass_warn (env : Env) (conf : Conf) (k : Klass) (st : St) (hw : conf.warn = true) :
    (decorClass env conf k st).raised = false := by
  cases k with
  | mk oid qual bt dict inh =>
    simp only [decorClass]
    split
    · rfl
    · exact loop_warn env conf qual hw dict dict st

/-! ### idempotence on the non-class kinds -/

theorem Member.failsLeaf_core_congr (env : Env) (conf : Conf) (o o' : Nat) (f : Func) :
    (Member.cmeth o f).failsLeaf env conf = (Member.cmeth o' f).failsLeaf env conf ∧
    (Member.smeth o f).failsLeaf env conf = (Member.smeth o' f).failsLeaf env conf := ⟨rfl, rfl⟩

/-- decorating the result of `beartype_nontype` again: the same functions inside (the descriptor
    object is rebuilt), and it raises again iff it raised -/
theorem decorLeaf_idem (env : Env) (conf : Conf) (m : Member) (st st' : St) :
    (decorLeaf env conf (decorLeaf env conf m st).val st').val.core = (decorLeaf env conf m st).val.core ∧
    (decorLeaf env conf (decorLeaf env conf m st).val st').raised = (decorLeaf env conf m st).raised := by
  by_cases hf : m.failsLeaf env conf = true
  · rw [decorLeaf_of_fails env conf m st hf, decorLeaf_of_fails env conf m st' hf]
    exact ⟨rfl, rfl⟩
  · have hf' : m.failsLeaf env conf = false := by simpa using hf
    cases m with
    | func f =>
      simp only [Member.failsLeaf] at hf'
      have h1 : (decorFunc env conf f st).raised = false := by rw [decorFunc_raised, hf']
      simp [decorLeaf, h1, decorFunc_idem, Member.core]
    | cmeth o f =>
      have h1 := decorLeaf_raised env conf (.cmeth o f) st
      rw [hf'] at h1
      have hi := decorFuncObj_idem env conf f st
      simp only [decorLeaf] at h1 ⊢
      split at h1
      · simp at h1
      · rename_i hr
        have hr' : (decorFuncObj env conf f st).raised = false := by simpa using hr
        simp [hr', (hi _).1, (hi _).2, Member.core]
    | smeth o f =>
      have h1 := decorLeaf_raised env conf (.smeth o f) st
      rw [hf'] at h1
      have hi := decorFuncObj_idem env conf f st
      simp only [decorLeaf] at h1 ⊢
      split at h1
      · simp at h1
      · rename_i hr
        have hr' : (decorFuncObj env conf f st).raised = false := by simpa using hr
        simp [hr', (hi _).1, (hi _).2, Member.core]
    | prop o doc g s d =>
      have h0 := decorLeaf_raised env conf (.prop o doc g s d) st
      rw [hf'] at h0
      rw [decorLeaf_of_not_fails_prop env conf o doc g s d st hf']
      -- no accessor propagates an exception, neither the first nor the second time
      have hg : ∀ x, (decorFuncObj env conf g x).raised = false := by
        intro x; rw [decorFuncObj_raised]
        simp only [Member.failsLeaf] at hf'
        cases hw : conf.warn <;> simp_all
      have hs : ∀ x, (decorFuncObjOpt env conf s x).raised = false := by
        intro x; rw [decorFuncObjOpt_raised]
        simp only [Member.failsLeaf] at hf'
        cases hw : conf.warn <;> simp_all
      have hd : ∀ x, (decorFuncObjOpt env conf d x).raised = false := by
        intro x; rw [decorFuncObjOpt_raised]
        simp only [Member.failsLeaf] at hf'
        cases hw : conf.warn <;> simp_all
      have ig := decorFuncObj_idem env conf g st
      have is := decorFuncObjOpt_idem env conf s
      have id := decorFuncObjOpt_idem env conf d
      simp [decorLeaf, (ig _).1, (ig _).2, (is _ _).1, (is _ _).2, (id _ _).1, (id _ _).2, hg, hs, hd, Member.core]
    | klass k => simp [decorLeaf]
    | other o => simp [decorLeaf]

/-- … and the same by hand (under the guard of the configuration) -/
theorem decorLeafObj_idem (env : Env) (conf : Conf) (m : Member) (st st' : St) :
    (decorLeafObj env conf (decorLeafObj env conf m st).val st').val.core = (decorLeafObj env conf m st).val.core ∧
    (decorLeafObj env conf (decorLeafObj env conf m st).val st').raised = (decorLeafObj env conf m st).raised := by
  by_cases hf : m.failsLeaf env conf = true
  · have h0 : (decorLeafObj env conf m st).val = m := by
      simp only [decorLeafObj, decorLeaf_of_fails env conf m st hf, guard]
      split <;> rfl
    rw [h0]
    simp only [decorLeafObj, decorLeaf_of_fails env conf m st hf, decorLeaf_of_fails env conf m st' hf, guard]
    split <;> exact ⟨rfl, rfl⟩
  · have hf' : m.failsLeaf env conf = false := by simpa using hf
    have hi := decorLeaf_idem env conf m st st'
    have hr : (decorLeaf env conf m st).raised = false := by rw [decorLeaf_raised, hf']
    rw [decorLeafObj_of_not_fails env conf m st hf']
    have hr2 : (decorLeaf env conf (decorLeaf env conf m st).val st').raised = false := by rw [hi.2, hr]
    unfold decorLeafObj
    rw [guard_of_not_raised _ _ _ hr2]
    exact hi

/-! ### warnings already issued do not influence a decoration -/

/-- the same outcome with `k` more warnings on the counter -/
def Res.shift {α : Type} (k : Nat) (r : Res α) : Res α := ⟨r.val, ⟨r.st.next, r.st.warns + k⟩, r.raised⟩

@[simp] theorem Res.shift_val {α : Type} (k : Nat) (r : Res α) : (r.shift k).val = r.val := rfl
@[simp] theorem Res.shift_raised {α : Type} (k : Nat) (r : Res α) : (r.shift k).raised = r.raised := rfl
@[simp] theorem Res.shift_st {α : Type} (k : Nat) (r : Res α) : (r.shift k).st = ⟨r.st.next, r.st.warns + k⟩ := rfl

theorem decorFunc_shift (env : Env) (conf : Conf) (f : Func) (st : St) (k : Nat) :
    decorFunc env conf f ⟨st.next, st.warns + k⟩ = (decorFunc env conf f st).shift k := by
  rcases st with ⟨n, w⟩
  simp only [Res.shift]
  func_bash f env conf

theorem guard_shift {α : Type} (conf : Conf) (orig : α) (r : Res α) (k : Nat) :
    guard conf orig (r.shift k) = (guard conf orig r).shift k := by
  unfold guard
  simp only [Res.shift_raised]
  by_cases h : (r.raised && conf.warn) = true
  · simp only [h, ↓reduceIte]; simp [Res.shift, Nat.add_right_comm]
  · simp only [h, Bool.false_eq_true, ↓reduceIte]

theorem decorFuncObj_shift (env : Env) (conf : Conf) (f : Func) (st : St) (k : Nat) :
    decorFuncObj env conf f ⟨st.next, st.warns + k⟩ = (decorFuncObj env conf f st).shift k := by
  simp only [decorFuncObj, decorFunc_shift, guard_shift]

theorem decorFuncObjOpt_shift (env : Env) (conf : Conf) (f : Option Func) (st : St) (k : Nat) :
    decorFuncObjOpt env conf f ⟨st.next, st.warns + k⟩ = (decorFuncObjOpt env conf f st).shift k := by
  cases f with
  | none => rfl
  | some f => simp [decorFuncObjOpt, decorFuncObj_shift, Res.shift]

theorem decorLeaf_shift (env : Env) (conf : Conf) (m : Member) (st : St) (k : Nat) :
    decorLeaf env conf m ⟨st.next, st.warns + k⟩ = (decorLeaf env conf m st).shift k := by
  cases m with
  | func f =>
    simp only [decorLeaf, decorFunc_shift, Res.shift_raised]
    split <;> simp [Res.shift]
  | cmeth o f =>
    simp only [decorLeaf, decorFuncObj_shift, Res.shift_raised]
    split <;> simp [Res.shift]
  | smeth o f =>
    simp only [decorLeaf, decorFuncObj_shift, Res.shift_raised]
    split <;> simp [Res.shift]
  | prop o doc g s d =>
    simp only [decorLeaf, decorFuncObj_shift, Res.shift_raised, Res.shift_st, decorFuncObjOpt_shift, Res.shift_val]
    split
    · simp [Res.shift]
    · split
      · simp [Res.shift]
      · split <;> simp [Res.shift]
  | klass k => simp [decorLeaf, Res.shift]
  | other o => simp [decorLeaf, Res.shift]

theorem decorLeafObj_shift (env : Env) (conf : Conf) (m : Member) (st : St) (k : Nat) :
    decorLeafObj env conf m ⟨st.next, st.warns + k⟩ = (decorLeafObj env conf m st).shift k := by
  simp only [decorLeafObj, decorLeaf_shift, guard_shift]

mutual
theorem specClass_shift (env : Env) (conf : Conf) (k : Klass) (st : St) (j : Nat) :
    specClass env conf k ⟨st.next, st.warns + j⟩ = (specClass env conf k st).shift j := by
  match k with
  | .mk oid qual bt dict inh =>
    simp only [specClass]
    split
    · simp [Res.shift]
    · rw [specMembers_shift env conf qual dict st j]; simp [Res.shift]
termination_by structural k

theorem specMembers_shift (env : Env) (conf : Conf) (qual : List String) (ms : Members) (st : St) (j : Nat) :
    specMembers env conf qual ms ⟨st.next, st.warns + j⟩ = (specMembers env conf qual ms st).shift j := by
  match ms with
  | .nil => simp [specMembers, Res.shift]
  | .cons nm m rest =>
    simp only [specMembers]
    rw [specMember_shift env conf qual m st j]
    simp only [Res.shift_raised, Res.shift_val, Res.shift_st]
    by_cases hr : (specMember env conf qual m st).raised = true
    · simp [hr, Res.shift]
    · simp only [hr, Bool.false_eq_true, ↓reduceIte]
      rw [specMembers_shift env conf qual rest (specMember env conf qual m st).st j]; simp [Res.shift]
termination_by structural ms

theorem specMember_shift (env : Env) (conf : Conf) (qual : List String) (m : Member) (st : St) (j : Nat) :
    specMember env conf qual m ⟨st.next, st.warns + j⟩ = (specMember env conf qual m st).shift j := by
  match m with
  | .klass k =>
    simp only [specMember]
    split
    · rw [specClass_shift env conf k st j]
      exact guard_shift conf _ ⟨Member.klass (specClass env conf k st).val, (specClass env conf k st).st,
        (specClass env conf k st).raised⟩ j
    · simp [Res.shift]
  | .func f => simp only [specMember]; exact decorLeafObj_shift ..
  | .cmeth o f => simp only [specMember]; exact decorLeafObj_shift ..
  | .smeth o f => simp only [specMember]; exact decorLeafObj_shift ..
  | .prop o doc g s d => simp only [specMember]; exact decorLeafObj_shift ..
  | .other o => simp [specMember, Res.shift]
termination_by structural m
end

/-! ### member-wise decoration of a concatenated dictionary; nothing propagates under the warning option -/

theorem specMember_warn (env : Env) (conf : Conf) (qual : List String) (m : Member) (st : St)
    (hw : conf.warn = true) : (specMember env conf qual m st).raised = false := by
  cases m with
  | klass k =>
    simp only [specMember]
    split
    · exact guard_warn _ _ _ hw
    · rfl
  | other o => rfl
  | func f => simp only [specMember, decorLeafObj]; exact guard_warn _ _ _ hw
  | cmeth o f => simp only [specMember, decorLeafObj]; exact guard_warn _ _ _ hw
  | smeth o f => simp only [specMember, decorLeafObj]; exact guard_warn _ _ _ hw
  | prop o doc g s d => simp only [specMember, decorLeafObj]; exact guard_warn _ _ _ hw

theorem specMembers_warn (env : Env) (conf : Conf) (qual : List String) (hw : conf.warn = true) :
    (ms : Members) → (st : St) → (specMembers env conf qual ms st).raised = false
  | .nil, _ => rfl
  | .cons nm m rest, st => by
    simp only [specMembers, specMember_warn env conf qual m st hw, Bool.false_eq_true, ↓reduceIte]
    exact specMembers_warn env conf qual hw rest _

theorem specMembers_append (env : Env) (conf : Conf) (qual : List String) :
    (pre xs : Members) → (st : St) →
    specMembers env conf qual (pre.append xs) st =
      if (specMembers env conf qual pre st).raised then
        ⟨(specMembers env conf qual pre st).val.append xs, (specMembers env conf qual pre st).st, true⟩
      else
        ⟨(specMembers env conf qual pre st).val.append (specMembers env conf qual xs (specMembers env conf qual pre st).st).val,
         (specMembers env conf qual xs (specMembers env conf qual pre st).st).st,
         (specMembers env conf qual xs (specMembers env conf qual pre st).st).raised⟩
  | .nil, xs, st => by simp [specMembers]
  | .cons nm m rest, xs, st => by
    simp only [Members.cons_append, specMembers]
    by_cases hr : (specMember env conf qual m st).raised = true
    · simp [hr]
    · simp only [hr, Bool.false_eq_true, ↓reduceIte]
      rw [specMembers_append env conf qual rest xs]
      split <;> simp

/-! ### by hand, twice -/

theorem decorLeafObj_not_klass (env : Env) (conf : Conf) (m : Member) (st : St) (h : ∀ k, m ≠ .klass k) :
    ∀ k, (decorLeafObj env conf m st).val ≠ .klass k := by
  intro k e
  have hs := decorLeafObj_shape env conf m st
  rw [e] at hs
  cases k with
  | mk oid qual bt dict inh =>
    cases m with
    | klass k' => exact absurd rfl (h k')
    | _ => simp [Member.shape, Klass.shape] at hs

/-- a function decorated by hand twice: the second application returns the very object the first
    returned and allocates nothing -/
theorem decorLeafObj_func_idem (env : Env) (conf : Conf) (f : Func) (st st' : St)
    (h : (decorLeafObj env conf (.func f) st).raised = false) :
    (decorLeafObj env conf (decorLeafObj env conf (.func f) st).val st').val = (decorLeafObj env conf (.func f) st).val ∧
    (decorLeafObj env conf (decorLeafObj env conf (.func f) st).val st').st.next = st'.next := by
  revert h
  rcases f with ⟨o, nm, dc, sg, an, nt, mk, w⟩
  rcases env with ⟨op⟩
  rcases conf with ⟨z, wn⟩
  cases op <;> cases z <;> cases wn <;> cases an <;> cases nt <;> cases mk <;>
    simp [decorLeafObj, decorLeaf, decorFunc, guard, Func.unbeartypeable, Func.setNtc, Func.mkWrapper,
          Func.ann, Func.ntc, Func.marker]

end BearVerif.Decor
