import BearVerif.Core.Wrap
/-!
  C04 — helper lemmas for `Props/C04.lean` (core Lean only).

  * `iterArgs_factsOf`   the arithmetic of `iter_func_args` over a code object laid out as CPython lays it out
                         yields the declared parameters in declared order
  * `bindKws_spec`       loop invariant of the keyword phase of CPython's binding (`pyBind`): every keywordable
                         unfilled slot ends up holding `kwargs.get(name)`, everything else goes to `**`
  * `argChecks_eq` / `expected_eq`  both sides of the property split into the same five per-kind segments
  * `default_slot_unchecked`  no check names a parameter whose default is used
-/
namespace BearVerif.Wrap

theorem seg_eq (k : Kind) (names : List Name) (first n : Nat) :
    seg k names first n = ((pySlice names first (first + n)).map (fun a => (k, a)), first + n) := by
  unfold seg
  by_cases h : n = 0
  · subst h; simp [pySlice]
  · simp [h]

theorem pySlice_adjacent {α} (l : List α) (a b c : Nat) (hab : a ≤ b) (hbc : b ≤ c) :
    pySlice l a b ++ pySlice l b c = pySlice l a c := by
  unfold pySlice
  have h1 : c - a = (b - a) + (c - b) := by omega
  have h2 : l.drop b = (l.drop a).drop (b - a) := by
    rw [List.drop_drop]; congr 1; omega
  rw [h1, h2, List.take_add]

theorem pySlice_mid {α} (A B C : List α) (a b : Nat) (ha : a = A.length) (hb : b = A.length + B.length) :
    pySlice (A ++ (B ++ C)) a b = B := by
  subst ha hb
  unfold pySlice
  simp

theorem optList_length_toNat {α} (v : Option α) : (optList v).length = v.isSome.toNat := by
  cases v <;> rfl

theorem nameAt_layout (k : Kind) (A C : List Name) (v : Option Name) (i : Nat) (hi : i = A.length)
    (hv : v.isSome = true) : nameAt k (A ++ (optList v ++ C)) i = (optList v).map (fun a => (k, a)) := by
  subst hi
  cases v with
  | none => simp at hv
  | some a => simp [nameAt, optList]

/-- the arithmetic of `iter_func_args` over a name tuple laid out as CPython lays out `co_varnames` -/
theorem iterArgs_layout (pn fn kn : List Name) (vp vk : Option Name) (nd : Nat) (hnd : nd ≤ pn.length + fn.length) :
    iterArgs ⟨pn.length + fn.length, pn.length, kn.length, vp.isSome, vk.isSome,
        pn ++ (fn ++ (kn ++ (optList vp ++ optList vk))), nd⟩ =
      pn.map (fun a => (Kind.posonly, a)) ++ fn.map (fun a => (Kind.flex, a)) ++
        (optList vp).map (fun a => (Kind.varpos, a)) ++ kn.map (fun a => (Kind.kwonly, a)) ++
        (optList vk).map (fun a => (Kind.varkw, a)) := by
  unfold iterArgs
  simp only [seg_eq]
  split
  · next h =>
    have h1 : pn = [] := List.eq_nil_of_length_eq_zero (by omega)
    have h2 : fn = [] := List.eq_nil_of_length_eq_zero (by omega)
    have h3 : kn = [] := List.eq_nil_of_length_eq_zero (by omega)
    have h4 : vp = none := by
      cases vp with
      | none => rfl
      | some a => simp at h
    have h5 : vk = none := by
      cases vk with
      | none => rfl
      | some a => simp at h
    subst h1 h2 h3 h4 h5
    simp [optList]
  · have hP : (pn.length - (nd - min (pn.length + fn.length - pn.length) nd)) +
        (nd - min (pn.length + fn.length - pn.length) nd) = pn.length := by omega
    have hF : (pn.length + fn.length - pn.length - min (pn.length + fn.length - pn.length) nd) +
        min (pn.length + fn.length - pn.length) nd = fn.length := by omega
    generalize (pn.length - (nd - min (pn.length + fn.length - pn.length) nd)) = pm at *
    generalize (nd - min (pn.length + fn.length - pn.length) nd) = po at *
    generalize (pn.length + fn.length - pn.length - min (pn.length + fn.length - pn.length) nd) = fm at *
    generalize (min (pn.length + fn.length - pn.length) nd) = fo at *
    simp only [Nat.zero_add]
    generalize hn : pn ++ (fn ++ (kn ++ (optList vp ++ optList vk))) = names
    have hA : (pySlice names 0 pm).map (fun a => (Kind.posonly, a)) ++
        (pySlice names pm (pm + po)).map (fun a => (Kind.posonly, a)) = pn.map (fun a => (Kind.posonly, a)) := by
      rw [← List.map_append, pySlice_adjacent _ _ _ _ (by omega) (by omega), ← hn]
      have := pySlice_mid [] pn (fn ++ (kn ++ (optList vp ++ optList vk))) 0 (pm + po) rfl (by simp; omega)
      rw [List.nil_append] at this
      rw [this]
    have hB : (pySlice names (pm + po) (pm + po + fm)).map (fun a => (Kind.flex, a)) ++
        (pySlice names (pm + po + fm) (pm + po + fm + fo)).map (fun a => (Kind.flex, a)) =
        fn.map (fun a => (Kind.flex, a)) := by
      rw [← List.map_append, pySlice_adjacent _ _ _ _ (by omega) (by omega), ← hn]
      rw [pySlice_mid pn fn _ _ _ (by omega) (by omega)]
    have hK : (if kn.length ≠ 0 then
          (pySlice names (pm + po + fm + fo) (pm + po + fm + fo + kn.length)).map (fun a => (Kind.kwonly, a))
        else []) = kn.map (fun a => (Kind.kwonly, a)) := by
      split
      · rw [← hn, ← List.append_assoc pn fn, pySlice_mid (pn ++ fn) kn _ _ _ (by simp; omega) (by simp; omega)]
      · next h =>
        have : kn = [] := List.eq_nil_of_length_eq_zero (by omega)
        subst this; rfl
    have hVP : (if vp.isSome = true then nameAt Kind.varpos names (pm + po + fm + fo + kn.length) else []) =
        (optList vp).map (fun a => (Kind.varpos, a)) := by
      split
      · next h =>
        rw [← hn, ← List.append_assoc fn kn, ← List.append_assoc pn]
        exact nameAt_layout _ (pn ++ (fn ++ kn)) _ vp _ (by simp; omega) h
      · next h =>
        cases vp with
        | none => rfl
        | some a => simp at h
    have hVK : (if vk.isSome = true then
          nameAt Kind.varkw names (pm + po + fm + fo + kn.length + vp.isSome.toNat) else []) =
        (optList vk).map (fun a => (Kind.varkw, a)) := by
      split
      · next h =>
        have e : names = (pn ++ (fn ++ (kn ++ optList vp))) ++ (optList vk ++ []) := by
          rw [← hn]; simp
        rw [e]
        exact nameAt_layout _ _ [] vk _ (by simp [optList_length_toNat]; omega) h
      · next h =>
        cases vk with
        | none => rfl
        | some a => simp at h
    rw [hA, List.append_assoc (pn.map _), hB, hVP, hK, hVK]


theorem optList_map {α β} (f : α → β) (v : Option α) : optList (v.map f) = (optList v).map f := by
  cases v <;> rfl

theorem iterArgs_factsOf (s : Sig) : iterArgs (factsOf s) = declared s := by
  have h := iterArgs_layout (s.posonly.map Param.name) (s.flex.map Param.name) (s.kwonly.map Param.name)
    (s.varpos.map Param.name) (s.varkw.map Param.name) ((s.posonly ++ s.flex).countP (·.dflt))
    (by simpa using List.countP_le_length (p := fun p : Param => p.dflt) (l := s.posonly ++ s.flex))
  have e : factsOf s = ⟨(s.posonly.map Param.name).length + (s.flex.map Param.name).length,
      (s.posonly.map Param.name).length, (s.kwonly.map Param.name).length, (s.varpos.map Param.name).isSome,
      (s.varkw.map Param.name).isSome,
      s.posonly.map Param.name ++ (s.flex.map Param.name ++ (s.kwonly.map Param.name ++
        (optList (s.varpos.map Param.name) ++ optList (s.varkw.map Param.name)))),
      (s.posonly ++ s.flex).countP (·.dflt)⟩ := by
    simp [factsOf, optList_map]
  rw [e, h]
  simp [declared, optList_map, List.map_map, Function.comp_def]

/-! ### the keyword phase of `pyBind` -/

/-- where a slot ends up after all keywords: an unfilled keywordable slot holds `kwargs.get(name)` -/
def fill (kws : List (Name × Val)) (sl : Slot) : Slot :=
  if sl.kw = true ∧ sl.val = none then { sl with val := lookup sl.p.name kws } else sl

def setKw (k : Name) (v : Val) (sl : Slot) : Slot :=
  if sl.kw = true ∧ sl.p.name = k then { sl with val := some v } else sl

def hasKwSlot (sls : List Slot) (k : Name) : Bool := sls.any (fun sl => decide (sl.kw = true ∧ sl.p.name = k))

theorem setKw_name (k : Name) (v : Val) (sl : Slot) : (setKw k v sl).p = sl.p ∧ (setKw k v sl).kw = sl.kw := by
  unfold setKw; split <;> simp

theorem placeKw_none (k : Name) (v : Val) (sls : List Slot) (h : placeKw k v sls = .ok none) :
    hasKwSlot sls k = false := by
  induction sls with
  | nil => rfl
  | cons sl r ih =>
    simp only [placeKw] at h
    split at h
    · split at h <;> simp at h
    · next hc =>
      split at h
      · simp at h
      · next h2 =>
        have := ih h2
        simp only [hasKwSlot, List.any_cons, Bool.or_eq_false_iff, decide_eq_false_iff_not] at this ⊢
        exact ⟨hc, this⟩
      · simp at h

theorem placeKw_some (k : Name) (v : Val) (sls sls' : List Slot) (hnd : (sls.map (·.p.name)).Nodup)
    (h : placeKw k v sls = .ok (some sls')) :
    sls' = sls.map (setKw k v) ∧ hasKwSlot sls k = true ∧
      ∀ sl ∈ sls, sl.kw = true → sl.p.name = k → sl.val = none := by
  induction sls generalizing sls' with
  | nil => simp [placeKw] at h
  | cons sl r ih =>
    simp only [List.map_cons, List.nodup_cons] at hnd
    simp only [placeKw] at h
    split at h
    · next hc =>
      split at h
      · simp at h
      · next hv =>
        simp only [Except.ok.injEq, Option.some.injEq] at h
        have hr : ∀ x ∈ r, x.p.name ≠ k := by
          intro x hx e
          exact hnd.1 (List.mem_map.mpr ⟨x, hx, by rw [e, hc.2]⟩)
        refine ⟨?_, ?_, ?_⟩
        · rw [← h]
          simp only [List.map_cons, setKw, hc, and_self, ↓reduceIte, List.cons.injEq, true_and]
          have : r.map (setKw k v) = r.map id := List.map_congr_left (fun x hx => by simp [setKw, hr x hx])
          rw [this, List.map_id]
        · simp [hasKwSlot, hc]
        · intro x hx hk hn
          rcases List.mem_cons.mp hx with rfl | hx
          · exact hv
          · exact absurd hn (hr x hx)
    · next hc =>
      split at h
      · simp at h
      · simp at h
      · next r' h2 =>
        simp only [Except.ok.injEq, Option.some.injEq] at h
        obtain ⟨i1, i2, i3⟩ := ih r' hnd.2 h2
        refine ⟨?_, ?_, ?_⟩
        · rw [← h, i1]; simp [setKw, hc]
        · simp [hasKwSlot] at i2 ⊢; exact Or.inr i2
        · intro x hx hk hn
          rcases List.mem_cons.mp hx with rfl | hx
          · exact absurd ⟨hk, hn⟩ hc
          · exact i3 x hx hk hn


theorem hasKwSlot_setKw (k : Name) (v : Val) (sls : List Slot) (k' : Name) :
    hasKwSlot (sls.map (setKw k v)) k' = hasKwSlot sls k' := by
  simp only [hasKwSlot, List.any_map]
  congr 1
  funext sl
  simp [(setKw_name k v sl).1, (setKw_name k v sl).2]

theorem lookup_cons_ne (k n : Name) (v : Val) (r : List (Name × Val)) (h : n ≠ k) :
    lookup n ((k, v) :: r) = lookup n r := by
  simp [lookup, Ne.symm h]

theorem bindKws_spec (hv : Bool) (kws : List (Name × Val)) (sls ex sls' ex')
    (hnd : (sls.map (·.p.name)).Nodup) (h : bindKws hv kws sls ex = .ok (sls', ex')) :
    sls' = sls.map (fill kws) ∧ ex' = ex ++ kws.filter (fun kv => !hasKwSlot sls kv.1) := by
  induction kws generalizing sls ex with
  | nil =>
    simp only [bindKws, Except.ok.injEq, Prod.mk.injEq] at h
    refine ⟨?_, by simp [h.2]⟩
    rw [← h.1]
    have : sls.map (fill []) = sls.map id := List.map_congr_left (fun x _ => by
      simp only [fill, lookup, id]; split
      · next hc => cases x; simp_all
      · rfl)
    rw [this, List.map_id]
  | cons kv r ih =>
    obtain ⟨k, v⟩ := kv
    simp only [bindKws] at h
    split at h
    · simp at h
    · next sl1 hp =>
      obtain ⟨e1, e2, e3⟩ := placeKw_some k v sls sl1 hnd hp
      have hnd1 : (sl1.map (·.p.name)).Nodup := by
        rw [e1, List.map_map]
        have : ((fun x : Slot => x.p.name) ∘ setKw k v) = (fun x : Slot => x.p.name) := by
          funext x; simp [(setKw_name k v x).1]
        rw [this]; exact hnd
      obtain ⟨i1, i2⟩ := ih sl1 ex hnd1 h
      refine ⟨?_, ?_⟩
      · rw [i1, e1, List.map_map]
        apply List.map_congr_left
        intro x hx
        simp only [Function.comp_def]
        by_cases hc : x.kw = true ∧ x.p.name = k
        · have hn := e3 x hx hc.1 hc.2
          simp [setKw, hc, fill, hn, lookup]
        · simp only [setKw, hc, ↓reduceIte, fill]
          split
          · next h2 =>
            have : x.p.name ≠ k := fun e => hc ⟨h2.1, e⟩
            rw [lookup_cons_ne _ _ _ _ this]
          · rfl
      · rw [i2, e1]
        simp [hasKwSlot_setKw, e2]
    · next hp =>
      have e2 := placeKw_none k v sls hp
      split at h
      · obtain ⟨i1, i2⟩ := ih sls (ex ++ [(k, v)]) hnd h
        refine ⟨?_, ?_⟩
        · rw [i1]
          apply List.map_congr_left
          intro x hx
          simp only [fill]
          split
          · next h2 =>
            have : x.p.name ≠ k := by
              intro e
              have : hasKwSlot sls k = true := by
                simp only [hasKwSlot, List.any_eq_true, decide_eq_true_eq]
                exact ⟨x, hx, h2.1, e⟩
              simp [e2] at this
            rw [lookup_cons_ne _ _ _ _ this]
          · rfl
        · rw [i2]
          simp [e2]
      · simp at h


/-! ### slots -/

theorem posSlots_names (kw : Bool) (args : List Val) (i : Nat) (ps : List Param) :
    (posSlots kw args i ps).map (·.p.name) = ps.map Param.name := by
  induction ps generalizing i with
  | nil => rfl
  | cons p r ih => simp [posSlots, ih]

theorem slots0_names (s : Sig) (c : Call) :
    (slots0 s c).map (·.p.name) = (s.posonly ++ s.flex ++ s.kwonly).map Param.name := by
  simp [slots0, posSlots_names, List.map_map, Function.comp_def]

theorem params_sublist (s : Sig) : List.Sublist (s.posonly ++ s.flex ++ s.kwonly) s.params := by
  unfold Sig.params
  simp only [List.append_assoc]
  apply List.Sublist.append (List.Sublist.refl _)
  apply List.Sublist.append (List.Sublist.refl _)
  refine List.Sublist.trans ?_ (List.sublist_append_right _ _)
  exact List.sublist_append_left _ _

theorem slots0_nodup (s : Sig) (c : Call) (hwf : s.WF) : ((slots0 s c).map (·.p.name)).Nodup := by
  rw [slots0_names]
  exact List.Nodup.sublist ((params_sublist s).map _) hwf

theorem hasKwSlot_posSlots_false (args : List Val) (i : Nat) (ps : List Param) (k : Name) :
    hasKwSlot (posSlots false args i ps) k = false := by
  induction ps generalizing i with
  | nil => rfl
  | cons p r ih =>
    have := ih (i + 1)
    simp only [hasKwSlot] at this
    simp only [hasKwSlot, posSlots, List.any_cons, this]
    simp

theorem hasKwSlot_posSlots_true (args : List Val) (i : Nat) (ps : List Param) (k : Name) :
    hasKwSlot (posSlots true args i ps) k = (ps.map Param.name).contains k := by
  induction ps generalizing i with
  | nil => rfl
  | cons p r ih =>
    have := ih (i + 1)
    simp only [hasKwSlot] at this
    simp only [hasKwSlot, posSlots, List.any_cons, this, List.map_cons, List.contains_cons]
    congr 1
    by_cases h : p.name = k
    · subst h; simp
    · have := Ne.symm h; simp [h, this]

theorem hasKwSlot_append (a b : List Slot) (k : Name) : hasKwSlot (a ++ b) k = (hasKwSlot a k || hasKwSlot b k) := by
  simp [hasKwSlot]

theorem hasKwSlot_slots0 (s : Sig) (c : Call) (k : Name) :
    hasKwSlot (slots0 s c) k = ((s.flex ++ s.kwonly).map Param.name).contains k := by
  simp only [slots0, hasKwSlot_append, hasKwSlot_posSlots_false, hasKwSlot_posSlots_true, Bool.false_or,
    List.map_append, List.contains_append]
  congr 1
  induction s.kwonly with
  | nil => rfl
  | cons p r ih =>
    simp only [hasKwSlot] at ih
    simp only [hasKwSlot, List.map_cons, List.any_cons, ih, List.contains_cons]
    congr 1
    by_cases h : p.name = k
    · subst h; simp
    · have := Ne.symm h; simp [h, this]

theorem filter_const_true {α} (l : List α) : l.filter (fun _ => true) = l := by
  induction l <;> simp_all

theorem filter_const_false {α} (l : List α) : l.filter (fun _ => false) = [] := by
  induction l <;> simp_all

theorem keywordable_declared (s : Sig) : keywordable (declared s) = (s.flex ++ s.kwonly).map Param.name := by
  simp [keywordable, declared, List.filter_map, Function.comp_def, isKeywordKind, filter_const_true,
    filter_const_false]

/-- a successful binding, declaratively -/
theorem pyBind_ok (s : Sig) (c : Call) (b : Binding) (hwf : s.WF) (h : pyBind s c = .ok b) :
    b.slots = (slots0 s c).map (fill c.kwargs) ∧ b.star = c.args.drop (s.posonly.length + s.flex.length) ∧
      b.dstar = excessKw (keywordable (declared s)) c.kwargs := by
  simp only [pyBind] at h
  split at h
  · simp at h
  · split at h
    · simp at h
    · next slots extra hb =>
      split at h
      · simp at h
      · simp only [Except.ok.injEq] at h
        obtain ⟨e1, e2⟩ := bindKws_spec _ _ _ _ _ _ (slots0_nodup s c hwf) hb
        subst h
        refine ⟨e1, rfl, ?_⟩
        simp only [e2, List.nil_append, excessKw, keywordable_declared]
        congr 1
        funext kv
        rw [hasKwSlot_slots0]

/-! ### the wrapper's checks, segment by segment -/

theorem codeCheckArgs_append (ann : Name → Bool) (i : Nat) (m1 m2 : List (Kind × Name)) :
    codeCheckArgs ann i (m1 ++ m2) = codeCheckArgs ann i m1 ++ codeCheckArgs ann (i + m1.length) m2 := by
  induction m1 generalizing i with
  | nil => simp [codeCheckArgs]
  | cons m r ih =>
    obtain ⟨k, n⟩ := m
    simp only [List.cons_append, codeCheckArgs, ih, List.append_assoc, List.length_cons]
    congr 3
    omega

theorem checksFrom_append (ann : Name → Bool) (kwable : List Name) (c : Call) (i : Nat) (m1 m2 : List (Kind × Name)) :
    checksFrom ann kwable c i (m1 ++ m2) =
      checksFrom ann kwable c i m1 ++ checksFrom ann kwable c (i + m1.length) m2 := by
  simp [checksFrom, codeCheckArgs_append]

theorem checksFrom_cons (ann : Name → Bool) (kwable : List Name) (c : Call) (i : Nat) (k : Kind) (n : Name)
    (r : List (Kind × Name)) :
    checksFrom ann kwable c i ((k, n) :: r) =
      (if ann n then localise kwable c (snipOf k i n) else []) ++ checksFrom ann kwable c (i + 1) r := by
  simp only [checksFrom, codeCheckArgs, List.flatMap_append]
  split <;> simp

theorem fill_nokw (kws : List (Name × Val)) (p : Param) (v : Option Val) : fill kws ⟨p, false, v⟩ = ⟨p, false, v⟩ := by
  simp [fill]

theorem checks_posonly (ann : Name → Bool) (kwable : List Name) (c : Call) (ps : List Param) (i : Nat)
    (hann : ∀ p ∈ ps, ann p.name = p.ann) :
    checksFrom ann kwable c i (ps.map (fun p => (Kind.posonly, p.name))) =
      ((posSlots false c.args i ps).map (fill c.kwargs)).filterMap slotPair := by
  induction ps generalizing i with
  | nil => rfl
  | cons p r ih =>
    have hr := ih (i + 1) (fun q hq => hann q (List.mem_cons_of_mem _ hq))
    have hp := hann p (List.mem_cons_self ..)
    obtain ⟨pn, pa, pd⟩ := p
    simp only at hp
    simp only [List.map_cons, checksFrom_cons, hr, hp, posSlots, fill_nokw, List.filterMap_cons, slotPair, snipOf,
      localise]
    cases pa <;> cases c.args[i]? <;> simp [pairWith]

theorem checks_flex (ann : Name → Bool) (kwable : List Name) (c : Call) (ps : List Param) (i : Nat)
    (hann : ∀ p ∈ ps, ann p.name = p.ann) :
    checksFrom ann kwable c i (ps.map (fun p => (Kind.flex, p.name))) =
      ((posSlots true c.args i ps).map (fill c.kwargs)).filterMap slotPair := by
  induction ps generalizing i with
  | nil => rfl
  | cons p r ih =>
    have hr := ih (i + 1) (fun q hq => hann q (List.mem_cons_of_mem _ hq))
    have hp := hann p (List.mem_cons_self ..)
    obtain ⟨pn, pa, pd⟩ := p
    simp only at hp
    simp only [List.map_cons, checksFrom_cons, hr, hp, posSlots, List.filterMap_cons, slotPair, snipOf,
      localise, flexVal, fill]
    cases pa <;> cases c.args[i]? <;> simp [pairWith] <;> cases lookup pn c.kwargs <;> simp

theorem checks_kwonly (ann : Name → Bool) (kwable : List Name) (c : Call) (ps : List Param) (i : Nat)
    (hann : ∀ p ∈ ps, ann p.name = p.ann) :
    checksFrom ann kwable c i (ps.map (fun p => (Kind.kwonly, p.name))) =
      ((ps.map (fun p => (⟨p, true, none⟩ : Slot))).map (fill c.kwargs)).filterMap slotPair := by
  induction ps generalizing i with
  | nil => rfl
  | cons p r ih =>
    have hr := ih (i + 1) (fun q hq => hann q (List.mem_cons_of_mem _ hq))
    have hp := hann p (List.mem_cons_self ..)
    obtain ⟨pn, pa, pd⟩ := p
    simp only at hp
    simp only [List.map_cons, checksFrom_cons, hr, hp, List.filterMap_cons, slotPair, snipOf, localise, fill]
    cases pa <;> simp [pairWith] <;> cases lookup pn c.kwargs <;> simp

theorem checks_varpos (ann : Name → Bool) (kwable : List Name) (c : Call) (vp : Option Param) (i : Nat)
    (hann : ∀ p ∈ optList vp, ann p.name = p.ann) :
    checksFrom ann kwable c i ((optList vp).map (fun p => (Kind.varpos, p.name))) = starPairs vp (c.args.drop i) := by
  cases vp with
  | none => rfl
  | some p =>
    have hp := hann p (by simp [optList])
    obtain ⟨pn, pa, pd⟩ := p
    simp only at hp
    simp only [optList, List.map_cons, List.map_nil, checksFrom_cons, hp, snipOf, localise, starPairs]
    cases pa <;> simp [checksFrom, codeCheckArgs]

theorem checks_varkw (ann : Name → Bool) (kwable : List Name) (c : Call) (vk : Option Param) (i : Nat)
    (hann : ∀ p ∈ optList vk, ann p.name = p.ann) :
    checksFrom ann kwable c i ((optList vk).map (fun p => (Kind.varkw, p.name))) =
      starPairs vk ((excessKw kwable c.kwargs).map Prod.snd) := by
  cases vk with
  | none => rfl
  | some p =>
    have hp := hann p (by simp [optList])
    obtain ⟨pn, pa, pd⟩ := p
    simp only at hp
    simp only [optList, List.map_cons, List.map_nil, checksFrom_cons, hp, snipOf, localise, starPairs]
    cases pa <;> simp [checksFrom, codeCheckArgs, List.map_map, Function.comp_def]


/-! ### assembling both sides -/

theorem any_name_none (l : List Param) (n : Name) (h : n ∉ l.map Param.name) :
    l.any (fun q => decide (q.name = n ∧ q.ann = true)) = false := by
  simp only [List.any_eq_false, decide_eq_true_eq]
  intro q hq hc
  exact h (List.mem_map.mpr ⟨q, hq, hc.1⟩)

theorem any_name_ann (l : List Param) (p : Param) (hnd : (l.map Param.name).Nodup) (hp : p ∈ l) :
    l.any (fun q => decide (q.name = p.name ∧ q.ann = true)) = p.ann := by
  induction l with
  | nil => simp at hp
  | cons q r ih =>
    simp only [List.map_cons, List.nodup_cons] at hnd
    rcases List.mem_cons.mp hp with rfl | hr
    · simp only [List.any_cons, true_and, any_name_none r p.name hnd.1, Bool.or_false]
      cases p.ann <;> simp
    · have hne : q.name ≠ p.name := fun e => hnd.1 (e ▸ List.mem_map.mpr ⟨p, hr, rfl⟩)
      rw [List.any_cons, ih hnd.2 hr]
      simp [hne]

theorem annOf_param (s : Sig) (hwf : s.WF) (p : Param) (hp : p ∈ s.params) : s.annOf p.name = p.ann :=
  any_name_ann s.params p hwf hp

/-- the five per-kind segments both sides split into -/
def segA (s : Sig) (c : Call) := ((posSlots false c.args 0 s.posonly).map (fill c.kwargs)).filterMap slotPair
def segB (s : Sig) (c : Call) :=
  ((posSlots true c.args s.posonly.length s.flex).map (fill c.kwargs)).filterMap slotPair
def segS (s : Sig) (c : Call) := starPairs s.varpos (c.args.drop (s.posonly.length + s.flex.length))
def segK (s : Sig) (c : Call) :=
  ((s.kwonly.map (fun p => (⟨p, true, none⟩ : Slot))).map (fill c.kwargs)).filterMap slotPair
def segD (s : Sig) (c : Call) :=
  starPairs s.varkw ((excessKw (keywordable (declared s)) c.kwargs).map Prod.snd)

theorem argChecks_eq (s : Sig) (c : Call) (hwf : s.WF) :
    argChecks s c = segA s c ++ segB s c ++ segS s c ++ segK s c ++ segD s c := by
  have hmem : ∀ p, p ∈ s.params → s.annOf p.name = p.ann := annOf_param s hwf
  have hA := checks_posonly s.annOf (keywordable (declared s)) c s.posonly 0
    (fun p hp => hmem p (by simp [Sig.params, hp]))
  have hB := checks_flex s.annOf (keywordable (declared s)) c s.flex s.posonly.length
    (fun p hp => hmem p (by simp [Sig.params, hp]))
  have hS := checks_varpos s.annOf (keywordable (declared s)) c s.varpos (s.posonly.length + s.flex.length)
    (fun p hp => hmem p (by simp [Sig.params, hp]))
  have hK := checks_kwonly s.annOf (keywordable (declared s)) c s.kwonly
    (s.posonly.length + s.flex.length + (optList s.varpos).length) (fun p hp => hmem p (by simp [Sig.params, hp]))
  have hD := checks_varkw s.annOf (keywordable (declared s)) c s.varkw
    (s.posonly.length + s.flex.length + (optList s.varpos).length + s.kwonly.length)
    (fun p hp => hmem p (by simp [Sig.params, hp]))
  simp only [argChecks, iterArgs_factsOf]
  conv => lhs; arg 5; unfold declared
  simp only [checksFrom_append, List.length_append, List.length_map, Nat.zero_add, hA, hB, hS, hK, hD]
  rfl

theorem expected_eq (s : Sig) (c : Call) (b : Binding) (hwf : s.WF) (h : pyBind s c = .ok b) :
    b.expected s = (segA s c ++ segB s c ++ segK s c) ++ segS s c ++ segD s c := by
  obtain ⟨e1, e2, e3⟩ := pyBind_ok s c b hwf h
  simp only [Binding.expected, e1, e2, e3, slots0, List.map_append, List.filterMap_append]
  rfl

theorem checks_perm_expected (s : Sig) (c : Call) (b : Binding) (hwf : s.WF) (h : pyBind s c = .ok b) :
    (argChecks s c).Perm (b.expected s) := by
  rw [argChecks_eq s c hwf, expected_eq s c b hwf h]
  apply List.Perm.append_right
  simp only [List.append_assoc]
  apply List.Perm.append_left
  apply List.Perm.append_left
  exact List.perm_append_comm


/-! ### running the checks in order -/

theorem runChecks_none_iff (ok : Name → Val → Bool) (l : List (Name × Val)) :
    (runChecks ok l).2 = none ↔ ∀ x ∈ l, ok x.1 x.2 = true := by
  induction l with
  | nil => simp [runChecks]
  | cons x r ih =>
    simp only [runChecks]
    split
    · next h => simp [ih, h]
    · next h => simp [h]

theorem runChecks_trace_of_none (ok : Name → Val → Bool) (l : List (Name × Val)) (h : (runChecks ok l).2 = none) :
    (runChecks ok l).1 = l := by
  induction l with
  | nil => rfl
  | cons x r ih =>
    simp only [runChecks] at h ⊢
    split
    · next hx => simp only [hx, ↓reduceIte] at h; simp [ih h]
    · next hx => simp [hx] at h

/-- the failing check is one of the wrapper's checks, it is the last one performed, and
    everything performed before it passed -/
theorem runChecks_some (ok : Name → Val → Bool) (l : List (Name × Val)) (x : Name × Val)
    (h : (runChecks ok l).2 = some x) :
    x ∈ l ∧ ok x.1 x.2 = false ∧
      ∃ pre post, l = pre ++ x :: post ∧ (runChecks ok l).1 = pre ++ [x] ∧ ∀ y ∈ pre, ok y.1 y.2 = true := by
  induction l with
  | nil => simp [runChecks] at h
  | cons y r ih =>
    simp only [runChecks] at h ⊢
    split
    · next hy =>
      simp only [hy, ↓reduceIte] at h
      obtain ⟨i1, i2, pre, post, i3, i4, i5⟩ := ih h
      refine ⟨List.mem_cons_of_mem _ i1, i2, y :: pre, post, by simp [i3], by simp [i4], ?_⟩
      intro z hz
      rcases List.mem_cons.mp hz with rfl | hz
      · exact hy
      · exact i5 z hz
    · next hy =>
      simp only [hy] at h
      simp only [Bool.false_eq_true, ↓reduceIte, Option.some.injEq] at h
      subst h
      exact ⟨List.mem_cons_self .., by simpa using hy, [], r, rfl, rfl, by simp⟩

/-! ### a parameter whose default is used is not checked -/

theorem fill_p (kws : List (Name × Val)) (sl : Slot) : (fill kws sl).p = sl.p := by
  unfold fill; split <;> rfl

theorem bound_slot_names (s : Sig) (c : Call) (b : Binding) (hwf : s.WF) (h : pyBind s c = .ok b) :
    b.slots.map (·.p.name) = (s.posonly ++ s.flex ++ s.kwonly).map Param.name := by
  rw [(pyBind_ok s c b hwf h).1, List.map_map, ← slots0_names s c]
  apply List.map_congr_left
  intro sl _
  simp [fill_p]

theorem nodup_map_inj {α β} (f : α → β) (l : List α) (hnd : (l.map f).Nodup) (a b : α) (ha : a ∈ l) (hb : b ∈ l)
    (hab : f a = f b) : a = b := by
  induction l with
  | nil => cases ha
  | cons x r ih =>
    simp only [List.map_cons, List.nodup_cons] at hnd
    rcases List.mem_cons.mp ha with rfl | ha' <;> rcases List.mem_cons.mp hb with rfl | hb'
    · rfl
    · exact absurd (List.mem_map.mpr ⟨b, hb', hab.symm⟩) hnd.1
    · exact absurd (List.mem_map.mpr ⟨a, ha', hab⟩) hnd.1
    · exact ih hnd.2 ha' hb'

theorem starPairs_name (p : Option Param) (vs : List Val) (n : Name) (v : Val) (h : (n, v) ∈ starPairs p vs) :
    ∃ q, p = some q ∧ n = q.name := by
  cases p with
  | none => simp [starPairs] at h
  | some q =>
    refine ⟨q, rfl, ?_⟩
    simp only [starPairs] at h
    split at h
    · obtain ⟨_, _, e⟩ := List.mem_map.mp h
      exact (Prod.mk.inj e).1.symm
    · cases h

theorem nodup_append_not_mem {α} (a b : List α) (x : α) (h : (a ++ b).Nodup) (hx : x ∈ b) : x ∉ a := by
  intro ha
  exact (List.nodup_append.mp h).2.2 x ha x hx rfl

theorem var_name_not_slot (s : Sig) (hwf : s.WF) (q : Param) (hq : s.varpos = some q ∨ s.varkw = some q) :
    q.name ∉ (s.posonly ++ s.flex ++ s.kwonly).map Param.name := by
  unfold Sig.WF Sig.params at hwf
  intro hmem
  simp only [List.map_append, List.mem_append] at hmem
  simp only [List.map_append] at hwf
  rcases hq with hq | hq
  · -- names = PO ++ FL ++ [q] ++ KO ++ VK
    rw [hq] at hwf
    simp only [show optList (some q) = [q] from rfl, List.map_cons, List.map_nil] at hwf
    rcases hmem with (h1 | h1) | h1
    · have h' : ((s.posonly.map Param.name) ++ ((s.flex.map Param.name) ++ ([q.name] ++ ((s.kwonly.map Param.name) ++
          (optList s.varkw).map Param.name)))).Nodup := by simpa [List.append_assoc] using hwf
      exact nodup_append_not_mem _ _ q.name h' (by simp) h1
    · have h' : ((s.posonly.map Param.name) ++ ((s.flex.map Param.name) ++ ([q.name] ++ ((s.kwonly.map Param.name) ++
          (optList s.varkw).map Param.name)))).Nodup := by simpa [List.append_assoc] using hwf
      have h'' := (List.nodup_append.mp h').2.1
      exact nodup_append_not_mem _ _ q.name h'' (by simp) h1
    · have h' : (((s.posonly.map Param.name) ++ (s.flex.map Param.name)) ++ ([q.name] ++ ((s.kwonly.map Param.name) ++
          (optList s.varkw).map Param.name))).Nodup := by simpa [List.append_assoc] using hwf
      have h'' := (List.nodup_append.mp h').2.1
      have h3 : ([q.name] ++ (s.kwonly.map Param.name)).Nodup := by
        have : (([q.name] ++ (s.kwonly.map Param.name)) ++ (optList s.varkw).map Param.name).Nodup := by
          simpa [List.append_assoc] using h''
        exact (List.nodup_append.mp this).1
      exact (List.nodup_append.mp h3).2.2 q.name (by simp) q.name h1 rfl
  · rw [hq] at hwf
    simp only [show optList (some q) = [q] from rfl, List.map_cons, List.map_nil] at hwf
    have hx : q.name ∈ [q.name] := by simp
    rcases hmem with (h1 | h1) | h1
    · have h' : ((s.posonly.map Param.name) ++ ((s.flex.map Param.name) ++ ((optList s.varpos).map Param.name ++
          ((s.kwonly.map Param.name) ++ [q.name])))).Nodup := by simpa [List.append_assoc] using hwf
      exact nodup_append_not_mem _ _ q.name h' (by simp) h1
    · have h' : ((s.posonly.map Param.name) ++ ((s.flex.map Param.name) ++ ((optList s.varpos).map Param.name ++
          ((s.kwonly.map Param.name) ++ [q.name])))).Nodup := by simpa [List.append_assoc] using hwf
      have h'' := (List.nodup_append.mp h').2.1
      exact nodup_append_not_mem _ _ q.name h'' (by simp) h1
    · have h' : ((s.posonly.map Param.name ++ s.flex.map Param.name ++ (optList s.varpos).map Param.name) ++
          ((s.kwonly.map Param.name) ++ [q.name])).Nodup := by simpa [List.append_assoc] using hwf
      have h'' := (List.nodup_append.mp h').2.1
      exact nodup_append_not_mem _ _ q.name h'' hx h1


theorem slotPair_some (sl : Slot) (n : Name) (v : Val) (h : slotPair sl = some (n, v)) :
    sl.p.name = n ∧ sl.val = some v := by
  unfold slotPair at h
  split at h
  · split at h
    · simp only [Option.some.injEq, Prod.mk.injEq] at h
      exact ⟨h.1, by simp_all⟩
    · cases h
  · cases h

theorem default_slot_unchecked (s : Sig) (c : Call) (b : Binding) (hwf : s.WF) (h : pyBind s c = .ok b)
    (sl : Slot) (hsl : sl ∈ b.slots) (hv : sl.val = none) (v : Val) : (sl.p.name, v) ∉ argChecks s c := by
  intro hmem
  have hexp := (checks_perm_expected s c b hwf h).mem_iff.mp hmem
  have hnames := bound_slot_names s c b hwf h
  have hslot : sl.p.name ∈ (s.posonly ++ s.flex ++ s.kwonly).map Param.name := by
    rw [← hnames]; exact List.mem_map.mpr ⟨sl, hsl, rfl⟩
  simp only [Binding.expected, List.mem_append] at hexp
  rcases hexp with (h1 | h2) | h3
  · obtain ⟨sl', hsl', hp⟩ := List.mem_filterMap.mp h1
    obtain ⟨e1, e2⟩ := slotPair_some sl' _ _ hp
    have hnd : (b.slots.map (·.p.name)).Nodup := by
      rw [hnames]; exact List.Nodup.sublist ((params_sublist s).map _) hwf
    have : sl' = sl := nodup_map_inj (·.p.name) b.slots hnd sl' sl hsl' hsl e1
    rw [this, hv] at e2
    cases e2
  · obtain ⟨q, hq, hn⟩ := starPairs_name _ _ _ _ h2
    exact var_name_not_slot s hwf q (Or.inl hq) (hn ▸ hslot)
  · obtain ⟨q, hq, hn⟩ := starPairs_name _ _ _ _ h3
    exact var_name_not_slot s hwf q (Or.inr hq) (hn ▸ hslot)

end BearVerif.Wrap
