import BearVerif.Lemmas.Door
/-!
  Fuel monotonicity of the Door model: once `leF n a b` (or `eqF n a b`) has answered
  `True`/`False` more fuel never changes the answer. Hence answers are independent of the
  fuel (determinism), which relates `==` (C19_eq_mutual) to `is_subhint`.
-/
namespace BearVerif.Door
open BearVerif.Bear DHint

/-- `y` agrees with `x` whenever `x` is a Boolean answer -/
def Below (x y : R) : Prop := ∀ r, x = .ok r → y = .ok r

theorem Below.rfl {x : R} : Below x x := fun _ h => h

theorem andE_below {x x' y y' : R} (hx : Below x x') (hy : Below y y') : Below (andE x y) (andE x' y') := by
  intro r h
  cases x with
  | error e => simp [andE] at h
  | ok b =>
    have := hx b rfl
    subst this
    cases b with
    | true => simpa [andE] using hy r (by simpa [andE] using h)
    | false => simpa [andE] using h

theorem orE_below {x x' y y' : R} (hx : Below x x') (hy : Below y y') : Below (orE x y) (orE x' y') := by
  intro r h
  cases x with
  | error e => simp [orE] at h
  | ok b =>
    have := hx b rfl
    subst this
    cases b with
    | false => simpa [orE] using hy r (by simpa [orE] using h)
    | true => simpa [orE] using h

theorem notE_below {x x' : R} (hx : Below x x') : Below (notE x) (notE x') := by
  intro r h
  cases x with
  | error e => simp [notE] at h
  | ok b =>
    have := hx b rfl
    subst this
    exact h

theorem allE_below {α : Type} {f g : α → R} : ∀ (l : List α), (∀ a ∈ l, Below (f a) (g a)) → Below (allE l f) (allE l g)
  | [], _ => Below.rfl
  | a :: l, h => by
    simp only [allE]
    exact andE_below (h a (by simp)) (allE_below l (fun b hb => h b (by simp [hb])))

theorem anyE_below {α : Type} {f g : α → R} : ∀ (l : List α), (∀ a ∈ l, Below (f a) (g a)) → Below (anyE l f) (anyE l g)
  | [], _ => Below.rfl
  | a :: l, h => by
    simp only [anyE]
    exact orE_below (h a (by simp)) (anyE_below l (fun b hb => h b (by simp [hb])))

theorem zipAllE_below {f g : DHint → DHint → R} (h : ∀ a b, Below (f a b) (g a b)) :
    ∀ (as bs : List DHint), Below (zipAllE f as bs) (zipAllE g as bs)
  | [], _ => by simp [zipAllE]; exact Below.rfl
  | _ :: _, [] => by simp [zipAllE]; exact Below.rfl
  | a :: as, b :: bs => by
    simp only [zipAllE]
    exact andE_below (h a b) (zipAllE_below h as bs)

theorem zipAnyE_below {f g : DHint → DHint → R} (h : ∀ a b, Below (f a b) (g a b)) :
    ∀ (as bs : List DHint), Below (zipAnyE f as bs) (zipAnyE g as bs)
  | [], _ => by simp [zipAnyE]; exact Below.rfl
  | _ :: _, [] => by simp [zipAnyE]; exact Below.rfl
  | a :: as, b :: bs => by
    simp only [zipAnyE]
    exact orE_below (h a b) (zipAnyE_below h as bs)

theorem ite_below {c : Prop} [Decidable c] {x x' y y' : R} (hx : Below x x') (hy : Below y y') :
    Below (if c then x else y) (if c then x' else y') := by
  split
  · exact hx
  · exact hy

theorem guardE_below {v v' k : R} (hv : Below v v') : Below (guardE v k) (guardE v' k) := by
  intro r h
  cases v with
  | error e => simp [guardE] at h
  | ok b =>
    have := hv b rfl
    subst this
    exact h

variable (D : DWorld) {le le' eq eq' : DHint → DHint → R}

def MonoRel (f g : DHint → DHint → R) : Prop := ∀ a b, Below (f a b) (g a b)

theorem gt_below (hl : MonoRel le le') (he : MonoRel eq eq') : MonoRel (gt le eq) (gt le' eq') := by
  intro x y
  simp only [gt]
  exact andE_below (hl y x) (notE_below (he x y))

theorem brBase_below (hl : MonoRel le le') (a bj : DHint) : Below (brBase D le a bj) (brBase D le' a bj) := by
  unfold brBase
  refine ite_below Below.rfl (ite_below Below.rfl (ite_below Below.rfl (ite_below Below.rfl ?_)))
  exact zipAllE_below hl _ _

theorem brCallable_below (hl : MonoRel le le') (he : MonoRel eq eq') (ell : Bool) (pa : List DHint) (r : DHint) (ell' : Bool)
    (pb : List DHint) (r' : DHint) : Below (brCallable D le eq ell pa r ell' pb r') (brCallable D le' eq' ell pa r ell' pb r') := by
  intro res h
  simp only [brCallable] at h ⊢
  have hp : Below (if ell' = true then (.ok false : R) else if ell = true then .ok true
        else if (pa.length != pb.length) = true then .ok true else zipAnyE (gt le eq) pa pb)
      (if ell' = true then (.ok false : R) else if ell = true then .ok true
        else if (pa.length != pb.length) = true then .ok true else zipAnyE (gt le' eq') pa pb) :=
    ite_below Below.rfl (ite_below Below.rfl (ite_below Below.rfl (zipAnyE_below (gt_below hl he) _ _)))
  generalize hx : (if ell' = true then (.ok false : R) else if ell = true then .ok true
        else if (pa.length != pb.length) = true then .ok true else zipAnyE (gt le eq) pa pb) = x at h hp
  generalize (if ell' = true then (.ok false : R) else if ell = true then .ok true
        else if (pa.length != pb.length) = true then .ok true else zipAnyE (gt le' eq') pa pb) = x' at hp
  cases x with
  | error e => simp at h
  | ok b =>
    have := hp b rfl
    subst this
    cases b with
    | true => exact h
    | false =>
      simp only at h ⊢
      exact (ite_below (c := (!ign D r') = true) (ite_below Below.rfl (hl r r')) Below.rfl) res h

theorem brLe_below (hl : MonoRel le le') (he : MonoRel eq eq') (a bj : DHint) :
    Below (brLe D le eq a bj) (brLe D le' eq' a bj) := by
  cases a with
  | cls c => exact Below.rfl
  | any => exact Below.rfl
  | union _ => exact Below.rfl
  | typevar _ => exact Below.rfl
  | cont _ _ _ => simp only [brLe]; exact brBase_below D hl _ _
  | mapping _ _ _ => simp only [brLe]; exact brBase_below D hl _ _
  | tupleVar _ => simp only [brLe]; exact brBase_below D hl _ _
  | literal ms => cases bj <;> simp only [brLe] <;> first | exact Below.rfl | exact brBase_below D hl _ _
  | annotated h md =>
    cases bj <;> simp only [brLe] <;> first | exact hl _ _ | exact guardE_below (hl _ _)
  | tupleFixed as =>
    simp only [brLe]
    refine ite_below Below.rfl ?_
    cases bj <;> simp only <;> first
      | exact Below.rfl
      | exact allE_below _ (fun a _ => hl a _)
      | exact ite_below Below.rfl (zipAllE_below hl _ _)
  | callable o ell ps r =>
    simp only [brLe]
    refine ite_below Below.rfl ?_
    cases bj <;> simp only <;> first
      | exact Below.rfl
      | exact brCallable_below D hl he _ _ _ _ _ _

theorem baseSub_below (hl : MonoRel le le') (he : MonoRel eq eq') (a b : DHint) :
    Below (baseSub D le eq a b) (baseSub D le' eq' a b) := by
  simp only [baseSub]
  exact anyE_below _ (fun bj _ => ite_below Below.rfl (brLe_below D hl he a bj))

theorem subBody_below (hl : MonoRel le le') (he : MonoRel eq eq') : MonoRel (subBody D le eq) (subBody D le' eq') := by
  intro a b
  have un : ∀ as : List DHint, Below
      (allE as (fun ai => if b.isUnionLike then anyE (branches b) (fun bj => le ai bj) else le ai b))
      (allE as (fun ai => if b.isUnionLike then anyE (branches b) (fun bj => le' ai bj) else le' ai b)) :=
    fun as => allE_below _ (fun ai _ => ite_below (anyE_below _ (fun bj _ => hl ai bj)) (hl ai b))
  cases a with
  | union as => simp only [subBody]; exact un as
  | typevar as => simp only [subBody]; exact un as
  | literal ms =>
    cases b <;> simp only [subBody] <;> first
      | exact Below.rfl
      | exact orE_below (allE_below _ (fun m _ => hl _ _)) (baseSub_below D hl he _ _)
  | any => simp only [subBody]; exact baseSub_below D hl he _ _
  | cls _ => simp only [subBody]; exact baseSub_below D hl he _ _
  | annotated _ _ => simp only [subBody]; exact baseSub_below D hl he _ _
  | tupleFixed _ => simp only [subBody]; exact baseSub_below D hl he _ _
  | tupleVar _ => simp only [subBody]; exact baseSub_below D hl he _ _
  | cont _ _ _ => simp only [subBody]; exact baseSub_below D hl he _ _
  | mapping _ _ _ => simp only [subBody]; exact baseSub_below D hl he _ _
  | callable _ _ _ _ => simp only [subBody]; exact baseSub_below D hl he _ _

theorem eqBody_below (hl : MonoRel le le') (he : MonoRel eq eq') : MonoRel (eqBody D le eq) (eqBody D le' eq') := by
  intro x y
  have sub : Below
      (if (argsIgn D x && argsIgn D y) = true then (.ok (origin x == origin y) : R)
       else if (!sameSign x y || (children x).length != (children y).length) = true then .ok false
       else zipAllE eq (children x) (children y))
      (if (argsIgn D x && argsIgn D y) = true then (.ok (origin x == origin y) : R)
       else if (!sameSign x y || (children x).length != (children y).length) = true then .ok false
       else zipAllE eq' (children x) (children y)) :=
    ite_below Below.rfl (ite_below Below.rfl (zipAllE_below he _ _))
  cases x with
  | cont _ _ _ => simpa only [eqBody] using sub
  | mapping _ _ _ => simpa only [eqBody] using sub
  | tupleVar _ => simpa only [eqBody] using sub
  | annotated h md =>
    cases y <;> simp only [eqBody] <;> first
      | exact Below.rfl
      | exact andE_below (he _ _) Below.rfl
  | any => simp only [eqBody]; exact andE_below (hl _ _) (hl _ _)
  | cls _ => simp only [eqBody]; exact andE_below (hl _ _) (hl _ _)
  | union _ => simp only [eqBody]; exact andE_below (hl _ _) (hl _ _)
  | typevar _ => simp only [eqBody]; exact andE_below (hl _ _) (hl _ _)
  | literal _ => simp only [eqBody]; exact andE_below (hl _ _) (hl _ _)
  | tupleFixed _ => simp only [eqBody]; exact andE_below (hl _ _) (hl _ _)
  | callable _ _ _ _ => simp only [eqBody]; exact andE_below (hl _ _) (hl _ _)

/-- one more level of fuel never changes a Boolean answer -/
theorem leF_mono_succ : ∀ n, MonoRel (leF D n) (leF D (n + 1)) ∧ MonoRel (eqF D n) (eqF D (n + 1))
  | 0 => by constructor <;> intro a b r h <;> simp [leF, eqF] at h
  | n + 1 => by
    obtain ⟨hl, he⟩ := leF_mono_succ n
    constructor
    · intro a b
      show Below (leF D (n + 1) a b) (leF D (n + 1 + 1) a b)
      rw [leF, leF]
      exact ite_below Below.rfl (subBody_below D hl he a b)
    · intro a b
      show Below (eqF D (n + 1) a b) (eqF D (n + 1 + 1) a b)
      rw [eqF, eqF]
      exact eqBody_below D hl he a b

theorem leF_mono {n m : Nat} (h : n ≤ m) : MonoRel (leF D n) (leF D m) ∧ MonoRel (eqF D n) (eqF D m) := by
  induction h with
  | refl => exact ⟨fun _ _ => Below.rfl, fun _ _ => Below.rfl⟩
  | step _ ih =>
    obtain ⟨h1, h2⟩ := leF_mono_succ D _
    exact ⟨fun a b r hr => h1 a b r (ih.1 a b r hr), fun a b r hr => h2 a b r (ih.2 a b r hr)⟩

/-- **answers do not depend on the fuel** -/
theorem leF_det {n m : Nat} {a b : DHint} {r r' : Bool} (h1 : leF D n a b = .ok r) (h2 : leF D m a b = .ok r') : r = r' := by
  rcases Nat.le_total n m with h | h
  · have := (leF_mono D h).1 a b r h1
    rw [h2] at this; cases this; rfl
  · have := (leF_mono D h).1 a b r' h2
    rw [h1] at this; cases this; rfl

theorem eqF_det {n m : Nat} {a b : DHint} {r r' : Bool} (h1 : eqF D n a b = .ok r) (h2 : eqF D m a b = .ok r') : r = r' := by
  rcases Nat.le_total n m with h | h
  · have := (leF_mono D h).2 a b r h1
    rw [h2] at this; cases this; rfl
  · have := (leF_mono D h).2 a b r' h2
    rw [h1] at this; cases this; rfl

end BearVerif.Door
