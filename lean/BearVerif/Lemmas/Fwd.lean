import BearVerif.Core.Fwd
/-!
  C07 — helper lemmas for `Props/C07.lean` (core Lean only).
-/
namespace BearVerif.Fwd
set_option linter.unusedSimpArgs false
set_option linter.unusedSectionVars false

/-! ### association lists -/

theorem Scope.get?_append (a b : Scope) (n : Name) :
    Scope.get? (a ++ b) n = match Scope.get? a n with
      | some v => some v
      | none => Scope.get? b n := by
  induction a with
  | nil => simp [Scope.get?]
  | cons p r ih =>
    obtain ⟨m, v⟩ := p
    simp only [List.cons_append, Scope.get?]
    split
    · rfl
    · exact ih

theorem Scope.get?_cons_self (sc : Scope) (n : Name) (v : H) : Scope.get? ((n, v) :: sc) n = some v := by
  simp [Scope.get?]

theorem Scope.get?_cons_ne (sc : Scope) (m n : Name) (v : H) (h : m ≠ n) :
    Scope.get? ((m, v) :: sc) n = Scope.get? sc n := by
  simp [Scope.get?, h]

/-! ### evaluation depends only on the names of the expression -/

mutual
theorem evalH_congr (hp : Heap) (lk1 lk2 : Name → Except Err H) (tr : Bool) :
    ∀ e : HExpr, (∀ n ∈ e.names, lk1 n = lk2 n) → evalH hp lk1 tr e = evalH hp lk2 tr e
  | .name n, h => by simpa [evalH] using h n (by simp [HExpr.names])
  | .attr e n, h => by
    simp only [evalH]
    rw [evalH_congr hp lk1 lk2 tr e (fun m hm => h m (by simpa [HExpr.names] using hm))]
  | .sub e es, h => by
    simp only [evalH]
    rw [evalH_congr hp lk1 lk2 tr e (fun m hm => h m (by simp [HExpr.names, hm])),
        evalHs_congr hp lk1 lk2 tr es (fun m hm => h m (by simp [HExpr.names, hm]))]
  | .bor a b, h => by
    simp only [evalH]
    rw [evalH_congr hp lk1 lk2 tr a (fun m hm => h m (by simp [HExpr.names, hm])),
        evalH_congr hp lk1 lk2 tr b (fun m hm => h m (by simp [HExpr.names, hm]))]
  | .lit l, _ => by simp [evalH]
  | .quoted e, h => by
    simp only [evalH]
    rw [evalH_congr hp lk1 lk2 tr e (fun m hm => h m (by simpa [HExpr.names] using hm))]
theorem evalHs_congr (hp : Heap) (lk1 lk2 : Name → Except Err H) (tr : Bool) :
    ∀ es : List HExpr, (∀ n ∈ HExpr.names.namesL es, lk1 n = lk2 n) →
      evalH.evalHs hp lk1 tr es = evalH.evalHs hp lk2 tr es
  | [], _ => by simp [evalH.evalHs]
  | e :: es, h => by
    simp only [evalH.evalHs]
    rw [evalH_congr hp lk1 lk2 tr e (fun m hm => h m (by simp [HExpr.names.namesL, hm])),
        evalHs_congr hp lk1 lk2 tr es (fun m hm => h m (by simp [HExpr.names.namesL, hm]))]
end

-- without string literals inside, it does not matter who evaluates
mutual
theorem evalH_plain (hp : Heap) (lk : Name → Except Err H) :
    ∀ e : HExpr, e.plain = true → evalH hp lk true e = evalH hp lk false e
  | .name _, _ => by simp [evalH]
  | .attr e n, h => by
    simp only [evalH]; rw [evalH_plain hp lk e (by simpa [HExpr.plain] using h)]
  | .sub e es, h => by
    simp only [HExpr.plain, Bool.and_eq_true] at h
    simp only [evalH]; rw [evalH_plain hp lk e h.1, evalHs_plain hp lk es h.2]
  | .bor a b, h => by
    simp only [HExpr.plain, Bool.and_eq_true] at h
    simp only [evalH]; rw [evalH_plain hp lk a h.1, evalH_plain hp lk b h.2]
  | .lit _, _ => by simp [evalH]
  | .quoted _, h => by simp [HExpr.plain] at h
theorem evalHs_plain (hp : Heap) (lk : Name → Except Err H) :
    ∀ es : List HExpr, HExpr.plain.plainL es = true → evalH.evalHs hp lk true es = evalH.evalHs hp lk false es
  | [], _ => by simp [evalH.evalHs]
  | e :: es, h => by
    simp only [HExpr.plain.plainL, Bool.and_eq_true] at h
    simp only [evalH.evalHs]; rw [evalH_plain hp lk e h.1, evalHs_plain hp lk es h.2]
end

/-! ### subscription: only an unresolved proxy in head position is special -/

theorem subH_closed (v : H) (args : List H) (h : v.closed = true) : subH v args = .ok (.sub v args) := by
  cases v <;> simp_all [subH, H.closed]

theorem frameless_sub (v : H) (args : List H) :
    (H.sub v args).frameless = (v.frameless && H.frameless.framelessL args) := by simp [H.frameless]

theorem subH_frameless (v w : H) (args : List H) (h : subH v args = .ok w) (hv : v.frameless = true)
    (ha : H.frameless.framelessL args = true) : w.frameless = true := by
  cases v with
  | fwd p =>
    simp only [subH] at h
    split at h
    · cases h
    · cases h; simpa [H.frameless] using hv
  | _ => simp only [subH, Except.ok.injEq] at h; subst h; rw [frameless_sub, hv, ha]; rfl

/-- the subscripted proxy resolves exactly as the subscriptable one it was made from: same name, same parent
    code object -/
theorem resolveFresh_subbed (s : St) (p : Proxy) (b : Bool) : resolveFresh s { p with subbed := b } = resolveFresh s p := rfl

/-! ### hints without proxies are checked as they are, whatever the state -/

mutual
theorem forceFresh_closed (s : St) : ∀ h : H, h.closed = true → forceFresh s h = embed h
  | .obj _, _ => by simp [forceFresh, embed]
  | .fwd _, h => by simp [H.closed] at h
  | .str _, h => by simp [H.closed] at h
  | .sub g args, h => by
    simp only [H.closed, Bool.and_eq_true] at h
    simp only [forceFresh, embed]; rw [forceFresh_closed s g h.1, forceFreshL_closed s args h.2]
  | .bor a b, h => by
    simp only [H.closed, Bool.and_eq_true] at h
    simp only [forceFresh, embed]; rw [forceFresh_closed s a h.1, forceFresh_closed s b h.2]
  | .lit _, _ => by simp [forceFresh, embed]
theorem forceFreshL_closed (s : St) : ∀ hs : List H, H.closed.closedL hs = true → forceFresh.forceFreshL s hs = embed.embeds hs
  | [], _ => by simp [forceFresh.forceFreshL, embed.embeds]
  | g :: gs, h => by
    simp only [H.closed.closedL, Bool.and_eq_true] at h
    simp only [forceFresh.forceFreshL, embed.embeds]; rw [forceFresh_closed s g h.1, forceFreshL_closed s gs h.2]
end

mutual
theorem force_closed (s : St) : ∀ h : H, h.closed = true → force s h = (embed h, s.cache)
  | .obj _, _ => by simp [force, embed]
  | .fwd _, h => by simp [H.closed] at h
  | .str _, h => by simp [H.closed] at h
  | .sub g args, h => by
    simp only [H.closed, Bool.and_eq_true] at h
    simp only [force, embed]
    rw [force_closed s g h.1]
    have : ({ s with cache := s.cache } : St) = s := rfl
    simp only [this]
    rw [forces_closed s args h.2]
  | .bor a b, h => by
    simp only [H.closed, Bool.and_eq_true] at h
    simp only [force, embed]
    rw [force_closed s a h.1]
    have : ({ s with cache := s.cache } : St) = s := rfl
    simp only [this]
    rw [force_closed s b h.2]
  | .lit _, _ => by simp [force, embed]
theorem forces_closed (s : St) : ∀ hs : List H, H.closed.closedL hs = true → force.forces s hs = (embed.embeds hs, s.cache)
  | [], _ => by simp [force.forces, embed.embeds]
  | g :: gs, h => by
    simp only [H.closed.closedL, Bool.and_eq_true] at h
    simp only [force.forces, embed.embeds]
    rw [force_closed s g h.1]
    have : ({ s with cache := s.cache } : St) = s := rfl
    simp only [this]
    rw [forces_closed s gs h.2]
end

-- `embed` never produces a "through a proxy" marker
mutual
theorem embed_erase : ∀ h : H, (embed h).erase = embed h
  | .obj _ => by simp [embed, RH.erase]
  | .fwd _ => by simp [embed, RH.erase]
  | .str _ => by simp [embed, RH.erase]
  | .sub g args => by simp only [embed, RH.erase]; rw [embed_erase g, embeds_erase args]
  | .bor a b => by simp only [embed, RH.erase]; rw [embed_erase a, embed_erase b]
  | .lit _ => by simp [embed, RH.erase]
theorem embeds_erase : ∀ hs : List H, RH.erase.eraseL (embed.embeds hs) = embed.embeds hs
  | [] => by simp [embed.embeds, RH.erase.eraseL]
  | g :: gs => by simp only [embed.embeds, RH.erase.eraseL]; rw [embed_erase g, embeds_erase gs]
end

theorem viaProxy_erase (v : H) : (viaProxy v).erase = embed v := by
  unfold viaProxy
  split
  · exact embed_erase v
  · simp only [RH.erase]; exact embed_erase v

theorem viaProxy_obj (v : H) (h : v.isObj = true) : viaProxy v = embed v := by
  simp [viaProxy, h]

/-! ### the cache only remembers what a fresh resolution would answer -/


theorem cacheOK_nil (s : St) : CacheOK s [] := by
  intro p r h; simp [cacheGet?] at h

theorem act?_cache (s : St) (c : List (Proxy × Ref)) (a : Nat) : St.act? { s with cache := c } a = s.act? a := rfl

theorem findFrameCode_cache (s : St) (c : List (Proxy × Ref)) (code : Nat) :
    ∀ l : List Nat, findFrameCode { s with cache := c } code l = findFrameCode s code l
  | [] => by simp [findFrameCode]
  | a :: r => by
    simp only [findFrameCode, act?_cache]
    rw [findFrameCode_cache s c code r]

theorem modAttr_cache (s : St) (c : List (Proxy × Ref)) (path : List Name) :
    modAttr { s with cache := c } path = modAttr s path := by
  unfold modAttr
  split <;> rfl

theorem resolveFresh_cache (s : St) (c : List (Proxy × Ref)) (p : Proxy) :
    resolveFresh { s with cache := c } p = resolveFresh s p := by
  unfold resolveFresh
  rw [modAttr_cache]
  have : ({ s with cache := c } : St).stack = s.stack := rfl
  rw [this]
  cases p.frame with
  | none => rfl
  | some code => simp only [findFrameCode_cache]

theorem resolveProxy_spec (s : St) (c : List (Proxy × Ref)) (p : Proxy) (hc : CacheOK s c) :
    (resolveProxy { s with cache := c } p).1 = resolveFresh s p ∧ CacheOK s (resolveProxy { s with cache := c } p).2 := by
  have hcons : ∀ r, resolveFresh s p = .ok r → CacheOK s ((p, r) :: c) := by
    intro r hr q r' hq
    simp only [cacheGet?] at hq
    split at hq
    · next heq => cases hq; subst heq; exact hr
    · exact hc q r' hq
  unfold resolveProxy
  have hcc : ({ s with cache := c } : St).cache = c := rfl
  have hst : ({ s with cache := c } : St).stack = s.stack := rfl
  simp only [hcc, hst, modAttr_cache, findFrameCode_cache]
  cases hget : cacheGet? c p with
  | some r => exact ⟨(hc p r hget).symm, hc⟩
  | none =>
    unfold resolveFresh at hcons ⊢
    cases hma : modAttr s p.path with
    | some v =>
      simp only [hma] at hcons ⊢
      exact ⟨by first | rfl | trivial, hcons _ rfl⟩
    | none =>
      simp only [hma] at hcons ⊢
      cases hf : p.frame with
      | none =>
        simp only [hf] at hcons ⊢
        exact ⟨by first | rfl | trivial, hc⟩
      | some code =>
        simp only [hf] at hcons ⊢
        cases hfr : findFrameCode s code s.stack with
        | none =>
          simp only [hfr] at hcons ⊢
          exact ⟨by first | rfl | trivial, hcons _ rfl⟩
        | some fr =>
          simp only [hfr] at hcons ⊢
          cases hl : fr.locals.get? (dotted p.path) with
          | some v =>
            simp only [hl] at hcons ⊢
            exact ⟨by first | rfl | trivial, hcons _ rfl⟩
          | none => exact ⟨by first | rfl | trivial, hc⟩

mutual
theorem force_spec (s : St) : ∀ (h : H) (c : List (Proxy × Ref)), CacheOK s c →
    (force { s with cache := c } h).1 = forceFresh s h ∧ CacheOK s (force { s with cache := c } h).2
  | .obj _, c, hc => by simp only [force, forceFresh]; exact ⟨by first | rfl | trivial, hc⟩
  | .fwd p, c, hc => by
    have hr := resolveProxy_spec s c p hc
    simp only [force, forceFresh]
    generalize hrp : resolveProxy { s with cache := c } p = rp at hr
    obtain ⟨res, c'⟩ := rp
    simp only at hr
    rw [← hr.1]
    cases res <;> exact ⟨rfl, hr.2⟩
  | .str _, c, hc => by simp only [force, forceFresh]; exact ⟨by first | rfl | trivial, hc⟩
  | .sub g args, c, hc => by
    have h1 := force_spec s g c hc
    simp only [force, forceFresh]
    generalize hfg : force { s with cache := c } g = fg at h1
    obtain ⟨r, c1⟩ := fg
    have h2 := forces_spec s args c1 h1.2
    have he : ({ ({ s with cache := c } : St) with cache := c1 } : St) = { s with cache := c1 } := rfl
    simp only [he]
    generalize hfa : force.forces { s with cache := c1 } args = fa at h2
    obtain ⟨rs, c2⟩ := fa
    simp only at h1 h2 ⊢
    exact ⟨by rw [h1.1, h2.1], h2.2⟩
  | .bor a b, c, hc => by
    have h1 := force_spec s a c hc
    simp only [force, forceFresh]
    generalize hfg : force { s with cache := c } a = fg at h1
    obtain ⟨r, c1⟩ := fg
    have h2 := force_spec s b c1 h1.2
    have he : ({ ({ s with cache := c } : St) with cache := c1 } : St) = { s with cache := c1 } := rfl
    simp only [he]
    generalize hfa : force { s with cache := c1 } b = fa at h2
    obtain ⟨r2, c2⟩ := fa
    simp only at h1 h2 ⊢
    exact ⟨by rw [h1.1, h2.1], h2.2⟩
  | .lit _, c, hc => by simp only [force, forceFresh]; exact ⟨by first | rfl | trivial, hc⟩
theorem forces_spec (s : St) : ∀ (hs : List H) (c : List (Proxy × Ref)), CacheOK s c →
    (force.forces { s with cache := c } hs).1 = forceFresh.forceFreshL s hs ∧ CacheOK s (force.forces { s with cache := c } hs).2
  | [], c, hc => by simp only [force.forces, forceFresh.forceFreshL]; exact ⟨by first | rfl | trivial, hc⟩
  | g :: gs, c, hc => by
    have h1 := force_spec s g c hc
    simp only [force.forces, forceFresh.forceFreshL]
    generalize hfg : force { s with cache := c } g = fg at h1
    obtain ⟨r, c1⟩ := fg
    have h2 := forces_spec s gs c1 h1.2
    have he : ({ ({ s with cache := c } : St) with cache := c1 } : St) = { s with cache := c1 } := rfl
    simp only [he]
    generalize hfa : force.forces { s with cache := c1 } gs = fa at h2
    obtain ⟨rs, c2⟩ := fa
    simp only at h1 h2 ⊢
    exact ⟨by rw [h1.1, h2.1], h2.2⟩
end

/-! ### evaluation in closed scopes yields closed hints -/

/-- every value a lookup can return is free of proxies and strings -/
def LkClosed (lk : Name → Except Err H) : Prop := ∀ n v, lk n = .ok v → v.closed = true

theorem getAttr_closed (hp : Heap) (hh : HeapClosed hp) (v w : H) (n : Name) (hv : v.closed = true)
    (h : getAttr hp v n = .ok w) : w.closed = true := by
  unfold getAttr at h
  cases v with
  | obj id =>
    simp only at h
    cases hw : (hp.attrs id).get? n with
    | some w' => simp only [hw, Except.ok.injEq] at h; subst h; exact hh id n w' hw
    | none => simp [hw] at h
  | fwd p => simp [H.closed] at hv
  | str e => simp at h
  | sub g a => simp at h
  | bor a b => simp at h
  | lit l => simp at h

theorem closed_not_str (v : H) (h : v.closed = true) : v.isStr = false := by
  cases v <;> simp_all [H.closed, H.isStr]

mutual
theorem evalH_closed (hp : Heap) (lk : Name → Except Err H) (hh : HeapClosed hp) (hl : LkClosed lk) :
    ∀ (e : HExpr) (v : H), evalH hp lk true e = .ok v → v.closed = true
  | .name n, v, h => hl n v (by simpa [evalH] using h)
  | .attr e n, v, h => by
    simp only [evalH] at h
    cases he : evalH hp lk true e with
    | error err => simp [he, Except.bind] at h
    | ok w =>
      simp only [he, Except.bind] at h
      exact getAttr_closed hp hh w v n (evalH_closed hp lk hh hl e w he) h
  | .sub e es, v, h => by
    simp only [evalH] at h
    cases he : evalH hp lk true e with
    | error err => simp [he, Except.bind] at h
    | ok w =>
      cases hes : evalH.evalHs hp lk true es with
      | error err => simp [he, hes, Except.bind] at h
      | ok ws =>
        simp only [he, hes, Except.bind] at h
        rw [subH_closed w ws (evalH_closed hp lk hh hl e w he), Except.ok.injEq] at h
        subst h
        simp [H.closed, evalH_closed hp lk hh hl e w he, evalHs_closed hp lk hh hl es ws hes]
  | .bor a b, v, h => by
    simp only [evalH] at h
    cases ha : evalH hp lk true a with
    | error err => simp [ha, Except.bind] at h
    | ok x =>
      cases hb : evalH hp lk true b with
      | error err => simp [ha, hb, Except.bind] at h
      | ok y =>
        have hx := evalH_closed hp lk hh hl a x ha
        have hy := evalH_closed hp lk hh hl b y hb
        simp only [ha, hb, Except.bind, orH, closed_not_str x hx, closed_not_str y hy, Bool.or_self,
          Bool.false_eq_true, ↓reduceIte, Except.ok.injEq] at h
        subst h
        simp [H.closed, hx, hy]
  | .lit l, v, h => by
    simp only [evalH, Except.ok.injEq] at h; subst h; simp [H.closed]
  | .quoted e, v, h => by
    simp only [evalH, ↓reduceIte] at h
    exact evalH_closed hp lk hh hl e v h
theorem evalHs_closed (hp : Heap) (lk : Name → Except Err H) (hh : HeapClosed hp) (hl : LkClosed lk) :
    ∀ (es : List HExpr) (vs : List H), evalH.evalHs hp lk true es = .ok vs → H.closed.closedL vs = true
  | [], vs, h => by simp only [evalH.evalHs, Except.ok.injEq] at h; subst h; simp [H.closed.closedL]
  | e :: es, vs, h => by
    simp only [evalH.evalHs] at h
    cases he : evalH hp lk true e with
    | error err => simp [he, Except.bind] at h
    | ok w =>
      cases hes : evalH.evalHs hp lk true es with
      | error err => simp [he, hes, Except.bind] at h
      | ok ws =>
        simp only [he, hes, Except.bind, Except.ok.injEq] at h
        subst h
        simp [H.closed.closedL, evalH_closed hp lk hh hl e w he, evalHs_closed hp lk hh hl es ws hes]
end

-- a hint without strings is stored as it is
mutual
theorem resolveH_closed (rs : HExpr → Except Err H) : ∀ h : H, h.closed = true → resolveH rs h = .ok h
  | .obj _, _ => by simp [resolveH]
  | .fwd _, h => by simp [H.closed] at h
  | .str _, h => by simp [H.closed] at h
  | .sub g args, h => by
    simp only [H.closed, Bool.and_eq_true] at h
    simp [resolveH, resolveH_closed rs g h.1, resolveHs_closed rs args h.2, Except.bind]
  | .bor a b, h => by
    simp only [H.closed, Bool.and_eq_true] at h
    simp [resolveH, resolveH_closed rs a h.1, resolveH_closed rs b h.2, Except.bind]
  | .lit _, _ => by simp [resolveH]
theorem resolveHs_closed (rs : HExpr → Except Err H) : ∀ hs : List H, H.closed.closedL hs = true → resolveH.resolveHs rs hs = .ok hs
  | [], _ => by simp [resolveH.resolveHs]
  | g :: gs, h => by
    simp only [H.closed.closedL, Bool.and_eq_true] at h
    simp [resolveH.resolveHs, resolveH_closed rs g h.1, resolveHs_closed rs gs h.2, Except.bind]
end

/-! ### Python's scoping vs the forward scope -/

theorem firstSome_append_none {α} (xs ys : List (Option α)) (h : ∀ x ∈ xs, x = none) :
    firstSome (xs ++ ys) = firstSome ys := by
  induction xs with
  | nil => rfl
  | cons x r ih =>
    have hx : x = none := h x (by simp)
    subst hx
    simp only [List.cons_append, firstSome]
    exact ih (fun y hy => h y (by simp [hy]))

theorem firstSome_cons {α} (x : Option α) (xs : List (Option α)) :
    firstSome (x :: xs) = match x with
      | some a => some a
      | none => firstSome xs := by
  cases x <;> rfl

theorem findFrameNamed_head (s : St) (a : Nat) (r : List Nat) (fa : Frame) (h : s.act? a = some fa) :
    findFrameNamed s fa.name (a :: r) = some fa := by
  simp [findFrameNamed, h]


theorem getAttr_mono (hp0 hp : Heap) (hm : HeapMono hp0 hp) (v w : H) (n : Name) (h : getAttr hp0 v n = .ok w) :
    getAttr hp v n = .ok w := by
  unfold getAttr at h ⊢
  cases v with
  | obj id =>
    simp only at h ⊢
    cases hw : (hp0.attrs id).get? n with
    | some w' => simp only [hw, Except.ok.injEq] at h; subst h; simp [hm id n w' hw]
    | none => simp [hw] at h
  | fwd p => exact h
  | str e => simp at h
  | sub g a => simp at h
  | bor a b => simp at h
  | lit l => simp at h

mutual
theorem evalH_mono (hp0 hp : Heap) (hm : HeapMono hp0 hp) (lk : Name → Except Err H) (tr : Bool) :
    ∀ (e : HExpr) (v : H), evalH hp0 lk tr e = .ok v → evalH hp lk tr e = .ok v
  | .name n, v, h => by simpa [evalH] using h
  | .attr e n, v, h => by
    simp only [evalH] at h ⊢
    cases he : evalH hp0 lk tr e with
    | error err => simp [he, Except.bind] at h
    | ok w =>
      simp only [he, Except.bind] at h
      simp only [evalH_mono hp0 hp hm lk tr e w he, Except.bind]
      exact getAttr_mono hp0 hp hm w v n h
  | .sub e es, v, h => by
    simp only [evalH] at h ⊢
    cases he : evalH hp0 lk tr e with
    | error err => simp [he, Except.bind] at h
    | ok w =>
      cases hes : evalH.evalHs hp0 lk tr es with
      | error err => simp [he, hes, Except.bind] at h
      | ok ws =>
        simp only [he, hes, Except.bind] at h
        simp only [evalH_mono hp0 hp hm lk tr e w he, evalHs_mono hp0 hp hm lk tr es ws hes, Except.bind]
        exact h
  | .bor a b, v, h => by
    simp only [evalH] at h ⊢
    cases ha : evalH hp0 lk tr a with
    | error err => simp [ha, Except.bind] at h
    | ok x =>
      cases hb : evalH hp0 lk tr b with
      | error err => simp [ha, hb, Except.bind] at h
      | ok y =>
        simp only [ha, hb, Except.bind] at h
        simp only [evalH_mono hp0 hp hm lk tr a x ha, evalH_mono hp0 hp hm lk tr b y hb, Except.bind]
        exact h
  | .lit l, v, h => by simpa [evalH] using h
  | .quoted e, v, h => by
    simp only [evalH] at h ⊢
    cases tr with
    | true => simp only [↓reduceIte] at h ⊢; exact evalH_mono hp0 hp hm lk true e v h
    | false => simpa using h
theorem evalHs_mono (hp0 hp : Heap) (hm : HeapMono hp0 hp) (lk : Name → Except Err H) (tr : Bool) :
    ∀ (es : List HExpr) (vs : List H), evalH.evalHs hp0 lk tr es = .ok vs → evalH.evalHs hp lk tr es = .ok vs
  | [], vs, h => by simpa [evalH.evalHs] using h
  | e :: es, vs, h => by
    simp only [evalH.evalHs] at h ⊢
    cases he : evalH hp0 lk tr e with
    | error err => simp [he, Except.bind] at h
    | ok w =>
      cases hes : evalH.evalHs hp0 lk tr es with
      | error err => simp [he, hes, Except.bind] at h
      | ok ws =>
        simp only [he, hes, Except.bind] at h
        simp only [evalH_mono hp0 hp hm lk tr e w he, evalHs_mono hp0 hp hm lk tr es ws hes, Except.bind]
        exact h
end

/-! ### late definitions at module level -/

theorem fwLk_module (s : St) (fr : FuncRec) (n : Name) (hmod : fr.lex = []) :
    fwLk s fr [] n = proxyLk s.modScope fr.fid none n := by
  simp only [fwLk, fwLayers, fwLocals, hmod, List.isEmpty_nil, Bool.and_self, ↓reduceIte, List.nil_append, St.modScope]

theorem pyLk_module (s : St) (n : Name) : pyLk s [] n = boundLk s.modScope n := by
  simp only [pyLk, boundLk, specLookup, visible, List.map_nil, List.nil_append, firstSome_cons, firstSome, St.modScope,
    Scope.get?_append]
  cases s.globals.get? n <;> cases s.builtins.get? n <;> rfl

theorem modAttr_bare (s : St) (n : Name) : modAttr s [n] = s.modScope.get? n := by
  simp only [modAttr, St.modScope, Scope.get?_append]
  cases s.globals.get? n <;> rfl

theorem boundLk_closed (sc : Scope) (h : ∀ n w, sc.get? n = some w → w.closed = true) : LkClosed (boundLk sc) := by
  intro n v hv
  unfold boundLk at hv
  cases hg : sc.get? n with
  | some w => simp only [hg, Except.ok.injEq] at hv; subst hv; exact h n w hg
  | none => simp [hg] at hv

theorem bind_ok {α β} (x : Except Err α) (g : α → Except Err β) (b : β) (h : x.bind g = .ok b) :
    ∃ a, x = .ok a ∧ g a = .ok b := by
  cases x with
  | error e => simp [Except.bind] at h
  | ok a => exact ⟨a, rfl, h⟩

section late
variable (s0 s : St) (fr : FuncRec) (hmod : fr.lex = [])
  (hcl0 : ∀ n w, s0.modScope.get? n = some w → w.closed = true)
  (hkeep : ∀ n w, s0.modScope.get? n = some w → s.modScope.get? n = some w)
  (hheap : HeapMono s0.heap s.heap) (hhc : HeapClosed s.heap)
  (hcl : ∀ n w, s.modScope.get? n = some w → w.closed = true)
include hmod hcl0 hkeep hheap hhc hcl

/-- an expression all of whose names were bound at decoration time has the same, closed, value now -/
theorem late_bound_expr (e : HExpr) (h v : H)
    (hb : e.names.all (fun n => (s0.modScope.get? n).isSome) = true)
    (hdec : evalH s0.heap (fwLk s0 fr []) true e = .ok h)
    (hnow : evalH s.heap (pyLk s []) true e = .ok v) : h = v ∧ v.closed = true := by
  have hb' : ∀ n ∈ e.names, ∃ w, s0.modScope.get? n = some w := by
    intro n hn
    have := List.all_eq_true.mp hb n hn
    exact Option.isSome_iff_exists.mp this
  have h1 : evalH s0.heap (fwLk s0 fr []) true e = evalH s0.heap (boundLk s0.modScope) true e := by
    apply evalH_congr
    intro n hn
    obtain ⟨w, hw⟩ := hb' n hn
    simp [fwLk_module s0 fr n hmod, proxyLk, boundLk, hw]
  have h2 : evalH s.heap (pyLk s []) true e = evalH s.heap (boundLk s0.modScope) true e := by
    apply evalH_congr
    intro n hn
    obtain ⟨w, hw⟩ := hb' n hn
    simp [pyLk_module s n, boundLk, hw, hkeep n w hw]
  rw [h1] at hdec
  rw [h2] at hnow
  have h3 := evalH_mono s0.heap s.heap hheap _ true e h hdec
  rw [h3] at hnow
  cases hnow
  exact ⟨rfl, evalH_closed s.heap _ hhc (boundLk_closed _ hcl0) e h h3⟩

mutual
theorem late_core : ∀ (e : HExpr) (h v : H), e.plain = true →
    lateSafe (fun n => (s0.modScope.get? n).isSome) e = true →
    evalH s0.heap (fwLk s0 fr []) true e = .ok h → evalH s.heap (pyLk s []) true e = .ok v →
    (forceFresh s h).erase = embed v
  | .name n, h, v, _, _, hdec, hnow => by
    simp only [evalH, fwLk_module s0 fr n hmod, proxyLk] at hdec
    simp only [evalH, pyLk_module s n, boundLk] at hnow
    cases h0 : s0.modScope.get? n with
    | some w =>
      simp only [h0, Except.ok.injEq] at hdec
      simp only [hkeep n w h0, Except.ok.injEq] at hnow
      subst hdec; subst hnow
      rw [forceFresh_closed s _ (hcl0 n _ h0), embed_erase]
    | none =>
      simp only [h0, Except.ok.injEq] at hdec
      subst hdec
      cases h1 : s.modScope.get? n with
      | none => simp [h1] at hnow
      | some w =>
        simp only [h1, Except.ok.injEq] at hnow
        subst hnow
        simp only [forceFresh, resolveFresh, modAttr_bare, h1, refRH]
        exact viaProxy_erase _
  | .attr e a, h, v, _, hs, hdec, hnow => by
    simp only [lateSafe] at hs
    simp only [evalH] at hdec hnow
    obtain ⟨h', hd1, hd2⟩ := bind_ok _ _ _ hdec
    obtain ⟨v', hn1, hn2⟩ := bind_ok _ _ _ hnow
    obtain ⟨heq, hcv⟩ := late_bound_expr s0 s fr hmod hcl0 hkeep hheap hhc hcl e h' v' hs hd1 hn1
    subst heq
    have := getAttr_mono s0.heap s.heap hheap h' h a hd2
    rw [this] at hn2
    cases hn2
    have hc := getAttr_closed s.heap hhc h' h a hcv this
    rw [forceFresh_closed s h hc, embed_erase]
  | .sub e es, h, v, hp, hs, hdec, hnow => by
    simp only [HExpr.plain, Bool.and_eq_true] at hp
    simp only [lateSafe, Bool.and_eq_true] at hs
    simp only [evalH] at hdec hnow
    obtain ⟨h', hd1, hd2⟩ := bind_ok _ _ _ hdec
    obtain ⟨hs', hd3, hd4⟩ := bind_ok _ _ _ hd2
    obtain ⟨v', hn1, hn2⟩ := bind_ok _ _ _ hnow
    obtain ⟨vs', hn3, hn4⟩ := bind_ok _ _ _ hn2
    -- the head was bound at decoration time: the same closed object then and now, no proxy to subscript
    obtain ⟨heq, hcv⟩ := late_bound_expr s0 s fr hmod hcl0 hkeep hheap hhc hcl e h' v' hs.1 hd1 hn1
    subst heq
    rw [subH_closed h' _ hcv] at hd4 hn4
    cases hd4; cases hn4
    simp only [forceFresh, RH.erase, embed]
    rw [forceFresh_closed s h' hcv, embed_erase, late_coreL es hs' vs' hp.2 hs.2 hd3 hn3]
  | .bor a b, h, v, hp, hs, hdec, hnow => by
    simp only [HExpr.plain, Bool.and_eq_true] at hp
    simp only [lateSafe, Bool.and_eq_true] at hs
    simp only [evalH] at hdec hnow
    obtain ⟨x, hd1, hd2⟩ := bind_ok _ _ _ hdec
    obtain ⟨y, hd3, hd4⟩ := bind_ok _ _ _ hd2
    obtain ⟨x', hn1, hn2⟩ := bind_ok _ _ _ hnow
    obtain ⟨y', hn3, hn4⟩ := bind_ok _ _ _ hn2
    unfold orH at hd4 hn4
    split at hd4
    · cases hd4
    · split at hn4
      · cases hn4
      · cases hd4; cases hn4
        simp only [forceFresh, RH.erase, embed]
        rw [late_core a x x' hp.1 hs.1 hd1 hn1, late_core b y y' hp.2 hs.2 hd3 hn3]
  | .lit l, h, v, _, _, hdec, hnow => by
    simp only [evalH, Except.ok.injEq] at hdec hnow
    subst hdec; subst hnow
    simp [forceFresh, RH.erase, embed]
  | .quoted _, _, _, hp, _, _, _ => by simp [HExpr.plain] at hp
theorem late_coreL : ∀ (es : List HExpr) (hs vs : List H), HExpr.plain.plainL es = true →
    lateSafe.lateSafeL (fun n => (s0.modScope.get? n).isSome) es = true →
    evalH.evalHs s0.heap (fwLk s0 fr []) true es = .ok hs → evalH.evalHs s.heap (pyLk s []) true es = .ok vs →
    RH.erase.eraseL (forceFresh.forceFreshL s hs) = embed.embeds vs
  | [], hs, vs, _, _, hdec, hnow => by
    simp only [evalH.evalHs, Except.ok.injEq] at hdec hnow
    subst hdec; subst hnow
    simp [forceFresh.forceFreshL, RH.erase.eraseL, embed.embeds]
  | e :: es, hs, vs, hp, hsf, hdec, hnow => by
    simp only [HExpr.plain.plainL, Bool.and_eq_true] at hp
    simp only [lateSafe.lateSafeL, Bool.and_eq_true] at hsf
    simp only [evalH.evalHs] at hdec hnow
    obtain ⟨h', hd1, hd2⟩ := bind_ok _ _ _ hdec
    obtain ⟨hs', hd3, hd4⟩ := bind_ok _ _ _ hd2
    obtain ⟨v', hn1, hn2⟩ := bind_ok _ _ _ hnow
    obtain ⟨vs', hn3, hn4⟩ := bind_ok _ _ _ hn2
    cases hd4; cases hn4
    simp only [forceFresh.forceFreshL, RH.erase.eraseL, embed.embeds]
    rw [late_core e h' v' hp.1 hsf.1 hd1 hn1, late_coreL es hs' vs' hp.2 hsf.2 hd3 hn3]
end
end late

/-! ### module-level histories: the invariant -/

mutual
theorem closed_frameless : ∀ h : H, h.closed = true → h.frameless = true
  | .obj _, _ => by simp [H.frameless]
  | .fwd _, h => by simp [H.closed] at h
  | .str _, _ => by simp [H.frameless]
  | .sub g args, h => by
    simp only [H.closed, Bool.and_eq_true] at h
    simp [H.frameless, closed_frameless g h.1, closedL_frameless args h.2]
  | .bor a b, h => by
    simp only [H.closed, Bool.and_eq_true] at h
    simp [H.frameless, closed_frameless a h.1, closed_frameless b h.2]
  | .lit _, _ => by simp [H.frameless]
theorem closedL_frameless : ∀ hs : List H, H.closed.closedL hs = true → H.frameless.framelessL hs = true
  | [], _ => by simp [H.frameless.framelessL]
  | g :: gs, h => by
    simp only [H.closed.closedL, Bool.and_eq_true] at h
    simp [H.frameless.framelessL, closed_frameless g h.1, closedL_frameless gs h.2]
end

def LkFrameless (lk : Name → Except Err H) : Prop := ∀ n v, lk n = .ok v → v.frameless = true

theorem getAttr_frameless (hp : Heap) (hh : HeapClosed hp) (v w : H) (n : Name)
    (h : getAttr hp v n = .ok w) : w.frameless = true := by
  unfold getAttr at h
  cases v with
  | obj id =>
    simp only at h
    cases hw : (hp.attrs id).get? n with
    | some w' => simp only [hw, Except.ok.injEq] at h; subst h; exact closed_frameless _ (hh id n w' hw)
    | none => simp [hw] at h
  | fwd p => simp only [Except.ok.injEq] at h; subst h; simp [H.frameless]
  | str e => simp at h
  | sub g a => simp at h
  | bor a b => simp at h
  | lit l => simp at h

mutual
theorem evalH_frameless (hp : Heap) (lk : Name → Except Err H) (tr : Bool) (hh : HeapClosed hp) (hl : LkFrameless lk) :
    ∀ (e : HExpr) (v : H), evalH hp lk tr e = .ok v → v.frameless = true
  | .name n, v, h => hl n v (by simpa [evalH] using h)
  | .attr e n, v, h => by
    simp only [evalH] at h
    obtain ⟨w, _, h2⟩ := bind_ok _ _ _ h
    exact getAttr_frameless hp hh w v n h2
  | .sub e es, v, h => by
    simp only [evalH] at h
    obtain ⟨w, h1, h2⟩ := bind_ok _ _ _ h
    obtain ⟨ws, h3, h4⟩ := bind_ok _ _ _ h2
    exact subH_frameless w v ws h4 (evalH_frameless hp lk tr hh hl e w h1) (evalHs_frameless hp lk tr hh hl es ws h3)
  | .bor a b, v, h => by
    simp only [evalH] at h
    obtain ⟨x, h1, h2⟩ := bind_ok _ _ _ h
    obtain ⟨y, h3, h4⟩ := bind_ok _ _ _ h2
    unfold orH at h4
    split at h4
    · cases h4
    · cases h4
      simp [H.frameless, evalH_frameless hp lk tr hh hl a x h1, evalH_frameless hp lk tr hh hl b y h3]
  | .lit l, v, h => by simp only [evalH, Except.ok.injEq] at h; subst h; simp [H.frameless]
  | .quoted e, v, h => by
    simp only [evalH] at h
    cases tr with
    | true => simp only [↓reduceIte] at h; exact evalH_frameless hp lk true hh hl e v h
    | false => simp only [Bool.false_eq_true, ↓reduceIte, Except.ok.injEq] at h; subst h; simp [H.frameless]
theorem evalHs_frameless (hp : Heap) (lk : Name → Except Err H) (tr : Bool) (hh : HeapClosed hp) (hl : LkFrameless lk) :
    ∀ (es : List HExpr) (vs : List H), evalH.evalHs hp lk tr es = .ok vs → H.frameless.framelessL vs = true
  | [], vs, h => by simp only [evalH.evalHs, Except.ok.injEq] at h; subst h; simp [H.frameless.framelessL]
  | e :: es, vs, h => by
    simp only [evalH.evalHs] at h
    obtain ⟨w, h1, h2⟩ := bind_ok _ _ _ h
    obtain ⟨ws, h3, h4⟩ := bind_ok _ _ _ h2
    cases h4
    simp [H.frameless.framelessL, evalH_frameless hp lk tr hh hl e w h1, evalHs_frameless hp lk tr hh hl es ws h3]
end

mutual
theorem resolveH_frameless (rs : HExpr → Except Err H) (hrs : ∀ e v, rs e = .ok v → v.frameless = true) :
    ∀ (h v : H), h.frameless = true → resolveH rs h = .ok v → v.frameless = true
  | .obj _, v, _, hr => by simp only [resolveH, Except.ok.injEq] at hr; subst hr; simp [H.frameless]
  | .fwd p, v, hf, hr => by simp only [resolveH, Except.ok.injEq] at hr; subst hr; exact hf
  | .str e, v, _, hr => hrs e v (by simpa [resolveH] using hr)
  | .sub g args, v, hf, hr => by
    simp only [H.frameless, Bool.and_eq_true] at hf
    simp only [resolveH] at hr
    obtain ⟨w, h1, h2⟩ := bind_ok _ _ _ hr
    obtain ⟨ws, h3, h4⟩ := bind_ok _ _ _ h2
    cases h4
    simp [H.frameless, resolveH_frameless rs hrs g w hf.1 h1, resolveHs_frameless rs hrs args ws hf.2 h3]
  | .bor a b, v, hf, hr => by
    simp only [H.frameless, Bool.and_eq_true] at hf
    simp only [resolveH] at hr
    obtain ⟨x, h1, h2⟩ := bind_ok _ _ _ hr
    obtain ⟨y, h3, h4⟩ := bind_ok _ _ _ h2
    cases h4
    simp [H.frameless, resolveH_frameless rs hrs a x hf.1 h1, resolveH_frameless rs hrs b y hf.2 h3]
  | .lit _, v, _, hr => by simp only [resolveH, Except.ok.injEq] at hr; subst hr; simp [H.frameless]
theorem resolveHs_frameless (rs : HExpr → Except Err H) (hrs : ∀ e v, rs e = .ok v → v.frameless = true) :
    ∀ (hs vs : List H), H.frameless.framelessL hs = true → resolveH.resolveHs rs hs = .ok vs → H.frameless.framelessL vs = true
  | [], vs, _, hr => by simp only [resolveH.resolveHs, Except.ok.injEq] at hr; subst hr; simp [H.frameless.framelessL]
  | g :: gs, vs, hf, hr => by
    simp only [H.frameless.framelessL, Bool.and_eq_true] at hf
    simp only [resolveH.resolveHs] at hr
    obtain ⟨w, h1, h2⟩ := bind_ok _ _ _ hr
    obtain ⟨ws, h3, h4⟩ := bind_ok _ _ _ h2
    cases h4
    simp [H.frameless.framelessL, resolveH_frameless rs hrs g w hf.1 h1, resolveHs_frameless rs hrs gs ws hf.2 h3]
end


theorem resolveProxy_cfl (s : St) (p : Proxy) (hp : p.frame = none) (hc : CacheFrameless s.cache) :
    CacheFrameless (resolveProxy s p).2 := by
  have hcons : ∀ r, CacheFrameless ((p, r) :: s.cache) := by
    intro r q r' hq
    simp only [cacheGet?] at hq
    split at hq
    · next heq => subst heq; exact hp
    · exact hc q r' hq
  unfold resolveProxy
  cases cacheGet? s.cache p with
  | some r => exact hc
  | none =>
    simp only [hp]
    cases modAttr s p.path with
    | some v => exact hcons _
    | none => exact hc

mutual
theorem force_cfl (s : St) : ∀ (h : H) (c : List (Proxy × Ref)), h.frameless = true → CacheFrameless c →
    CacheFrameless (force { s with cache := c } h).2
  | .obj _, c, _, hc => by simpa [force] using hc
  | .fwd p, c, hf, hc => by
    simp only [H.frameless, Option.isNone_iff_eq_none] at hf
    have := resolveProxy_cfl { s with cache := c } p hf hc
    simp only [force]
    generalize resolveProxy { s with cache := c } p = rp at this
    obtain ⟨res, c'⟩ := rp
    cases res <;> exact this
  | .str _, c, _, hc => by simpa [force] using hc
  | .sub g args, c, hf, hc => by
    simp only [H.frameless, Bool.and_eq_true] at hf
    have h1 := force_cfl s g c hf.1 hc
    simp only [force]
    generalize force { s with cache := c } g = fg at h1
    obtain ⟨r, c1⟩ := fg
    have h2 := forces_cfl s args c1 hf.2 h1
    generalize hfa : force.forces { s with cache := c1 } args = fa at h2
    obtain ⟨rs, c2⟩ := fa
    have he : ({ ({ s with cache := c } : St) with cache := c1 } : St) = { s with cache := c1 } := rfl
    simp only [he, hfa]
    exact h2
  | .bor a b, c, hf, hc => by
    simp only [H.frameless, Bool.and_eq_true] at hf
    have h1 := force_cfl s a c hf.1 hc
    simp only [force]
    generalize force { s with cache := c } a = fg at h1
    obtain ⟨r, c1⟩ := fg
    have h2 := force_cfl s b c1 hf.2 h1
    generalize hfa : force { s with cache := c1 } b = fa at h2
    obtain ⟨r2, c2⟩ := fa
    have he : ({ ({ s with cache := c } : St) with cache := c1 } : St) = { s with cache := c1 } := rfl
    simp only [he, hfa]
    exact h2
  | .lit _, c, _, hc => by simpa [force] using hc
theorem forces_cfl (s : St) : ∀ (hs : List H) (c : List (Proxy × Ref)), H.frameless.framelessL hs = true → CacheFrameless c →
    CacheFrameless (force.forces { s with cache := c } hs).2
  | [], c, _, hc => by simpa [force.forces] using hc
  | g :: gs, c, hf, hc => by
    simp only [H.frameless.framelessL, Bool.and_eq_true] at hf
    have h1 := force_cfl s g c hf.1 hc
    simp only [force.forces]
    generalize force { s with cache := c } g = fg at h1
    obtain ⟨r, c1⟩ := fg
    have h2 := forces_cfl s gs c1 hf.2 h1
    generalize hfa : force.forces { s with cache := c1 } gs = fa at h2
    obtain ⟨rs, c2⟩ := fa
    have he : ({ ({ s with cache := c } : St) with cache := c1 } : St) = { s with cache := c1 } := rfl
    simp only [he, hfa]
    exact h2
end

/-- a frameless proxy resolves through the module attribute only -/
def modRef (s : St) (path : List Name) : Except Err Ref :=
  match modAttr s path with
  | some v => .ok (.val v)
  | none => .error (.fwdref path)

theorem resolveFresh_frameless (s : St) (p : Proxy) (hp : p.frame = none) :
    resolveFresh s p = modRef s p.path := by
  unfold resolveFresh modRef
  simp only [hp]
  cases modAttr s p.path <;> rfl

theorem act?_funcs (s : St) (fs : List FuncRec) (a : Nat) : St.act? { s with funcs := fs } a = s.act? a := rfl

theorem findFrameCode_funcs (s : St) (fs : List FuncRec) (code : Nat) :
    ∀ l : List Nat, findFrameCode { s with funcs := fs } code l = findFrameCode s code l
  | [] => by simp [findFrameCode]
  | a :: r => by
    simp only [findFrameCode, act?_funcs]
    rw [findFrameCode_funcs s fs code r]

theorem modAttr_funcs (s : St) (fs : List FuncRec) (path : List Name) :
    modAttr { s with funcs := fs } path = modAttr s path := by
  unfold modAttr
  split <;> rfl

theorem resolveFresh_funcs (s : St) (fs : List FuncRec) (p : Proxy) :
    resolveFresh { s with funcs := fs } p = resolveFresh s p := by
  unfold resolveFresh
  rw [modAttr_funcs]
  have : ({ s with funcs := fs } : St).stack = s.stack := rfl
  rw [this]
  cases p.frame with
  | none => rfl
  | some code => simp only [findFrameCode_funcs]

theorem modAttr_bind_fresh (s : St) (n : Name) (v v0 : H) (path : List Name)
    (hfresh : s.modScope.get? n = none) (h : modAttr s path = some v0) :
    modAttr { s with globals := (n, v) :: s.globals } path = some v0 := by
  have hg : s.globals.get? n = none ∧ s.builtins.get? n = none := by
    simp only [St.modScope, Scope.get?_append] at hfresh
    cases hgn : s.globals.get? n with
    | some w => simp [hgn] at hfresh
    | none => simp only [hgn] at hfresh; exact ⟨rfl, hfresh⟩
  cases path with
  | nil => simp [modAttr] at h
  | cons m r =>
    by_cases hmn : n = m
    · subst hmn
      cases r with
      | nil => simp [modAttr, hg.1, hg.2] at h
      | cons a r' => simp [modAttr, hg.1] at h
    · cases r with
      | nil =>
        simp only [modAttr, Scope.get?, hmn, ↓reduceIte] at h ⊢
        exact h
      | cons a r' =>
        simp only [modAttr, Scope.get?, hmn, ↓reduceIte] at h ⊢
        exact h


theorem modInv_bind (s : St) (n : Name) (v : H) (inv : ModInv s) (hv : v.closed = true)
    (hfresh : s.modScope.get? n = none) : ModInv (s.bind n v) := by
  have hb : s.bind n v = { s with globals := (n, v) :: s.globals } := by simp [St.bind, inv.top]
  rw [hb]
  refine ⟨inv.top, ?_, inv.cfl, inv.funcs, ?_, inv.heapClosed⟩
  · intro p r hpr
    have hfl := inv.cfl p r hpr
    have hr := inv.cacheOK p r hpr
    rw [resolveFresh_frameless s p hfl] at hr
    rw [resolveFresh_frameless _ p hfl]
    unfold modRef at hr ⊢
    cases hm : modAttr s p.path with
    | none => simp [hm] at hr
    | some v0 =>
      simp only [hm] at hr
      simp only [modAttr_bind_fresh s n v v0 p.path hfresh hm]
      exact hr
  · intro m w hw
    simp only [St.modScope, List.cons_append, Scope.get?] at hw
    split at hw
    · cases hw; exact hv
    · exact inv.scopeClosed m w hw

theorem pyLk_top_closed (s : St) (inv : ModInv s) : LkClosed (pyLk s s.stack) := by
  rw [inv.top]
  intro n v hv
  rw [pyLk_module] at hv
  exact boundLk_closed _ inv.scopeClosed n v hv

theorem lkClosed_frameless (lk : Name → Except Err H) (h : LkClosed lk) : LkFrameless lk :=
  fun n v hv => closed_frameless v (h n v hv)

theorem mem_of_func? (s : St) (f : Nat) (fr : FuncRec) (h : s.func? f = some fr) : fr ∈ s.funcs :=
  List.mem_of_find?_eq_some h

theorem modInv_step (s : St) (ev : Ev) (inv : ModInv s) (hm : ev.modLevel = true) (hf : ev.fresh s = true) :
    ModInv (step s ev).1 := by
  cases ev with
  | bindV n v =>
    simp only [Ev.modLevel] at hm
    simp only [Ev.fresh, Option.isNone_iff_eq_none] at hf
    simpa [step] using modInv_bind s n v inv hm hf
  | bindE n e =>
    simp only [Ev.modLevel] at hm
    simp only [Ev.fresh, Option.isNone_iff_eq_none] at hf
    simp only [step]
    cases he : evalH s.heap (pyLk s s.stack) false e with
    | error err => simpa using inv
    | ok v =>
      have hc : v.closed = true := by
        rw [← evalH_plain s.heap _ e hm] at he
        exact evalH_closed s.heap _ inv.heapClosed (pyLk_top_closed s inv) e v he
      simpa using modInv_bind s n v inv hc hf
  | enter k c nm => simp [Ev.modLevel] at hm
  | leave id => simp [Ev.modLevel] at hm
  | def_ f nm e =>
    simp only [step]
    cases he : evalH s.heap (pyLk s s.stack) false e with
    | error err => simpa using inv
    | ok v =>
      have hfl : v.frameless = true :=
        evalH_frameless s.heap _ false inv.heapClosed (lkClosed_frameless _ (pyLk_top_closed s inv)) e v he
      refine ⟨inv.top, ?_, inv.cfl, ?_, inv.scopeClosed, inv.heapClosed⟩
      · intro p r hpr
        simp only [resolveFresh_funcs]
        exact inv.cacheOK p r hpr
      · intro fr hfr
        simp only [List.mem_cons] at hfr
        rcases hfr with rfl | hfr
        · exact ⟨inv.top, hfl, by intro h hh; cases hh⟩
        · exact inv.funcs fr hfr
  | decorate f cs =>
    simp only [Ev.modLevel, List.isEmpty_iff] at hm
    subst hm
    simp only [step]
    cases hfn : s.func? f with
    | none => simpa using inv
    | some fr =>
      simp only []
      cases hd : decorVal s fr [] with
      | error err => simpa using inv
      | ok h =>
        obtain ⟨hlex, hh0, _⟩ := inv.funcs fr (mem_of_func? s f fr hfn)
        have hrs : ∀ e v, resolveStr s fr [] e = .ok v → v.frameless = true := by
          intro e v hv
          unfold resolveStr at hv
          cases hsc : shortcut s fr [] e with
          | some m => simp only [hsc, Except.ok.injEq] at hv; subst hv; simp [H.frameless]
          | none =>
            simp only [hsc] at hv
            refine evalH_frameless s.heap _ true inv.heapClosed ?_ e v hv
            intro m w hw
            rw [fwLk_module s fr m hlex] at hw
            unfold proxyLk at hw
            cases hg : s.modScope.get? m with
            | some w' => simp only [hg, Except.ok.injEq] at hw; subst hw; exact closed_frameless _ (inv.scopeClosed m w' hg)
            | none => simp only [hg, Except.ok.injEq] at hw; subst hw; simp [H.frameless]
        have hfl : h.frameless = true := resolveH_frameless _ hrs fr.hint0 h hh0 hd
        refine ⟨inv.top, ?_, inv.cfl, ?_, inv.scopeClosed, inv.heapClosed⟩
        · intro p r hpr
          simp only [resolveFresh_funcs]
          exact inv.cacheOK p r hpr
        · intro fr' hfr'
          simp only [setHint, List.mem_map] at hfr'
          obtain ⟨fr0, hfr0, rfl⟩ := hfr'
          obtain ⟨h1, h2, h3⟩ := inv.funcs fr0 hfr0
          split
          · exact ⟨h1, h2, by intro h' hh'; cases hh'; exact hfl⟩
          · exact ⟨h1, h2, h3⟩
  | call f =>
    cases hfn : s.func? f with
    | none => simpa [step, hfn] using inv
    | some fr =>
      cases hh : fr.hint with
      | none => simpa [step, hfn, hh] using inv
      | some h =>
        have hst : (step s (.call f)).1 = { s with cache := (force s h).2 } := by simp only [step, hfn, hh]
        rw [hst]
        obtain ⟨_, _, h3⟩ := inv.funcs fr (mem_of_func? s f fr hfn)
        have hfl := h3 h hh
        have he : ({ s with cache := s.cache } : St) = s := rfl
        have h1 := force_spec s h s.cache inv.cacheOK
        have h2 := force_cfl s h s.cache hfl inv.cfl
        rw [he] at h1 h2
        refine ⟨inv.top, ?_, h2, inv.funcs, inv.scopeClosed, inv.heapClosed⟩
        intro p r' hpr
        simp only [resolveFresh_cache]
        exact h1.2 p r' hpr

theorem modInv_run : ∀ (evs : List Ev) (s : St), ModInv s → ModHistory s evs → ModInv (run s evs).1
  | [], s, inv, _ => by simpa [run] using inv
  | ev :: evs, s, inv, hh => by
    obtain ⟨hm, hf, hrest⟩ := hh
    simp only [run]
    exact modInv_run evs (step s ev).1 (modInv_step s ev inv hm hf) hrest

/-! ### what a module-level history leaves alone -/

def setOne (g : Nat) (h : H) (r : FuncRec) : FuncRec := if r.fid = g then { r with hint := some h } else r

theorem setHint_eq (fs : List FuncRec) (g : Nat) (h : H) : setHint fs g h = fs.map (setOne g h) := rfl

theorem func?_setHint_ne (fs : List FuncRec) (f g : Nat) (h : H) (hne : g ≠ f) :
    (setHint fs g h).find? (fun r => r.fid == f) = fs.find? (fun r => r.fid == f) := by
  rw [setHint_eq]
  induction fs with
  | nil => rfl
  | cons r rest ih =>
    simp only [List.map_cons, List.find?_cons]
    by_cases hr : r.fid = g
    · have h1 : ((setOne g h r).fid == f) = false := by simp [setOne, hr, hne]
      have h2 : (r.fid == f) = false := by simp [hr, hne]
      simp only [h1, h2]
      exact ih
    · have hid : setOne g h r = r := by simp [setOne, hr]
      rw [hid]
      cases (r.fid == f)
      · exact ih
      · rfl

theorem step_untouched (s : St) (ev : Ev) (f : Nat) (fr : FuncRec) (inv : ModInv s)
    (hm : ev.modLevel = true) (hfresh : ev.fresh s = true) (ht : ev.touches f = false) (hf : s.func? f = some fr) :
    (step s ev).1.func? f = some fr ∧ (step s ev).1.heap = s.heap ∧
    (∀ n w, s.modScope.get? n = some w → (step s ev).1.modScope.get? n = some w) := by
  have hbind : ∀ n v, s.modScope.get? n = none →
      (s.bind n v).func? f = some fr ∧ (s.bind n v).heap = s.heap ∧
      (∀ m w, s.modScope.get? m = some w → (s.bind n v).modScope.get? m = some w) := by
    intro n v hn
    have hb : s.bind n v = { s with globals := (n, v) :: s.globals } := by simp [St.bind, inv.top]
    rw [hb]
    refine ⟨hf, rfl, ?_⟩
    intro m w hw
    simp only [St.modScope, List.cons_append, Scope.get?]
    split
    · next heq => subst heq; simp only [St.modScope] at hn hw; rw [hn] at hw; cases hw
    · exact hw
  cases ev with
  | bindV n v =>
    simp only [Ev.fresh, Option.isNone_iff_eq_none] at hfresh
    simpa [step] using hbind n v hfresh
  | bindE n e =>
    simp only [Ev.fresh, Option.isNone_iff_eq_none] at hfresh
    simp only [step]
    cases evalH s.heap (pyLk s s.stack) false e with
    | error err => exact ⟨hf, rfl, fun _ _ h => h⟩
    | ok v => simpa using hbind n v hfresh
  | enter k c nm => simp [Ev.modLevel] at hm
  | leave id => simp [Ev.modLevel] at hm
  | def_ g nm e =>
    simp only [Ev.touches, beq_eq_false_iff_ne, ne_eq] at ht
    simp only [step]
    cases evalH s.heap (pyLk s s.stack) false e with
    | error err => exact ⟨hf, rfl, fun _ _ h => h⟩
    | ok v =>
      refine ⟨?_, rfl, fun _ _ h => h⟩
      simp only [St.func?, List.find?_cons]
      have : (g == f) = false := by simp [ht]
      simp only [this]
      exact hf
  | decorate g cs =>
    simp only [Ev.touches, beq_eq_false_iff_ne, ne_eq] at ht
    simp only [step]
    cases s.func? g with
    | none => exact ⟨hf, rfl, fun _ _ h => h⟩
    | some frg =>
      simp only []
      cases decorVal s frg cs with
      | error err => exact ⟨hf, rfl, fun _ _ h => h⟩
      | ok h =>
        refine ⟨?_, rfl, fun _ _ h => h⟩
        simp only [St.func?]
        rw [func?_setHint_ne s.funcs f g h ht]
        exact hf
  | call g =>
    simp only [step]
    cases s.func? g with
    | none => exact ⟨hf, rfl, fun _ _ h => h⟩
    | some frg =>
      simp only []
      cases frg.hint with
      | none => exact ⟨hf, rfl, fun _ _ h => h⟩
      | some h => exact ⟨hf, rfl, fun _ _ h => h⟩

theorem run_untouched : ∀ (evs : List Ev) (s : St) (f : Nat) (fr : FuncRec), ModInv s → ModHistory s evs →
    (∀ ev ∈ evs, ev.touches f = false) → s.func? f = some fr →
    (run s evs).1.func? f = some fr ∧ (run s evs).1.heap = s.heap ∧
    (∀ n w, s.modScope.get? n = some w → (run s evs).1.modScope.get? n = some w)
  | [], s, f, fr, _, _, _, hf => ⟨hf, rfl, fun _ _ h => h⟩
  | ev :: evs, s, f, fr, inv, hh, ht, hf => by
    obtain ⟨hm, hfr, hrest⟩ := hh
    have h1 := step_untouched s ev f fr inv hm hfr (ht ev (by simp)) hf
    have h2 := run_untouched evs (step s ev).1 f fr (modInv_step s ev inv hm hfr) hrest
      (fun ev' h' => ht ev' (by simp [h'])) h1.1
    simp only [run]
    exact ⟨h2.1, h2.2.1.trans h1.2.1, fun n w hw => h2.2.2 n w (h1.2.2 n w hw)⟩

theorem modInv_init (builtins : Scope) (heap : Heap) (hb : ∀ n w, builtins.get? n = some w → w.closed = true)
    (hh : HeapClosed heap) : ModInv (St.init builtins heap) :=
  { top := rfl
    cacheOK := cacheOK_nil _
    cfl := by intro p r h; simp [St.init, cacheGet?] at h
    funcs := by intro fr h; simp [St.init] at h
    scopeClosed := by
      intro n w h
      simp only [St.init, St.modScope, List.nil_append] at h
      exact hb n w h
    heapClosed := hh }

/-! ### the variant with strings only at the names -/

theorem evalH_py_closed (hp : Heap) (lk : Name → Except Err H) (hh : HeapClosed hp) (hl : LkClosed lk)
    (e : HExpr) (v : H) (hplain : e.plain = true) (h : evalH hp lk false e = .ok v) : v.closed = true := by
  rw [← evalH_plain hp lk e hplain] at h
  exact evalH_closed hp lk hh hl e v h

mutual
theorem leaves_core (hp : Heap) (py : Name → Except Err H) (rs : HExpr → Except Err H) (q : Name → Bool)
    (hh : HeapClosed hp) (hl : LkClosed py) (hrs : ∀ n, q n = true → rs (.name n) = py n) :
    ∀ (e : HExpr) (v : H), e.plain = true → e.borFree = true → evalH hp py false e = .ok v →
      ∃ w, evalH hp py false (quoteLeaves q e) = .ok w ∧ resolveH rs w = .ok v
  | .name n, v, _, _, h => by
    simp only [evalH] at h
    by_cases hq : q n = true
    · refine ⟨.str (.name n), by simp [quoteLeaves, hq, evalH], ?_⟩
      simp only [resolveH, hrs n hq, h]
    · refine ⟨v, by simpa [quoteLeaves, hq, evalH] using h, ?_⟩
      exact resolveH_closed rs v (hl n v h)
  | .attr e a, v, hp', _, h => by
    refine ⟨v, by simpa [quoteLeaves] using h, ?_⟩
    exact resolveH_closed rs v (evalH_py_closed hp py hh hl (.attr e a) v hp' h)
  | .sub e es, v, hp', hb, h => by
    simp only [HExpr.plain, Bool.and_eq_true] at hp'
    simp only [HExpr.borFree, Bool.and_eq_true] at hb
    simp only [evalH] at h
    obtain ⟨x, h1, h2⟩ := bind_ok _ _ _ h
    obtain ⟨xs, h3, h4⟩ := bind_ok _ _ _ h2
    have hx : x.closed = true := evalH_py_closed hp py hh hl e x hp'.1 h1
    rw [subH_closed x xs hx] at h4
    cases h4
    obtain ⟨ws, hws1, hws2⟩ := leaves_coreL hp py rs q hh hl hrs es xs hp'.2 hb.2 h3
    refine ⟨.sub x ws, by simp [quoteLeaves, evalH, h1, hws1, Except.bind, subH_closed x ws hx], ?_⟩
    simp [resolveH, resolveH_closed rs x hx, hws2, Except.bind]
  | .bor _ _, _, _, hb, _ => by simp [HExpr.borFree] at hb
  | .lit l, v, _, _, h => by
    simp only [evalH, Except.ok.injEq] at h; subst h
    exact ⟨.lit l, by simp [quoteLeaves, evalH], by simp [resolveH]⟩
  | .quoted _, _, hp', _, _ => by simp [HExpr.plain] at hp'
theorem leaves_coreL (hp : Heap) (py : Name → Except Err H) (rs : HExpr → Except Err H) (q : Name → Bool)
    (hh : HeapClosed hp) (hl : LkClosed py) (hrs : ∀ n, q n = true → rs (.name n) = py n) :
    ∀ (es : List HExpr) (vs : List H), HExpr.plain.plainL es = true → HExpr.borFree.borFreeL es = true →
      evalH.evalHs hp py false es = .ok vs →
      ∃ ws, evalH.evalHs hp py false (quoteLeaves.quoteLeavesL q es) = .ok ws ∧ resolveH.resolveHs rs ws = .ok vs
  | [], vs, _, _, h => by
    simp only [evalH.evalHs, Except.ok.injEq] at h; subst h
    exact ⟨[], by simp [quoteLeaves.quoteLeavesL, evalH.evalHs], by simp [resolveH.resolveHs]⟩
  | e :: es, vs, hp', hb, h => by
    simp only [HExpr.plain.plainL, Bool.and_eq_true] at hp'
    simp only [HExpr.borFree.borFreeL, Bool.and_eq_true] at hb
    simp only [evalH.evalHs] at h
    obtain ⟨x, h1, h2⟩ := bind_ok _ _ _ h
    obtain ⟨xs, h3, h4⟩ := bind_ok _ _ _ h2
    cases h4
    obtain ⟨w, hw1, hw2⟩ := leaves_core hp py rs q hh hl hrs e x hp'.1 hb.1 h1
    obtain ⟨ws, hws1, hws2⟩ := leaves_coreL hp py rs q hh hl hrs es xs hp'.2 hb.2 h3
    refine ⟨w :: ws, by simp [quoteLeaves.quoteLeavesL, evalH.evalHs, hw1, hws1, Except.bind], ?_⟩
    simp [resolveH.resolveHs, hw2, hws2, Except.bind]
end

/-! ### more fuel never hurts -/

theorem mono1 (f : Nat) :
    (∀ ts r, pExpr f ts = some r → pExpr (f+1) ts = some r) ∧
    (∀ a ts r, pOrs f a ts = some r → pOrs (f+1) a ts = some r) ∧
    (∀ ts r, pPost f ts = some r → pPost (f+1) ts = some r) ∧
    (∀ a ts r, pTrail f a ts = some r → pTrail (f+1) a ts = some r) ∧
    (∀ ts r, pAtom f ts = some r → pAtom (f+1) ts = some r) ∧
    (∀ ts r, pArgs f ts = some r → pArgs (f+1) ts = some r) := by
  induction f with
  | zero => simp [pExpr, pOrs, pPost, pTrail, pAtom, pArgs]
  | succ f ih =>
    obtain ⟨hE, hO, hP, hT, hA, hR⟩ := ih
    refine ⟨?_, ?_, ?_, ?_, ?_, ?_⟩
    · intro ts r h
      simp only [pExpr] at h ⊢
      cases hp : pPost f ts with
      | none => simp [hp] at h
      | some ar =>
        obtain ⟨a, r1⟩ := ar
        simp only [hp] at h
        simp only [hP ts _ hp]
        exact hO a r1 r h
    · intro a ts r h
      simp only [pOrs] at h ⊢
      split at h
      · next r0 =>
        cases hp : pPost f r0 with
        | none => simp [hp] at h
        | some br =>
          obtain ⟨b, r1⟩ := br
          simp only [hp] at h
          simp only [hP r0 _ hp]
          exact hO _ r1 r h
      · exact h
    · intro ts r h
      simp only [pPost] at h ⊢
      cases hp : pAtom f ts with
      | none => simp [hp] at h
      | some ar =>
        obtain ⟨a, r1⟩ := ar
        simp only [hp] at h
        simp only [hA ts _ hp]
        exact hT a r1 r h
    · intro a ts r h
      simp only [pTrail] at h ⊢
      split at h
      · next n r0 => exact hT _ r0 r h
      · next r0 =>
        cases hp : pArgs f r0 with
        | none => simp [hp] at h
        | some er =>
          obtain ⟨es, r1⟩ := er
          simp only [hp] at h
          simp only [hR r0 _ hp]
          split at h
          · next es' r2 heq =>
            cases heq
            exact hT _ r2 r h
          · cases h
      · exact h
    · intro ts r h
      simp only [pAtom] at h ⊢
      split at h
      · exact h
      · exact h
      · next r0 =>
        cases hp : pExpr f r0 with
        | none => simp [hp] at h
        | some er =>
          obtain ⟨e, r1⟩ := er
          simp only [hp] at h
          simp only [hE r0 _ hp]
          exact h
      · next ts0 r0 =>
        cases hp : pExpr f ts0 with
        | none => simp [hp] at h
        | some er =>
          obtain ⟨e, r1⟩ := er
          simp only [hp] at h
          simp only [hE ts0 _ hp]
          exact h
      · cases h
    · intro ts r h
      simp only [pArgs] at h ⊢
      cases hp : pExpr f ts with
      | none => simp [hp] at h
      | some er =>
        obtain ⟨e, r1⟩ := er
        simp only [hp] at h
        simp only [hE ts _ hp]
        have hcomma : ∀ r2, r1 = .comma :: r2 →
            (match pArgs f r2 with
              | some (es, r') => some (e :: es, r')
              | none => none) = some r →
            (match pArgs (f+1) r2 with
              | some (es, r') => some (e :: es, r')
              | none => none) = some r := by
          intro r2 _ h'
          cases hq : pArgs f r2 with
          | none => simp [hq] at h'
          | some esr =>
            simp only [hq] at h'
            simp only [hR r2 _ hq]
            exact h'
        cases r1 with
        | nil => exact h
        | cons t r2 =>
          cases t with
          | comma => exact hcomma r2 rfl h
          | _ => exact h
theorem monoE {f g : Nat} (h : f ≤ g) {ts r} (hp : pExpr f ts = some r) : pExpr g ts = some r := by
  induction h with
  | refl => exact hp
  | step _ ih => exact (mono1 _).1 ts r ih
theorem monoO {f g : Nat} (h : f ≤ g) {a ts r} (hp : pOrs f a ts = some r) : pOrs g a ts = some r := by
  induction h with
  | refl => exact hp
  | step _ ih => exact (mono1 _).2.1 a ts r ih
theorem monoP {f g : Nat} (h : f ≤ g) {ts r} (hp : pPost f ts = some r) : pPost g ts = some r := by
  induction h with
  | refl => exact hp
  | step _ ih => exact (mono1 _).2.2.1 ts r ih
theorem monoT {f g : Nat} (h : f ≤ g) {a ts r} (hp : pTrail f a ts = some r) : pTrail g a ts = some r := by
  induction h with
  | refl => exact hp
  | step _ ih => exact (mono1 _).2.2.2.1 a ts r ih
theorem monoA {f g : Nat} (h : f ≤ g) {ts r} (hp : pAtom f ts = some r) : pAtom g ts = some r := by
  induction h with
  | refl => exact hp
  | step _ ih => exact (mono1 _).2.2.2.2.1 ts r ih
theorem monoR {f g : Nat} (h : f ≤ g) {ts r} (hp : pArgs f ts = some r) : pArgs g ts = some r := by
  induction h with
  | refl => exact hp
  | step _ ih => exact (mono1 _).2.2.2.2.2 ts r ih

/-! ### printing then parsing -/

theorem pTrail_stop (e : HExpr) (rest : List Tok) (h : stopTrail rest = true) : pTrail 1 e rest = some (e, rest) := by
  simp only [pTrail]
  split
  · simp [stopTrail] at h
  · simp [stopTrail] at h
  · rfl

theorem pOrs_stop (e : HExpr) (rest : List Tok) (h : stopExpr rest = true) : pOrs 1 e rest = some (e, rest) := by
  simp only [pOrs]
  split
  · simp [stopExpr] at h
  · rfl

/-- statement (A): parsing the printed postfix-level form of `e`, then continuing as the trailer loop would from `e` -/
def PostOK (e : HExpr) : Prop :=
  ∀ rest res f1, pTrail f1 e rest = some res → ∃ f, pPost f (showP e ++ rest) = some res
/-- statement (B) -/
def ExprOK (e : HExpr) : Prop :=
  ∀ rest res f1, stopTrail rest = true → pOrs f1 e rest = some res → ∃ f, pExpr f (showE e ++ rest) = some res

theorem exprOK_of_post (e : HExpr) (hnb : e.isBor = false) (hp : PostOK e) : ExprOK e := by
  intro rest res f1 hstop hors
  obtain ⟨f, hf⟩ := hp rest (e, rest) 1 (pTrail_stop e rest hstop)
  have hs : showP e = showE e := by simp [showP, hnb]
  rw [hs] at hf
  refine ⟨max f f1 + 1, ?_⟩
  simp only [pExpr, monoP (Nat.le_max_left f f1) hf]
  exact monoO (Nat.le_max_right f f1) hors

theorem exprOK_bor (a b : HExpr) (ha : ExprOK a) (hb : PostOK b) : ExprOK (.bor a b) := by
  intro rest res f1 hstop hors
  -- after `a`: `| <b> rest`
  obtain ⟨fb, hfb⟩ := hb rest (b, rest) 1 (pTrail_stop b rest hstop)
  have hstep : pOrs (max fb f1 + 1) a (.bar :: (showP b ++ rest)) = some res := by
    simp only [pOrs, monoP (Nat.le_max_left fb f1) hfb]
    exact monoO (Nat.le_max_right fb f1) hors
  have hst : stopTrail (.bar :: (showP b ++ rest)) = true := rfl
  obtain ⟨f, hf⟩ := ha (.bar :: (showP b ++ rest)) res _ hst hstep
  refine ⟨f, ?_⟩
  have : showE (.bor a b) ++ rest = showE a ++ (.bar :: (showP b ++ rest)) := by
    simp [showE, showP, List.append_assoc]
  rw [this]; exact hf

theorem postOK_paren (e : HExpr) (hb : e.isBor = true) (he : ExprOK e) : PostOK e := by
  intro rest res f1 htr
  have hst : stopTrail (.rpar :: rest) = true := rfl
  obtain ⟨f, hf⟩ := he (.rpar :: rest) (e, .rpar :: rest) 1 hst (pOrs_stop e _ rfl)
  refine ⟨max f f1 + 2, ?_⟩
  have hs : showP e ++ rest = .lpar :: (showE e ++ (.rpar :: rest)) := by simp [showP, hb, List.append_assoc]
  rw [hs]
  have hA : pAtom (max f f1 + 1) (.lpar :: (showE e ++ (.rpar :: rest))) = some (e, rest) := by
    simp only [pAtom, monoE (Nat.le_max_left f f1) hf]
  simp only [pPost, hA]
  exact monoT (Nat.le_trans (Nat.le_max_right f f1) (Nat.le_succ _)) htr

def ArgsOK (es : List HExpr) : Prop :=
  es ≠ [] → ∀ rest, ∃ f, pArgs f (showE.showArgs es ++ (.rbr :: rest)) = some (es, .rbr :: rest)

mutual
theorem postOK : ∀ e : HExpr, e.wf = true → PostOK e
  | .name n, _ => by
    intro rest res f1 htr
    refine ⟨f1 + 2, ?_⟩
    simp only [showP, HExpr.isBor, showE, Bool.false_eq_true, ↓reduceIte, List.cons_append, List.nil_append, pPost, pAtom]
    exact monoT (Nat.le_succ _) htr
  | .lit l, _ => by
    intro rest res f1 htr
    refine ⟨f1 + 2, ?_⟩
    simp only [showP, HExpr.isBor, showE, Bool.false_eq_true, ↓reduceIte, List.cons_append, List.nil_append, pPost, pAtom]
    exact monoT (Nat.le_succ _) htr
  | .quoted e, hw => by
    intro rest res f1 htr
    have he := exprOK e (by simpa [HExpr.wf] using hw)
    obtain ⟨f, hf⟩ := he [] (e, []) 1 rfl (pOrs_stop e [] rfl)
    simp only [List.append_nil] at hf
    refine ⟨max f f1 + 2, ?_⟩
    have hA : pAtom (max f f1 + 1) (.str (showE e) :: rest) = some (.quoted e, rest) := by
      simp only [pAtom, monoE (Nat.le_max_left f f1) hf]
    simp only [showP, HExpr.isBor, showE, Bool.false_eq_true, ↓reduceIte, List.cons_append, List.nil_append, pPost, hA]
    exact monoT (Nat.le_trans (Nat.le_max_right f f1) (Nat.le_succ _)) htr
  | .attr e n, hw => by
    intro rest res f1 htr
    have he := postOK e (by simpa [HExpr.wf] using hw)
    have hstep : pTrail (f1 + 1) e (.dot :: .id n :: rest) = some res := by
      simp only [pTrail]; exact htr
    obtain ⟨f, hf⟩ := he (.dot :: .id n :: rest) res _ hstep
    refine ⟨f, ?_⟩
    have : showP (.attr e n) ++ rest = showP e ++ (.dot :: .id n :: rest) := by
      simp [showP, HExpr.isBor, showE, List.append_assoc]
    rw [this]; exact hf
  | .sub e es, hw => by
    intro rest res f1 htr
    simp only [HExpr.wf, Bool.and_eq_true, Bool.not_eq_eq_eq_not, Bool.not_true, List.isEmpty_eq_false_iff] at hw
    have he := postOK e hw.1.1
    obtain ⟨fa, hfa⟩ := argsOK es hw.2 hw.1.2 rest
    have hstep : pTrail (max fa f1 + 1) e (.lbr :: (showE.showArgs es ++ (.rbr :: rest))) = some res := by
      simp only [pTrail, monoR (Nat.le_max_left fa f1) hfa]
      exact monoT (Nat.le_max_right fa f1) htr
    obtain ⟨f, hf⟩ := he _ res _ hstep
    refine ⟨f, ?_⟩
    have : showP (.sub e es) ++ rest = showP e ++ (.lbr :: (showE.showArgs es ++ (.rbr :: rest))) := by
      simp [showP, HExpr.isBor, showE, List.append_assoc]
    rw [this]; exact hf
  | .bor a b, hw => by
    simp only [HExpr.wf, Bool.and_eq_true] at hw
    exact postOK_paren (.bor a b) rfl (exprOK_bor a b (exprOK a hw.1) (postOK b hw.2))
theorem exprOK : ∀ e : HExpr, e.wf = true → ExprOK e
  | .name n, hw => exprOK_of_post _ rfl (postOK (.name n) hw)
  | .lit l, hw => exprOK_of_post _ rfl (postOK (.lit l) hw)
  | .quoted e, hw => exprOK_of_post _ rfl (postOK (.quoted e) hw)
  | .attr e n, hw => exprOK_of_post _ rfl (postOK (.attr e n) hw)
  | .sub e es, hw => exprOK_of_post _ rfl (postOK (.sub e es) hw)
  | .bor a b, hw => by
    simp only [HExpr.wf, Bool.and_eq_true] at hw
    exact exprOK_bor a b (exprOK a hw.1) (postOK b hw.2)
theorem argsOK : ∀ es : List HExpr, HExpr.wf.wfL es = true → ArgsOK es
  | [], _ => by intro h; exact absurd rfl h
  | [e], hw => by
    intro _ rest
    simp only [HExpr.wf.wfL, Bool.and_true] at hw
    obtain ⟨f, hf⟩ := exprOK e hw (.rbr :: rest) (e, .rbr :: rest) 1 rfl (pOrs_stop e _ rfl)
    refine ⟨f + 1, ?_⟩
    simp only [showE.showArgs, pArgs, hf]
  | e :: e2 :: es, hw => by
    intro _ rest
    simp only [HExpr.wf.wfL, Bool.and_eq_true] at hw
    obtain ⟨fr, hfr⟩ := argsOK (e2 :: es) (by simp [HExpr.wf.wfL, hw.2.1, hw.2.2]) (by simp) rest
    have hst : stopTrail (.comma :: (showE.showArgs (e2 :: es) ++ (.rbr :: rest))) = true := rfl
    obtain ⟨f, hf⟩ := exprOK e hw.1 (.comma :: (showE.showArgs (e2 :: es) ++ (.rbr :: rest))) (e, _) 1 hst (pOrs_stop e _ rfl)
    refine ⟨max f fr + 1, ?_⟩
    have : showE.showArgs (e :: e2 :: es) ++ (.rbr :: rest) = showE e ++ (.comma :: (showE.showArgs (e2 :: es) ++ (.rbr :: rest))) := by
      simp [showE.showArgs, List.append_assoc]
    rw [this]
    simp only [pArgs, monoE (Nat.le_max_left f fr) hf, monoR (Nat.le_max_right f fr) hfr]
end

end BearVerif.Fwd
