import BearVerif.Core.Fwd
/-!
  C07 — helper lemmas for `Props/C07.lean` (core Lean only).
-/
namespace BearVerif.Fwd

/-! ### association lists -/

theorem Scope.get?_append (a b : Scope) (n : Name) :
    Scope.get? (a ++ b) n = match Scope.get? a n with
      | some v => some v
      | none => Scope.get? b n := by
  induction a with
  | nil => simp [Scope.get?]
  | cons p r ih =>
    obtain ⟨m, v⟩ := p
    simp only [List.cons_append, Scope.get?]
    split
    · rfl
    · exact ih

theorem Scope.get?_cons_self (sc : Scope) (n : Name) (v : H) : Scope.get? ((n, v) :: sc) n = some v := by
  simp [Scope.get?]

theorem Scope.get?_cons_ne (sc : Scope) (m n : Name) (v : H) (h : m ≠ n) :
    Scope.get? ((m, v) :: sc) n = Scope.get? sc n := by
  simp [Scope.get?, h]

/-! ### evaluation depends only on the names of the expression -/

mutual
theorem evalH_congr (hp : Heap) (lk1 lk2 : Name → Except Err H) (tr : Bool) :
    ∀ e : HExpr, (∀ n ∈ e.names, lk1 n = lk2 n) → evalH hp lk1 tr e = evalH hp lk2 tr e
  | .name n, h => by simpa [evalH] using h n (by simp [HExpr.names])
  | .attr e n, h => by
    simp only [evalH]
    rw [evalH_congr hp lk1 lk2 tr e (fun m hm => h m (by simpa [HExpr.names] using hm))]
  | .sub e es, h => by
    simp only [evalH]
    rw [evalH_congr hp lk1 lk2 tr e (fun m hm => h m (by simp [HExpr.names, hm])),
        evalHs_congr hp lk1 lk2 tr es (fun m hm => h m (by simp [HExpr.names, hm]))]
  | .bor a b, h => by
    simp only [evalH]
    rw [evalH_congr hp lk1 lk2 tr a (fun m hm => h m (by simp [HExpr.names, hm])),
        evalH_congr hp lk1 lk2 tr b (fun m hm => h m (by simp [HExpr.names, hm]))]
  | .lit l, _ => by simp [evalH]
  | .quoted e, h => by
    simp only [evalH]
    rw [evalH_congr hp lk1 lk2 tr e (fun m hm => h m (by simpa [HExpr.names] using hm))]
theorem evalHs_congr (hp : Heap) (lk1 lk2 : Name → Except Err H) (tr : Bool) :
    ∀ es : List HExpr, (∀ n ∈ HExpr.names.namesL es, lk1 n = lk2 n) →
      evalH.evalHs hp lk1 tr es = evalH.evalHs hp lk2 tr es
  | [], _ => by simp [evalH.evalHs]
  | e :: es, h => by
    simp only [evalH.evalHs]
    rw [evalH_congr hp lk1 lk2 tr e (fun m hm => h m (by simp [HExpr.names.namesL, hm])),
        evalHs_congr hp lk1 lk2 tr es (fun m hm => h m (by simp [HExpr.names.namesL, hm]))]
end

-- without string literals inside, it does not matter who evaluates
mutual
theorem evalH_plain (hp : Heap) (lk : Name → Except Err H) :
    ∀ e : HExpr, e.plain = true → evalH hp lk true e = evalH hp lk false e
  | .name _, _ => by simp [evalH]
  | .attr e n, h => by
    simp only [evalH]; rw [evalH_plain hp lk e (by simpa [HExpr.plain] using h)]
  | .sub e es, h => by
    simp only [HExpr.plain, Bool.and_eq_true] at h
    simp only [evalH]; rw [evalH_plain hp lk e h.1, evalHs_plain hp lk es h.2]
  | .bor a b, h => by
    simp only [HExpr.plain, Bool.and_eq_true] at h
    simp only [evalH]; rw [evalH_plain hp lk a h.1, evalH_plain hp lk b h.2]
  | .lit _, _ => by simp [evalH]
  | .quoted _, h => by simp [HExpr.plain] at h
theorem evalHs_plain (hp : Heap) (lk : Name → Except Err H) :
    ∀ es : List HExpr, HExpr.plain.plainL es = true → evalH.evalHs hp lk true es = evalH.evalHs hp lk false es
  | [], _ => by simp [evalH.evalHs]
  | e :: es, h => by
    simp only [HExpr.plain.plainL, Bool.and_eq_true] at h
    simp only [evalH.evalHs]; rw [evalH_plain hp lk e h.1, evalHs_plain hp lk es h.2]
end

/-! ### hints without proxies are checked as they are, whatever the state -/

mutual
theorem forceFresh_closed (s : St) : ∀ h : H, h.closed = true → forceFresh s h = embed h
  | .obj _, _ => by simp [forceFresh, embed]
  | .fwd _, h => by simp [H.closed] at h
  | .str _, h => by simp [H.closed] at h
  | .sub g args, h => by
    simp only [H.closed, Bool.and_eq_true] at h
    simp only [forceFresh, embed]; rw [forceFresh_closed s g h.1, forceFreshL_closed s args h.2]
  | .bor a b, h => by
    simp only [H.closed, Bool.and_eq_true] at h
    simp only [forceFresh, embed]; rw [forceFresh_closed s a h.1, forceFresh_closed s b h.2]
  | .lit _, _ => by simp [forceFresh, embed]
theorem forceFreshL_closed (s : St) : ∀ hs : List H, H.closed.closedL hs = true → forceFresh.forceFreshL s hs = embed.embeds hs
  | [], _ => by simp [forceFresh.forceFreshL, embed.embeds]
  | g :: gs, h => by
    simp only [H.closed.closedL, Bool.and_eq_true] at h
    simp only [forceFresh.forceFreshL, embed.embeds]; rw [forceFresh_closed s g h.1, forceFreshL_closed s gs h.2]
end

mutual
theorem force_closed (s : St) : ∀ h : H, h.closed = true → force s h = (embed h, s.cache)
  | .obj _, _ => by simp [force, embed]
  | .fwd _, h => by simp [H.closed] at h
  | .str _, h => by simp [H.closed] at h
  | .sub g args, h => by
    simp only [H.closed, Bool.and_eq_true] at h
    simp only [force, embed]
    rw [force_closed s g h.1]
    have : ({ s with cache := s.cache } : St) = s := rfl
    simp only [this]
    rw [forces_closed s args h.2]
  | .bor a b, h => by
    simp only [H.closed, Bool.and_eq_true] at h
    simp only [force, embed]
    rw [force_closed s a h.1]
    have : ({ s with cache := s.cache } : St) = s := rfl
    simp only [this]
    rw [force_closed s b h.2]
  | .lit _, _ => by simp [force, embed]
theorem forces_closed (s : St) : ∀ hs : List H, H.closed.closedL hs = true → force.forces s hs = (embed.embeds hs, s.cache)
  | [], _ => by simp [force.forces, embed.embeds]
  | g :: gs, h => by
    simp only [H.closed.closedL, Bool.and_eq_true] at h
    simp only [force.forces, embed.embeds]
    rw [force_closed s g h.1]
    have : ({ s with cache := s.cache } : St) = s := rfl
    simp only [this]
    rw [forces_closed s gs h.2]
end

-- `embed` never produces a "through a proxy" marker
mutual
theorem embed_erase : ∀ h : H, (embed h).erase = embed h
  | .obj _ => by simp [embed, RH.erase]
  | .fwd _ => by simp [embed, RH.erase]
  | .str _ => by simp [embed, RH.erase]
  | .sub g args => by simp only [embed, RH.erase]; rw [embed_erase g, embeds_erase args]
  | .bor a b => by simp only [embed, RH.erase]; rw [embed_erase a, embed_erase b]
  | .lit _ => by simp [embed, RH.erase]
theorem embeds_erase : ∀ hs : List H, RH.erase.eraseL (embed.embeds hs) = embed.embeds hs
  | [] => by simp [embed.embeds, RH.erase.eraseL]
  | g :: gs => by simp only [embed.embeds, RH.erase.eraseL]; rw [embed_erase g, embeds_erase gs]
end

theorem viaProxy_erase (v : H) : (viaProxy v).erase = embed v := by
  unfold viaProxy
  split
  · exact embed_erase v
  · simp only [RH.erase]; exact embed_erase v

theorem viaProxy_obj (v : H) (h : v.isObj = true) : viaProxy v = embed v := by
  simp [viaProxy, h]

/-! ### the cache only remembers what a fresh resolution would answer -/

/-- every cached referent is what resolving the proxy NOW (without the cache) yields -/
def CacheOK (s : St) (c : List (Proxy × Ref)) : Prop :=
  ∀ p r, cacheGet? c p = some r → resolveFresh s p = .ok r

theorem cacheOK_nil (s : St) : CacheOK s [] := by
  intro p r h; simp [cacheGet?] at h

theorem act?_cache (s : St) (c : List (Proxy × Ref)) (a : Nat) : St.act? { s with cache := c } a = s.act? a := rfl

theorem findFrameCode_cache (s : St) (c : List (Proxy × Ref)) (code : Nat) :
    ∀ l : List Nat, findFrameCode { s with cache := c } code l = findFrameCode s code l
  | [] => by simp [findFrameCode]
  | a :: r => by
    simp only [findFrameCode, act?_cache]
    rw [findFrameCode_cache s c code r]

theorem modAttr_cache (s : St) (c : List (Proxy × Ref)) (path : List Name) :
    modAttr { s with cache := c } path = modAttr s path := by
  unfold modAttr
  split <;> rfl

theorem resolveFresh_cache (s : St) (c : List (Proxy × Ref)) (p : Proxy) :
    resolveFresh { s with cache := c } p = resolveFresh s p := by
  unfold resolveFresh
  rw [modAttr_cache]
  have : ({ s with cache := c } : St).stack = s.stack := rfl
  rw [this]
  cases p.frame with
  | none => rfl
  | some code => simp only [findFrameCode_cache]

theorem resolveProxy_spec (s : St) (c : List (Proxy × Ref)) (p : Proxy) (hc : CacheOK s c) :
    (resolveProxy { s with cache := c } p).1 = resolveFresh s p ∧ CacheOK s (resolveProxy { s with cache := c } p).2 := by
  have hcons : ∀ r, resolveFresh s p = .ok r → CacheOK s ((p, r) :: c) := by
    intro r hr q r' hq
    simp only [cacheGet?] at hq
    split at hq
    · next heq => cases hq; subst heq; exact hr
    · exact hc q r' hq
  unfold resolveProxy
  have hcc : ({ s with cache := c } : St).cache = c := rfl
  have hst : ({ s with cache := c } : St).stack = s.stack := rfl
  simp only [hcc, hst, modAttr_cache, findFrameCode_cache]
  cases hget : cacheGet? c p with
  | some r => exact ⟨(hc p r hget).symm, hc⟩
  | none =>
    unfold resolveFresh at hcons ⊢
    cases hma : modAttr s p.path with
    | some v =>
      simp only [hma] at hcons ⊢
      exact ⟨by first | rfl | trivial, hcons _ rfl⟩
    | none =>
      simp only [hma] at hcons ⊢
      cases hf : p.frame with
      | none =>
        simp only [hf] at hcons ⊢
        exact ⟨by first | rfl | trivial, hc⟩
      | some code =>
        simp only [hf] at hcons ⊢
        cases hfr : findFrameCode s code s.stack with
        | none =>
          simp only [hfr] at hcons ⊢
          exact ⟨by first | rfl | trivial, hcons _ rfl⟩
        | some fr =>
          simp only [hfr] at hcons ⊢
          cases hl : fr.locals.get? (dotted p.path) with
          | some v =>
            simp only [hl] at hcons ⊢
            exact ⟨by first | rfl | trivial, hcons _ rfl⟩
          | none => exact ⟨by first | rfl | trivial, hc⟩

mutual
theorem force_spec (s : St) : ∀ (h : H) (c : List (Proxy × Ref)), CacheOK s c →
    (force { s with cache := c } h).1 = forceFresh s h ∧ CacheOK s (force { s with cache := c } h).2
  | .obj _, c, hc => by simp only [force, forceFresh]; exact ⟨by first | rfl | trivial, hc⟩
  | .fwd p, c, hc => by
    have hr := resolveProxy_spec s c p hc
    simp only [force, forceFresh]
    generalize hrp : resolveProxy { s with cache := c } p = rp at hr
    obtain ⟨res, c'⟩ := rp
    simp only at hr
    rw [← hr.1]
    cases res <;> exact ⟨rfl, hr.2⟩
  | .str _, c, hc => by simp only [force, forceFresh]; exact ⟨by first | rfl | trivial, hc⟩
  | .sub g args, c, hc => by
    have h1 := force_spec s g c hc
    simp only [force, forceFresh]
    generalize hfg : force { s with cache := c } g = fg at h1
    obtain ⟨r, c1⟩ := fg
    have h2 := forces_spec s args c1 h1.2
    have he : ({ ({ s with cache := c } : St) with cache := c1 } : St) = { s with cache := c1 } := rfl
    simp only [he]
    generalize hfa : force.forces { s with cache := c1 } args = fa at h2
    obtain ⟨rs, c2⟩ := fa
    simp only at h1 h2 ⊢
    exact ⟨by rw [h1.1, h2.1], h2.2⟩
  | .bor a b, c, hc => by
    have h1 := force_spec s a c hc
    simp only [force, forceFresh]
    generalize hfg : force { s with cache := c } a = fg at h1
    obtain ⟨r, c1⟩ := fg
    have h2 := force_spec s b c1 h1.2
    have he : ({ ({ s with cache := c } : St) with cache := c1 } : St) = { s with cache := c1 } := rfl
    simp only [he]
    generalize hfa : force { s with cache := c1 } b = fa at h2
    obtain ⟨r2, c2⟩ := fa
    simp only at h1 h2 ⊢
    exact ⟨by rw [h1.1, h2.1], h2.2⟩
  | .lit _, c, hc => by simp only [force, forceFresh]; exact ⟨by first | rfl | trivial, hc⟩
theorem forces_spec (s : St) : ∀ (hs : List H) (c : List (Proxy × Ref)), CacheOK s c →
    (force.forces { s with cache := c } hs).1 = forceFresh.forceFreshL s hs ∧ CacheOK s (force.forces { s with cache := c } hs).2
  | [], c, hc => by simp only [force.forces, forceFresh.forceFreshL]; exact ⟨by first | rfl | trivial, hc⟩
  | g :: gs, c, hc => by
    have h1 := force_spec s g c hc
    simp only [force.forces, forceFresh.forceFreshL]
    generalize hfg : force { s with cache := c } g = fg at h1
    obtain ⟨r, c1⟩ := fg
    have h2 := forces_spec s gs c1 h1.2
    have he : ({ ({ s with cache := c } : St) with cache := c1 } : St) = { s with cache := c1 } := rfl
    simp only [he]
    generalize hfa : force.forces { s with cache := c1 } gs = fa at h2
    obtain ⟨rs, c2⟩ := fa
    simp only at h1 h2 ⊢
    exact ⟨by rw [h1.1, h2.1], h2.2⟩
end

end BearVerif.Fwd
