import BearVerif.Core.BearExpr
/-! Cost analysis of generated expressions: items read ≤ a bound read off the expression. -/
namespace BearVerif.Bear

/-- (most items read on a run ending in True, … ending in False); for an expression that
    yields an object or a number both components bound the cost. `(v := e) is v` is never
    False, which is what makes the two alternative item selections of the quasi-iterable
    snippet cost ONE item, not two. -/
def Expr.bound : Expr → Nat × Nat
  | .var _ => (0, 0)
  | .walrus _ e => e.bound
  | .bind _ e => (max e.bound.1 e.bound.2, 0)
  | .isinst e _ | .issub e _ | .lenEq e _ | .eqAtom e _ | .getattrBind _ e _ | .call _ e | .len e =>
    (max e.bound.1 e.bound.2, max e.bound.1 e.bound.2)
  | .not e => (max e.bound.1 e.bound.2, max e.bound.1 e.bound.2)
  | .and a b => (a.bound.1 + b.bound.1, max a.bound.2 (a.bound.1 + b.bound.2))
  | .or a b => (max a.bound.1 (a.bound.2 + b.bound.1), a.bound.2 + b.bound.2)
  | .idxRand _ => (1, 1)
  | .idxConst e _ | .idxKey e _ | .nextIter e | .nextIterValues e =>
    (max e.bound.1 e.bound.2 + 1, max e.bound.1 e.bound.2 + 1)

def pick (v : Val) (b : Nat × Nat) : Nat :=
  match v with
  | .bool true => b.1
  | .bool false => b.2
  | _ => max b.1 b.2

theorem pick_le_max (v : Val) (b : Nat × Nat) : pick v b ≤ max b.1 b.2 := by
  cases v with
  | bool bb => cases bb <;> simp [pick] <;> omega
  | obj _ => simp [pick]
  | nat _ => simp [pick]

variable (W : World) (r : Nat)

/-- the number of items an evaluation reads is bounded by the expression's `bound` -/
theorem eval_le_bound : ∀ (e : Expr) (env env' : Env) (v : Val) (n : Nat),
    eval W r env e = some (v, env', n) → n ≤ pick v e.bound := by
  intro e
  induction e with
  | var u =>
    intro env env' v n h
    cases hv : env u with
    | none => simp [eval, hv] at h
    | some o => simp [eval, hv] at h; obtain ⟨rfl, _, rfl⟩ := h; simp [pick, Expr.bound]
  | walrus u e ih =>
    intro env env' v n h
    cases he : eval W r env e with
    | none => simp [eval, he] at h
    | some res =>
      obtain ⟨v₁, env₁, n₁⟩ := res
      have ih' := ih _ _ _ _ he
      cases v₁ with
      | bool b => simp [eval, he] at h
      | nat k => simp [eval, he] at h
      | obj o =>
        simp only [pick] at ih'
        simp [eval, he] at h
        obtain ⟨rfl, _, rfl⟩ := h
        simpa [pick, Expr.bound] using ih'
  | bind u e ih =>
    intro env env' v n h
    cases he : eval W r env e with
    | none => simp [eval, he] at h
    | some res =>
      obtain ⟨v₁, env₁, n₁⟩ := res
      have ih' := ih _ _ _ _ he
      cases v₁ with
      | bool b => simp [eval, he] at h
      | nat k => simp [eval, he] at h
      | obj o =>
        simp only [pick] at ih'
        simp [eval, he] at h
        obtain ⟨rfl, _, rfl⟩ := h
        simp [pick, Expr.bound]; omega
  | isinst e cs ih =>
    intro env env' v n h
    cases he : eval W r env e with
    | none => simp [eval, he] at h
    | some res =>
      obtain ⟨v₁, env₁, n₁⟩ := res
      have ih' := ih _ _ _ _ he
      cases v₁ with
      | bool b => simp [eval, he] at h
      | nat k => simp [eval, he] at h
      | obj o =>
        simp only [pick] at ih'
        simp [eval, he] at h
        obtain ⟨rfl, _, rfl⟩ := h
        cases (cs.any (W.sub o.cls)) <;> simp [pick, Expr.bound] <;> omega
  | issub e cs ih =>
    intro env env' v n h
    cases he : eval W r env e with
    | none => simp [eval, he] at h
    | some res =>
      obtain ⟨v₁, env₁, n₁⟩ := res
      have ih' := ih _ _ _ _ he
      cases v₁ with
      | bool b => simp [eval, he] at h
      | nat k => simp [eval, he] at h
      | obj o =>
        simp only [pick] at ih'
        simp [eval, he] at h
        cases ha : o.atom with
        | klass d =>
          simp [ha] at h
          obtain ⟨rfl, _, rfl⟩ := h
          cases (cs.any (W.sub d)) <;> simp [pick, Expr.bound] <;> omega
        | none | bool _ | int _ | str _ | other _ => simp [ha] at h
  | len e ih =>
    intro env env' v n h
    cases he : eval W r env e with
    | none => simp [eval, he] at h
    | some res =>
      obtain ⟨v₁, env₁, n₁⟩ := res
      have ih' := ih _ _ _ _ he
      cases v₁ with
      | bool b => simp [eval, he] at h
      | nat k => simp [eval, he] at h
      | obj o =>
        simp only [pick] at ih'
        simp [eval, he] at h
        obtain ⟨_, rfl, _, rfl⟩ := h
        simp [pick, Expr.bound]; omega
  | lenEq e k ih =>
    intro env env' v n h
    cases he : eval W r env e with
    | none => simp [eval, he] at h
    | some res =>
      obtain ⟨v₁, env₁, n₁⟩ := res
      have ih' := ih _ _ _ _ he
      cases v₁ with
      | bool b => simp [eval, he] at h
      | nat k => simp [eval, he] at h
      | obj o =>
        simp only [pick] at ih'
        simp [eval, he] at h
        obtain ⟨_, rfl, _, rfl⟩ := h
        cases (o.items.length == k) <;> simp [pick, Expr.bound] <;> omega
  | not e ih =>
    intro env env' v n h
    cases he : eval W r env e with
    | none => simp [eval, he] at h
    | some res =>
      obtain ⟨v₁, env₁, n₁⟩ := res
      have ih' := ih _ _ _ _ he
      have hm := Nat.le_trans ih' (pick_le_max v₁ e.bound)
      cases v₁ with
      | bool b =>
        simp [eval, he] at h
        obtain ⟨rfl, _, rfl⟩ := h
        cases b <;> simp [pick, Expr.bound] <;> omega
      | nat k =>
        simp [eval, he] at h
        obtain ⟨rfl, _, rfl⟩ := h
        cases (k == 0) <;> simp [pick, Expr.bound] <;> omega
      | obj o =>
        simp [eval, he] at h
        obtain ⟨_, rfl, _, rfl⟩ := h
        cases o.items.isEmpty <;> simp [pick, Expr.bound] <;> omega
  | and a b iha ihb =>
    intro env env' v n h
    cases hea : eval W r env a with
    | none => simp [eval, hea] at h
    | some res =>
      obtain ⟨v₁, env₁, n₁⟩ := res
      have h1 := iha _ _ _ _ hea
      cases v₁ with
      | obj o => simp [eval, hea] at h
      | nat k => simp [eval, hea] at h
      | bool bb =>
        cases bb with
        | false =>
          simp [eval, hea] at h
          obtain ⟨rfl, _, rfl⟩ := h
          simp [pick, Expr.bound] at *; omega
        | true =>
          cases heb : eval W r env₁ b with
          | none => simp [eval, hea, heb] at h
          | some res2 =>
            obtain ⟨v₂, env₂, m⟩ := res2
            have h2 := ihb _ _ _ _ heb
            simp [eval, hea, heb] at h
            obtain ⟨rfl, _, rfl⟩ := h
            cases v₂ with
            | bool b2 => cases b2 <;> simp [pick, Expr.bound] at * <;> omega
            | obj _ => simp [pick, Expr.bound] at *; omega
            | nat _ => simp [pick, Expr.bound] at *; omega
  | or a b iha ihb =>
    intro env env' v n h
    cases hea : eval W r env a with
    | none => simp [eval, hea] at h
    | some res =>
      obtain ⟨v₁, env₁, n₁⟩ := res
      have h1 := iha _ _ _ _ hea
      cases v₁ with
      | obj o => simp [eval, hea] at h
      | nat k => simp [eval, hea] at h
      | bool bb =>
        cases bb with
        | true =>
          simp [eval, hea] at h
          obtain ⟨rfl, _, rfl⟩ := h
          simp [pick, Expr.bound] at *; omega
        | false =>
          cases heb : eval W r env₁ b with
          | none => simp [eval, hea, heb] at h
          | some res2 =>
            obtain ⟨v₂, env₂, m⟩ := res2
            have h2 := ihb _ _ _ _ heb
            simp [eval, hea, heb] at h
            obtain ⟨rfl, _, rfl⟩ := h
            cases v₂ with
            | bool b2 => cases b2 <;> simp [pick, Expr.bound] at * <;> omega
            | obj _ => simp [pick, Expr.bound] at *; omega
            | nat _ => simp [pick, Expr.bound] at *; omega
  | eqAtom e a ih =>
    intro env env' v n h
    cases he : eval W r env e with
    | none => simp [eval, he] at h
    | some res =>
      obtain ⟨v₁, env₁, n₁⟩ := res
      have ih' := ih _ _ _ _ he
      cases v₁ with
      | bool b => simp [eval, he] at h
      | nat k => simp [eval, he] at h
      | obj o =>
        simp only [pick] at ih'
        simp [eval, he] at h
        obtain ⟨rfl, _, rfl⟩ := h
        cases (o.atom.pyEq a) <;> simp [pick, Expr.bound] <;> omega
  | idxRand u =>
    intro env env' v n h
    cases hv : env u with
    | none => simp [eval, hv] at h
    | some o =>
      simp [eval, hv] at h
      obtain ⟨_, y, _, rfl, _, rfl⟩ := h
      simp [pick, Expr.bound]
  | idxConst e i ih =>
    intro env env' v n h
    cases he : eval W r env e with
    | none => simp [eval, he] at h
    | some res =>
      obtain ⟨v₁, env₁, n₁⟩ := res
      have ih' := ih _ _ _ _ he
      cases v₁ with
      | bool b => simp [eval, he] at h
      | nat k => simp [eval, he] at h
      | obj o =>
        simp only [pick] at ih'
        simp [eval, he] at h
        obtain ⟨_, y, _, rfl, _, rfl⟩ := h
        simp [pick, Expr.bound]; omega
  | idxKey e k ih =>
    intro env env' v n h
    cases he : eval W r env e with
    | none => simp [eval, he] at h
    | some res =>
      obtain ⟨v₁, env₁, n₁⟩ := res
      have ih' := ih _ _ _ _ he
      cases v₁ with
      | bool b => simp [eval, he] at h
      | nat k => simp [eval, he] at h
      | obj o =>
        simp only [pick] at ih'
        simp [eval, he] at h
        cases hk : env₁ k with
        | none => simp [hk] at h
        | some key =>
          simp [hk] at h
          obtain ⟨_, y, _, rfl, _, rfl⟩ := h
          simp [pick, Expr.bound]; omega
  | nextIter e ih =>
    intro env env' v n h
    cases he : eval W r env e with
    | none => simp [eval, he] at h
    | some res =>
      obtain ⟨v₁, env₁, n₁⟩ := res
      have ih' := ih _ _ _ _ he
      cases v₁ with
      | bool b => simp [eval, he] at h
      | nat k => simp [eval, he] at h
      | obj o =>
        simp only [pick] at ih'
        simp [eval, he] at h
        obtain ⟨_, y, _, rfl, _, rfl⟩ := h
        simp [pick, Expr.bound]; omega
  | nextIterValues e ih =>
    intro env env' v n h
    cases he : eval W r env e with
    | none => simp [eval, he] at h
    | some res =>
      obtain ⟨v₁, env₁, n₁⟩ := res
      have ih' := ih _ _ _ _ he
      cases v₁ with
      | bool b => simp [eval, he] at h
      | nat k => simp [eval, he] at h
      | obj o =>
        simp only [pick] at ih'
        simp [eval, he] at h
        obtain ⟨_, y, _, rfl, _, rfl⟩ := h
        simp [pick, Expr.bound]; omega
  | getattrBind u e a ih =>
    intro env env' v n h
    cases he : eval W r env e with
    | none => simp [eval, he] at h
    | some res =>
      obtain ⟨v₁, env₁, n₁⟩ := res
      have ih' := ih _ _ _ _ he
      cases v₁ with
      | bool b => simp [eval, he] at h
      | nat k => simp [eval, he] at h
      | obj o =>
        simp only [pick] at ih'
        simp [eval, he] at h
        cases hat : o.attr? a with
        | none => simp [hat] at h; obtain ⟨rfl, _, rfl⟩ := h; simp [pick, Expr.bound]; omega
        | some y => simp [hat] at h; obtain ⟨rfl, _, rfl⟩ := h; simp [pick, Expr.bound]; omega
  | call f e ih =>
    intro env env' v n h
    cases he : eval W r env e with
    | none => simp [eval, he] at h
    | some res =>
      obtain ⟨v₁, env₁, n₁⟩ := res
      have ih' := ih _ _ _ _ he
      cases v₁ with
      | bool b => simp [eval, he] at h
      | nat k => simp [eval, he] at h
      | obj o =>
        simp only [pick] at ih'
        simp [eval, he] at h
        obtain ⟨rfl, _, rfl⟩ := h
        cases (W.pred f o) <;> simp [pick, Expr.bound] <;> omega

end BearVerif.Bear
