import BearVerif.Core.Bear
/-! Finite class tables: a `World` read off an extracted table and Boolean checkers whose
    success implies the (unbounded) capability facts the Bear core's theorems assume. -/
namespace BearVerif.Bear

structure Table where
  rows : List (List Bool)
  sized : List Bool
  indexable : List Bool
  reiter : List Bool
  mapping : List Bool

def bitAt (l : List Bool) (i : Nat) : Bool := (l[i]?).getD false

def Table.sub (t : Table) (c d : Nat) : Bool := c == d || ((t.rows[c]?).map (fun r => bitAt r d)).getD false

def Table.world (t : Table) (pred : Nat → Obj → Bool) : World :=
  { sub := t.sub, sized := bitAt t.sized, indexable := bitAt t.indexable, reiter := bitAt t.reiter,
    mapping := bitAt t.mapping, pred := pred }

/-- for every class of the table: instance of `o` ⇒ `f` -/
def Table.checkCap (t : Table) (o : Nat) (f : Nat → Bool) : Bool :=
  (List.range t.rows.length).all (fun c => !t.sub c o || f c)

theorem Table.cap_of_check (t : Table) (o : Nat) (f : Nat → Bool) (ho : o < t.rows.length)
    (h : t.checkCap o f = true) : ∀ c, t.sub c o = true → f c = true := by
  intro c hc
  by_cases hlt : c < t.rows.length
  · have := List.all_eq_true.mp h c (List.mem_range.mpr hlt)
    simp only [Bool.or_eq_true, Bool.not_eq_true'] at this
    rcases this with h1 | h1
    · rw [hc] at h1; cases h1
    · exact h1
  · -- outside the table a class is a subclass of itself only
    have hnone : t.rows[c]? = none := List.getElem?_eq_none (by omega)
    simp only [Table.sub, hnone, Option.map_none, Option.getD_none, Bool.or_false, beq_iff_eq] at hc
    omega

def Table.checkWf (t : Table) : Bool :=
  t.checkCap cSequence (fun c => bitAt t.indexable c && bitAt t.sized c) &&
  t.checkCap cCollection (fun c => bitAt t.sized c && bitAt t.reiter c) &&
  t.checkCap cTuple (fun c => bitAt t.indexable c && bitAt t.sized c)

theorem Table.wf_of_check (t : Table) (pred : Nat → Obj → Bool) (hn : 4 ≤ t.rows.length) (h : t.checkWf = true) :
    (t.world pred).Wf := by
  simp only [Table.checkWf, Bool.and_eq_true] at h
  obtain ⟨⟨h1, h2⟩, h3⟩ := h
  refine ⟨?_, ?_, ?_, ?_⟩
  · intro c hc
    have := t.cap_of_check cSequence _ (by simp [cSequence]; omega) h1 c hc
    simpa [Table.world] using this
  · intro c hc
    have := t.cap_of_check cCollection _ (by simp [cCollection]; omega) h2 c hc
    simpa [Table.world] using this
  · intro c hc
    have := t.cap_of_check cTuple _ (by simp [cTuple]; omega) h3 c hc
    simpa [Table.world] using this
  · intro c; simp [Table.world, Table.sub]

end BearVerif.Bear

namespace BearVerif.Bear

/-! ### deciding the side conditions of the Bear-core theorems on a finite table -/

mutual
/-- Boolean check of `Hint.WfIn` (and of the extra fact the explanation path needs) on a table -/
def Hint.capsOk (t : Table) : Hint → Bool
  | .any | .cls _ | .shallow _ | .typeOf _ => true
  | .literal ls => !ls.isEmpty
  | .union hs => !hs.isEmpty && capsOkList t hs && hs.all (fun h => !h.isUnion)
  | .tupleFixed hs => capsOkList t hs
  | .seq o h => h.capsOk t && decide (o < t.rows.length) &&
      t.checkCap o (fun c => bitAt t.indexable c && bitAt t.sized c)
  | .reit o h => h.capsOk t && decide (o < t.rows.length) &&
      t.checkCap o (fun c => bitAt t.sized c && bitAt t.reiter c)
  | .quasi _ h => h.capsOk t
  | .mapping o k v => k.capsOk t && v.capsOk t && decide (o < t.rows.length) &&
      t.checkCap o (fun c => bitAt t.sized c && (bitAt t.reiter c && bitAt t.mapping c))
  | .annotated h vs => h.capsOk t && !vs.isEmpty
  | .generic _ bs => capsOkList t bs && !anyIgnorable bs
def capsOkList (t : Table) : List Hint → Bool
  | [] => true
  | h :: hs => h.capsOk t && capsOkList t hs
end

mutual
theorem Hint.wfIn_of_capsOk (t : Table) (pred : Nat → Obj → Bool) :
    ∀ (h : Hint), h.capsOk t = true → h.WfIn (t.world pred)
  | .any, _ | .cls _, _ | .shallow _, _ | .typeOf _, _ => by simp [Hint.WfIn]
  | .literal ls, hc => by
    simp only [Hint.capsOk, Bool.not_eq_true', List.isEmpty_eq_false_iff] at hc
    simpa [Hint.WfIn] using hc
  | .union hs, hc => by
    simp only [Hint.capsOk, Bool.and_eq_true, Bool.not_eq_true', List.isEmpty_eq_false_iff] at hc
    exact ⟨hc.1.1, wfInList_of_capsOk t pred hs hc.1.2, hc.2⟩
  | .tupleFixed hs, hc => by
    simp only [Hint.capsOk] at hc
    simpa [Hint.WfIn] using wfInList_of_capsOk t pred hs hc
  | .seq o h, hc => by
    simp only [Hint.capsOk, Bool.and_eq_true, decide_eq_true_eq] at hc
    refine ⟨Hint.wfIn_of_capsOk t pred h hc.1.1, ?_⟩
    intro c hsub
    have := t.cap_of_check o _ hc.1.2 hc.2 c hsub
    simpa [Table.world] using this
  | .reit o h, hc => by
    simp only [Hint.capsOk, Bool.and_eq_true, decide_eq_true_eq] at hc
    refine ⟨Hint.wfIn_of_capsOk t pred h hc.1.1, ?_⟩
    intro c hsub
    have := t.cap_of_check o _ hc.1.2 hc.2 c hsub
    simpa [Table.world] using this
  | .quasi o h, hc => by
    simp only [Hint.capsOk] at hc
    simpa [Hint.WfIn] using Hint.wfIn_of_capsOk t pred h hc
  | .mapping o k v, hc => by
    simp only [Hint.capsOk, Bool.and_eq_true, decide_eq_true_eq] at hc
    refine ⟨Hint.wfIn_of_capsOk t pred k hc.1.1.1, Hint.wfIn_of_capsOk t pred v hc.1.1.2, ?_⟩
    intro c hsub
    have := t.cap_of_check o _ hc.1.2 hc.2 c hsub
    simpa [Table.world] using this
  | .annotated h vs, hc => by
    simp only [Hint.capsOk, Bool.and_eq_true, Bool.not_eq_true', List.isEmpty_eq_false_iff] at hc
    exact ⟨Hint.wfIn_of_capsOk t pred h hc.1, hc.2⟩
  | .generic c bs, hc => by
    simp only [Hint.capsOk, Bool.and_eq_true, Bool.not_eq_true'] at hc
    exact ⟨wfInList_of_capsOk t pred bs hc.1, hc.2⟩
theorem wfInList_of_capsOk (t : Table) (pred : Nat → Obj → Bool) :
    ∀ (hs : List Hint), capsOkList t hs = true → WfInList (t.world pred) hs
  | [], _ => by simp [WfInList]
  | h :: hs, hc => by
    simp only [capsOkList, Bool.and_eq_true] at hc
    exact ⟨Hint.wfIn_of_capsOk t pred h hc.1, wfInList_of_capsOk t pred hs hc.2⟩
end

end BearVerif.Bear
