import BearVerif.Core.Pyc
/-!
  C16 — helper lemmas: the disk invariant ("a file named by tag `t` holds code of
  the source version stamped on it, untransformed iff `t = ""`, otherwise
  transformed with the shape of some configuration whose marker is `t`"), its
  preservation by `load` / `runImports` / `runHist` / serial concurrent schedules,
  and cache transparency (`load` returns what a fresh compile returns) when the
  marker determines the shape.
-/
namespace BearVerif.Pyc

/-! ### association-list facts -/

theorem dget_erase_ne (d : Disk) (k k' : Key) (h : k' ≠ k) : dget (derase d k) k' = dget d k' := by
  induction d with
  | nil => rfl
  | cons p r ih =>
    obtain ⟨kp, e⟩ := p
    by_cases hk : kp = k
    · subst hk
      have : kp ≠ k' := fun h' => h h'.symm
      simp [derase, dget, ih, this]
    · by_cases hk' : kp = k'
      · subst hk'
        simp [derase, dget, hk]
      · simp [derase, dget, hk, hk', ih]

theorem dget_put_self (d : Disk) (k : Key) (e : Entry) : dget (dput d k e) k = some e := by
  simp [dput, dget]

theorem dget_put_ne (d : Disk) (k k' : Key) (e : Entry) (h : k' ≠ k) : dget (dput d k e) k' = dget d k' := by
  have : k ≠ k' := fun h' => h h'.symm
  simp [dput, dget, this, dget_erase_ne d k k' h]

/-! ### the invariant -/

/-- what may be found in the file named `k` -/
def EntryOk (tg : Conf → Tag) (P : Conf → Prop) (k : Key) (e : Entry) : Prop :=
  e.code.src = e.stamp ∧ (e.code.shape = none → k.2 = "") ∧
  (∀ s, e.code.shape = some s → ∃ c, P c ∧ shapeOf c = s ∧ tg c = k.2)

def Inv (tg : Conf → Tag) (P : Conf → Prop) (d : Disk) : Prop :=
  ∀ k e, dget d k = some e → EntryOk tg P k e

/-- on the configurations `P` that occur: hooked files never get the stock name, and
    configurations sharing a marker share the AST shape -/
structure Good (tg : Conf → Tag) (P : Conf → Prop) : Prop where
  nonempty : ∀ c, P c → tg c ≠ ""
  inj : ∀ c₁ c₂, P c₁ → P c₂ → tg c₁ = tg c₂ → shapeOf c₁ = shapeOf c₂

theorem inv_nil (tg : Conf → Tag) (P : Conf → Prop) : Inv tg P [] := by
  intro k e h; simp [dget] at h

theorem entryOk_compile (tg : Conf → Tag) (P : Conf → Prop) (h : Option Conf) (hP : ∀ c, h = some c → P c)
    (m : Mod) (v : Nat) : EntryOk tg P (m, tagOf tg h) ⟨v, compile h v⟩ := by
  cases h with
  | none => simp [EntryOk, compile, tagOf]
  | some c => exact ⟨rfl, by simp [compile], fun s hs => ⟨c, hP c rfl, by simpa [compile] using hs, rfl⟩⟩

theorem inv_put {tg : Conf → Tag} {P : Conf → Prop} {d : Disk} (hd : Inv tg P d) (k : Key) (e : Entry)
    (he : EntryOk tg P k e) : Inv tg P (dput d k e) := by
  intro k' e' h
  by_cases hk : k' = k
  · subst hk
    rw [dget_put_self] at h
    cases h; exact he
  · rw [dget_put_ne d k k' e hk] at h
    exact hd k' e' h

theorem load_inv {tg : Conf → Tag} {P : Conf → Prop} {d : Disk} (hd : Inv tg P d) (h : Option Conf)
    (hP : ∀ c, h = some c → P c) (m : Mod) (v : Nat) : Inv tg P (load tg d h m v).disk := by
  unfold load
  split
  · split
    · exact hd
    · exact inv_put hd _ _ (entryOk_compile tg P h hP m v)
  · exact inv_put hd _ _ (entryOk_compile tg P h hP m v)

/-- never stale: whatever `load` returns was compiled from the current source version -/
theorem load_src {tg : Conf → Tag} {P : Conf → Prop} {d : Disk} (hd : Inv tg P d) (h : Option Conf)
    (m : Mod) (v : Nat) : (load tg d h m v).code.src = v := by
  unfold load
  split
  · rename_i e he
    split
    · rename_i hs
      have := (hd _ _ he).1
      simp only [this, hs]
    · rfl
  · rfl

/-- an edit invalidates: a cached file whose stamp differs from the source is not reused -/
theorem load_recompiles (tg : Conf → Tag) (d : Disk) (h : Option Conf) (m : Mod) (v : Nat) (e : Entry)
    (he : dget d (m, tagOf tg h) = some e) (hne : e.stamp ≠ v) :
    (load tg d h m v).reused = false ∧ (load tg d h m v).code = compile h v := by
  simp [load, he, hne]

/-- cache transparency: with a marker that determines the shape, `load` = fresh compile -/
theorem load_code {tg : Conf → Tag} {P : Conf → Prop} {d : Disk} (hd : Inv tg P d) (good : Good tg P)
    (h : Option Conf) (hP : ∀ c, h = some c → P c) (m : Mod) (v : Nat) :
    (load tg d h m v).code = compile h v := by
  unfold load
  split
  · rename_i e he
    split
    · rename_i hs
      obtain ⟨h1, h2, h3⟩ := hd _ _ he
      rcases hc : e.code with ⟨src, shape⟩
      simp only [hc] at h1 h2 h3
      simp only [compile, Code.mk.injEq]
      refine ⟨by omega, ?_⟩
      cases h with
      | none =>
        cases shape with
        | none => rfl
        | some s =>
          obtain ⟨c, hPc, _, ht⟩ := h3 s rfl
          exact absurd (by simpa [tagOf] using ht) (good.nonempty c hPc)
      | some c =>
        cases shape with
        | none => exact absurd (h2 rfl : tg c = "") (good.nonempty c (hP c rfl))
        | some s =>
          obtain ⟨c', hPc', hs', ht⟩ := h3 s rfl
          have := good.inj c' c hPc' (hP c rfl) (by simpa [tagOf] using ht)
          simp [← hs', this]
    · rfl
  · rfl

theorem isDefault_rt (c : Conf) (h : c.isDefault = true) : c.rt = 0 := by
  simp [Conf.isDefault] at h
  exact h.2

/-- executing freshly compiled code is the specification -/
theorem behave_compile (h : Option Conf) (v : Nat) : behave h (compile h v) = spec h v := by
  cases h with
  | none => rfl
  | some c =>
    simp only [behave, compile, spec, Option.map, rtOf, brokenOf, shapeOf, Beh.mk.injEq, true_and, and_true]
    cases hd : c.isDefault with
    | true => simp [isDefault_rt c hd]
    | false => simp

/-! ### one run -/

def HooksIn (P : Conf → Prop) (hook : Mod → Option Conf) : Prop := ∀ m c, hook m = some c → P c

theorem runImports_inv {tg : Conf → Tag} {P : Conf → Prop} (hook : Mod → Option Conf) (src : Mod → Nat)
    (hP : HooksIn P hook) : ∀ (ms : List Mod) (d : Disk), Inv tg P d → Inv tg P (runImports tg hook src d ms).1
  | [], _, hd => hd
  | m :: ms, d, hd => by
    simp only [runImports]
    exact runImports_inv hook src hP ms _ (load_inv hd (hook m) (hP m) m (src m))

theorem runImports_tag (tg : Conf → Tag) (hook : Mod → Option Conf) (src : Mod → Nat) :
    ∀ (ms : List Mod) (d : Disk), ∀ o ∈ (runImports tg hook src d ms).2, o.tag = tagOf tg (hook o.mod)
  | [], _, o, ho => by simp [runImports] at ho
  | m :: ms, d, o, ho => by
    simp only [runImports, List.mem_cons] at ho
    rcases ho with rfl | ho
    · rfl
    · exact runImports_tag tg hook src ms _ o ho

theorem runImports_src {tg : Conf → Tag} {P : Conf → Prop} (hook : Mod → Option Conf) (src : Mod → Nat)
    (hP : HooksIn P hook) : ∀ (ms : List Mod) (d : Disk), Inv tg P d →
      ∀ o ∈ (runImports tg hook src d ms).2, o.beh.src = src o.mod
  | [], _, _, o, ho => by simp [runImports] at ho
  | m :: ms, d, hd, o, ho => by
    simp only [runImports, List.mem_cons] at ho
    rcases ho with rfl | ho
    · simpa [behave] using load_src hd (hook m) m (src m)
    · exact runImports_src hook src hP ms _ (load_inv hd (hook m) (hP m) m (src m)) o ho

theorem runImports_spec {tg : Conf → Tag} {P : Conf → Prop} (good : Good tg P) (hook : Mod → Option Conf)
    (src : Mod → Nat) (hP : HooksIn P hook) : ∀ (ms : List Mod) (d : Disk), Inv tg P d →
      ∀ o ∈ (runImports tg hook src d ms).2, o.beh = spec (hook o.mod) (src o.mod)
  | [], _, _, o, ho => by simp [runImports] at ho
  | m :: ms, d, hd, o, ho => by
    simp only [runImports, List.mem_cons] at ho
    rcases ho with rfl | ho
    · simp only [load_code hd good (hook m) (hP m) m (src m), behave_compile]
    · exact runImports_spec good hook src hP ms _ (load_inv hd (hook m) (hP m) m (src m)) o ho

/-! ### histories -/

def HistIn (P : Conf → Prop) (rs : List Run) : Prop := ∀ r ∈ rs, HooksIn P r.hook

theorem runHist_inv {tg : Conf → Tag} {P : Conf → Prop} :
    ∀ (rs : List Run) (w : World), HistIn P rs → Inv tg P w.disk → Inv tg P (runHist tg w rs).1.disk
  | [], _, _, hd => hd
  | r :: rs, w, hP, hd => by
    simp only [runHist]
    exact runHist_inv rs _ (fun r' hr' => hP r' (List.mem_cons_of_mem _ hr'))
      (runImports_inv r.hook _ (hP r List.mem_cons_self) r.imports w.disk hd)

theorem runHist_tag (tg : Conf → Tag) : ∀ (rs : List Run) (w : World),
    ∀ rc ∈ (runHist tg w rs).2, ∀ o ∈ rc.obs, o.tag = tagOf tg (rc.run.hook o.mod)
  | [], _, rc, hrc => by simp [runHist] at hrc
  | r :: rs, w, rc, hrc => by
    simp only [runHist, List.mem_cons] at hrc
    rcases hrc with rfl | hrc
    · exact runImports_tag tg r.hook _ r.imports w.disk
    · exact runHist_tag tg rs _ rc hrc

theorem runHist_src {tg : Conf → Tag} {P : Conf → Prop} : ∀ (rs : List Run) (w : World), HistIn P rs →
    Inv tg P w.disk → ∀ rc ∈ (runHist tg w rs).2, ∀ o ∈ rc.obs, o.beh.src = rc.src o.mod
  | [], _, _, _, rc, hrc => by simp [runHist] at hrc
  | r :: rs, w, hP, hd, rc, hrc => by
    simp only [runHist, List.mem_cons] at hrc
    rcases hrc with rfl | hrc
    · exact runImports_src r.hook _ (hP r List.mem_cons_self) r.imports w.disk hd
    · exact runHist_src rs _ (fun r' hr' => hP r' (List.mem_cons_of_mem _ hr'))
        (runImports_inv r.hook _ (hP r List.mem_cons_self) r.imports w.disk hd) rc hrc

theorem runHist_spec {tg : Conf → Tag} {P : Conf → Prop} (good : Good tg P) : ∀ (rs : List Run) (w : World),
    HistIn P rs → Inv tg P w.disk →
    ∀ rc ∈ (runHist tg w rs).2, ∀ o ∈ rc.obs, o.beh = spec (rc.run.hook o.mod) (rc.src o.mod)
  | [], _, _, _, rc, hrc => by simp [runHist] at hrc
  | r :: rs, w, hP, hd, rc, hrc => by
    simp only [runHist, List.mem_cons] at hrc
    rcases hrc with rfl | hrc
    · exact runImports_spec good r.hook _ (hP r List.mem_cons_self) r.imports w.disk hd
    · exact runHist_spec good rs _ (fun r' hr' => hP r' (List.mem_cons_of_mem _ hr'))
        (runImports_inv r.hook _ (hP r List.mem_cons_self) r.imports w.disk hd) rc hrc

theorem histIn_true (rs : List Run) : HistIn (fun _ => True) rs := fun _ _ _ _ _ => trivial

theorem good_of (tg : Conf → Tag) (hne : TagNonempty tg) (hinj : ShapeInjective tg) : Good tg (fun _ => True) :=
  ⟨fun c _ => hne c, fun c₁ c₂ _ _ h => hinj c₁ c₂ h⟩

/-! ### the two-run witness against a marker that does not determine the shape -/

/-- `[run(hook c₁) imports m ; run(hook c₂) imports m]`, no edits -/
def twoRuns (c₁ c₂ : Conf) : List Run :=
  [⟨fun _ => some c₁, [], ["m"]⟩, ⟨fun _ => some c₂, [], ["m"]⟩]

theorem twoRuns_breaks (tg : Conf → Tag) (c₁ c₂ : Conf) (ht : tg c₁ = tg c₂) (hs : shapeOf c₁ ≠ shapeOf c₂) :
    ¬ CurrentConf tg (twoRuns c₁ c₂) := by
  intro H
  have := H ⟨⟨fun _ => some c₂, [], ["m"]⟩, fun _ => 0,
      [⟨"m", tg c₂, true, behave (some c₂) ⟨0, some (shapeOf c₁)⟩⟩]⟩
    (by simp [twoRuns, runHist, runImports, load, dget, dput, tagOf, World.init, applyEdits, compile, ht])
    ⟨"m", tg c₂, true, behave (some c₂) ⟨0, some (shapeOf c₁)⟩⟩ (by simp)
  simp [behave, spec] at this
  exact hs this.1

/-! ### shape-level recipes (finite checks) -/

theorem Shape.mem_all (s : Shape) : s ∈ Shape.all := by
  obtain ⟨p, f, t, k⟩ := s
  cases p <;> cases f <;> cases t <;> cases k <;> decide

theorem shapeTagNonemptyB_iff (f : Shape → Tag) : shapeTagNonemptyB f = true ↔ ∀ s, f s ≠ "" := by
  simp only [shapeTagNonemptyB, List.all_eq_true, bne_iff_ne]
  exact ⟨fun h s => h s (Shape.mem_all s), fun h s _ => h s⟩

theorem shapeTagInjectiveB_iff (f : Shape → Tag) : shapeTagInjectiveB f = true ↔ ∀ a b, f a = f b → a = b := by
  simp only [shapeTagInjectiveB, List.all_eq_true, Bool.or_eq_true, bne_iff_ne, beq_iff_eq]
  constructor
  · intro h a b hab
    rcases h a (Shape.mem_all a) b (Shape.mem_all b) with h' | h'
    · exact absurd hab h'
    · exact h'
  · intro h a _ b _
    by_cases hab : f a = f b
    · exact Or.inr (h a b hab)
    · exact Or.inl hab

/-! ### the repaired recipe is injective and never empty (no string evaluation needed) -/

theorem bitChar_inj (a b : Bool) (h : bitChar a = bitChar b) : a = b := by
  cases a <;> cases b <;> first | rfl | (revert h; decide)

theorem Place.char_inj (a b : Place) (h : a.char = b.char) : a = b := by
  cases a <;> cases b <;> first | rfl | (revert h; decide)

theorem Shape.encode_inj (a b : Shape) (h : a.encode = b.encode) : a = b := by
  have h' : a.encodeChars = b.encodeChars := String.ofList_inj.mp h
  obtain ⟨p, f, t, k⟩ := a
  obtain ⟨p', f', t', k'⟩ := b
  simp only [Shape.encodeChars, List.cons.injEq, true_and, and_true] at h'
  obtain ⟨h1, h2, h3, h4⟩ := h'
  rw [bitChar_inj _ _ h1, Place.char_inj _ _ h2, Place.char_inj _ _ h3, bitChar_inj _ _ h4]

theorem fixedTag_nonempty : TagNonempty fixedTag := by
  intro c h
  have := congrArg String.toList h
  simp [fixedTag, String.toList_append, Shape.encode, Shape.encodeChars] at this

theorem fixedTag_injective : ShapeInjective fixedTag := by
  intro c₁ c₂ h
  exact Shape.encode_inj _ _ ((String.append_right_inj _).mp h)

/-! ### concurrent runs: a thread that runs alone behaves like `load` -/

theorem crun_cons (tg : Conf → Tag) (hook : Mod → Option Conf) (src : Mod → Nat) (s : CState) (i : Nat) (r : List Nat) :
    crun tg hook src s (i :: r) = crun tg hook src (cstep tg hook src s i) r := rfl

/-- five consecutive steps of thread `i`, started with the global unpatched -/
theorem crun_alone (tg : Conf → Tag) (hook : Mod → Option Conf) (src : Mod → Nat) (s : CState) (i : Nat) (m : Mod)
    (hp : s.patch = none) (ht : s.threads i = Thread.start hook m) (r : List Nat) :
    ∃ s', crun tg hook src s (i :: i :: i :: i :: i :: r) = crun tg hook src s' r ∧
      s'.disk = (load tg s.disk (hook m) m (src m)).disk ∧ s'.patch = none ∧
      (s'.threads i).code = some (load tg s.disk (hook m) m (src m)).code ∧
      (s'.threads i).mod = m ∧ (s'.threads i).pc = 5 ∧ ∀ j, j ≠ i → s'.threads j = s.threads j := by
  refine ⟨_, by simp only [crun_cons]; rfl, ?_⟩
  obtain ⟨d, p, ts⟩ := s
  simp only at hp ht
  subst hp
  cases hh : hook m with
  | none =>
    cases hg : dget d (m, "") with
    | none =>
      simp [cstep, setThread, ht, Thread.start, hh, hg, load, tagOf, afterLoad]
      intro j hj; simp [hj]
    | some e =>
      by_cases hs : e.stamp = src m
      · simp [cstep, setThread, ht, Thread.start, hh, hg, load, tagOf, afterLoad, hs]
        intro j hj; simp [hj]
      · simp [cstep, setThread, ht, Thread.start, hh, hg, load, tagOf, afterLoad, hs]
        intro j hj; simp [hj]
  | some c =>
    cases hg : dget d (m, tg c) with
    | none =>
      simp [cstep, setThread, ht, Thread.start, hh, hg, load, tagOf, afterLoad]
      intro j hj; simp [hj]
    | some e =>
      by_cases hs : e.stamp = src m
      · simp [cstep, setThread, ht, Thread.start, hh, hg, load, tagOf, afterLoad, hs]
        intro j hj; simp [hj]
      · simp [cstep, setThread, ht, Thread.start, hh, hg, load, tagOf, afterLoad, hs]
        intro j hj; simp [hj]

/-- serial schedules: every thread behaves as specified, the invariant survives, the
    global is unpatched at the end -/
theorem serial_ok {tg : Conf → Tag} {P : Conf → Prop} (good : Good tg P) (hook : Mod → Option Conf)
    (src : Mod → Nat) (hP : HooksIn P hook) (mods : Nat → Mod) :
    ∀ (order : List Nat) (s : CState), order.Nodup → s.patch = none → Inv tg P s.disk →
      (∀ i ∈ order, s.threads i = Thread.start hook (mods i)) →
      Inv tg P (crun tg hook src s (serial order)).disk ∧ (crun tg hook src s (serial order)).patch = none ∧
      (∀ i ∈ order, ((crun tg hook src s (serial order)).threads i).pc = 5 ∧
        threadBeh hook (crun tg hook src s (serial order)) i = some (spec (hook (mods i)) (src (mods i)))) ∧
      (∀ j, j ∉ order → (crun tg hook src s (serial order)).threads j = s.threads j)
  | [], s, _, hp, hd, _ => by simp [serial, crun, hp, hd]
  | i :: r, s, hnd, hp, hd, hst => by
    obtain ⟨s', hrun, hdisk, hpatch, hcode, hmod, hpc, hothers⟩ :=
      crun_alone tg hook src s i (mods i) hp (hst i List.mem_cons_self) (serial r)
    have hnd' := List.nodup_cons.mp hnd
    have hd' : Inv tg P s'.disk := by rw [hdisk]; exact load_inv hd _ (hP _) _ _
    have hst' : ∀ j ∈ r, s'.threads j = Thread.start hook (mods j) := by
      intro j hj
      have : j ≠ i := fun h => hnd'.1 (h ▸ hj)
      rw [hothers j this]; exact hst j (List.mem_cons_of_mem _ hj)
    obtain ⟨h1, h2, h3, h4⟩ := serial_ok good hook src hP mods r s' hnd'.2 hpatch hd' hst'
    simp only [serial, hrun]
    refine ⟨h1, h2, ?_, ?_⟩
    · intro j hj
      rcases List.mem_cons.mp hj with rfl | hj
      · have hk := h4 j hnd'.1
        simp only [threadBeh, hk, hpc, hcode, hmod, true_and, Option.map]
        rw [load_code hd good _ (hP _) _ _, behave_compile]
      · exact h3 j hj
    · intro j hj
      have hji : j ≠ i := fun h => hj (h ▸ List.mem_cons_self)
      have hjr : j ∉ r := fun h => hj (List.mem_cons_of_mem _ h)
      rw [h4 j hjr, hothers j hji]

end BearVerif.Pyc
