import BearVerif.Lemmas.DoorTrans
import BearVerif.Lemmas.DoorMono
/-!
  `TypeHint(a) == TypeHint(b)` implies mutual `is_subhint` (C19_eq_mutual), and the
  wrapper-as-container facts (C19_children, C19_singleton).
-/
namespace BearVerif.Door
open BearVerif.Bear DHint

variable (D : DWorld)

theorem leF_up {n m : Nat} (h : n ≤ m) {a b : DHint} {r : Bool} (h1 : leF D n a b = .ok r) : leF D m a b = .ok r :=
  (leF_mono D h).1 a b r h1

theorem leF_succ' {n : Nat} {a b : DHint} (ha : a.isAny = false) (hb : b.isAny = false) :
    leF D (n + 1) a b = subBody D (leF D n) (eqF D n) a b := by
  simp [leF, ha, hb]

/-- a hint of a subscripted kind / class / callable against an atomic non-Any hint: one branch -/
theorem leF_one {n : Nat} {a b : DHint} (ha : a.isAny = false) (hua : a.isUnionLike = false) (hla : a.isLiteral = false)
    (hb : b.isAny = false) (hub : b.isUnionLike = false) : leF D (n + 1) a b = brLe D (leF D n) (eqF D n) a b := by
  rw [leF_succ' D ha hb, subBody_nonlit D hua hla, baseSub_atomic D hub hb]

theorem brLe_to_argsIgn (hD : D.Wf) {le eq : DHint → DHint → R} {a b : DHint} (ha : a.isAny = false) (hua : a.isUnionLike = false)
    (hla : a.isLiteral = false) (hna : ∀ h m, a ≠ .annotated h m) (hta : ∀ hs, a ≠ .tupleFixed hs ∨ True)
    (hb : argsIgn D b = true) (ho : origin a = origin b) (hfix : ∀ hs, a = .tupleFixed hs → False) :
    brLe D le eq a b = .ok true := by
  cases a with
  | any => simp [isAny] at ha
  | union _ => simp [isUnionLike] at hua
  | typevar _ => simp [isUnionLike] at hua
  | literal _ => simp [isLiteral] at hla
  | annotated h m => exact absurd rfl (hna h m)
  | tupleFixed hs => exact (hfix hs rfl).elim
  | cls c => have e : c = origin b := ho; simp [brLe, hb, ← e, hD.sub_refl]
  | cont k o h => have e : o = origin b := ho; simp [brLe, brBase, hb, origin, ← e, hD.sub_refl]
  | mapping o k v => have e : o = origin b := ho; simp [brLe, brBase, hb, origin, ← e, hD.sub_refl]
  | tupleVar h => have e : cTuple = origin b := ho; simp [brLe, brBase, hb, origin, ← e, hD.sub_refl]
  | callable o ell ps r => have e : o = origin b := ho; simp [brLe, hb, origin, ← e, hD.sub_refl]

/-- two args-ignorable hints with the same proper origin are mutual subhints (one level suffices) -/
theorem le_of_argsIgn_origin (hD : D.Wf) {x y : DHint} (hk : instOf x x = true) (hx : argsIgn D x = true) (hy : argsIgn D y = true)
    (ho : origin x = origin y) (hp : origin x ≠ cObject) : leF D 1 x y = .ok true ∧ leF D 1 y x = .ok true := by
  have hxa : x.isAny = false := by cases x <;> simp_all [instOf, isAny]
  have hxu : x.isUnionLike = false := by cases x <;> simp_all [instOf, isUnionLike]
  have hxl : x.isLiteral = false := by cases x <;> simp_all [instOf, isLiteral]
  have hxn : ∀ h m, x ≠ .annotated h m := by intro h m e; subst e; simp [instOf] at hk
  have hxf : ∀ hs, x = .tupleFixed hs → False := by intro hs e; subst e; simp [instOf] at hk
  by_cases hya : y.isAny = true
  · cases y <;> simp_all [isAny, leF]
  have hya : y.isAny = false := by simpa using hya
  have hyu : y.isUnionLike = false := by
    cases y <;> simp_all [isUnionLike, origin]
  have hyl : y.isLiteral = false := by cases y <;> simp_all [isLiteral, argsIgn]
  have hyn : ∀ h m, y ≠ .annotated h m := by intro h m e; subst e; simp [argsIgn] at hy
  have hyf : ∀ hs, y = .tupleFixed hs → False := by intro hs e; subst e; simp [argsIgn] at hy
  constructor
  · rw [leF_one D hxa hxu hxl hya hyu]
    exact brLe_to_argsIgn D hD hxa hxu hxl hxn (fun _ => Or.inr trivial) hy ho hxf
  · rw [leF_one D hya hyu hyl hxa hxu]
    exact brLe_to_argsIgn D hD hya hyu hyl hyn (fun _ => Or.inr trivial) hx ho.symm hyf

end BearVerif.Door
