import BearVerif.Lemmas.DoorTrans
import BearVerif.Lemmas.DoorMono
/-!
  `TypeHint(a) == TypeHint(b)` implies mutual `is_subhint` (C19_eq_mutual), and the
  wrapper-as-container facts (C19_children, C19_singleton).
-/
namespace BearVerif.Door
open BearVerif.Bear DHint

variable (D : DWorld)

theorem leF_up {n m : Nat} (h : n ≤ m) {a b : DHint} {r : Bool} (h1 : leF D n a b = .ok r) : leF D m a b = .ok r :=
  (leF_mono D h).1 a b r h1

theorem leF_succ' {n : Nat} {a b : DHint} (ha : a.isAny = false) (hb : b.isAny = false) :
    leF D (n + 1) a b = subBody D (leF D n) (eqF D n) a b := by
  simp [leF, ha, hb]

/-- a hint of a subscripted kind / class / callable against an atomic non-Any hint: one branch -/
theorem leF_one {n : Nat} {a b : DHint} (ha : a.isAny = false) (hua : a.isUnionLike = false) (hla : a.isLiteral = false)
    (hb : b.isAny = false) (hub : b.isUnionLike = false) : leF D (n + 1) a b = brLe D (leF D n) (eqF D n) a b := by
  rw [leF_succ' D ha hb, subBody_nonlit D hua hla, baseSub_atomic D hub hb]

theorem brLe_to_argsIgn (hD : D.Wf) {le eq : DHint → DHint → R} {a b : DHint} (ha : a.isAny = false) (hua : a.isUnionLike = false)
    (hla : a.isLiteral = false) (hna : ∀ h m, a ≠ .annotated h m) (hta : ∀ hs, a ≠ .tupleFixed hs ∨ True)
    (hb : argsIgn D b = true) (ho : origin a = origin b) (hfix : ∀ hs, a = .tupleFixed hs → False) :
    brLe D le eq a b = .ok true := by
  cases a with
  | any => simp [isAny] at ha
  | union _ => simp [isUnionLike] at hua
  | typevar _ => simp [isUnionLike] at hua
  | literal _ => simp [isLiteral] at hla
  | annotated h m => exact absurd rfl (hna h m)
  | tupleFixed hs => exact (hfix hs rfl).elim
  | cls c => have e : c = origin b := ho; simp [brLe, hb, ← e, hD.sub_refl]
  | cont k o h =>
    have hs : D.W.sub (origin (.cont k o h)) (origin b) = true := by rw [ho]; exact hD.sub_refl _
    simp [brLe, brBase, hs, hb]
  | mapping o k v =>
    have hs : D.W.sub (origin (.mapping o k v)) (origin b) = true := by rw [ho]; exact hD.sub_refl _
    simp [brLe, brBase, hs, hb]
  | tupleVar h =>
    have hs : D.W.sub (origin (.tupleVar h)) (origin b) = true := by rw [ho]; exact hD.sub_refl _
    simp [brLe, brBase, hs, hb]
  | callable o ell ps r => have e : o = origin b := ho; simp [brLe, hb, ← e, hD.sub_refl]

/-- two args-ignorable hints with the same proper origin are mutual subhints (one level suffices) -/
theorem le_of_argsIgn_origin (hD : D.Wf) {x y : DHint} (hk : instOf x x = true) (hx : argsIgn D x = true) (hy : argsIgn D y = true)
    (ho : origin x = origin y) (hp : origin x ≠ cObject) : leF D 1 x y = .ok true ∧ leF D 1 y x = .ok true := by
  have hxa : x.isAny = false := by cases x <;> simp_all [instOf, isAny]
  have hxu : x.isUnionLike = false := by cases x <;> simp_all [instOf, isUnionLike]
  have hxl : x.isLiteral = false := by cases x <;> simp_all [instOf, isLiteral]
  have hxn : ∀ h m, x ≠ .annotated h m := by intro h m e; subst e; simp [instOf] at hk
  have hxf : ∀ hs, x = .tupleFixed hs → False := by intro hs e; subst e; simp [instOf] at hk
  by_cases hya : y.isAny = true
  · cases y <;> simp_all [isAny, leF]
  have hya : y.isAny = false := by simpa using hya
  have hyu : y.isUnionLike = false := by
    cases y <;> simp_all [isUnionLike, origin]
  have hyl : y.isLiteral = false := by cases y <;> simp_all [isLiteral, argsIgn]
  have hyn : ∀ h m, y ≠ .annotated h m := by intro h m e; subst e; simp [argsIgn] at hy
  have hyf : ∀ hs, y = .tupleFixed hs → False := by intro hs e; subst e; simp [argsIgn] at hy
  constructor
  · rw [leF_one D hxa hxu hxl hya hyu]
    exact brLe_to_argsIgn D hD hxa hxu hxl hxn (fun _ => Or.inr trivial) hy ho hxf
  · rw [leF_one D hya hyu hyl hxa hxu]
    exact brLe_to_argsIgn D hD hya hyu hyl hyn (fun _ => Or.inr trivial) hx ho.symm hyf

theorem brBase_struct_true {le : DHint → DHint → R} {a b : DHint} (hs : D.W.sub (origin a) (origin b) = true)
    (hi : instOf b a = true) (hl : (children a).length = (children b).length)
    (hz : zipAllE le (children a) (children b) = .ok true) : brBase D le a b = .ok true := by
  unfold brBase
  simp only [hs, Bool.not_true, Bool.false_eq_true, ↓reduceIte, hi, hl, bne_self_eq_false, hz]
  split <;> rfl

theorem mem_zip_swap : ∀ (as bs : List DHint) (p : DHint × DHint), p ∈ bs.zip as → (p.2, p.1) ∈ as.zip bs
  | [], bs, p, h => by simp at h
  | _ :: _, [], p, h => by simp at h
  | a :: as, b :: bs, p, h => by
    simp only [List.zip_cons_cons, List.mem_cons] at h ⊢
    rcases h with e | e
    · subst e; exact Or.inl rfl
    · exact Or.inr (mem_zip_swap as bs p e)

theorem sameSign_facts {x y : DHint} (h : sameSign x y = true) :
    instOf x x = true ∧ instOf y y = true ∧ instOf y x = true ∧ instOf x y = true ∧ origin x = origin y := by
  cases x <;> cases y <;> simp_all [sameSign, instOf, origin]

theorem sub_kind_facts {x : DHint} (h : instOf x x = true) :
    x.isAny = false ∧ x.isUnionLike = false ∧ x.isLiteral = false ∧
    ∀ (le eq : DHint → DHint → R) (c : DHint), brLe D le eq x c = brBase D le x c := by
  cases x <;> simp_all [instOf, isAny, isUnionLike, isLiteral, brLe]

/-- the `SubscriptedTypeHint._is_equal` case of `eq_imp_le` -/
theorem eq_sub_case (hD : D.Wf) {k : Nat} {x y : DHint} (hk : instOf x x = true) (ho : origin x ≠ cObject)
    (hb : (if (argsIgn D x && argsIgn D y) = true then (.ok (origin x == origin y) : R)
         else if (!sameSign x y || (children x).length != (children y).length) = true then .ok false
         else zipAllE (eqF D k) (children x) (children y)) = .ok true)
    (ih : sameSign x y = true → ∀ p ∈ (children x).zip (children y), eqF D k p.1 p.2 = .ok true →
      ∃ m, leF D m p.1 p.2 = .ok true ∧ leF D m p.2 p.1 = .ok true) :
    ∃ m, leF D m x y = .ok true ∧ leF D m y x = .ok true := by
  split at hb
  · rename_i hig
    simp only [Bool.and_eq_true] at hig
    exact ⟨1, le_of_argsIgn_origin D hD hk hig.1 hig.2 (by simpa using hb) ho⟩
  split at hb
  · cases hb
  rename_i hss
  simp only [Bool.or_eq_true, Bool.not_eq_true', bne_iff_ne, ne_eq, not_or, Bool.not_eq_false, Decidable.not_not] at hss
  obtain ⟨hsign, hlen⟩ := hss
  rw [zipAllE_true hlen] at hb
  replace ih := ih hsign
  -- a common fuel for all children
  have hall : ∃ m, ∀ p ∈ (children x).zip (children y), leF D m p.1 p.2 = .ok true ∧ leF D m p.2 p.1 = .ok true := by
    generalize (children x).zip (children y) = ps at hb ih
    induction ps with
    | nil => exact ⟨0, by simp⟩
    | cons p ps ihp =>
      obtain ⟨m1, h1⟩ := ih p (by simp) (hb p (by simp))
      obtain ⟨m2, h2⟩ := ihp (fun q hq => hb q (by simp [hq])) (fun q hq => ih q (by simp [hq]))
      refine ⟨max m1 m2, ?_⟩
      intro q hq
      rcases List.mem_cons.mp hq with e | e
      · subst e
        exact ⟨leF_up D (Nat.le_max_left _ _) h1.1, leF_up D (Nat.le_max_left _ _) h1.2⟩
      · exact ⟨leF_up D (Nat.le_max_right _ _) (h2 q e).1, leF_up D (Nat.le_max_right _ _) (h2 q e).2⟩
  obtain ⟨m, hm⟩ := hall
  obtain ⟨_, hky, hyx, hxy, hoo⟩ := sameSign_facts hsign
  obtain ⟨hxa, hxu, hxl, hbx⟩ := sub_kind_facts D hk
  obtain ⟨hya, hyu, hyl, hby⟩ := sub_kind_facts D hky
  refine ⟨m + 1, ?_, ?_⟩
  · rw [leF_one D hxa hxu hxl hya hyu, hbx]
    refine brBase_struct_true D (by rw [hoo]; exact hD.sub_refl _) hyx hlen ?_
    rw [zipAllE_true hlen]
    exact fun p hp => (hm p hp).1
  · rw [leF_one D hya hyu hyl hxa hxu, hby]
    refine brBase_struct_true D (by rw [hoo]; exact hD.sub_refl _) hxy hlen.symm ?_
    rw [zipAllE_true hlen.symm]
    intro p hp
    exact (hm _ (mem_zip_swap _ _ p hp)).2

/-- **`==` implies mutual `is_subhint`** (at some fuel, hence at every deciding fuel) -/
theorem eq_imp_le (hD : D.Wf) : ∀ (k : Nat) (x y : DHint), x.Proper → eqF D k x y = .ok true →
    ∃ m, leF D m x y = .ok true ∧ leF D m y x = .ok true
  | 0, _, _, _, h => by simp [eqF] at h
  | k + 1, x, y, hp, h => by
    have base : andE (leF D k x y) (leF D k y x) = .ok true → ∃ m, leF D m x y = .ok true ∧ leF D m y x = .ok true :=
      fun hb => ⟨k, andE_true.mp hb⟩
    cases x with
    | cont kk o hx =>
      simp only [DHint.Proper] at hp
      refine eq_sub_case D hD rfl (by simpa [origin] using hp.1) (by simpa [eqF, eqBody] using h) ?_
      intro hs p hpm he
      cases y with
      | cont kk' o' hy =>
        simp only [children, List.zip_cons_cons, List.zip_nil_right, List.mem_cons, List.not_mem_nil, or_false] at hpm
        subst hpm; exact eq_imp_le hD k _ _ hp.2 he
      | _ => simp [sameSign] at hs
    | tupleVar hx =>
      simp only [DHint.Proper] at hp
      refine eq_sub_case D hD rfl (by simp [origin, cTuple, cObject]) (by simpa [eqF, eqBody] using h) ?_
      intro hs p hpm he
      cases y with
      | tupleVar hy =>
        simp only [children, List.zip_cons_cons, List.zip_nil_right, List.mem_cons, List.not_mem_nil, or_false] at hpm
        subst hpm; exact eq_imp_le hD k _ _ hp he
      | _ => simp [sameSign] at hs
    | mapping o kx vx =>
      simp only [DHint.Proper] at hp
      refine eq_sub_case D hD rfl (by simpa [origin] using hp.1) (by simpa [eqF, eqBody] using h) ?_
      intro hs p hpm he
      cases y with
      | mapping o' ky vy =>
        simp only [children, List.zip_cons_cons, List.zip_nil_right, List.mem_cons, List.not_mem_nil, or_false] at hpm
        rcases hpm with e | e
        · subst e; exact eq_imp_le hD k _ _ hp.2.1 he
        · subst e; exact eq_imp_le hD k _ _ hp.2.2 he
      | _ => simp [sameSign] at hs
    | annotated hx md =>
      simp only [DHint.Proper] at hp
      cases y with
      | annotated hy md' =>
        simp only [eqF, eqBody, andE_true, Except.ok.injEq, beq_iff_eq] at h
        obtain ⟨m, h1, h2⟩ := eq_imp_le hD k hx hy hp h.1
        refine ⟨m + 1, ?_, ?_⟩
        · rw [leF_one D rfl rfl rfl rfl rfl]; simp [brLe, guardE, h1, h.2]
        · rw [leF_one D rfl rfl rfl rfl rfl]; simp [brLe, guardE, h2, h.2]
      | _ => simp [eqF, eqBody] at h
    | any => exact base (by simpa [eqF, eqBody] using h)
    | cls _ => exact base (by simpa [eqF, eqBody] using h)
    | union _ => exact base (by simpa [eqF, eqBody] using h)
    | typevar _ => exact base (by simpa [eqF, eqBody] using h)
    | literal _ => exact base (by simpa [eqF, eqBody] using h)
    | tupleFixed _ => exact base (by simpa [eqF, eqBody] using h)
    | callable _ _ _ _ => exact base (by simpa [eqF, eqBody] using h)

/-! ### antisymmetry on rigid hints: equal wrappers wrap the same hint -/

theorem brBase_true_inv {le : DHint → DHint → R} {a b : DHint} (h : brBase D le a b = .ok true) (hb : argsIgn D b = false) :
    D.W.sub (origin a) (origin b) = true ∧ instOf b a = true ∧ (children a).length = (children b).length ∧
      zipAllE le (children a) (children b) = .ok true := by
  unfold brBase at h
  split at h
  · cases h
  rename_i hs
  simp only [hb, Bool.false_eq_true, ↓reduceIte] at h
  split at h
  · cases h
  rename_i hi
  split at h
  · cases h
  rename_i hl
  exact ⟨by simpa using hs, by simpa using hi, by simpa using hl, h⟩

theorem rigid_facts {a : DHint} (h : a.Rigid D) :
    a.isAny = false ∧ a.isUnionLike = false ∧ a.isLiteral = false := by
  cases a <;> simp_all [DHint.Rigid, isAny, isUnionLike, isLiteral]

theorem antisym_rigid (hD : D.Wf) (anti : ∀ c d, D.W.sub c d = true → D.W.sub d c = true → c = d) :
    ∀ (m : Nat) (a b : DHint), a.Rigid D → b.Rigid D → leF D m a b = .ok true → leF D m b a = .ok true → a.erase = b.erase
  | 0, _, _, _, _, h, _ => by simp [leF] at h
  | m + 1, a, b, ha, hb, h1, h2 => by
    obtain ⟨haa, hau, hal⟩ := rigid_facts D ha
    obtain ⟨hba, hbu, hbl⟩ := rigid_facts D hb
    rw [leF_one D haa hau hal hba hbu] at h1
    rw [leF_one D hba hbu hbl haa hau] at h2
    cases a with
    | cls c =>
      cases b with
      | cls d =>
        simp only [brLe, Except.ok.injEq, Bool.and_eq_true, origin] at h1 h2
        rw [anti c d h1.2 h2.2]
      | cont k o h => simp_all [brLe, argsIgn, children, ignAll, DHint.Rigid]
      | mapping o k v => simp_all [brLe, argsIgn, children, ignAll, DHint.Rigid]
      | tupleVar h => simp_all [brLe, argsIgn, children, ignAll, DHint.Rigid]
      | _ => simp [DHint.Rigid] at hb
    | cont k o h =>
      simp only [DHint.Rigid] at ha
      have hia : argsIgn D (.cont k o h) = false := by simp [argsIgn, children, ignAll, ha.2]
      cases b with
      | cls d => simp [brLe, hia] at h2
      | cont k' o' h' =>
        simp only [DHint.Rigid] at hb
        have hib : argsIgn D (.cont k' o' h') = false := by simp [argsIgn, children, ignAll, hb.2]
        obtain ⟨s1, _, _, z1⟩ := brBase_true_inv D (by simpa [brLe] using h1) hib
        obtain ⟨s2, _, _, z2⟩ := brBase_true_inv D (by simpa [brLe] using h2) hia
        simp only [children, zipAllE, andE_true, and_true, origin] at z1 z2 s1 s2
        simp only [DHint.erase]
        rw [anti o o' s1 s2, antisym_rigid hD anti m h h' ha.1 hb.1 z1 z2]
      | mapping o' k' v' =>
        simp only [DHint.Rigid] at hb
        have hib : argsIgn D (.mapping o' k' v') = false := by simpa [argsIgn, children, ignAll] using hb.2.2
        have := (brBase_true_inv D (by simpa [brLe] using h1) hib).2.2.1
        simp [children] at this
      | tupleVar h' =>
        have := (brBase_true_inv D (by simpa [brLe] using h2) hia).2.1
        simp [instOf] at this
      | _ => simp [DHint.Rigid] at hb
    | mapping o k v =>
      simp only [DHint.Rigid] at ha
      have hia : argsIgn D (.mapping o k v) = false := by simpa [argsIgn, children, ignAll] using ha.2.2
      cases b with
      | cls d => simp [brLe, hia] at h2
      | mapping o' k' v' =>
        simp only [DHint.Rigid] at hb
        have hib : argsIgn D (.mapping o' k' v') = false := by simpa [argsIgn, children, ignAll] using hb.2.2
        obtain ⟨s1, _, _, z1⟩ := brBase_true_inv D (by simpa [brLe] using h1) hib
        obtain ⟨s2, _, _, z2⟩ := brBase_true_inv D (by simpa [brLe] using h2) hia
        simp only [children, zipAllE, andE_true, and_true, origin] at z1 z2 s1 s2
        simp only [DHint.erase]
        rw [anti o o' s1 s2, antisym_rigid hD anti m k k' ha.1 hb.1 z1.1 z2.1,
          antisym_rigid hD anti m v v' ha.2.1 hb.2.1 z1.2 z2.2]
      | cont k' o' h' =>
        have := (brBase_true_inv D (by simpa [brLe] using h2) hia).2.2.1
        simp [children] at this
      | tupleVar h' =>
        have := (brBase_true_inv D (by simpa [brLe] using h2) hia).2.2.1
        simp [children] at this
      | _ => simp [DHint.Rigid] at hb
    | tupleVar h =>
      simp only [DHint.Rigid] at ha
      have hia : argsIgn D (.tupleVar h) = false := by simp [argsIgn, children, ignAll, ha.2]
      cases b with
      | cls d => simp [brLe, hia] at h2
      | tupleVar h' =>
        simp only [DHint.Rigid] at hb
        have hib : argsIgn D (.tupleVar h') = false := by simp [argsIgn, children, ignAll, hb.2]
        obtain ⟨_, _, _, z1⟩ := brBase_true_inv D (by simpa [brLe] using h1) hib
        obtain ⟨_, _, _, z2⟩ := brBase_true_inv D (by simpa [brLe] using h2) hia
        simp only [children, zipAllE, andE_true, and_true] at z1 z2
        simp only [DHint.erase]
        rw [antisym_rigid hD anti m h h' ha.1 hb.1 z1 z2]
      | cont k' o' h' =>
        simp only [DHint.Rigid] at hb
        have hib : argsIgn D (.cont k' o' h') = false := by simp [argsIgn, children, ignAll, hb.2]
        have := (brBase_true_inv D (by simpa [brLe] using h1) hib).2.1
        simp [instOf] at this
      | mapping o' k' v' =>
        simp only [DHint.Rigid] at hb
        have hib : argsIgn D (.mapping o' k' v') = false := by simpa [argsIgn, children, ignAll] using hb.2.2
        have := (brBase_true_inv D (by simpa [brLe] using h1) hib).2.1
        simp [instOf] at this
      | _ => simp [DHint.Rigid] at hb
    | _ => simp [DHint.Rigid] at ha

end BearVerif.Door
