import BearVerif.Core.Door
import BearVerif.Lemmas.BearCompile
/-!
  Helper lemmas for C19 (`Props/C19.lean`): the sequential combinators, the meaning of
  ignorable hints, soundness / reflexivity / transitivity of one level of `subBody`
  given the same law one fuel level below.
-/
namespace BearVerif.Door
open BearVerif.Bear DHint

/-! ### sequential combinators -/

theorem andE_true {x y : R} : andE x y = .ok true ↔ x = .ok true ∧ y = .ok true := by
  cases x with
  | error e => simp [andE]
  | ok b => cases b <;> simp [andE]

theorem andE_false {x y : R} : andE x y = .ok false ↔ x = .ok false ∨ (x = .ok true ∧ y = .ok false) := by
  cases x with
  | error e => simp [andE]
  | ok b => cases b <;> simp [andE]

theorem orE_true {x y : R} : orE x y = .ok true ↔ x = .ok true ∨ (x = .ok false ∧ y = .ok true) := by
  cases x with
  | error e => simp [orE]
  | ok b => cases b <;> simp [orE]

theorem orE_false {x y : R} : orE x y = .ok false ↔ x = .ok false ∧ y = .ok false := by
  cases x with
  | error e => simp [orE]
  | ok b => cases b <;> simp [orE]

theorem allE_true {α : Type} {l : List α} {f : α → R} : allE l f = .ok true ↔ ∀ x ∈ l, f x = .ok true := by
  induction l with
  | nil => simp [allE]
  | cons a l ih => simp [allE, andE_true, ih]

theorem allE_false {α : Type} {l : List α} {f : α → R} (h : allE l f = .ok false) : ∃ x ∈ l, f x = .ok false := by
  induction l with
  | nil => simp [allE] at h
  | cons a l ih =>
    simp only [allE, andE_false] at h
    rcases h with h | ⟨_, h⟩
    · exact ⟨a, by simp, h⟩
    · obtain ⟨x, hx, hf⟩ := ih h
      exact ⟨x, by simp [hx], hf⟩

theorem anyE_false {α : Type} {l : List α} {f : α → R} : anyE l f = .ok false ↔ ∀ x ∈ l, f x = .ok false := by
  induction l with
  | nil => simp [anyE]
  | cons a l ih => simp [anyE, orE_false, ih]

theorem anyE_true {α : Type} {l : List α} {f : α → R} (h : anyE l f = .ok true) : ∃ x ∈ l, f x = .ok true := by
  induction l with
  | nil => simp [anyE] at h
  | cons a l ih =>
    simp only [anyE, orE_true] at h
    rcases h with h | ⟨_, h⟩
    · exact ⟨a, by simp, h⟩
    · obtain ⟨x, hx, hf⟩ := ih h
      exact ⟨x, by simp [hx], hf⟩

theorem anyE_single {α : Type} (a : α) (f : α → R) : anyE [a] f = f a := by
  simp only [anyE, orE]
  cases f a with
  | error e => rfl
  | ok b => cases b <;> rfl

theorem allE_single {α : Type} (a : α) (f : α → R) : allE [a] f = f a := by
  simp only [allE, andE]
  cases f a with
  | error e => rfl
  | ok b => cases b <;> rfl

/-- `zip` over lists of equal length: all pairs -/
theorem zipAllE_true {f : DHint → DHint → R} : ∀ {as bs : List DHint}, as.length = bs.length →
    (zipAllE f as bs = .ok true ↔ ∀ p ∈ as.zip bs, f p.1 p.2 = .ok true)
  | [], [], _ => by simp [zipAllE]
  | a :: as, b :: bs, h => by
    have h' : as.length = bs.length := by simpa using h
    simp [zipAllE, andE_true, zipAllE_true h']
  | [], _ :: _, h => by simp at h
  | _ :: _, [], h => by simp at h

theorem zipAllE_false {f : DHint → DHint → R} : ∀ {as bs : List DHint}, zipAllE f as bs = .ok false →
    ∃ p ∈ as.zip bs, f p.1 p.2 = .ok false
  | [], _, h => by simp [zipAllE] at h
  | _ :: _, [], h => by simp [zipAllE] at h
  | a :: as, b :: bs, h => by
    simp only [zipAllE, andE_false] at h
    rcases h with h | ⟨_, h⟩
    · exact ⟨(a, b), by simp, h⟩
    · obtain ⟨p, hp, hf⟩ := zipAllE_false h
      exact ⟨p, by simp [hp], hf⟩

theorem zipAnyE_true {f : DHint → DHint → R} : ∀ {as bs : List DHint}, zipAnyE f as bs = .ok true →
    ∃ p ∈ as.zip bs, f p.1 p.2 = .ok true
  | [], _, h => by simp [zipAnyE] at h
  | _ :: _, [], h => by simp [zipAnyE] at h
  | a :: as, b :: bs, h => by
    simp only [zipAnyE, orE_true] at h
    rcases h with h | ⟨_, h⟩
    · exact ⟨(a, b), by simp, h⟩
    · obtain ⟨p, hp, hf⟩ := zipAnyE_true h
      exact ⟨p, by simp [hp], hf⟩

/-! ### meaning -/

variable (D : DWorld)

/-- `x` is an instance of class `o` (a NewType's fabricated class stands for its alias) -/
def inst (x : Obj) (o : Nat) : Bool := D.W.sub x.cls ((D.ntParent o).getD o)

theorem dsat_cls (c : Nat) (x : Obj) : dsat D (.cls c) x = inst D x c := by
  simp [dsat, toHint, sat, inst]

theorem inst_mono (hD : D.Wf) {x : Obj} {c d : Nat} (hi : inst D x c = true) (hs : D.W.sub c d = true) :
    inst D x d = true := by
  unfold inst at *
  cases hc : D.ntParent c with
  | none =>
    cases hd : D.ntParent d with
    | none => simp only [hc, Option.getD_none] at hi ⊢; exact hD.sub_trans _ _ _ hi hs
    | some q =>
      have := hD.nt_leaf d q hd c hs
      subst this
      rw [hc] at hd; cases hd
  | some p =>
    cases hd : D.ntParent d with
    | none =>
      simp only [hc, Option.getD_none, Option.getD_some] at hi ⊢
      have h1 := hD.nt_sub c p hc d
      rw [hs] at h1
      have : d ≠ c := by intro e; subst e; rw [hc] at hd; cases hd
      have h2 : D.W.sub p d = true := by simpa [this] using h1.symm
      exact hD.sub_trans _ _ _ hi h2
    | some q =>
      have := hD.nt_leaf d q hd c hs
      subst this
      rw [hc] at hd; cases hd
      simpa [hc] using hi

theorem inst_plain {x : Obj} {o : Nat} (h : D.ntParent o = none) : inst D x o = D.W.sub x.cls o := by
  simp [inst, h]

theorem semAll_mem : ∀ {hs : List DHint}, SemAll D hs → ∀ h ∈ hs, h.Sem D
  | [], _, h, hm => by cases hm
  | a :: as, hs, h, hm => by
    simp only [SemAll] at hs
    rcases List.mem_cons.mp hm with e | e
    · subst e; exact hs.1
    · exact semAll_mem hs.2 h e

theorem satAny_toHints (x : Obj) : ∀ (hs : List DHint), satAny D.W (toHints D hs) x = true ↔ ∃ h ∈ hs, dsat D h x = true
  | [] => by simp [toHints, satAny]
  | a :: as => by simp [toHints, satAny, satAny_toHints x as, dsat]

theorem dsat_union (hs : List DHint) (x : Obj) : dsat D (.union hs) x = satAny D.W (toHints D hs) x := by
  simp [dsat, toHint, sat]
theorem dsat_typevar (hs : List DHint) (x : Obj) : dsat D (.typevar hs) x = satAny D.W (toHints D hs) x := by
  simp [dsat, toHint, sat]

mutual
theorem ignS_sat (hD : D.Wf) : ∀ (h : DHint), h.Sem D → ignS D h = true → ∀ x, dsat D h x = true
  | .any, hs, _, _ => by simp [DHint.Sem] at hs
  | .cls c, _, hi, x => by
    rw [dsat_cls]
    simp only [ignS, Bool.or_eq_true, beq_iff_eq] at hi
    rcases hi with e | e
    · subst e; simp [inst, hD.nt_obj, hD.obj_top]
    · simp [inst, e, hD.obj_top]
  | .union hs, hs', hi, x => by
    rw [dsat_union]
    simp only [DHint.Sem] at hs'
    simp only [ignS] at hi
    exact ignSAny_sat hD hs hs'.2 hi x
  | .typevar hs, hs', hi, x => by
    rw [dsat_typevar]
    simp only [DHint.Sem] at hs'
    simp only [ignS] at hi
    exact ignSAny_sat hD hs hs'.2 hi x
  | .annotated h _, hs, hi, x => by
    simp only [DHint.Sem] at hs
    simp only [ignS] at hi
    have := ignS_sat hD h hs hi x
    simpa [dsat, toHint] using this
  | .literal _, _, hi, _ => by simp [ignS] at hi
  | .tupleFixed _, _, hi, _ => by simp [ignS] at hi
  | .tupleVar _, _, hi, _ => by simp [ignS] at hi
  | .cont _ _ _, _, hi, _ => by simp [ignS] at hi
  | .mapping _ _ _, _, hi, _ => by simp [ignS] at hi
  | .callable _ _ _ _, _, hi, _ => by simp [ignS] at hi
theorem ignSAny_sat (hD : D.Wf) : ∀ (hs : List DHint), SemAll D hs → ignSAny D hs = true → ∀ x, satAny D.W (toHints D hs) x = true
  | [], _, hi, _ => by simp [ignSAny] at hi
  | h :: hs, hs', hi, x => by
    simp only [SemAll] at hs'
    simp only [ignSAny, Bool.or_eq_true] at hi
    simp only [toHints, satAny, Bool.or_eq_true]
    rcases hi with hi | hi
    · left; exact ignS_sat hD h hs'.1 hi x
    · right; exact ignSAny_sat hD hs hs'.2 hi x
end

theorem ign_nontv {h : DHint} (hn : ∀ hs, h ≠ .typevar hs) : ign D h = ignS D h := by
  cases h <;> simp_all [ign]

mutual
theorem ign_sat (hD : D.Wf) : ∀ (h : DHint), h.Sem D → ign D h = true → ∀ x, dsat D h x = true
  | .typevar hs, hs', hi, x => by
    rw [dsat_typevar]
    simp only [DHint.Sem] at hs'
    simp only [ign] at hi
    exact ignAll_sat hD hs hs'.1 hs'.2 hi x
  | .any, hs, hi, x => ignS_sat D hD _ hs (by simpa [ign] using hi) x
  | .cls _, hs, hi, x => ignS_sat D hD _ hs (by simpa [ign] using hi) x
  | .union _, hs, hi, x => ignS_sat D hD _ hs (by simpa [ign] using hi) x
  | .annotated _ _, hs, hi, x => ignS_sat D hD _ hs (by simpa [ign] using hi) x
  | .literal _, hs, hi, x => ignS_sat D hD _ hs (by simpa [ign] using hi) x
  | .tupleFixed _, hs, hi, x => ignS_sat D hD _ hs (by simpa [ign] using hi) x
  | .tupleVar _, hs, hi, x => ignS_sat D hD _ hs (by simpa [ign] using hi) x
  | .cont _ _ _, hs, hi, x => ignS_sat D hD _ hs (by simpa [ign] using hi) x
  | .mapping _ _ _, hs, hi, x => ignS_sat D hD _ hs (by simpa [ign] using hi) x
  | .callable _ _ _ _, hs, hi, x => ignS_sat D hD _ hs (by simpa [ign] using hi) x
theorem ignAll_sat (hD : D.Wf) : ∀ (hs : List DHint), hs ≠ [] → SemAll D hs → ignAll D hs = true → ∀ x, satAny D.W (toHints D hs) x = true
  | [], hne, _, _, _ => by simp at hne
  | h :: hs, _, hs', hi, x => by
    simp only [SemAll] at hs'
    simp only [ignAll, Bool.and_eq_true] at hi
    simp only [toHints, satAny, Bool.or_eq_true]
    left; exact ign_sat hD h hs'.1 hi.1 x
end

theorem wf_mapping_len {x : Obj} (hx : x.wf D.W = true) (hm : D.W.mapping x.cls = true) :
    x.vals.length = x.items.length := by
  cases x with
  | mk c a items vals attrs =>
    simp only [Obj.wf, Bool.and_eq_true, Bool.or_eq_true, Bool.not_eq_true', beq_iff_eq] at hx
    simp only [Obj.cls] at hm
    simp only [Obj.vals, Obj.items]
    rcases hx.1.1.1.1 with h | h
    · rw [hm] at h; cases h
    · exact h

/-- **head lemma**: a branch whose arguments are all ignorable means "instance of its origin" -/
theorem head_sound (hD : D.Wf) : ∀ (bj : DHint), bj.Sem D → argsIgn D bj = true → ∀ x, x.wf D.W = true →
    inst D x (origin bj) = true → dsat D bj x = true
  | .any, hs, _, _, _, _ => by simp [DHint.Sem] at hs
  | .cls c, _, _, x, _, hi => by rw [dsat_cls]; exact hi
  | .union hs, hs', ha, x, _, _ => by
    rw [dsat_union]
    simp only [DHint.Sem] at hs'
    exact ignAll_sat D hD hs hs'.1 hs'.2 (by simpa [argsIgn, children] using ha) x
  | .typevar hs, hs', ha, x, _, _ => by
    rw [dsat_typevar]
    simp only [DHint.Sem] at hs'
    exact ignAll_sat D hD hs hs'.1 hs'.2 (by simpa [argsIgn, children] using ha) x
  | .literal _, _, ha, _, _, _ => by simp [argsIgn] at ha
  | .annotated _ _, _, ha, _, _, _ => by simp [argsIgn] at ha
  | .tupleFixed _, _, ha, _, _, _ => by simp [argsIgn] at ha
  | .tupleVar h, hs, ha, x, _, hi => by
    simp only [DHint.Sem] at hs
    simp only [argsIgn, children, ignAll, Bool.and_true] at ha
    simp only [origin, inst_plain D hD.nt_tuple] at hi
    simp only [dsat, toHint, sat, hi, Bool.true_and, List.all_eq_true]
    intro y _
    exact ign_sat D hD h hs ha y
  | .cont k o h, hs, ha, x, _, hi => by
    simp only [DHint.Sem] at hs
    simp only [argsIgn, children, ignAll, Bool.and_true] at ha
    simp only [origin, inst_plain D hs.2.1] at hi
    have hall : x.items.all (fun y => sat D.W (toHint D h) y) = true := by
      simp only [List.all_eq_true]; intro y _; exact ign_sat D hD h hs.1 ha y
    cases k <;> simp [dsat, toHint, sat, hi, hall]
  | .mapping o k v, hs, ha, x, hx, hi => by
    simp only [DHint.Sem] at hs
    simp only [argsIgn, children, ignAll, Bool.and_true, Bool.and_eq_true] at ha
    simp only [origin, inst_plain D hs.2.2.1] at hi
    have hlen := wf_mapping_len D hx (hs.2.2.2 _ hi)
    have h1 : x.items.all (fun y => sat D.W (toHint D k) y) = true := by
      simp only [List.all_eq_true]; intro y _; exact ign_sat D hD k hs.1 ha.1 y
    have h2 : x.vals.all (fun y => sat D.W (toHint D v) y) = true := by
      simp only [List.all_eq_true]; intro y _; exact ign_sat D hD v hs.2.1 ha.2 y
    simp [dsat, toHint, sat, hi, hlen, h1, h2]
  | .callable _ _ _ _, hs, _, _, _, _ => by simp [DHint.Sem] at hs

/-! ### soundness of one level -/

/-- `le` answers `True` only for pairs whose meanings are included -/
def SoundRel (le : DHint → DHint → R) : Prop :=
  ∀ a b, a.Sem D → b.Sem D → le a b = .ok true → ∀ x, x.wf D.W = true → dsat D a x = true → dsat D b x = true

theorem sem_branch {b bj : DHint} (hb : b.Sem D) (hm : bj ∈ branches b) : bj.Sem D := by
  cases b <;> simp only [branches, List.mem_singleton] at hm <;> try (subst hm; exact hb)
  · simp only [DHint.Sem] at hb; exact semAll_mem D hb.2 _ hm
  · simp only [DHint.Sem] at hb; exact semAll_mem D hb.2 _ hm

theorem dsat_of_branch {b bj : DHint} {x : Obj} (hm : bj ∈ branches b) (hs : dsat D bj x = true) : dsat D b x = true := by
  cases b <;> simp only [branches, List.mem_singleton] at hm <;> try (subst hm; exact hs)
  · rw [dsat_union, satAny_toHints]; exact ⟨bj, hm, hs⟩
  · rw [dsat_typevar, satAny_toHints]; exact ⟨bj, hm, hs⟩

/-- the items part of a one-argument container's meaning -/
def contItems (k : CKind) (h : DHint) (x : Obj) : Bool :=
  match k with
  | .quasi => !D.W.sub x.cls cCollection || x.items.all (fun y => dsat D h y)
  | _ => x.items.all (fun y => dsat D h y)

theorem dsat_cont (k : CKind) (o : Nat) (h : DHint) (x : Obj) :
    dsat D (.cont k o h) x = (D.W.sub x.cls o && contItems D k h x) := by
  cases k <;> simp [dsat, toHint, sat, contItems]

theorem dsat_tupleVar (h : DHint) (x : Obj) :
    dsat D (.tupleVar h) x = (D.W.sub x.cls cTuple && x.items.all (fun y => dsat D h y)) := by
  simp [dsat, toHint, sat]

theorem dsat_tupleFixed (hs : List DHint) (x : Obj) :
    dsat D (.tupleFixed hs) x = (D.W.sub x.cls cTuple && satZip D.W (toHints D hs) x.items) := by
  simp [dsat, toHint, sat]

theorem dsat_mapping (o : Nat) (k v : DHint) (x : Obj) :
    dsat D (.mapping o k v) x = (D.W.sub x.cls o && x.vals.length == x.items.length &&
      x.items.all (fun y => dsat D k y) && x.vals.all (fun y => dsat D v y)) := by
  simp [dsat, toHint, sat]

theorem dsat_annotated (h : DHint) (md : List Nat) (x : Obj) : dsat D (.annotated h md) x = dsat D h x := by
  simp [dsat, toHint]

theorem dsat_literal (ms : List (Nat × Atom)) (x : Obj) :
    dsat D (.literal ms) x = ms.any (fun l => x.cls == l.1 && x.atom == l.2) := by
  simp [dsat, toHint, sat]

theorem all_sound {h h' : DHint} {ys : List Obj} (hw : wfList D.W ys = true)
    (himp : ∀ y, y.wf D.W = true → dsat D h y = true → dsat D h' y = true)
    (ha : ys.all (fun y => dsat D h y) = true) : ys.all (fun y => dsat D h' y) = true := by
  simp only [List.all_eq_true] at ha ⊢
  intro y hy
  exact himp y (wfList_mem hw y hy) (ha y hy)

/-- fixed tuple against variadic tuple -/
theorem satZip_all {hh : DHint} : ∀ (as : List DHint) (ys : List Obj), wfList D.W ys = true →
    (∀ a ∈ as, ∀ y, y.wf D.W = true → dsat D a y = true → dsat D hh y = true) →
    satZip D.W (toHints D as) ys = true → ys.all (fun y => dsat D hh y) = true
  | [], [], _, _, _ => by simp
  | [], _ :: _, _, _, h => by simp [toHints, satZip] at h
  | _ :: _, [], _, _, _ => by simp
  | a :: as, y :: ys, hw, himp, h => by
    simp only [wfList, Bool.and_eq_true] at hw
    simp only [toHints, satZip, Bool.and_eq_true] at h
    simp only [List.all_cons, Bool.and_eq_true]
    exact ⟨himp a (by simp) y hw.1 h.1, satZip_all as ys hw.2 (fun a' ha' => himp a' (by simp [ha'])) h.2⟩

/-- fixed tuple against fixed tuple -/
theorem satZip_zip : ∀ (as bs : List DHint) (ys : List Obj), as.length = bs.length → wfList D.W ys = true →
    (∀ p ∈ as.zip bs, ∀ y, y.wf D.W = true → dsat D p.1 y = true → dsat D p.2 y = true) →
    satZip D.W (toHints D as) ys = true → satZip D.W (toHints D bs) ys = true
  | [], [], ys, _, _, _, h => by simpa [toHints] using h
  | [], _ :: _, _, hl, _, _, _ => by simp at hl
  | _ :: _, [], _, hl, _, _, _ => by simp at hl
  | a :: as, b :: bs, [], _, _, _, h => by simp [toHints, satZip] at h
  | a :: as, b :: bs, y :: ys, hl, hw, himp, h => by
    simp only [wfList, Bool.and_eq_true] at hw
    simp only [toHints, satZip, Bool.and_eq_true] at h ⊢
    exact ⟨himp (a, b) (by simp) y hw.1 h.1,
      satZip_zip as bs ys (by simpa using hl) hw.2 (fun p hp => himp p (by simp [hp])) h.2⟩

theorem litSubset_sound {ms ms' : List (Nat × Atom)} (h : litSubset ms ms' = true) (x : Obj)
    (hs : dsat D (.literal ms) x = true) : dsat D (.literal ms') x = true := by
  rw [dsat_literal] at hs ⊢
  simp only [List.any_eq_true, Bool.and_eq_true, beq_iff_eq] at hs ⊢
  obtain ⟨m, hm, h1, h2⟩ := hs
  simp only [litSubset, List.all_eq_true, litIn, List.any_eq_true, Bool.and_eq_true, beq_iff_eq] at h
  obtain ⟨m', hm', e1, e2⟩ := h m hm
  exact ⟨m', hm', by rw [h1, e1], by rw [h2, e2]⟩

/-- the base `_is_subhint_branch` is sound for the subscripted wrappers -/
theorem brBase_sound (hD : D.Wf) (le : DHint → DHint → R) (hle : SoundRel D le) (a bj : DHint)
    (ha : a.Sem D) (hb : bj.Sem D) (hk : instOf a a = true ∨ a.isLiteral = true)
    (h : brBase D le a bj = .ok true) (x : Obj) (hx : x.wf D.W = true)
    (hi : inst D x (origin a) = true) (hs : dsat D a x = true) : dsat D bj x = true := by
  unfold brBase at h
  split at h
  · cases h
  rename_i hsub
  simp only [Bool.not_eq_true', Bool.not_eq_false] at hsub
  have hsub : D.W.sub (origin a) (origin bj) = true := by simpa using hsub
  split at h
  · rename_i hig
    exact head_sound D hD bj hb hig x hx (inst_mono D hD hi hsub)
  split at h
  · cases h
  rename_i hinst
  have hinst : instOf bj a = true := by simpa using hinst
  split at h
  · cases h
  rename_i hlen
  have hlen : (children a).length = (children bj).length := by simpa using hlen
  -- structural comparison
  cases a with
  | cont k o ha' =>
    simp only [DHint.Sem] at ha
    rw [dsat_cont, Bool.and_eq_true] at hs
    cases bj with
    | cont k' o' hb' =>
      simp only [DHint.Sem] at hb
      simp only [children, zipAllE, andE_true, and_true] at h
      simp only [origin] at hsub
      have hso : D.W.sub x.cls o' = true := hD.sub_trans _ _ _ hs.1 hsub
      rw [dsat_cont, Bool.and_eq_true]
      refine ⟨hso, ?_⟩
      have himp := fun y hy => hle ha' hb' ha.1 hb.1 h y hy
      have hitems : ∀ (hall : x.items.all (fun y => dsat D ha' y) = true), x.items.all (fun y => dsat D hb' y) = true :=
        fun hall => all_sound D (Obj.wf_items hx) himp hall
      have hcoll : k' = .quasi ∨ D.W.sub x.cls cCollection = true := by
        rcases hb.2.2 with e | e
        · exact Or.inl e
        · exact Or.inr (e _ hso)
      cases k <;> cases k' <;> simp only [contItems, Bool.or_eq_true, Bool.not_eq_true'] at hs ⊢
      all_goals first
        | exact hitems hs.2
        | exact Or.inr (hitems hs.2)
        | (rcases hs.2 with e | e
           · first
             | exact Or.inl e
             | (rcases hcoll with e' | e'
                · cases e'
                · rw [e'] at e; cases e)
           · first
             | exact Or.inr (hitems e)
             | exact hitems e)
    | mapping o' k' v' => simp [children] at hlen
    | tupleVar hb' =>
      simp only [DHint.Sem] at hb
      simp only [children, zipAllE, andE_true, and_true] at h
      simp only [origin] at hsub
      have hso : D.W.sub x.cls cTuple = true := hD.sub_trans _ _ _ hs.1 hsub
      rw [dsat_tupleVar, Bool.and_eq_true]
      refine ⟨hso, ?_⟩
      have himp := fun y hy => hle ha' hb' ha.1 hb h y hy
      have hcoll := hD.tuple_coll _ hso
      cases k <;> simp only [contItems, Bool.or_eq_true, Bool.not_eq_true'] at hs
      · exact all_sound D (Obj.wf_items hx) himp hs.2
      · exact all_sound D (Obj.wf_items hx) himp hs.2
      · rcases hs.2 with e | e
        · rw [hcoll] at e; cases e
        · exact all_sound D (Obj.wf_items hx) himp e
    | _ => simp [instOf] at hinst
  | mapping o ka va =>
    simp only [DHint.Sem] at ha
    rw [dsat_mapping] at hs
    simp only [Bool.and_eq_true, beq_iff_eq] at hs
    cases bj with
    | cont k' o' hb' => simp [children] at hlen
    | tupleVar hb' => simp [children] at hlen
    | mapping o' kb vb =>
      simp only [DHint.Sem] at hb
      simp only [children, zipAllE, andE_true, and_true] at h
      simp only [origin] at hsub
      rw [dsat_mapping]
      simp only [Bool.and_eq_true, beq_iff_eq]
      refine ⟨⟨⟨hD.sub_trans _ _ _ hs.1.1.1 hsub, hs.1.1.2⟩, ?_⟩, ?_⟩
      · exact all_sound D (Obj.wf_items hx) (fun y hy => hle ka kb ha.1 hb.1 h.1 y hy) hs.1.2
      · exact all_sound D (Obj.wf_vals hx) (fun y hy => hle va vb ha.2.1 hb.2.1 h.2 y hy) hs.2
    | _ => simp [instOf] at hinst
  | tupleVar ha' =>
    simp only [DHint.Sem] at ha
    rw [dsat_tupleVar, Bool.and_eq_true] at hs
    cases bj with
    | tupleVar hb' =>
      simp only [DHint.Sem] at hb
      simp only [children, zipAllE, andE_true, and_true] at h
      rw [dsat_tupleVar, Bool.and_eq_true]
      exact ⟨hs.1, all_sound D (Obj.wf_items hx) (fun y hy => hle ha' hb' ha hb h y hy) hs.2⟩
    | _ => simp [instOf] at hinst
  | literal ms => cases bj <;> simp [instOf] at hinst
  | _ => rcases hk with hk | hk <;> simp [instOf, isLiteral] at hk

/-- `self._is_subhint_branch(branch)` is sound for every wrapper class -/
theorem brLe_sound (hD : D.Wf) (le eq : DHint → DHint → R) (hle : SoundRel D le) (a bj : DHint)
    (ha : a.Sem D) (hb : bj.Sem D) (h : brLe D le eq a bj = .ok true) (x : Obj) (hx : x.wf D.W = true)
    (hs : dsat D a x = true) : dsat D bj x = true := by
  cases a with
  | any => simp [DHint.Sem] at ha
  | callable _ _ _ _ => simp [DHint.Sem] at ha
  | union _ => simp [brLe] at h
  | typevar _ => simp [brLe] at h
  | cls c =>
    simp only [brLe, Except.ok.injEq, Bool.and_eq_true] at h
    rw [dsat_cls] at hs
    exact head_sound D hD bj hb h.1 x hx (inst_mono D hD hs h.2)
  | cont k o h' =>
    have hi : inst D x (origin (.cont k o h')) = true := by
      simp only [DHint.Sem] at ha
      rw [dsat_cont, Bool.and_eq_true] at hs
      simpa [origin, inst_plain D ha.2.1] using hs.1
    exact brBase_sound D hD le hle _ bj ha hb (Or.inl rfl) (by simpa [brLe] using h) x hx hi hs
  | mapping o k v =>
    have hi : inst D x (origin (.mapping o k v)) = true := by
      simp only [DHint.Sem] at ha
      rw [dsat_mapping] at hs
      simp only [Bool.and_eq_true] at hs
      simpa [origin, inst_plain D ha.2.2.1] using hs.1.1.1
    exact brBase_sound D hD le hle _ bj ha hb (Or.inl rfl) (by simpa [brLe] using h) x hx hi hs
  | tupleVar h' =>
    have hi : inst D x (origin (.tupleVar h')) = true := by
      rw [dsat_tupleVar, Bool.and_eq_true] at hs
      simpa [origin, inst_plain D hD.nt_tuple] using hs.1
    exact brBase_sound D hD le hle _ bj ha hb (Or.inl rfl) (by simpa [brLe] using h) x hx hi hs
  | literal ms =>
    cases bj with
    | literal ms' =>
      simp only [brLe, Except.ok.injEq] at h
      exact litSubset_sound D h x hs
    | _ =>
      simp only [brLe] at h
      exact brBase_sound D hD le hle _ _ ha hb (Or.inr rfl) h x hx (by simp [origin, inst, hD.nt_obj, hD.obj_top]) hs
  | annotated h' md =>
    simp only [DHint.Sem] at ha
    rw [dsat_annotated] at hs
    cases bj with
    | annotated hb' md' =>
      simp only [DHint.Sem] at hb
      simp only [brLe, guardE] at h
      rw [dsat_annotated]
      have : le h' hb' = .ok true := by
        cases hl : le h' hb' with
        | error e => rw [hl] at h; cases h
        | ok b => cases b with
          | true => rfl
          | false => rw [hl] at h; cases h
      exact hle h' hb' ha hb this x hx hs
    | _ =>
      simp only [brLe] at h
      exact hle h' _ ha hb h x hx hs
  | tupleFixed as =>
    simp only [DHint.Sem] at ha
    rw [dsat_tupleFixed, Bool.and_eq_true] at hs
    simp only [brLe] at h
    split at h
    · rename_i hig
      simp only [Except.ok.injEq] at h
      exact head_sound D hD bj hb hig x hx (inst_mono D hD (by simpa [inst_plain D hD.nt_tuple] using hs.1) h)
    · cases bj with
      | tupleVar hb' =>
        simp only [DHint.Sem] at hb
        simp only [allE_true] at h
        rw [dsat_tupleVar, Bool.and_eq_true]
        refine ⟨hs.1, satZip_all D as x.items (Obj.wf_items hx) ?_ hs.2⟩
        intro a haa y hy
        exact hle a hb' (semAll_mem D ha a haa) hb (h a haa) y hy
      | tupleFixed bs =>
        simp only [DHint.Sem] at hb
        simp only at h
        split at h
        · cases h
        rename_i hlen
        have hlen : as.length = bs.length := by simpa using hlen
        rw [zipAllE_true hlen] at h
        rw [dsat_tupleFixed, Bool.and_eq_true]
        refine ⟨hs.1, satZip_zip D as bs x.items hlen (Obj.wf_items hx) ?_ hs.2⟩
        intro p hp y hy
        exact hle p.1 p.2 (semAll_mem D ha _ (List.of_mem_zip hp).1) (semAll_mem D hb _ (List.of_mem_zip hp).2) (h p hp) y hy
      | _ => simp at h

theorem baseSub_sound (hD : D.Wf) (le eq : DHint → DHint → R) (hle : SoundRel D le) (a b : DHint)
    (ha : a.Sem D) (hb : b.Sem D) (h : baseSub D le eq a b = .ok true) (x : Obj) (hx : x.wf D.W = true)
    (hs : dsat D a x = true) : dsat D b x = true := by
  obtain ⟨bj, hm, hf⟩ := anyE_true h
  have hbj := sem_branch D hb hm
  have hna : bj.isAny = false := by cases bj <;> simp_all [isAny, DHint.Sem]
  simp only [hna, Bool.false_eq_true, ↓reduceIte] at hf
  exact dsat_of_branch D hm (brLe_sound D hD le eq hle a bj ha hbj hf x hx hs)

theorem subBody_sound (hD : D.Wf) (le eq : DHint → DHint → R) (hle : SoundRel D le) :
    SoundRel D (subBody D le eq) := by
  intro a b ha hb h x hx hs
  cases a with
  | union as =>
    simp only [subBody, allE_true] at h
    rw [dsat_union, satAny_toHints] at hs
    obtain ⟨ai, hm, hsi⟩ := hs
    simp only [DHint.Sem] at ha
    have hai := semAll_mem D ha.2 ai hm
    have := h ai hm
    split at this
    · obtain ⟨bj, hmb, hf⟩ := anyE_true this
      exact dsat_of_branch D hmb (hle ai bj hai (sem_branch D hb hmb) hf x hx hsi)
    · exact hle ai b hai hb this x hx hsi
  | typevar as =>
    simp only [subBody, allE_true] at h
    rw [dsat_typevar, satAny_toHints] at hs
    obtain ⟨ai, hm, hsi⟩ := hs
    simp only [DHint.Sem] at ha
    have hai := semAll_mem D ha.2 ai hm
    have := h ai hm
    split at this
    · obtain ⟨bj, hmb, hf⟩ := anyE_true this
      exact dsat_of_branch D hmb (hle ai bj hai (sem_branch D hb hmb) hf x hx hsi)
    · exact hle ai b hai hb this x hx hsi
  | literal ms =>
    cases b with
    | literal ms' =>
      simp only [subBody, Except.ok.injEq] at h
      exact litSubset_sound D h x hs
    | _ =>
      simp only [subBody, orE_true] at h
      rcases h with h | ⟨_, h⟩
      · rw [allE_true] at h
        have hs' := hs
        rw [dsat_literal] at hs'
        simp only [List.any_eq_true, Bool.and_eq_true, beq_iff_eq] at hs'
        obtain ⟨m, hm, h1, _⟩ := hs'
        refine hle (.cls m.1) _ (by simp [DHint.Sem]) hb (h m hm) x hx ?_
        rw [dsat_cls, inst, h1]
        cases hp : D.ntParent m.1 with
        | none => simp [hD.sub_refl]
        | some p => simp [hD.nt_sub m.1 p hp, hD.sub_refl]
      · exact baseSub_sound D hD le eq hle _ _ ha hb h x hx hs
  | any => simp [DHint.Sem] at ha
  | cls c => exact baseSub_sound D hD le eq hle _ _ ha hb (by simpa [subBody] using h) x hx hs
  | annotated _ _ => exact baseSub_sound D hD le eq hle _ _ ha hb (by simpa [subBody] using h) x hx hs
  | tupleFixed _ => exact baseSub_sound D hD le eq hle _ _ ha hb (by simpa [subBody] using h) x hx hs
  | tupleVar _ => exact baseSub_sound D hD le eq hle _ _ ha hb (by simpa [subBody] using h) x hx hs
  | cont _ _ _ => exact baseSub_sound D hD le eq hle _ _ ha hb (by simpa [subBody] using h) x hx hs
  | mapping _ _ _ => exact baseSub_sound D hD le eq hle _ _ ha hb (by simpa [subBody] using h) x hx hs
  | callable _ _ _ _ => simp [DHint.Sem] at ha

theorem leF_sound (hD : D.Wf) : ∀ n, SoundRel D (leF D n)
  | 0 => by intro a b _ _ h; simp [leF] at h
  | n + 1 => by
    intro a b ha hb h x hx hs
    have hna : a.isAny = false := by cases a <;> simp_all [isAny, DHint.Sem]
    have hnb : b.isAny = false := by cases b <;> simp_all [isAny, DHint.Sem]
    simp only [leF, hna, hnb, Bool.or_self, Bool.false_eq_true, ↓reduceIte] at h
    exact subBody_sound D hD _ _ (leF_sound hD n) a b ha hb h x hx hs

/-! ### reflexivity of one level -/

/-- neither `is_subhint(a, a)` nor `TypeHint(a) == TypeHint(a)` answers `False` -/
def ReflRel (le eq : DHint → DHint → R) : Prop := (∀ a, le a a ≠ .ok false) ∧ (∀ a, eq a a ≠ .ok false)

theorem zipAllE_self {f : DHint → DHint → R} : ∀ (l : List DHint), (∀ a ∈ l, f a a ≠ .ok false) → zipAllE f l l ≠ .ok false
  | [], _ => by simp [zipAllE]
  | a :: l, h => by
    intro hz
    simp only [zipAllE, andE_false] at hz
    rcases hz with hz | ⟨_, hz⟩
    · exact h a (by simp) hz
    · exact zipAllE_self l (fun b hb => h b (by simp [hb])) hz

theorem zipAnyE_self {f : DHint → DHint → R} : ∀ (l : List DHint), (∀ a ∈ l, f a a ≠ .ok true) → zipAnyE f l l ≠ .ok true
  | [], _ => by simp [zipAnyE]
  | a :: l, h => by
    intro hz
    simp only [zipAnyE, orE_true] at hz
    rcases hz with hz | ⟨_, hz⟩
    · exact h a (by simp) hz
    · exact zipAnyE_self l (fun b hb => h b (by simp [hb])) hz

theorem gt_self {le eq : DHint → DHint → R} (h : ∀ a, eq a a ≠ .ok false) (p : DHint) : gt le eq p p ≠ .ok true := by
  intro hg
  simp only [gt, andE_true] at hg
  have := h p
  cases he : eq p p with
  | error e => rw [he] at hg; simp [notE] at hg
  | ok b => cases b with
    | false => exact this he
    | true => rw [he] at hg; simp [notE] at hg

theorem litSubset_self (ms : List (Nat × Atom)) : litSubset ms ms = true := by
  simp only [litSubset, List.all_eq_true, litIn, List.any_eq_true, Bool.and_eq_true, beq_iff_eq]
  intro m hm
  exact ⟨m, hm, rfl, rfl⟩

theorem brBase_self (hD : D.Wf) {le : DHint → DHint → R} (hle : ∀ a, le a a ≠ .ok false) (a : DHint)
    (hk : instOf a a = true) : brBase D le a a ≠ .ok false := by
  unfold brBase
  simp only [hD.sub_refl, Bool.not_true, Bool.false_eq_true, ↓reduceIte, hk, bne_self_eq_false]
  split
  · simp
  · exact zipAllE_self _ (fun b _ => hle b)

theorem brLe_self (hD : D.Wf) {le eq : DHint → DHint → R} (h : ReflRel le eq) (a : DHint) (hu : a.isUnionLike = false)
    (hn : a.isAny = false) : brLe D le eq a a ≠ .ok false := by
  cases a with
  | any => simp [isAny] at hn
  | union _ => simp [isUnionLike] at hu
  | typevar _ => simp [isUnionLike] at hu
  | cls c => simp [brLe, argsIgn, origin, hD.sub_refl]
  | cont k o h' => simpa [brLe] using brBase_self D hD h.1 _ rfl
  | mapping o k v => simpa [brLe] using brBase_self D hD h.1 _ rfl
  | tupleVar h' => simpa [brLe] using brBase_self D hD h.1 _ rfl
  | literal ms => simp [brLe, litSubset_self]
  | tupleFixed as =>
    simp only [brLe, argsIgn, Bool.false_eq_true, ↓reduceIte, bne_self_eq_false]
    exact zipAllE_self _ (fun b _ => h.1 b)
  | annotated h' md =>
    simp only [brLe, guardE]
    have := h.1 h'
    cases hl : le h' h' with
    | error e => simp
    | ok b => cases b with
      | false => exact absurd hl this
      | true => simp
  | callable o ell ps r =>
    simp only [brLe]
    split
    · simp [origin, hD.sub_refl]
    · simp only [brCallable]
      have hr : (if (!ign D r) = true then (if ign D r = true then (Except.ok false : R) else le r r) else Except.ok true) ≠ .ok false := by
        cases hi : ign D r with
        | true => simp
        | false => simpa using h.1 r
      cases ell with
      | true => simpa using hr
      | false =>
        simp only [Bool.false_eq_true, ↓reduceIte, bne_self_eq_false]
        have hz := zipAnyE_self (f := gt le eq) (children (.callable o false ps r)).dropLast (fun p _ => gt_self h.2 p)
        cases hzz : zipAnyE (gt le eq) (children (.callable o false ps r)).dropLast (children (.callable o false ps r)).dropLast with
        | error e => simp
        | ok b => cases b with
          | true => exact absurd hzz hz
          | false => simpa using hr

theorem subBody_self (hD : D.Wf) {le eq : DHint → DHint → R} (h : ReflRel le eq) (a : DHint) (hn : a.isAny = false) :
    subBody D le eq a a ≠ .ok false := by
  have base : a.isUnionLike = false → baseSub D le eq a a ≠ .ok false := by
    intro hu
    have hb : branches a = [a] := by cases a <;> simp_all [branches, isUnionLike]
    simp only [baseSub, hb, anyE_single, hn, Bool.false_eq_true, ↓reduceIte]
    exact brLe_self D hD h a hu hn
  cases a with
  | union as =>
    intro hf
    simp only [subBody, isUnionLike, ↓reduceIte, branches] at hf
    obtain ⟨ai, hm, hfi⟩ := allE_false hf
    exact h.1 ai (anyE_false.mp hfi ai hm)
  | typevar as =>
    intro hf
    simp only [subBody, isUnionLike, ↓reduceIte, branches] at hf
    obtain ⟨ai, hm, hfi⟩ := allE_false hf
    exact h.1 ai (anyE_false.mp hfi ai hm)
  | literal ms => simp [subBody, litSubset_self]
  | any => simp [isAny] at hn
  | cls c => simpa [subBody] using base rfl
  | annotated _ _ => simpa [subBody] using base rfl
  | tupleFixed _ => simpa [subBody] using base rfl
  | tupleVar _ => simpa [subBody] using base rfl
  | cont _ _ _ => simpa [subBody] using base rfl
  | mapping _ _ _ => simpa [subBody] using base rfl
  | callable _ _ _ _ => simpa [subBody] using base rfl

theorem eqBody_self {le eq : DHint → DHint → R} (h : ReflRel le eq) (x : DHint) : eqBody D le eq x x ≠ .ok false := by
  have base : andE (le x x) (le x x) ≠ .ok false := by
    intro hf
    rcases andE_false.mp hf with hf | ⟨_, hf⟩ <;> exact h.1 x hf
  have sub : sameSign x x = true → (if (argsIgn D x && argsIgn D x) = true then (Except.ok (origin x == origin x) : R)
      else if (!sameSign x x || (children x).length != (children x).length) = true then .ok false
      else zipAllE eq (children x) (children x)) ≠ .ok false := by
    intro hs
    split
    · simp
    · simp only [hs, Bool.not_true, bne_self_eq_false, Bool.or_self, Bool.false_eq_true, ↓reduceIte]
      exact zipAllE_self _ (fun b _ => h.2 b)
  cases x with
  | cont k o h' => simpa [eqBody] using sub (by simp [sameSign])
  | mapping o k v => simpa [eqBody] using sub (by simp [sameSign])
  | tupleVar h' => simpa [eqBody] using sub (by simp [sameSign])
  | annotated h' md =>
    intro hf
    simp only [eqBody, andE_false] at hf
    rcases hf with hf | ⟨_, hf⟩
    · exact h.2 h' hf
    · simp at hf
  | any => simpa [eqBody] using base
  | cls _ => simpa [eqBody] using base
  | union _ => simpa [eqBody] using base
  | typevar _ => simpa [eqBody] using base
  | literal _ => simpa [eqBody] using base
  | tupleFixed _ => simpa [eqBody] using base
  | callable _ _ _ _ => simpa [eqBody] using base

theorem leF_refl (hD : D.Wf) : ∀ n, ReflRel (leF D n) (eqF D n)
  | 0 => by constructor <;> intro a <;> simp [leF, eqF]
  | n + 1 => by
    have ih := leF_refl hD n
    constructor
    · intro a
      simp only [leF]
      cases ha : a.isAny with
      | true => simp
      | false => simpa using subBody_self D hD ih a ha
    · intro a
      simp only [eqF]
      exact eqBody_self D ih a

end BearVerif.Door
