import BearVerif.Core.Door
/-!
  Helper lemmas for C19 (`Props/C19.lean`): the sequential combinators, the meaning of
  ignorable hints, soundness / reflexivity / transitivity of one level of `subBody`
  given the same law one fuel level below.
-/
namespace BearVerif.Door
open BearVerif.Bear DHint

/-! ### sequential combinators -/

theorem andE_true {x y : R} : andE x y = .ok true ↔ x = .ok true ∧ y = .ok true := by
  cases x with
  | error e => simp [andE]
  | ok b => cases b <;> simp [andE]

theorem andE_false {x y : R} : andE x y = .ok false ↔ x = .ok false ∨ (x = .ok true ∧ y = .ok false) := by
  cases x with
  | error e => simp [andE]
  | ok b => cases b <;> simp [andE]

theorem orE_true {x y : R} : orE x y = .ok true ↔ x = .ok true ∨ (x = .ok false ∧ y = .ok true) := by
  cases x with
  | error e => simp [orE]
  | ok b => cases b <;> simp [orE]

theorem orE_false {x y : R} : orE x y = .ok false ↔ x = .ok false ∧ y = .ok false := by
  cases x with
  | error e => simp [orE]
  | ok b => cases b <;> simp [orE]

theorem allE_true {α : Type} {l : List α} {f : α → R} : allE l f = .ok true ↔ ∀ x ∈ l, f x = .ok true := by
  induction l with
  | nil => simp [allE]
  | cons a l ih => simp [allE, andE_true, ih]

theorem allE_false {α : Type} {l : List α} {f : α → R} (h : allE l f = .ok false) : ∃ x ∈ l, f x = .ok false := by
  induction l with
  | nil => simp [allE] at h
  | cons a l ih =>
    simp only [allE, andE_false] at h
    rcases h with h | ⟨_, h⟩
    · exact ⟨a, by simp, h⟩
    · obtain ⟨x, hx, hf⟩ := ih h
      exact ⟨x, by simp [hx], hf⟩

theorem anyE_false {α : Type} {l : List α} {f : α → R} : anyE l f = .ok false ↔ ∀ x ∈ l, f x = .ok false := by
  induction l with
  | nil => simp [anyE]
  | cons a l ih => simp [anyE, orE_false, ih]

theorem anyE_true {α : Type} {l : List α} {f : α → R} (h : anyE l f = .ok true) : ∃ x ∈ l, f x = .ok true := by
  induction l with
  | nil => simp [anyE] at h
  | cons a l ih =>
    simp only [anyE, orE_true] at h
    rcases h with h | ⟨_, h⟩
    · exact ⟨a, by simp, h⟩
    · obtain ⟨x, hx, hf⟩ := ih h
      exact ⟨x, by simp [hx], hf⟩

theorem anyE_single {α : Type} (a : α) (f : α → R) : anyE [a] f = f a := by
  simp only [anyE, orE]
  cases f a with
  | error e => rfl
  | ok b => cases b <;> rfl

theorem allE_single {α : Type} (a : α) (f : α → R) : allE [a] f = f a := by
  simp only [allE, andE]
  cases f a with
  | error e => rfl
  | ok b => cases b <;> rfl

/-- `zip` over lists of equal length: all pairs -/
theorem zipAllE_true {f : DHint → DHint → R} : ∀ {as bs : List DHint}, as.length = bs.length →
    (zipAllE f as bs = .ok true ↔ ∀ p ∈ as.zip bs, f p.1 p.2 = .ok true)
  | [], [], _ => by simp [zipAllE]
  | a :: as, b :: bs, h => by
    have h' : as.length = bs.length := by simpa using h
    simp [zipAllE, andE_true, zipAllE_true h']
  | [], _ :: _, h => by simp at h
  | _ :: _, [], h => by simp at h

theorem zipAllE_false {f : DHint → DHint → R} : ∀ {as bs : List DHint}, zipAllE f as bs = .ok false →
    ∃ p ∈ as.zip bs, f p.1 p.2 = .ok false
  | [], _, h => by simp [zipAllE] at h
  | _ :: _, [], h => by simp [zipAllE] at h
  | a :: as, b :: bs, h => by
    simp only [zipAllE, andE_false] at h
    rcases h with h | ⟨_, h⟩
    · exact ⟨(a, b), by simp, h⟩
    · obtain ⟨p, hp, hf⟩ := zipAllE_false h
      exact ⟨p, by simp [hp], hf⟩

theorem zipAnyE_true {f : DHint → DHint → R} : ∀ {as bs : List DHint}, zipAnyE f as bs = .ok true →
    ∃ p ∈ as.zip bs, f p.1 p.2 = .ok true
  | [], _, h => by simp [zipAnyE] at h
  | _ :: _, [], h => by simp [zipAnyE] at h
  | a :: as, b :: bs, h => by
    simp only [zipAnyE, orE_true] at h
    rcases h with h | ⟨_, h⟩
    · exact ⟨(a, b), by simp, h⟩
    · obtain ⟨p, hp, hf⟩ := zipAnyE_true h
      exact ⟨p, by simp [hp], hf⟩

end BearVerif.Door
