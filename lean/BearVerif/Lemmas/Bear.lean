import BearVerif.Core.Bear
/-! Helper lemmas for the Bear core (L0 → L1). Core Lean only. -/
namespace BearVerif.Bear

variable (W : World) (conf : Conf) (r : Nat)

theorem Atom.pyEq_refl (a : Atom) : a.pyEq a = true := by
  cases a <;> simp [Atom.pyEq, Atom.toInt?]

theorem satAll_mem {h : Hint} {ys : List Obj} (hs : ys.all (fun y => sat W h y) = true) : ∀ y ∈ ys, sat W h y = true := by
  intro y hy
  exact List.all_eq_true.mp hs y hy

theorem satAll_getElem? {h : Hint} {ys : List Obj} (hs : ys.all (fun y => sat W h y) = true) (i : Nat) (y : Obj)
    (hy : ys[i]? = some y) : sat W h y = true :=
  satAll_mem W hs y (List.mem_of_getElem? hy)

theorem satAll_head? {h : Hint} {ys : List Obj} (hs : ys.all (fun y => sat W h y) = true) (y : Obj)
    (hy : ys.head? = some y) : sat W h y = true := by
  cases ys with
  | nil => simp at hy
  | cons a ys => simp at hy; subst hy; exact satAll_mem W hs _ List.mem_cons_self

mutual
/-- L0 → L1: whatever is in the published meaning passes the sampled check, for
    every draw and both sampling modes. -/
theorem sat_imp_chk (hW : W.Wf) : ∀ (h : Hint) (x : Obj), sat W h x = true → chk W conf r h x = true
  | .any, _, _ => by simp [chk]
  | .cls c, x, hs => by simpa [sat, chk] using hs
  | .shallow c, x, hs => by simpa [sat, chk] using hs
  | .union hs, x, h => by
    simp only [sat] at h; simp only [chk]; exact satAny_imp_chkAny hW hs x h
  | .literal ls, x, h => by
    simp only [sat, List.any_eq_true, Bool.and_eq_true, beq_iff_eq] at h
    obtain ⟨l, hl, hc, ha⟩ := h
    simp only [chk, Bool.and_eq_true, List.any_eq_true]
    exact ⟨⟨l, hl, by rw [hc]; exact hW.sub_refl _⟩, ⟨l, hl, by rw [ha]; exact Atom.pyEq_refl _⟩⟩
  | .tupleFixed hs, x, h => by
    simp only [sat, Bool.and_eq_true] at h
    simp only [chk, Bool.and_eq_true]
    exact ⟨h.1, by simpa using satZip_imp_chkZip hW hs x.items h.2⟩
  | .seq o h, x, hs => by
    simp only [sat, Bool.and_eq_true] at hs
    simp only [chk, Bool.and_eq_true]
    refine ⟨hs.1, ?_⟩
    split
    · rfl
    · rename_i y hy; exact sat_imp_chk hW h y (satAll_getElem? W hs.2 _ y hy)
  | .reit o h, x, hs => by
    simp only [sat, Bool.and_eq_true] at hs
    simp only [chk, Bool.and_eq_true]
    refine ⟨hs.1, ?_⟩
    split
    · rfl
    · rename_i y hy; exact sat_imp_chk hW h y (satAll_head? W hs.2 y hy)
  | .quasi o h, x, hs => by
    simp only [sat, Bool.and_eq_true, Bool.or_eq_true, Bool.not_eq_true'] at hs
    simp only [chk, Bool.and_eq_true, Bool.or_eq_true, Bool.not_eq_true']
    refine ⟨hs.1, ?_⟩
    rcases hs.2 with hnc | hall
    · exact Or.inl hnc
    · right
      split
      · rfl
      · rename_i y hy
        refine sat_imp_chk hW h y ?_
        split at hy
        · exact satAll_getElem? W hall _ y hy
        · exact satAll_head? W hall y hy
  | .mapping o k v, x, hs => by
    simp only [sat, Bool.and_eq_true, beq_iff_eq] at hs
    obtain ⟨⟨⟨hsub, hlen⟩, hk⟩, hv⟩ := hs
    simp only [chk, Bool.and_eq_true]
    refine ⟨hsub, ?_⟩
    cases hi : x.items with
    | nil => simp
    | cons k0 ks =>
      cases hvl : x.vals with
      | nil => rw [hi, hvl] at hlen; simp at hlen
      | cons v0 vs =>
        simp only [List.head?_cons, Bool.and_eq_true]
        exact ⟨sat_imp_chk hW k k0 (satAll_mem W hk k0 (by rw [hi]; exact List.mem_cons_self)),
               sat_imp_chk hW v v0 (satAll_mem W hv v0 (by rw [hvl]; exact List.mem_cons_self))⟩
  | .typeOf cs, x, hs => by simpa [sat, chk] using hs
  | .annotated h vs, x, hs => by
    simp only [sat, Bool.and_eq_true] at hs
    simp only [chk, Bool.and_eq_true]
    exact ⟨sat_imp_chk hW h x hs.1, hs.2⟩
  | .generic c bs, x, hs => by
    simp only [sat, Bool.and_eq_true] at hs
    simp only [chk, Bool.and_eq_true]
    exact ⟨hs.1, satEvery_imp_chkEvery hW bs x hs.2⟩
theorem satEvery_imp_chkEvery (hW : W.Wf) : ∀ (hs : List Hint) (x : Obj), satEvery W hs x = true → chkEvery W conf r hs x = true
  | [], _, _ => by simp [chkEvery]
  | h :: hs, x, hh => by
    simp only [satEvery, Bool.and_eq_true] at hh
    simp only [chkEvery, Bool.and_eq_true]
    exact ⟨sat_imp_chk hW h x hh.1, satEvery_imp_chkEvery hW hs x hh.2⟩
theorem satAny_imp_chkAny (hW : W.Wf) : ∀ (hs : List Hint) (x : Obj), satAny W hs x = true → chkAny W conf r hs x = true
  | [], _, h => by simp [satAny] at h
  | h :: hs, x, hh => by
    simp only [satAny, Bool.or_eq_true] at hh
    simp only [chkAny, Bool.or_eq_true]
    rcases hh with h1 | h2
    · exact Or.inl (sat_imp_chk hW h x h1)
    · exact Or.inr (satAny_imp_chkAny hW hs x h2)
theorem satZip_imp_chkZip (hW : W.Wf) : ∀ (hs : List Hint) (ys : List Obj), satZip W hs ys = true →
    (ys.length == hs.length && chkZip W conf r hs ys) = true
  | [], [], _ => by simp [chkZip]
  | [], _ :: _, h => by simp [satZip] at h
  | _ :: _, [], h => by simp [satZip] at h
  | h :: hs, y :: ys, hh => by
    simp only [satZip, Bool.and_eq_true] at hh
    have ih := satZip_imp_chkZip hW hs ys hh.2
    simp only [Bool.and_eq_true, beq_iff_eq] at ih
    simp only [List.length_cons, chkZip, Bool.and_eq_true, beq_iff_eq]
    exact ⟨by omega, sat_imp_chk hW h y hh.1, ih.2⟩
end

end BearVerif.Bear
